//go:build verif && race
// +build verif,race

package netpoll

func vcNoNodes(b *LinkBuffer) bool {
	b.Lock()
	defer b.Unlock()
	return b.head == nil
}
