//go:build verif
// +build verif

package netpoll

// Descriptor audit harness for property C15 (every descriptor netpoll owns is closed exactly once, and no other).
//
// `fdaudit run <scenario> <seed>` runs ONE lifecycle scenario in this process.  It is meant to be run under
//   strace -f -e trace=close,dup,...,write
// and makes no observation of its own about netpoll's closes: netpoll's opens and closes are read off the
// strace log by checks/c15.py.  What the harness contributes is attribution: every descriptor the HARNESS
// opens or closes (peers, the listener it hands to ConvertListener, the churning goroutine, census reads) is
// announced by a one-line write to the marker descriptor 999, so that everything unannounced is netpoll's:
//
//   "V S <name>"      scenario body starts        "V E"      everything is closed again
//   "V B n n n ..."   descriptors open at start   "V F n .." descriptors open at the end (census of /proc/self/fd)
//   "V K <kind> ..."  a lifecycle instance of the Lean model this scenario runs (Netpoll.Fd.Kind)
//   "V A <choice> +|-" an outcome the harness knows (e.g. it never calls Detach)
//   "V O n"           the harness has just opened n        "V C n"  the harness is about to close n
//   "V G n"           the harness hands n to netpoll       "V T n"  the harness takes n back (after Detach)
//   "V a <choice> +|-" an outcome the harness expects but cannot force; "V I <k> <site>" instance k never passes <site>
//   "V X <text>"      the scenario could not do what it is meant to do (reported as a harness problem)
//
// A churning goroutine opens and closes descriptors all the time so that a number netpoll frees is quickly
// given to somebody else: a second close by netpoll then hits a foreign descriptor instead of EBADF.

import (
	"context"
	"fmt"
	"io"
	"math/rand"
	"net"
	"os"
	"runtime/debug"
	"sort"
	"strconv"
	"strings"
	"sync"
	"sync/atomic"
	"syscall"
	"time"
)

const fdaMarkFd = 999

var fdaMarkMu sync.Mutex

func fdaMark(format string, a ...interface{}) {
	s := "V " + fmt.Sprintf(format, a...) + "\n"
	fdaMarkMu.Lock()
	syscall.Write(fdaMarkFd, []byte(s))
	fdaMarkMu.Unlock()
}

// fdaCensus lists /proc/self/fd with raw system calls, announcing its own descriptor.
func fdaCensus() []int {
	fd, err := syscall.Open("/proc/self/fd", syscall.O_RDONLY|syscall.O_DIRECTORY, 0)
	if err != nil {
		return nil
	}
	fdaMark("O %d", fd)
	var out []int
	buf := make([]byte, 8192)
	for {
		n, err := syscall.ReadDirent(fd, buf)
		if err != nil || n <= 0 {
			break
		}
		var names []string
		_, _, names = syscall.ParseDirent(buf[:n], -1, names)
		for _, nm := range names {
			if v, err := strconv.Atoi(nm); err == nil && v != fd {
				out = append(out, v)
			}
		}
	}
	fdaMark("C %d", fd)
	syscall.Close(fd)
	sort.Ints(out)
	return out
}

func fdaInts(a []int) string {
	s := make([]string, len(a))
	for i, v := range a {
		s[i] = strconv.Itoa(v)
	}
	return strings.Join(s, " ")
}

// ---- harness-owned descriptors ----

func fdaOwn(fd int) int { fdaMark("O %d", fd); return fd }

func fdaClose(fd int) {
	fdaMark("C %d", fd)
	syscall.Close(fd)
}

// churn: opens and closes descriptors until stopped.
type fdaChurn struct {
	stop chan struct{}
	done chan struct{}
	ops  int64
}

func fdaStartChurn(seed int64) *fdaChurn {
	c := &fdaChurn{stop: make(chan struct{}), done: make(chan struct{})}
	var wg sync.WaitGroup
	for w := 0; w < 2; w++ {
		wg.Add(1)
		r := rand.New(rand.NewSource(seed + int64(w)))
		go func() {
			defer wg.Done()
			var held []int
			for {
				select {
				case <-c.stop:
					for _, fd := range held {
						fdaClose(fd)
					}
					return
				default:
				}
				n := atomic.AddInt64(&c.ops, 1)
				if len(held) > 0 && (len(held) >= 2 || r.Intn(2) == 0) {
					i := r.Intn(len(held))
					fdaClose(held[i])
					held = append(held[:i], held[i+1:]...)
				} else {
					var fd int
					var err error
					if r.Intn(2) == 0 {
						fd, err = syscall.Socket(syscall.AF_UNIX, syscall.SOCK_STREAM, 0)
					} else {
						fd, err = syscall.Open("/dev/null", syscall.O_RDONLY, 0)
					}
					if err == nil {
						fdaOwn(fd)
						held = append(held, fd)
					}
				}
				// full speed for the first operations (short scenarios), then slower so that long scenarios
				// (timeouts) do not produce huge logs
				switch {
				case n < 600:
					if r.Intn(4) == 0 {
						time.Sleep(time.Duration(r.Intn(60)) * time.Microsecond)
					}
				case n < 3000:
					time.Sleep(time.Duration(50+r.Intn(300)) * time.Microsecond)
				default:
					time.Sleep(2 * time.Millisecond)
				}
			}
		}()
	}
	go func() { wg.Wait(); close(c.done) }()
	return c
}

func (c *fdaChurn) Stop() { close(c.stop); <-c.done }

// ---- scenario plumbing ----

type fdaCtx struct {
	seed   int64
	rnd    *rand.Rand
	mu     sync.Mutex
	fails  []string
	nkinds int
}

func (x *fdaCtx) failf(format string, a ...interface{}) {
	s := fmt.Sprintf(format, a...)
	x.mu.Lock()
	x.fails = append(x.fails, s)
	x.mu.Unlock()
	fdaMark("X %s", strings.ReplaceAll(s, "\n", " "))
}

// kind declares a lifecycle instance of the Lean model; the result is its index
func (x *fdaCtx) kind(format string, a ...interface{}) int {
	x.mu.Lock()
	k := x.nkinds
	x.nkinds++
	fdaMark("K "+format, a...)
	x.mu.Unlock()
	return k
}

// dialFailed: the Dial of instance k returned an error, so there is no connection whose close callbacks could run
func (x *fdaCtx) dialFailed(k int) { fdaMark("I %d finalizer_netfdClose", k) }

// outcomes the harness cannot force and that do not normally happen (only a preference for the model run)
func (x *fdaCtx) expect(choice string, v bool) {
	if v {
		fdaMark("a %s +", choice)
	} else {
		fdaMark("a %s -", choice)
	}
}

func (x *fdaCtx) know(choice string, v bool) {
	if v {
		fdaMark("A %s +", choice)
	} else {
		fdaMark("A %s -", choice)
	}
}

func fdaWait(cond func() bool, d time.Duration) bool {
	end := time.Now().Add(d)
	for time.Now().Before(end) {
		if cond() {
			return true
		}
		time.Sleep(200 * time.Microsecond)
	}
	return cond()
}

// the loops of the global poll manager are lifecycles of the scenario too: opened at the first Pick, closed at the end
func (x *fdaCtx) usePollManager() {
	n := int(atomic.LoadInt32(&pollmanager.numLoops))
	for i := 0; i < n; i++ {
		x.kind("poller 2")
	}
	Initialize()
}

type fdaServer struct {
	ln       Listener
	evl      EventLoop
	accepted int32
	closed   int32
	served   chan error
}

// echo server on a listener made by CreateListener
func (x *fdaCtx) startServer(network, addr string, closeAfterEcho bool, prepare func(Connection)) *fdaServer {
	s := &fdaServer{served: make(chan error, 1)}
	var opts []Option
	// every accepted descriptor becomes a connection in onAccept → init → OnPrepare: that is one more lifecycle
	opts = append(opts, WithOnPrepare(func(c Connection) context.Context {
		x.kind("accepted 3")
		if prepare != nil {
			prepare(c)
		}
		return context.Background()
	}))
	ln, err := CreateListener(network, addr)
	if err != nil {
		x.failf("CreateListener: %v", err)
		return nil
	}
	s.ln = ln
	opts = append(opts, WithOnConnect(func(ctx context.Context, c Connection) context.Context {
		atomic.AddInt32(&s.accepted, 1)
		c.AddCloseCallback(func(Connection) error { atomic.AddInt32(&s.closed, 1); return nil })
		return ctx
	}))
	evl, _ := NewEventLoop(func(ctx context.Context, c Connection) error {
		r := c.Reader()
		n := r.Len()
		if n == 0 {
			return nil
		}
		b, err := r.Next(n)
		if err != nil {
			return err
		}
		cp := append([]byte(nil), b...)
		r.Release()
		c.Writer().WriteBinary(cp)
		c.Writer().Flush()
		if closeAfterEcho {
			c.Close()
		}
		return nil
	}, opts...)
	s.evl = evl
	go func() { s.served <- evl.Serve(ln) }()
	return s
}

func (x *fdaCtx) shutdown(s *fdaServer) {
	ctx, cancel := context.WithTimeout(context.Background(), 10*time.Second)
	defer cancel()
	if err := s.evl.Shutdown(ctx); err != nil {
		x.failf("Shutdown: %v", err)
	}
	select {
	case <-s.served:
	case <-time.After(8 * time.Second):
		x.failf("Serve did not return")
	}
}

func (x *fdaCtx) echo(c Connection, n int) bool {
	msg := make([]byte, n)
	for i := range msg {
		msg[i] = byte(x.rnd.Intn(256))
	}
	if _, err := c.Write(msg); err != nil {
		x.failf("client write: %v", err)
		return false
	}
	c.SetReadTimeout(8 * time.Second)
	got, err := c.Reader().Next(n)
	if err != nil {
		x.failf("client read: %v", err)
		return false
	}
	ok := string(got) == string(msg)
	c.Reader().Release()
	if !ok {
		x.failf("echo mismatch")
	}
	return ok
}

func (x *fdaCtx) tmpSock() string {
	return fmt.Sprintf("/tmp/fdaudit-%d-%d.sock", os.Getpid(), x.rnd.Intn(1<<30))
}

// ---- scenarios ----

type fdaScenario struct {
	name    string
	run     func(x *fdaCtx)
	noChurn bool // scenarios that count free descriptor numbers exactly
	// the garbage collector is switched off for the whole run: an object netpoll dropped without closing it (a
	// net.Listener, an os.File) must not be rescued by its finalizer before the final census
	noGC bool
	// the scenario is meant to run in a private network namespace (lib/fdrun.py wraps it in `unshare -n` and sets
	// VERIF_FDA_NETNS=1); without one it still runs, with less effect
	netns bool
	// the scenario depends on several threads really running at the same instant: the runner starts it before the
	// others, not next to fifteen more
	quiet bool
	// outcomes that this scenario provokes on purpose: no "does not normally happen" hint for the model run
	noExpect []string
}

func fdaEchoScenario(network string, serverCloses bool, nconn int) func(x *fdaCtx) {
	return func(x *fdaCtx) {
		addr := "127.0.0.1:0"
		if network == "unix" {
			addr = x.tmpSock()
			defer os.Remove(addr)
		}
		x.usePollManager()
		x.kind("createListener 2")
		x.know("ln_viaServer", true)
		x.know("conn_viaServer", false)
		x.know("conn_detach", false)
		x.know("prepare_closes", false)
		s := x.startServer(network, addr, serverCloses, nil)
		if s == nil {
			return
		}
		var wg sync.WaitGroup
		var dialed int32
		for i := 0; i < nconn; i++ {
			wg.Add(1)
			size := 1 + x.rnd.Intn(5000)
			var k int
			if network == "unix" {
				k = x.kind("dialUnix 3")
			} else {
				k = x.kind("dialTCP 3")
			}
			go func() {
				defer wg.Done()
				c, err := DialConnection(network, s.ln.Addr().String(), 5*time.Second)
				if err != nil {
					x.dialFailed(k)
					x.failf("dial: %v", err)
					return
				}
				atomic.AddInt32(&dialed, 1)
				x.echo(c, size)
				if serverCloses {
					// wait for the peer's close to arrive, then close our side
					fdaWait(func() bool { return !c.IsActive() }, 8*time.Second)
				}
				c.Close()
				c.Close() // a second Close must be harmless
			}()
		}
		wg.Wait()
		if !fdaWait(func() bool { return atomic.LoadInt32(&s.closed) >= atomic.LoadInt32(&dialed) }, 8*time.Second) {
			x.failf("server side connections closed: %d of %d", atomic.LoadInt32(&s.closed), dialed)
		}
		x.shutdown(s)
		s.ln.Close() // the user's own deferred Close after Shutdown: must be harmless
	}
}

// Shutdown while connections are idle: server.Close closes them (`value.(Connection).Close()`)
func fdaShutdownScenario(x *fdaCtx) {
	const nconn = 3
	x.usePollManager()
	x.kind("createListener 2")
	x.know("ln_viaServer", true)
	x.know("conn_detach", false)
	x.know("prepare_closes", false)
	s := x.startServer("tcp", "127.0.0.1:0", false, nil)
	if s == nil {
		return
	}
	var conns []Connection
	for i := 0; i < nconn; i++ {
		k := x.kind("dialTCP 3")
		c, err := DialConnection("tcp", s.ln.Addr().String(), 5*time.Second)
		if err != nil {
			x.dialFailed(k)
			x.failf("dial: %v", err)
			continue
		}
		x.echo(c, 100)
		conns = append(conns, c)
	}
	fdaWait(func() bool { return atomic.LoadInt32(&s.accepted) == int32(len(conns)) }, 8*time.Second)
	x.shutdown(s)
	if !fdaWait(func() bool { return atomic.LoadInt32(&s.closed) == int32(len(conns)) }, 8*time.Second) {
		x.failf("server side connections closed: %d of %d", atomic.LoadInt32(&s.closed), len(conns))
	}
	for _, c := range conns {
		fdaWait(func() bool { return !c.IsActive() }, 8*time.Second)
		c.Close()
	}
}

// OnPrepare closes every accepted connection
func fdaPrepareCloseScenario(x *fdaCtx) {
	x.usePollManager()
	x.kind("createListener 2")
	kd := x.kind("dialTCP 3")
	x.know("ln_viaServer", true)
	x.know("conn_viaServer", false)
	x.know("conn_detach", false)
	var prepared int32
	s := x.startServer("tcp", "127.0.0.1:0", false, func(c Connection) {
		atomic.AddInt32(&prepared, 1)
		c.Close()
	})
	if s == nil {
		return
	}
	c, err := DialConnection("tcp", s.ln.Addr().String(), 5*time.Second)
	if !fdaWait(func() bool { return atomic.LoadInt32(&prepared) == 1 }, 8*time.Second) {
		x.failf("OnPrepare did not run")
	}
	if err != nil {
		x.dialFailed(kd) // the server's close can arrive while the client still waits for the handshake
	} else {
		fdaWait(func() bool { return !c.IsActive() }, 8*time.Second)
		c.Close()
	}
	x.shutdown(s)
}

func fdaSocketpair(x *fdaCtx) (a, b int, ok bool) {
	fds, err := syscall.Socketpair(syscall.AF_UNIX, syscall.SOCK_STREAM, 0)
	if err != nil {
		x.failf("socketpair: %v", err)
		return 0, 0, false
	}
	fdaOwn(fds[0])
	fdaOwn(fds[1])
	return fds[0], fds[1], true
}

// NewFDConnection on a descriptor of the caller, then Close: netpoll closes the adopted descriptor
func fdaFDConnCloseScenario(x *fdaCtx) {
	a, b, ok := fdaSocketpair(x)
	if !ok {
		return
	}
	x.usePollManager()
	x.kind("fdConn %d 3", a)
	x.know("conn_detach", false)
	x.know("conn_viaServer", false)
	x.know("prepare_closes", false)
	fdaMark("G %d", a)
	c, err := NewFDConnection(a)
	if err != nil {
		x.failf("NewFDConnection: %v", err)
		return
	}
	syscall.Write(b, []byte("hello"))
	// (no read timeout here: a timed-out read on a connection without addresses panics, defect D8 of property C07)
	if !fdaWait(func() bool { return c.Reader().Len() >= 5 }, 8*time.Second) {
		x.failf("fdconn: data did not arrive")
	} else if p, err := c.Reader().Next(5); err != nil || string(p) != "hello" {
		x.failf("fdconn read: %v", err)
	}
	var wg sync.WaitGroup
	for i := 0; i < 3; i++ { // concurrent closers
		wg.Add(1)
		go func() { defer wg.Done(); c.Close() }()
	}
	wg.Wait()
	fdaClose(b)
}

// The descriptor part of the close callbacks runs again after the connection is closed (what a second run of the
// callbacks would do, see property C05): netFD.Close is called directly, also from several goroutines at once.
// Only the `closed` counter stands between this and a second close(2).
func fdaCloseAgainScenario(x *fdaCtx) {
	a, b, ok := fdaSocketpair(x)
	if !ok {
		return
	}
	x.usePollManager()
	x.kind("fdConn %d 6", a)
	x.know("conn_detach", false)
	x.know("conn_viaServer", false)
	x.know("prepare_closes", false)
	fdaMark("G %d", a)
	c, err := NewFDConnection(a)
	if err != nil {
		x.failf("NewFDConnection: %v", err)
		return
	}
	conn := c.(*connection)
	c.Close()
	time.Sleep(time.Duration(x.rnd.Intn(300)) * time.Microsecond)
	conn.netFD.Close()
	var wg sync.WaitGroup
	for i := 0; i < 3; i++ {
		wg.Add(1)
		go func() { defer wg.Done(); conn.netFD.Close() }()
	}
	wg.Wait()
	fdaClose(b)
	// the same on a netFD that never became a connection (the value socket() hands to its caller)
	p, q, ok := fdaSocketpair(x)
	if !ok {
		return
	}
	x.kind("fdConn %d 6", p)
	fdaMark("G %d", p)
	nfd := &netFD{fd: p}
	nfd.Close()
	nfd.Close()
	fdaClose(q)
}

// Detach: the descriptor goes back to the caller open
func fdaDetachScenario(x *fdaCtx) {
	a, b, ok := fdaSocketpair(x)
	if !ok {
		return
	}
	x.usePollManager()
	x.kind("fdConn %d 3", a)
	x.kind("createListener 2")
	kd := x.kind("dialTCP 3")
	x.know("conn_viaServer", false)
	x.know("prepare_closes", false)
	x.know("ln_viaServer", true)
	fdaMark("G %d", a)
	c, err := NewFDConnection(a)
	if err != nil {
		x.failf("NewFDConnection: %v", err)
		return
	}
	if err := c.(*connection).Detach(); err != nil {
		x.failf("Detach: %v", err)
	}
	fdaMark("T %d", a)
	// the descriptor must still work
	syscall.Write(b, []byte("x"))
	buf := make([]byte, 1)
	syscall.SetNonblock(a, false)
	if n, err := syscall.Read(a, buf); n != 1 || err != nil {
		x.failf("detached descriptor unusable: n=%d err=%v", n, err)
	}
	c.Close() // Close after Detach: nothing may be closed
	fdaClose(a)
	fdaClose(b)

	// a dialed connection, detached by the client
	s := x.startServer("tcp", "127.0.0.1:0", false, nil)
	if s == nil {
		return
	}
	dc, err := DialConnection("tcp", s.ln.Addr().String(), 5*time.Second)
	if err != nil {
		x.dialFailed(kd)
		x.failf("dial: %v", err)
		x.shutdown(s)
		return
	}
	x.echo(dc, 64)
	fd := dc.(Conn).Fd()
	if err := dc.(*TCPConnection).Detach(); err != nil {
		x.failf("Detach: %v", err)
	}
	fdaMark("T %d", fd)
	fdaClose(fd)
	if !fdaWait(func() bool { return atomic.LoadInt32(&s.closed) == 1 }, 8*time.Second) {
		x.failf("server side connection not closed")
	}
	x.shutdown(s)
}

// registration fails (a regular file cannot be added to epoll): init closes the adopted descriptor
func fdaRegisterFailScenario(x *fdaCtx) {
	fd, err := syscall.Open("/dev/null", syscall.O_RDWR, 0)
	if err != nil {
		x.failf("open: %v", err)
		return
	}
	fdaOwn(fd)
	x.usePollManager()
	x.kind("fdConn %d 3", fd)
	x.know("conn_detach", false)
	x.know("conn_viaServer", false)
	x.know("prepare_closes", false)
	x.know("register_ok", false)
	fdaMark("G %d", fd)
	c, err := NewFDConnection(fd)
	if err == nil {
		x.failf("NewFDConnection on a regular file succeeded")
		c.Close()
	}
}

func fdaListenerScenario(network string, convert bool) func(x *fdaCtx) {
	return func(x *fdaCtx) {
		addr := "127.0.0.1:0"
		if network == "unix" {
			addr = x.tmpSock()
			defer os.Remove(addr)
		}
		x.know("ln_viaServer", false)
		var nl Listener
		var err error
		if convert {
			l, lerr := net.Listen(network, addr)
			if lerr != nil {
				x.failf("net.Listen: %v", lerr)
				return
			}
			lfd := -1
			if sc, ok := l.(syscall.Conn); ok {
				if rc, err := sc.SyscallConn(); err == nil {
					rc.Control(func(fd uintptr) { lfd = int(fd) })
				}
			}
			if lfd < 0 {
				x.failf("no descriptor of net.Listener")
				return
			}
			fdaOwn(lfd)
			x.kind("convertListener %d 2", lfd)
			nl, err = ConvertListener(l)
			if err == nil {
				fdaMark("G %d", lfd) // from now on closing the wrapped listener is netpoll's job
			}
		} else {
			x.kind("createListener 2")
			nl, err = CreateListener(network, addr)
		}
		if err != nil {
			x.failf("listener: %v", err)
			return
		}
		time.Sleep(time.Duration(x.rnd.Intn(300)) * time.Microsecond)
		nl.Close()
		time.Sleep(time.Duration(x.rnd.Intn(300)) * time.Microsecond)
		nl.Close()
	}
}

// refused, unreachable-path and timed-out dials
func fdaDialFailScenario(x *fdaCtx) {
	x.usePollManager()
	// 1. refused: a port nobody listens on
	l, err := net.Listen("tcp", "127.0.0.1:0")
	if err != nil {
		x.failf("listen: %v", err)
		return
	}
	addr := l.Addr().String()
	lfd := -1
	if rc, err := l.(syscall.Conn).SyscallConn(); err == nil {
		rc.Control(func(fd uintptr) { lfd = int(fd) })
	}
	fdaOwn(lfd)
	fdaMark("C %d", lfd)
	l.Close()
	x.know("prepare_closes", false)
	x.know("conn_detach", false)
	x.know("conn_viaServer", false)
	for i := 0; i < 3; i++ {
		k := x.kind("dialTCP 1")
		if c, err := DialConnection("tcp", addr, 500*time.Millisecond); err == nil {
			x.failf("dial to a closed port succeeded")
			c.Close()
		} else {
			x.dialFailed(k)
		}
	}
	// 2. unix path that does not exist: connect fails at once
	k := x.kind("dialUnix 1")
	if c, err := DialConnection("unix", "/tmp/fdaudit-does-not-exist.sock", 500*time.Millisecond); err == nil {
		x.failf("dial to a missing unix socket succeeded")
		c.Close()
	} else {
		x.dialFailed(k)
	}
	// 3. timed out: a listener whose backlog is full
	bfd, err := syscall.Socket(syscall.AF_INET, syscall.SOCK_STREAM, 0)
	if err != nil {
		x.failf("socket: %v", err)
		return
	}
	fdaOwn(bfd)
	defer fdaClose(bfd)
	if err := syscall.Bind(bfd, &syscall.SockaddrInet4{Addr: [4]byte{127, 0, 0, 1}}); err != nil {
		x.failf("bind: %v", err)
		return
	}
	syscall.Listen(bfd, 0)
	sa, _ := syscall.Getsockname(bfd)
	port := sa.(*syscall.SockaddrInet4).Port
	var fill []int
	for i := 0; i < 2; i++ { // fill the accept queue
		cfd, err := syscall.Socket(syscall.AF_INET, syscall.SOCK_STREAM|syscall.SOCK_NONBLOCK, 0)
		if err != nil {
			continue
		}
		fdaOwn(cfd)
		syscall.Connect(cfd, &syscall.SockaddrInet4{Addr: [4]byte{127, 0, 0, 1}, Port: port})
		fill = append(fill, cfd)
	}
	time.Sleep(5 * time.Millisecond)
	timedOut := 0
	for i := 0; i < 3; i++ {
		k := x.kind("dialTCP 1")
		t0 := time.Now()
		c, err := DialConnection("tcp", fmt.Sprintf("127.0.0.1:%d", port), 60*time.Millisecond)
		if err == nil {
			c.Close() // the queue still had room: an ordinary connection, closed by us
		} else {
			x.dialFailed(k)
			if time.Since(t0) >= 50*time.Millisecond {
				timedOut++
			}
		}
	}
	if timedOut == 0 {
		x.failf("no dial timed out")
	}
	for _, fd := range fill {
		fdaClose(fd)
	}
}

// fdaFaultPoll wraps a real poller and refuses the registration for reading (the only way `connection.init` can fail
// after `initNetFD`): the kernel would answer ENOMEM/ENOSPC from epoll_ctl(ADD) at this point.
type fdaFaultPoll struct {
	Poll
	refuse int32
}

func (p *fdaFaultPoll) Alloc() *FDOperator {
	op := p.Poll.Alloc()
	op.poll = p
	return op
}

func (p *fdaFaultPoll) Control(op *FDOperator, ev PollEvent) error {
	if ev == PollReadable && atomic.LoadInt32(&p.refuse) == 1 {
		return syscall.ENOMEM
	}
	return p.Poll.Control(op, ev)
}

// a dial whose connect succeeds and whose registration with the poller fails: `register` closes the connection
// (finalizer -> netFD.Close), the dial returns the error; the dialed descriptor is closed exactly once
func fdaDialRegisterFailScenario(x *fdaCtx) {
	x.usePollManager()
	x.know("prepare_closes", false)
	x.know("conn_detach", false)
	x.know("conn_viaServer", false)
	x.know("register_ok", false)
	// every poller of the pool refuses read registrations from now on
	var wrapped []*fdaFaultPoll
	orig := append([]Poll(nil), pollmanager.polls...)
	for i, p := range pollmanager.polls {
		w := &fdaFaultPoll{Poll: p, refuse: 1}
		wrapped = append(wrapped, w)
		pollmanager.polls[i] = w
	}
	pollmanager.balance.Rebalance(pollmanager.polls)
	defer func() {
		copy(pollmanager.polls, orig)
		pollmanager.balance.Rebalance(pollmanager.polls)
	}()
	// listeners owned by the harness (raw system calls, announced)
	lfd, err := syscall.Socket(syscall.AF_INET, syscall.SOCK_STREAM, 0)
	if err != nil {
		x.failf("socket: %v", err)
		return
	}
	fdaOwn(lfd)
	defer fdaClose(lfd)
	if err := syscall.Bind(lfd, &syscall.SockaddrInet4{Addr: [4]byte{127, 0, 0, 1}}); err != nil {
		x.failf("bind: %v", err)
		return
	}
	syscall.Listen(lfd, 16)
	sa, _ := syscall.Getsockname(lfd)
	port := sa.(*syscall.SockaddrInet4).Port
	upath := x.tmpSock()
	defer os.Remove(upath)
	ufd, err := syscall.Socket(syscall.AF_UNIX, syscall.SOCK_STREAM, 0)
	if err != nil {
		x.failf("socket: %v", err)
		return
	}
	fdaOwn(ufd)
	defer fdaClose(ufd)
	if err := syscall.Bind(ufd, &syscall.SockaddrUnix{Name: upath}); err != nil {
		x.failf("bind unix: %v", err)
		return
	}
	syscall.Listen(ufd, 16)
	refused := 0
	for i := 0; i < 6; i++ {
		network, addr := "tcp", fmt.Sprintf("127.0.0.1:%d", port)
		if i%2 == 1 {
			network, addr = "unix", upath
			x.kind("dialUnix 3")
		} else {
			x.kind("dialTCP 3")
		}
		c, err := DialConnection(network, addr, 2*time.Second)
		if err == nil {
			x.failf("dial succeeded although the registration was refused")
			c.Close()
		} else {
			refused++
		}
		// give the churning goroutine time to take the freed number before anything else happens
		time.Sleep(time.Duration(x.rnd.Intn(3)) * time.Millisecond)
	}
	if refused == 0 {
		x.failf("no dial was refused")
	}
	// drain the accept queues (the peers of the dialed sockets), announced
	for _, l := range []int{lfd, ufd} {
		syscall.SetNonblock(l, true)
		for {
			nfd, _, err := syscall.Accept(l)
			if err != nil {
				break
			}
			fdaOwn(nfd)
			fdaClose(nfd)
		}
	}
}

// a private poller: open, run, trigger, close
func fdaPollerScenario(x *fdaCtx) {
	for i := 0; i < 3; i++ {
		x.kind("poller 4")
		p, err := openDefaultPoll()
		if err != nil {
			x.failf("openDefaultPoll: %v", err)
			return
		}
		done := make(chan error, 1)
		go func() { done <- p.Wait() }()
		for j := 0; j < x.rnd.Intn(3); j++ {
			p.Trigger()
			time.Sleep(time.Duration(x.rnd.Intn(300)) * time.Microsecond)
		}
		p.Close()
		select {
		case err := <-done:
			if err != nil {
				x.failf("Wait: %v", err)
			}
		case <-time.After(8 * time.Second):
			x.failf("poller did not exit")
		}
	}
}

// descriptor limit: socket() and openDefaultPoll() fail half way
func fdaRlimitScenario(x *fdaCtx) {
	x.usePollManager()
	var old syscall.Rlimit
	syscall.Getrlimit(syscall.RLIMIT_NOFILE, &old)
	defer syscall.Setrlimit(syscall.RLIMIT_NOFILE, &old)
	// occupy every number below `top` so that the limit decides exactly how many more can be opened
	top := 40
	var pad []int
	for {
		fd, err := syscall.Open("/dev/null", syscall.O_RDONLY, 0)
		if err != nil {
			x.failf("pad: %v", err)
			return
		}
		fdaOwn(fd)
		pad = append(pad, fd)
		if fd >= top-1 {
			break
		}
	}
	defer func() {
		for _, fd := range pad {
			fdaClose(fd)
		}
	}()
	setLimit := func(n int) {
		lim := syscall.Rlimit{Cur: uint64(n), Max: old.Max}
		if err := syscall.Setrlimit(syscall.RLIMIT_NOFILE, &lim); err != nil {
			x.failf("setrlimit: %v", err)
		}
	}
	// no room at all: socket fails, epoll_create fails
	setLimit(top)
	k := x.kind("dialTCP 1")
	if c, err := DialConnection("tcp", "127.0.0.1:1", 50*time.Millisecond); err == nil {
		x.failf("dial without descriptors succeeded")
		c.Close()
	} else {
		x.dialFailed(k)
	}
	x.kind("poller 1")
	if p, err := openDefaultPoll(); err == nil {
		x.failf("openDefaultPoll without descriptors succeeded")
		p.Close()
	}
	// room for one: epoll_create works, eventfd fails → the epoll descriptor must be closed again
	setLimit(top + 1)
	x.kind("poller 1")
	if p, err := openDefaultPoll(); err == nil {
		x.failf("openDefaultPoll with one descriptor succeeded")
		p.Close()
	}
	// room for one: the socket is created, the dial is refused → closed again
	k = x.kind("dialTCP 1")
	if c, err := DialConnection("tcp", "127.0.0.1:1", 50*time.Millisecond); err == nil {
		x.failf("dial to port 1 succeeded")
		c.Close()
	} else {
		x.dialFailed(k)
	}
}

// CreateListener when the duplicate cannot be made (descriptor limit): CreateListener must close what net.Listen
// opened before it returns the error (F1, fixed: nothing may be left in the census)
func fdaRlimitListenerScenario(x *fdaCtx) {
	var old syscall.Rlimit
	syscall.Getrlimit(syscall.RLIMIT_NOFILE, &old)
	defer syscall.Setrlimit(syscall.RLIMIT_NOFILE, &old)
	top := 40
	var pad []int
	for {
		fd, err := syscall.Open("/dev/null", syscall.O_RDONLY, 0)
		if err != nil {
			x.failf("pad: %v", err)
			return
		}
		fdaOwn(fd)
		pad = append(pad, fd)
		if fd >= top-1 {
			break
		}
	}
	defer func() {
		for _, fd := range pad {
			fdaClose(fd)
		}
	}()
	lim := syscall.Rlimit{Cur: uint64(top + 1), Max: old.Max}
	syscall.Setrlimit(syscall.RLIMIT_NOFILE, &lim)
	x.kind("createListener 1")
	x.know("ln_file_ok", false)
	if l, err := CreateListener("tcp", "127.0.0.1:0"); err == nil {
		x.failf("CreateListener with one descriptor succeeded")
		l.Close()
	}
}

// The poll manager grows its pool while descriptors run out: the pollers opened and started by the failing
// manager.Run must be closed by its error path together with the old pool (F2, fixed: Run hands them to the deferred
// Close; every poller lifecycle of the scenario is complete at the end and nothing may be left in the census).
func fdaRlimitManagerScenario(x *fdaCtx) {
	x.usePollManager()
	var old syscall.Rlimit
	syscall.Getrlimit(syscall.RLIMIT_NOFILE, &old)
	top := 40
	var pad []int
	for {
		fd, err := syscall.Open("/dev/null", syscall.O_RDONLY, 0)
		if err != nil {
			x.failf("pad: %v", err)
			return
		}
		fdaOwn(fd)
		pad = append(pad, fd)
		if fd >= top-1 {
			break
		}
	}
	lim := syscall.Rlimit{Cur: uint64(top + 3), Max: old.Max} // room for one poller and a half
	syscall.Setrlimit(syscall.RLIMIT_NOFILE, &lim)
	n := int(atomic.LoadInt32(&pollmanager.numLoops))
	x.kind("poller 2") // opened and started by Run, closed again by its error path
	x.kind("poller 2") // epoll_create works, eventfd fails
	pollmanager.SetNumLoops(n + 3)
	err := pollmanager.Run()
	syscall.Setrlimit(syscall.RLIMIT_NOFILE, &old)
	for _, fd := range pad {
		fdaClose(fd)
	}
	if err == nil {
		x.failf("manager.Run without descriptors succeeded")
	}
}

func fdaScenarios() []fdaScenario {
	return append([]fdaScenario{
		{name: "tcp-echo-client-closes", run: fdaEchoScenario("tcp", false, 1)},
		{name: "tcp-echo-server-closes", run: fdaEchoScenario("tcp", true, 1)},
		{name: "unix-echo-client-closes", run: fdaEchoScenario("unix", false, 1)},
		{name: "unix-echo-server-closes", run: fdaEchoScenario("unix", true, 1)},
		{name: "tcp-echo-many", run: fdaEchoScenario("tcp", false, 6)},
		{name: "tcp-echo-many-server-closes", run: fdaEchoScenario("tcp", true, 6)},
		{name: "shutdown-closes-conns", run: fdaShutdownScenario},
		{name: "prepare-closes", run: fdaPrepareCloseScenario},
		{name: "fdconn-close", run: fdaFDConnCloseScenario},
		{name: "close-again", run: fdaCloseAgainScenario},
		{name: "detach", run: fdaDetachScenario},
		{name: "register-fails", run: fdaRegisterFailScenario},
		{name: "create-listener-tcp", run: fdaListenerScenario("tcp", false)},
		{name: "create-listener-unix", run: fdaListenerScenario("unix", false)},
		{name: "convert-listener-tcp", run: fdaListenerScenario("tcp", true)},
		{name: "convert-listener-unix", run: fdaListenerScenario("unix", true)},
		{name: "dial-fails", run: fdaDialFailScenario},
		{name: "dial-register-fails", run: fdaDialRegisterFailScenario},
		{name: "poller", run: fdaPollerScenario},
		{name: "rlimit", run: fdaRlimitScenario, noChurn: true},
		{name: "rlimit-create-listener", run: fdaRlimitListenerScenario, noChurn: true, noGC: true},
		{name: "rlimit-manager-run", run: fdaRlimitManagerScenario, noChurn: true},
	}, fdaMoreScenarios()...)
}

// VerifFdAuditMain: `list` | `run <scenario> <seed> [nochurn]`
func VerifFdAuditMain(args []string) int {
	if len(args) >= 1 && args[0] == "list" {
		// one scenario per line: name, then flags for the runner (`netns`: wrap in a private network namespace)
		for _, s := range fdaScenarios() {
			l := s.name
			if s.netns {
				l += " netns"
			}
			if s.quiet {
				l += " quiet"
			}
			fmt.Println(l)
		}
		return 0
	}
	if len(args) < 3 || args[0] != "run" {
		fmt.Fprintln(os.Stderr, "usage: fdaudit list | run <scenario> <seed> [nochurn]")
		return 2
	}
	var sc *fdaScenario
	for _, s := range fdaScenarios() {
		if s.name == args[1] {
			s := s
			sc = &s
		}
	}
	if sc == nil {
		fmt.Fprintln(os.Stderr, "unknown scenario", args[1])
		return 2
	}
	seed, _ := strconv.ParseInt(args[2], 10, 64)
	churnOn := !(len(args) >= 4 && args[3] == "nochurn") && !sc.noChurn

	// marker descriptor
	dn, err := syscall.Open("/dev/null", syscall.O_WRONLY, 0)
	if err != nil {
		fmt.Fprintln(os.Stderr, "open /dev/null:", err)
		return 2
	}
	if err := syscall.Dup3(dn, fdaMarkFd, 0); err != nil {
		fmt.Fprintln(os.Stderr, "dup3:", err)
		return 2
	}
	syscall.Close(dn)
	SetLoggerOutput(io.Discard)
	if sc.netns && os.Getenv("VERIF_FDA_NETNS") == "1" && !fdaPrivateNetns() {
		fmt.Fprintln(os.Stderr, "private network namespace could not be set up")
		return 4
	}
	// warm up the Go runtime's own poller and package net's caches so that they open nothing later
	if l, err := net.Listen("tcp", "127.0.0.1:0"); err == nil {
		if c, err := net.Dial("tcp", l.Addr().String()); err == nil {
			c.Close()
		}
		l.Close()
	}
	if l, err := net.Listen("unix", fmt.Sprintf("/tmp/fdaudit-warm-%d.sock", os.Getpid())); err == nil {
		l.Close()
	}
	time.Sleep(2 * time.Millisecond)

	x := &fdaCtx{seed: seed, rnd: rand.New(rand.NewSource(seed))}
	watchdog := time.AfterFunc(60*time.Second, func() {
		fdaMark("X watchdog: scenario did not finish in 60s")
		os.Exit(3)
	})
	defer watchdog.Stop()

	if sc.noGC {
		debug.SetGCPercent(-1)
	}
	base := fdaCensus()
	fdaMark("S %s", sc.name)
	fdaMark("B %s", fdaInts(base))
	skip := map[string]bool{}
	for _, n := range sc.noExpect {
		skip[n] = true
	}
	if !skip["selfConnect"] {
		x.expect("selfConnect", false)
	}
	if !skip["spuriousENOTAVAIL"] {
		x.expect("spuriousENOTAVAIL", false)
	}
	x.expect("setNonblock_ok", true)
	x.expect("sockopts_ok", true)
	x.expect("ln_setNonblock_ok", true)
	x.expect("ctlAdd_ok", true)
	x.expect("epollWait_ok", true)
	x.expect("register_ok", true)
	var churn *fdaChurn
	if churnOn {
		churn = fdaStartChurn(seed*7919 + 1)
		time.Sleep(300 * time.Microsecond)
	}
	func() {
		defer func() {
			if r := recover(); r != nil {
				x.failf("panic: %v", r)
			}
		}()
		sc.run(x)
	}()
	// close the event loops of the pool (if the scenario used it) and wait until their descriptors are gone
	if len(pollmanager.polls) > 0 {
		pollmanager.Close()
	}
	if churn != nil {
		churn.Stop()
	}
	var final []int
	same := func() bool {
		final = fdaCensus()
		return fdaInts(final) == fdaInts(base)
	}
	fdaWait(same, 8*time.Second)
	fdaMark("E")
	fdaMark("F %s", fdaInts(final))
	ops := int64(0)
	if churn != nil {
		ops = atomic.LoadInt64(&churn.ops)
	}
	fmt.Printf("scenario=%s seed=%d churn_ops=%d base=[%s] final=[%s] fails=%d\n", sc.name, seed, ops, fdaInts(base), fdaInts(final), len(x.fails))
	for _, f := range x.fails {
		fmt.Printf("fail: %s\n", f)
	}
	if len(x.fails) > 0 {
		return 1
	}
	return 0
}
