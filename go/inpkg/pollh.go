//go:build verif
// +build verif

package netpoll

// C11 correspondence harness: calls the REAL (*defaultPoll).handler with SYNTHETIC epollevent
// arrays on REAL descriptors prepared in known states, with recording FDOperators.  For every
// batch it writes one op line (case description + the system-call results observed on identically
// prepared twin descriptors, i.e. the script the Lean model is driven with) and one reply line (the
// callback trace and the observable end state).  `npdriver pollh` replays the op lines on
// Netpoll.Poll.Handler and prints the model's reply; checks/c11.py diffs the two streams.
// This file is added to package netpoll at build time with `go build -overlay`.

import (
	"bufio"
	"flag"
	"fmt"
	"io"
	"log"
	"math/rand"
	"os"
	"runtime"
	"sort"
	"strconv"
	"strings"
	"sync"
	"sync/atomic"
	"syscall"
	"time"
	"unsafe"
)

// ---------------------------------------------------------------- case description

type vpEv struct {
	id   int
	evt  uint32
	kind string // subset of "RWHIO" or "K" (the wake-up operator p.wop)
	st   int32  // FDOperator.state before the event
	det  int32  // FDOperator.detached before the event
	ds   string // descriptor state (see vpPrepare) or wake:<triggers>:<closes>:<nonblock>
	cap  int    // bytes of room an Inputs vector offers
	ol   int    // bytes an Outputs vector offers
	ins  string // shapes of successive Inputs results: r(oom) z(ero) e(mpty); then room
	outs string
	// observed
	rds, sds, errq, wake string
}

func (e *vpEv) has(c byte) bool { return strings.IndexByte(e.kind, c) >= 0 }

func (e *vpEv) String() string {
	d := func(s string) string {
		if s == "" {
			return "-"
		}
		return s
	}
	return fmt.Sprintf("id=%d evt=%d kind=%s st=%d det=%d ds=%s cap=%d ol=%d ins=%s outs=%s rds=%s sds=%s errq=%s wake=%s",
		e.id, e.evt, d(e.kind), e.st, e.det, e.ds, e.cap, e.ol, d(e.ins), d(e.outs), d(e.rds), d(e.sds), d(e.errq), d(e.wake))
}

func vpParseEv(s string) (*vpEv, error) {
	e := &vpEv{}
	for _, kv := range strings.Fields(s) {
		i := strings.IndexByte(kv, '=')
		if i < 0 {
			return nil, fmt.Errorf("bad field %q", kv)
		}
		k, v := kv[:i], kv[i+1:]
		if v == "-" {
			v = ""
		}
		n, _ := strconv.Atoi(v)
		switch k {
		case "id":
			e.id = n
		case "evt":
			e.evt = uint32(n)
		case "kind":
			e.kind = v
		case "st":
			e.st = int32(n)
		case "det":
			e.det = int32(n)
		case "ds":
			e.ds = v
		case "cap":
			e.cap = n
		case "ol":
			e.ol = n
		case "ins":
			e.ins = v
		case "outs":
			e.outs = v
		}
	}
	return e, nil
}

// ---------------------------------------------------------------- descriptors

const vpSmall = 5

func vpPat(i int) byte { return byte(i*7 + 3) }

func vpPattern(off, n int) []byte {
	p := make([]byte, n)
	for i := range p {
		p[i] = vpPat(off + i)
	}
	return p
}

type vpDesc struct {
	a, b    int // our end (handed to the poller), peer end (-1 when closed)
	prefill int // bytes we put into the peer's queue while preparing
}

func (d *vpDesc) close() {
	// SO_LINGER 0: a TCP pair is torn down by reset, leaving no TIME_WAIT entry behind (thousands of pairs per run)
	lg := &syscall.Linger{Onoff: 1, Linger: 0}
	if d.a >= 0 {
		syscall.SetsockoptLinger(d.a, syscall.SOL_SOCKET, syscall.SO_LINGER, lg)
		syscall.Close(d.a)
		d.a = -1
	}
	if d.b >= 0 {
		syscall.SetsockoptLinger(d.b, syscall.SOL_SOCKET, syscall.SO_LINGER, lg)
		syscall.Close(d.b)
		d.b = -1
	}
}

func vpWriteAll(fd int, p []byte) error {
	for len(p) > 0 {
		n, err := syscall.Write(fd, p)
		if err != nil {
			return err
		}
		p = p[n:]
	}
	return nil
}

// named descriptor states -> histories ("h:<u|t>:<actions>", see vpPrepare)
var vpNamed = map[string]string{
	"idle": "h:u:", "data": "h:u:w5", "big": "h:u:W", "eof": "h:u:c", "dataeof": "h:u:w5.c", "bigeof": "h:u:W.c",
	"shutwr": "h:u:s", "datashut": "h:u:w5.s", "reset": "h:u:o3.c", "datareset": "h:u:w5.o3.c", "full": "h:u:f", "datafull": "h:u:w5.f",
}

var vpListener = -1
var vpPairMu sync.Mutex
var vpListenAddr syscall.Sockaddr

// vpTCPPair: a connected loopback TCP pair (a = the connecting side)
func vpTCPPair() (a, b int, err error) {
	// one at a time: in the real-epoll runs the harness and the poller goroutine (observing twins) both get here
	vpPairMu.Lock()
	defer vpPairMu.Unlock()
	if vpListener < 0 {
		l, err := syscall.Socket(syscall.AF_INET, syscall.SOCK_STREAM|syscall.SOCK_CLOEXEC, 0)
		if err != nil {
			return -1, -1, err
		}
		if err = syscall.Bind(l, &syscall.SockaddrInet4{Addr: [4]byte{127, 0, 0, 1}}); err != nil {
			return -1, -1, err
		}
		if err = syscall.Listen(l, 128); err != nil {
			return -1, -1, err
		}
		if vpListenAddr, err = syscall.Getsockname(l); err != nil {
			return -1, -1, err
		}
		vpListener = l
	}
	if a, err = syscall.Socket(syscall.AF_INET, syscall.SOCK_STREAM|syscall.SOCK_CLOEXEC, 0); err != nil {
		return -1, -1, err
	}
	// blocking connect / accept, restarted when the runtime's preemption signal interrupts them
	for {
		err = syscall.Connect(a, vpListenAddr)
		if err == syscall.EINTR || err == syscall.EALREADY || err == syscall.EINPROGRESS {
			time.Sleep(10 * time.Microsecond)
			continue
		}
		if err == syscall.EISCONN {
			err = nil
		}
		break
	}
	if err != nil {
		syscall.Close(a)
		return -1, -1, err
	}
	an, _ := syscall.Getsockname(a)
	for {
		b, _, err = syscall.Accept4(vpListener, syscall.SOCK_CLOEXEC)
		if err == syscall.EINTR {
			continue
		}
		if err != nil {
			syscall.Close(a)
			return -1, -1, err
		}
		// make sure it is the other end of a (a stale connection in the backlog would cross the pairs)
		bn, _ := syscall.Getpeername(b)
		a4, ok1 := an.(*syscall.SockaddrInet4)
		b4, ok2 := bn.(*syscall.SockaddrInet4)
		if ok1 && ok2 && a4.Port == b4.Port {
			break
		}
		syscall.Close(b)
	}
	for _, fd := range []int{a, b} {
		syscall.SetNonblock(fd, true)
		syscall.SetsockoptInt(fd, syscall.IPPROTO_TCP, syscall.TCP_NODELAY, 1)
	}
	return a, b, nil
}

// vpSettle waits (briefly) until what the peer did has reached descriptor fd
func vpSettle(fd int, want int16) {
	// the Go runtime's preemption signals interrupt poll(2): retry until it reports something or 500 ms passed
	dl := time.Now().Add(500 * time.Millisecond)
	for time.Now().Before(dl) {
		pfd := []vpPollFd{{fd: int32(fd), events: want}}
		r, _, e := syscall.Syscall(syscall.SYS_POLL, uintptr(unsafe.Pointer(&pfd[0])), 1, 100)
		if e == 0 && r > 0 {
			return
		}
	}
}

// vpSettleBytes waits until at least want bytes are queued for reading on fd (FIONREAD)
func vpSettleBytes(fd, want int) {
	dl := time.Now().Add(500 * time.Millisecond)
	for {
		var n int32
		syscall.Syscall(syscall.SYS_IOCTL, uintptr(fd), 0x541B, uintptr(unsafe.Pointer(&n)))
		if int(n) >= want || !time.Now().Before(dl) {
			return
		}
		time.Sleep(20 * time.Microsecond)
	}
}

type vpPollFd struct {
	fd      int32
	events  int16
	revents int16
}

// vpPrepare makes a connected stream pair (non-blocking) and brings it into the named state or through
// the history "h:<u|t>:<a1>.<a2>..." (u = unix socketpair, t = loopback TCP), actions:
//
//	wN  peer writes N pattern bytes      W   peer writes 2*cap+3 bytes (three reads)
//	oN  we write N bytes                 f   our send buffer is filled until EAGAIN
//	c   peer closes                      s   peer shuts down its write side
//	l   peer closes with SO_LINGER 0 (TCP reset)        rN  we read N bytes     x  we read once more (takes a pending error)
//
// Named states: idle, data (5 bytes pending), big, eof, dataeof, bigeof, shutwr, datashut,
// reset (peer closed with our bytes unread: ECONNRESET), datareset, full, datafull.
func vpPrepare(ds string, capv int) (*vpDesc, error) {
	if h, ok := vpNamed[ds]; ok {
		ds = h
	}
	d := &vpDesc{a: -1, b: -1}
	fail := func(err error) (*vpDesc, error) { d.close(); return nil, fmt.Errorf("prepare %s: %v", ds, err) }
	if len(ds) < 4 || ds[:2] != "h:" || ds[3] != ':' {
		return fail(fmt.Errorf("unknown state"))
	}
	tcp := ds[2] == 't'
	if tcp {
		var err error
		if d.a, d.b, err = vpTCPPair(); err != nil {
			return fail(err)
		}
	} else {
		fds, err := syscall.Socketpair(syscall.AF_UNIX, syscall.SOCK_STREAM|syscall.SOCK_NONBLOCK|syscall.SOCK_CLOEXEC, 0)
		if err != nil {
			return fail(err)
		}
		d.a, d.b = fds[0], fds[1]
	}
	woff, pend := 0, 0
	for _, act := range strings.Split(ds[4:], ".") {
		if act == "" {
			continue
		}
		n := 0
		if len(act) > 1 {
			n, _ = strconv.Atoi(act[1:])
		}
		switch act[0] {
		case 'W':
			n = 2*capv + 3
			fallthrough
		case 'w':
			if err := vpWriteAll(d.b, vpPattern(woff, n)); err != nil {
				return fail(err)
			}
			woff += n
			pend += n
			if tcp {
				vpSettleBytes(d.a, pend)
			}
		case 'o':
			if err := vpWriteAll(d.a, make([]byte, n)); err != nil {
				return fail(err)
			}
			d.prefill += n
			if tcp {
				vpSettleBytes(d.b, d.prefill)
			}
		case 'c', 'l':
			if act[0] == 'l' {
				syscall.SetsockoptLinger(d.b, syscall.SOL_SOCKET, syscall.SO_LINGER, &syscall.Linger{Onoff: 1, Linger: 0})
			}
			syscall.Close(d.b)
			d.b = -1
			if tcp {
				vpSettle(d.a, 0x2000|0x10|0x8)
			}
		case 's':
			if err := syscall.Shutdown(d.b, syscall.SHUT_WR); err != nil {
				return fail(err)
			}
			if tcp {
				vpSettle(d.a, 0x2000)
			}
		case 'x':
			// we read once more (consumes a pending socket error)
			syscall.Read(d.a, make([]byte, 1))
		case 'r':
			buf := make([]byte, n)
			for got := 0; got < n; {
				k, err := syscall.Read(d.a, buf[got:])
				if k <= 0 || err != nil {
					return fail(fmt.Errorf("history read: %d %v", k, err))
				}
				got += k
			}
			pend -= n
		case 'f':
			syscall.SetsockoptInt(d.a, syscall.SOL_SOCKET, syscall.SO_SNDBUF, 4096)
			chunk := make([]byte, 1024)
			for i := 0; i < 1<<16; i++ {
				k, err := syscall.Write(d.a, chunk)
				if k > 0 {
					d.prefill += k
				}
				if err == syscall.EAGAIN {
					break
				}
				if err != nil {
					return fail(err)
				}
			}
		default:
			return fail(fmt.Errorf("unknown action %q", act))
		}
	}
	return d, nil
}

func vpRdStr(n int, err error) string {
	switch {
	case err == nil:
		return strconv.Itoa(n)
	case err == syscall.EAGAIN || err == syscall.EINTR:
		return "a"
	default:
		return "e"
	}
}

// vpObserveReads: what successive readv calls with capv bytes of room return on a descriptor in
// state ds (measured on a twin): all positive results and the three results after them.
func vpObserveReads(ds string, capv int) (string, error) {
	d, err := vpPrepare(ds, capv)
	if err != nil {
		return "", err
	}
	defer d.close()
	buf := make([]byte, capv)
	var out []string
	nonpos := 0
	for len(out) < 64 && nonpos < 3 {
		n, err := syscall.Read(d.a, buf)
		if err != nil || n <= 0 {
			nonpos++
			if err != nil {
				n = -1
			}
		}
		out = append(out, vpRdStr(n, err))
	}
	return strings.Join(out, ","), nil
}

// vpObserveErrq: for k = 0..nreads, does the error-queue probe handler uses answer EAGAIN after k reads
func vpObserveErrq(ds string, capv, nreads int) (string, error) {
	var sb strings.Builder
	buf := make([]byte, capv)
	for k := 0; k <= nreads; k++ {
		d, err := vpPrepare(ds, capv)
		if err != nil {
			return "", err
		}
		for i := 0; i < k; i++ {
			syscall.Read(d.a, buf)
		}
		_, _, _, _, err = syscall.Recvmsg(d.a, nil, nil, syscall.MSG_ERRQUEUE)
		if err == syscall.EAGAIN {
			sb.WriteByte('1')
		} else {
			sb.WriteByte('0')
		}
		d.close()
	}
	return sb.String(), nil
}

// vpObserveSend: what a sendmsg of ol bytes returns on a descriptor in state ds
func vpObserveSend(ds string, capv, ol int) (string, error) {
	d, err := vpPrepare(ds, capv)
	if err != nil {
		return "", err
	}
	defer d.close()
	n, err := syscall.SendmsgN(d.a, make([]byte, ol), nil, nil, 0)
	switch {
	case err == nil:
		return strconv.Itoa(n), nil
	case err == syscall.EAGAIN:
		return "a", nil
	default:
		return "e", nil
	}
}

func vpDrain(fd int) int {
	if fd < 0 {
		return 0
	}
	buf := make([]byte, 65536)
	total := 0
	for {
		n, err := syscall.Read(fd, buf)
		if n > 0 {
			total += n
		}
		if err == syscall.EINTR {
			continue
		}
		if err != nil || n <= 0 {
			return total
		}
	}
}

// ---------------------------------------------------------------- recording

type vpItem struct {
	id   int
	code string
	n    int
	hasN bool
	tok  int32
}

type vpRec struct {
	mu sync.Mutex
	tr []vpItem
}

func (r *vpRec) add(id int, code string, n int, hasN bool, tok int32) {
	r.mu.Lock()
	r.tr = append(r.tr, vpItem{id, code, n, hasN, tok})
	r.mu.Unlock()
}

func (r *vpRec) snapshot() []vpItem {
	r.mu.Lock()
	defer r.mu.Unlock()
	return append([]vpItem(nil), r.tr...)
}

// vpRecPoll is what the operators' `poll` field points to: logs Control calls, forwards to the real poll
type vpRecPoll struct {
	p   *defaultPoll
	rec *vpRec
	ids map[*FDOperator]int
}

func (r *vpRecPoll) Wait() error    { return r.p.Wait() }
func (r *vpRecPoll) Close() error   { return r.p.Close() }
func (r *vpRecPoll) Trigger() error { return r.p.Trigger() }
func (r *vpRecPoll) Control(op *FDOperator, ev PollEvent) error {
	if ev == PollDetach {
		vrMapMu.Lock()
		id := r.ids[op]
		vrMapMu.Unlock()
		r.rec.add(id, "D", 0, false, atomic.LoadInt32(&op.state))
	}
	return r.p.Control(op, ev)
}
func (r *vpRecPoll) Alloc() *FDOperator   { return r.p.Alloc() }
func (r *vpRecPoll) Free(op *FDOperator) { r.p.Free(op) }

func vpShape(s string, i *int) byte {
	if *i < len(s) {
		c := s[*i]
		*i++
		return c
	}
	*i++
	return 'r'
}

// vpOperator builds the recording FDOperator for one event
func vpOperator(e *vpEv, fd int, rec *vpRec) *FDOperator {
	op := &FDOperator{FD: fd}
	id := e.id
	tok := func() int32 { return atomic.LoadInt32(&op.state) }
	if e.has('R') {
		op.OnRead = func(p Poll) error { rec.add(id, "R", 0, false, tok()); return nil }
	}
	if e.has('W') {
		op.OnWrite = func(p Poll) error { rec.add(id, "W", 0, false, tok()); return nil }
	}
	if e.has('H') {
		op.OnHup = func(p Poll) error { rec.add(id, "H", 0, false, tok()); return nil }
	}
	if e.has('I') {
		buf := make([]byte, e.cap)
		icall, off := 0, 0
		op.Inputs = func(vs [][]byte) [][]byte {
			rec.add(id, "I", 0, false, tok())
			switch vpShape(e.ins, &icall) {
			case 'e':
				return vs[:0]
			case 'z':
				vs[0] = nil
				return vs[:1]
			}
			vs[0] = buf
			return vs[:1]
		}
		op.InputAck = func(n int) error {
			rec.add(id, "A", n, true, tok())
			if n > 0 {
				// bytes must arrive in stream order
				for i := 0; i < n && i < len(buf); i++ {
					if buf[i] != vpPat(off+i) {
						rec.add(id, "BADBYTES", off+i, true, tok())
						break
					}
				}
				off += n
			}
			return nil
		}
	}
	if e.has('O') {
		out := make([]byte, e.ol)
		ocall := 0
		op.Outputs = func(vs [][]byte) ([][]byte, bool) {
			rec.add(id, "O", 0, false, tok())
			switch vpShape(e.outs, &ocall) {
			case 'e':
				return vs[:0], false
			case 'z':
				vs[0] = nil
				return vs[:1], false
			}
			vs[0] = out
			return vs[:1], false
		}
		op.OutputAck = func(n int) error { rec.add(id, "B", n, true, tok()); return nil }
	}
	return op
}

func vpFdClosed(fd int) bool {
	_, _, e := syscall.RawSyscall(syscall.SYS_FCNTL, uintptr(fd), syscall.F_GETFD, 0)
	return e == syscall.EBADF
}

// vpRegistered: descriptors in the interest list of epoll instance epfd (from /proc/self/fdinfo)
func vpRegistered(epfd int) map[int]bool {
	m := map[int]bool{}
	data, err := os.ReadFile("/proc/self/fdinfo/" + strconv.Itoa(epfd))
	if err != nil {
		return m
	}
	for _, l := range strings.Split(string(data), "\n") {
		if strings.HasPrefix(l, "tfd:") {
			f := strings.Fields(l)
			if len(f) >= 2 {
				n, _ := strconv.Atoi(f[1])
				m[n] = true
			}
		}
	}
	return m
}

func vpOpenFds() int {
	ents, err := os.ReadDir("/proc/self/fd")
	if err != nil {
		return -1
	}
	return len(ents)
}

func vpWaitGoroutines(base int) bool {
	dl := time.Now().Add(20 * time.Second)
	for i := 0; runtime.NumGoroutine() > base; i++ {
		if time.Now().After(dl) {
			return false
		}
		if i < 200 {
			runtime.Gosched()
		} else {
			time.Sleep(50 * time.Microsecond)
		}
	}
	return true
}

// ---------------------------------------------------------------- one batch

// observations on twins are a function of (state, room, length); measured once per process and state
var vpObsCache = map[string]string{}

func vpCached(key string, f func() (string, error)) (string, error) {
	if v, ok := vpObsCache[key]; ok {
		return v, nil
	}
	v, err := f()
	if err == nil {
		vpObsCache[key] = v
	}
	return v, err
}

// vpObserve fills in the scripts of a non-wake event (only the ones the flags and callbacks can consult)
func vpObserve(e *vpEv) error {
	var err error
	e.rds, e.sds, e.errq, e.wake = "", "", "", ""
	nreads := 0
	if e.has('I') {
		if e.rds, err = vpCached(fmt.Sprint("r/", e.ds, "/", e.cap), func() (string, error) { return vpObserveReads(e.ds, e.cap) }); err != nil {
			return err
		}
		nreads = strings.Count(e.rds, ",") + 1
	}
	if e.evt&syscall.EPOLLERR != 0 {
		if e.errq, err = vpCached(fmt.Sprint("q/", e.ds, "/", e.cap, "/", nreads), func() (string, error) { return vpObserveErrq(e.ds, e.cap, nreads) }); err != nil {
			return err
		}
	}
	if e.has('O') {
		if e.sds, err = vpCached(fmt.Sprint("s/", e.ds, "/", e.cap, "/", e.ol), func() (string, error) { return vpObserveSend(e.ds, e.cap, e.ol) }); err != nil {
			return err
		}
	}
	return nil
}

func vpSizeFor(n int) int {
	size := 128
	for size < n {
		size <<= 1
	}
	return size
}

// vpReset is p.Reset(size, barriercap) with the event and barrier arrays of an earlier call reused
// (allocating 128 barriers per case dominates the run time otherwise)
var vpArgs = map[int]*pollArgs{}
var vpSpare *defaultPoll

func vpReset(p *defaultPoll, size int) {
	a := vpArgs[size]
	if a == nil {
		a = &pollArgs{}
		a.reset(size, barriercap)
		vpArgs[size] = a
	}
	for i := range a.events {
		a.events[i] = epollevent{}
	}
	p.size, p.caps, p.events, p.barriers, p.hups = a.size, a.caps, a.events, a.barriers, nil
}

// vpRunBatch prepares everything, prints the op line, runs the real handler, prints the reply line
func vpRunBatch(evs []*vpEv, buf0 byte, ow, iw *bufio.Writer) {
	reply := func(s string) { fmt.Fprintln(iw, s); iw.Flush() }
	// a private poll instance; kept for the next batch when this one leaves it untouched (no wake-up event)
	hasWake := false
	for _, e := range evs {
		if e.kind == "K" {
			hasWake = true
		}
	}
	p := vpSpare
	vpSpare = nil
	if p == nil {
		var err error
		if p, err = openDefaultPoll(); err != nil {
			fmt.Fprintf(ow, "batch n=0 buf0=0 size=128\n")
			ow.Flush()
			reply("harness-error open: " + err.Error())
			return
		}
	}
	size := vpSizeFor(len(evs))
	vpReset(p, size)
	p.buf[0] = buf0
	atomic.StoreUint32(&p.trigger, 7)
	rec := &vpRec{}
	rp := &vpRecPoll{p: p, rec: rec, ids: map[*FDOperator]int{}}
	descs := make([]*vpDesc, len(evs))
	ops := make([]*FDOperator, len(evs))
	var perr error
	for i, e := range evs {
		if e.kind == "K" {
			// the wake-up operator: ds = wake:<trigger writes>:<close writes>:<nonblocking eventfd>
			var t, c, nb int
			fmt.Sscanf(e.ds, "wake:%d:%d:%d", &t, &c, &nb)
			if nb != 0 {
				r0, _, e0 := syscall.Syscall(syscall.SYS_EVENTFD2, 0, syscall.O_NONBLOCK, 0)
				if e0 != 0 {
					perr = e0
					break
				}
				EpollCtl(p.fd, syscall.EPOLL_CTL_DEL, p.wop.FD, &epollevent{})
				syscall.Close(p.wop.FD)
				p.wop.FD = int(r0)
				p.wop.state = 0
				if perr = p.Control(p.wop, PollReadable); perr != nil {
					break
				}
			}
			for j := 0; j < t; j++ {
				syscall.Write(p.wop.FD, []byte{0, 0, 0, 0, 0, 0, 0, 1})
			}
			for j := 0; j < c; j++ {
				syscall.Write(p.wop.FD, []byte{1, 0, 0, 0, 0, 0, 0, 0})
			}
			e.rds, e.sds, e.errq = "", "", ""
			if t+c > 0 {
				e.wake = strconv.FormatUint(uint64(t)<<56+uint64(c), 10)
			} else {
				e.wake = ""
			}
			ops[i] = p.wop
			rp.ids[p.wop] = e.id
			p.wop.state = e.st
			continue
		}
		if perr = vpObserve(e); perr != nil {
			break
		}
		if descs[i], perr = vpPrepare(e.ds, e.cap); perr != nil {
			break
		}
		op := vpOperator(e, descs[i].a, rec)
		op.poll = rp
		rp.ids[op] = e.id
		if perr = p.Control(op, PollReadable); perr != nil {
			break
		}
		op.state, op.detached = e.st, e.det
		ops[i] = op
	}
	strs := make([]string, len(evs))
	for i, e := range evs {
		strs[i] = e.String()
	}
	fmt.Fprintf(ow, "batch n=%d buf0=%d size=%d ; %s\n", len(evs), buf0, size, strings.Join(strs, " ; "))
	ow.Flush()
	cleanup := func(exited bool) {
		for _, d := range descs {
			if d != nil {
				d.close() // closing a descriptor also removes it from the interest list
			}
		}
		if !hasWake && !exited && perr == nil && len(p.hups) == 0 {
			vpSpare = p
			return
		}
		if !vpFdClosed(p.wop.FD) && !exited {
			syscall.Close(p.wop.FD)
		}
		if !vpFdClosed(p.fd) && !exited {
			syscall.Close(p.fd)
		}
	}
	if perr != nil {
		cleanup(false)
		reply("harness-error prepare: " + perr.Error())
		return
	}
	for i := range evs {
		p.events[i].events = evs[i].evt
		p.setOperator(unsafe.Pointer(&p.events[i].data), ops[i])
	}
	wopFD, epFD := p.wop.FD, p.fd
	base := runtime.NumGoroutine()
	closed, panicked := false, ""
	func() {
		defer func() {
			if r := recover(); r != nil {
				panicked = fmt.Sprint(r)
			}
		}()
		closed = p.handler(p.events[:len(evs)])
	}()
	if !vpWaitGoroutines(base) {
		panicked += " hup-goroutine-did-not-finish"
	}
	runtime.KeepAlive(ops)
	if panicked != "" {
		cleanup(false)
		reply("panic " + strings.Join(strings.Fields(panicked), "_"))
		return
	}
	// ---- reply
	var tr, st, reg, got []string
	for _, it := range rec.snapshot() {
		s := strconv.Itoa(it.id) + ":" + it.code
		if it.hasN {
			s += strconv.Itoa(it.n)
		}
		tr = append(tr, s+"@"+strconv.Itoa(int(it.tok)))
	}
	wopClosed, epClosed := vpFdClosed(wopFD), vpFdClosed(epFD)
	regset := map[int]bool{}
	if !epClosed {
		if len(evs) > 8 {
			regset = vpRegistered(epFD)
		} else {
			// EPOLL_CTL_MOD fails with ENOENT exactly when the descriptor is not in the interest list
			for i := range evs {
				ev := epollevent{events: syscall.EPOLLIN}
				regset[ops[i].FD] = EpollCtl(epFD, syscall.EPOLL_CTL_MOD, ops[i].FD, &ev) == nil
			}
		}
	}
	for i, e := range evs {
		st = append(st, fmt.Sprintf("%d:%d/%d", e.id, atomic.LoadInt32(&ops[i].state), atomic.LoadInt32(&ops[i].detached)))
		if !epClosed {
			r := 0
			if regset[ops[i].FD] {
				r = 1
			}
			reg = append(reg, fmt.Sprintf("%d:%d", e.id, r))
		}
		g := 0
		if descs[i] != nil && descs[i].b >= 0 {
			g = vpDrain(descs[i].b) - descs[i].prefill
		}
		got = append(got, fmt.Sprintf("%d:%d", e.id, g))
	}
	j := func(l []string) string {
		if len(l) == 0 {
			return "-"
		}
		return strings.Join(l, ",")
	}
	b2 := func(b bool) string {
		if b {
			return "1"
		}
		return "0"
	}
	reply(fmt.Sprintf("tr=%s exit=%s st=%s reg=%s got=%s trig=%d closed=%s%s buf0=%d",
		j(tr), b2(closed), j(st), j(reg), j(got), atomic.LoadUint32(&p.trigger), b2(wopClosed), b2(epClosed), p.buf[0]))
	cleanup(closed)
}

// ---------------------------------------------------------------- enumeration (the finite part)

var vpStates = []string{"idle", "data", "big", "eof", "dataeof", "bigeof", "shutwr", "datashut", "reset", "datareset", "full", "datafull"}
var vpInsVariants = []string{"", "e", "z", "re"}
var vpOutsVariants = []string{"", "e", "z"}
var vpWakeStates = []string{"wake:1:0:0", "wake:0:1:0", "wake:1:1:0", "wake:2:0:0", "wake:0:3:0", "wake:0:0:1", "wake:1:0:1", "wake:0:1:1"}

const vpCap = 8

// the five event bits of the property: IN, OUT, ERR, HUP, RDHUP
func vpFlagSet(i int) uint32 {
	bits := []uint32{syscall.EPOLLIN, syscall.EPOLLOUT, syscall.EPOLLERR, syscall.EPOLLHUP, syscall.EPOLLRDHUP}
	var m uint32
	for k, b := range bits {
		if i&(1<<uint(k)) != 0 {
			m |= b
		}
	}
	return m
}

func vpKindSet(i int) string {
	s := ""
	for k, c := range "RWHIO" {
		if i&(1<<uint(k)) != 0 {
			s += string(c)
		}
	}
	return s
}

// vpEnumerate calls f on every case of the finite part, in a fixed order:
//
//	A. 32 flag sets x 32 callback sets x 12 descriptor states, token free (state 1), not yet detached,
//	   x Inputs shapes (4, if Inputs present) x Outputs shapes (3, if Outputs present);
//	   and the same 32 x 32 x 12 with the detach-once counter already taken (plain shapes)
//	B. 32 flag sets x 32 callback sets x token states {0 unused, 2 busy}: do() fails
//	C. 32 flag sets x 8 wake-up descriptor states x stale buffer byte {0,1}, and token not available
func vpEnumerate(f func(e *vpEv, buf0 byte)) {
	for fl := 0; fl < 32; fl++ {
		for k := 0; k < 32; k++ {
			kind := vpKindSet(k)
			insv, outsv := []string{""}, []string{""}
			if strings.Contains(kind, "I") {
				insv = vpInsVariants
			}
			if strings.Contains(kind, "O") {
				outsv = vpOutsVariants
			}
			for _, ds := range vpStates {
				for _, ins := range insv {
					for _, outs := range outsv {
						f(&vpEv{evt: vpFlagSet(fl), kind: kind, st: 1, det: 0, ds: ds, cap: vpCap, ol: vpSmall, ins: ins, outs: outs}, 0)
					}
				}
				// someone else (a concurrent Detach) already took the detach-once counter
				f(&vpEv{evt: vpFlagSet(fl), kind: kind, st: 1, det: 1, ds: ds, cap: vpCap, ol: vpSmall}, 0)
			}
			for _, st := range []int32{0, 2} {
				f(&vpEv{evt: vpFlagSet(fl), kind: kind, st: st, det: 0, ds: "dataeof", cap: vpCap, ol: vpSmall}, 0)
			}
		}
		for _, ws := range vpWakeStates {
			for b := byte(0); b < 2; b++ {
				f(&vpEv{evt: vpFlagSet(fl), kind: "K", st: 1, ds: ws, cap: vpCap, ol: vpSmall}, b)
			}
		}
		f(&vpEv{evt: vpFlagSet(fl), kind: "K", st: 2, ds: "wake:0:1:0", cap: vpCap, ol: vpSmall}, 0)
	}
}

// ---------------------------------------------------------------- random batches

func vpRandEv(r *rand.Rand, id int) *vpEv {
	e := &vpEv{id: id, st: 1, cap: vpCap, ol: vpSmall}
	e.evt = vpFlagSet(r.Intn(32))
	if r.Intn(4) == 0 {
		// bits handler must ignore: EPOLLPRI, EPOLLRDNORM, EPOLLWRNORM, EPOLLMSG, EPOLLET
		extra := []uint32{0x2, 0x40, 0x100, 0x400, 0x80000000}
		e.evt |= extra[r.Intn(len(extra))]
	}
	switch r.Intn(10) {
	case 0, 1, 2, 3:
		e.kind = "HIO"
	case 4:
		e.kind = "IO"
	case 5:
		e.kind = "RH"
	case 6:
		e.kind = "WH"
	default:
		e.kind = vpKindSet(r.Intn(32))
	}
	e.ds = vpStates[r.Intn(len(vpStates))]
	if r.Intn(12) == 0 {
		e.st = int32(r.Intn(3))
	}
	if r.Intn(10) == 0 {
		e.det = 1
	}
	if r.Intn(6) == 0 {
		e.ins = vpInsVariants[r.Intn(len(vpInsVariants))]
	}
	if r.Intn(6) == 0 {
		e.outs = vpOutsVariants[r.Intn(len(vpOutsVariants))]
	}
	if r.Intn(5) == 0 {
		e.cap = []int{1, 3, 5, 16, 64}[r.Intn(5)]
	}
	if r.Intn(8) == 0 {
		e.ol = []int{1, 64, 1000, 3000}[r.Intn(4)]
	}
	return e
}

// batch sizes: small ones, and the sizes around the event-array growth rule (n == size => double)
var vpBatchSizes = []int{1, 2, 3, 4, 7, 16, 127, 128, 129, 255, 256, 257}

func vpRandBatch(r *rand.Rand, tier string) ([]*vpEv, byte) {
	n := vpBatchSizes[r.Intn(len(vpBatchSizes))]
	if r.Intn(3) != 0 {
		n = vpBatchSizes[r.Intn(6)]
	}
	if tier == "thorough" && r.Intn(40) == 0 {
		n = []int{511, 512, 513}[r.Intn(3)]
	}
	evs := make([]*vpEv, n)
	for i := range evs {
		evs[i] = vpRandEv(r, i)
	}
	if r.Intn(4) == 0 {
		// the wake-up descriptor somewhere in the batch
		i := r.Intn(n)
		evs[i] = &vpEv{id: i, evt: syscall.EPOLLIN, kind: "K", st: 1, ds: vpWakeStates[r.Intn(5)], cap: vpCap, ol: vpSmall}
	}
	return evs, 0
}

// ---------------------------------------------------------------- main

func vpParseBatch(line string) ([]*vpEv, byte, error) {
	parts := strings.Split(line, " ; ")
	var buf0 int
	for _, kv := range strings.Fields(parts[0]) {
		if strings.HasPrefix(kv, "buf0=") {
			buf0, _ = strconv.Atoi(kv[5:])
		}
	}
	var evs []*vpEv
	for _, s := range parts[1:] {
		e, err := vpParseEv(s)
		if err != nil {
			return nil, 0, err
		}
		evs = append(evs, e)
	}
	return evs, byte(buf0), nil
}

func VerifPollHMain(args []string) int {
	fs := flag.NewFlagSet("pollh", flag.ContinueOnError)
	mode := fs.String("mode", "enum", "enum | rand | real | replay | count")
	seed := fs.Int64("seed", 1, "")
	shard := fs.Int("shard", 0, "")
	nshards := fs.Int("nshards", 1, "")
	n := fs.Int("n", 100, "number of random batches / real-scenario rounds")
	tier := fs.String("tier", "quick", "")
	opsOut := fs.String("ops-out", "", "")
	implOut := fs.String("impl-out", "", "")
	replay := fs.String("replay", "", "")
	if err := fs.Parse(args); err != nil {
		return 2
	}
	logger = log.New(io.Discard, "", 0)
	var rl syscall.Rlimit
	if syscall.Getrlimit(syscall.RLIMIT_NOFILE, &rl) == nil && rl.Cur < rl.Max {
		rl.Cur = rl.Max
		syscall.Setrlimit(syscall.RLIMIT_NOFILE, &rl)
	}
	if *mode == "count" {
		c := 0
		vpEnumerate(func(*vpEv, byte) { c++ })
		fmt.Println(c)
		return 0
	}
	of, err := os.Create(*opsOut)
	if err != nil {
		fmt.Fprintln(os.Stderr, err)
		return 2
	}
	defer of.Close()
	ifile, err := os.Create(*implOut)
	if err != nil {
		fmt.Fprintln(os.Stderr, err)
		return 2
	}
	defer ifile.Close()
	ow, iw := bufio.NewWriterSize(of, 1<<16), bufio.NewWriterSize(ifile, 1<<16)
	defer ow.Flush()
	defer iw.Flush()
	// watchdog: the harness never blocks for long on its own
	progress := int64(0)
	go func() {
		last := int64(-1)
		for {
			time.Sleep(300 * time.Second)
			cur := atomic.LoadInt64(&progress)
			if cur == last {
				fmt.Fprintln(os.Stderr, "pollh: no progress for 300s, giving up")
				ow.Flush()
				iw.Flush()
				os.Exit(3)
			}
			last = cur
		}
	}()
	fds0 := vpOpenFds()
	switch *mode {
	case "enum":
		idx := 0
		vpEnumerate(func(e *vpEv, buf0 byte) {
			if idx%*nshards == *shard {
				vpRunBatch([]*vpEv{e}, buf0, ow, iw)
				atomic.AddInt64(&progress, 1)
			}
			idx++
		})
	case "rand":
		r := rand.New(rand.NewSource(*seed))
		for i := 0; i < *n; i++ {
			evs, b := vpRandBatch(r, *tier)
			vpRunBatch(evs, b, ow, iw)
			atomic.AddInt64(&progress, 1)
		}
	case "real":
		vpRealMain(*seed, *n, *tier, ow, iw, &progress)
	case "replay":
		f, err := os.Open(*replay)
		if err != nil {
			fmt.Fprintln(os.Stderr, err)
			return 2
		}
		defer f.Close()
		fds0++ // the replay file itself
		sc := bufio.NewScanner(f)
		sc.Buffer(make([]byte, 1<<22), 1<<22)
		for sc.Scan() {
			line := strings.TrimSpace(sc.Text())
			if line == "" || strings.HasPrefix(line, "#") {
				continue
			}
			if strings.HasPrefix(line, "real ") {
				vpRealReplay(line, ow, iw)
				continue
			}
			evs, b, err := vpParseBatch(line)
			if err != nil {
				fmt.Fprintln(os.Stderr, err)
				return 2
			}
			vpRunBatch(evs, b, ow, iw)
			atomic.AddInt64(&progress, 1)
		}
	default:
		return 2
	}
	if vpListener >= 0 {
		syscall.Close(vpListener)
		vpListener = -1
	}
	if vpSpare != nil {
		syscall.Close(vpSpare.wop.FD)
		syscall.Close(vpSpare.fd)
		vpSpare = nil
	}
	// every descriptor the harness or the poller opened is closed again
	if fds1 := vpOpenFds(); fds1 != fds0 {
		fmt.Fprintf(os.Stderr, "pollh: descriptor count changed %d -> %d\n", fds0, fds1)
		ow.Flush()
		iw.Flush()
		return 4
	}
	_ = sort.Strings
	return 0
}
