//go:build verif
// +build verif

package netpoll

// Harness for property C14 (a dial ends in a usable connection or a clean error within its
// timeout).  Added to package netpoll at build time with `go build -overlay`.
//
// Two modes:
//
//   scripted  The real dial code (DialTCP -> sysDialer.dialTCP -> socket -> netFD.dial ->
//             netFD.connect -> pollDesc) runs on never-ready descriptors (write ends of full
//             pipes) while every system call of the connect path is answered from a script
//             (the call sites `syscall.Connect/GetsockoptInt/Getpeername/Getsockname`,
//             `sysSocket`, `setDefaultSockopts` are renamed to the verif* shims below in a copy of
//             /repo's current net_netfd.go / net_sock.go that lib/dialrun.py regenerates on every
//             run), the harness plays the poller (do / OnWrite / detach + OnHup / done on the
//             temporary operator) and owns the context.  Each scenario is written as one script
//             line (the choices select made are read off what the code did next) plus the
//             observed outcome and ledger; `npdriver dial` replays the script on the Lean model.
//   real      Unmodified code, real sockets: loopback listeners served by a child process
//             (accepting+echo, bound-but-not-listening = refusing, full backlog = silent drop,
//             resetting, unix), timeouts from far below to far above the connect latency,
//             concurrent dials, ctx cancellation via DialTCP; per dial: result, error class,
//             Timeout(), elapsed, descriptor / operator-slot / epoll-registration census.
//
// Every random choice derives from -seed.

import (
	"bufio"
	"context"
	"flag"
	"fmt"
	"io"
	"math/rand"
	"net"
	"os"
	"os/exec"
	"path/filepath"
	"runtime"
	"sort"
	"strconv"
	"strings"
	"sync"
	"sync/atomic"
	"syscall"
	"time"
)

// ---------------------------------------------------------------------------------------------
// syscall shims (referenced only by the rewritten copies of net_netfd.go / net_sock.go)

type vReq struct {
	kind string
	fd   int
	rep  chan vRep
}

type vRep struct {
	errno syscall.Errno
	n     int
	ok    bool
	fd    int
	sa    syscall.Sockaddr
}

// vShimCh is non-nil only while the scripted controller runs one scenario.
var vShimCh chan *vReq

func vAsk(kind string, fd int) vRep {
	r := &vReq{kind: kind, fd: fd, rep: make(chan vRep, 1)}
	vShimCh <- r
	return <-r.rep
}

func vErr(e syscall.Errno) error {
	if e == 0 {
		return nil
	}
	return e
}

func verifSysConnect(fd int, sa syscall.Sockaddr) error {
	if vShimCh != nil {
		return vErr(vAsk("connect", fd).errno)
	}
	return syscall.Connect(fd, sa)
}

func verifSysGetsockoptInt(fd, level, opt int) (int, error) {
	if vShimCh != nil {
		r := vAsk("getsockopt", fd)
		return r.n, vErr(r.errno)
	}
	return syscall.GetsockoptInt(fd, level, opt)
}

func verifSysGetpeername(fd int) (syscall.Sockaddr, error) {
	if vShimCh != nil {
		r := vAsk("getpeername", fd)
		if r.ok {
			return r.sa, nil
		}
		return nil, syscall.ENOTCONN
	}
	return syscall.Getpeername(fd)
}

func verifSysGetsockname(fd int) (syscall.Sockaddr, error) {
	if vShimCh != nil {
		r := vAsk("getsockname", fd)
		if r.ok {
			return r.sa, nil
		}
		return nil, syscall.EBADF
	}
	return syscall.Getsockname(fd)
}

func verifSysSocket(family, sotype, proto int) (int, error) {
	if vShimCh != nil {
		r := vAsk("socket", -1)
		if r.errno != 0 {
			return -1, os.NewSyscallError("socket", r.errno)
		}
		return r.fd, nil
	}
	return sysSocket(family, sotype, proto)
}

func verifSetDefaultSockopts(fd, family, sotype int, ipv6only bool) error {
	if vShimCh != nil {
		r := vAsk("sockopt", fd)
		if r.errno != 0 {
			return os.NewSyscallError("setsockopt", r.errno)
		}
		return nil
	}
	return setDefaultSockopts(fd, family, sotype, ipv6only)
}

// ---------------------------------------------------------------------------------------------
// observation helpers

func vFdOpen(fd int) bool {
	_, _, e := syscall.Syscall(syscall.SYS_FCNTL, uintptr(fd), syscall.F_GETFD, 0)
	return e == 0
}

// vSocketFds: descriptors of this process that are sockets (number -> inode text)
func vSocketFds() map[int]string {
	m := map[int]string{}
	ents, err := os.ReadDir("/proc/self/fd")
	if err != nil {
		return m
	}
	for _, e := range ents {
		n, err := strconv.Atoi(e.Name())
		if err != nil {
			continue
		}
		l, err := os.Readlink("/proc/self/fd/" + e.Name())
		if err == nil && strings.HasPrefix(l, "socket:") {
			m[n] = l
		}
	}
	return m
}

func vPolls() []*defaultPoll {
	pollmanager.Pick()
	var ps []*defaultPoll
	for _, p := range pollmanager.polls {
		ps = append(ps, p.(*defaultPoll))
	}
	return ps
}

// vSlotsInUse: operators handed out by Alloc and not yet given back by Free, over all pollers
func vSlotsInUse() int {
	n := 0
	for _, p := range vPolls() {
		c := p.opcache
		lock(&c.freelocked)
		lock(&c.locked)
		n += len(c.cache) - len(c.freelist)
		for op := c.first; op != nil; op = op.next {
			n--
		}
		unlock(&c.locked)
		unlock(&c.freelocked)
	}
	return n
}

type vReg struct {
	fd     int
	events uint32
}

// vEpollRegs: registrations of all pollers' epoll sets, read from /proc/self/fdinfo
func vEpollRegs() []vReg {
	var regs []vReg
	for _, p := range vPolls() {
		b, err := os.ReadFile(fmt.Sprintf("/proc/self/fdinfo/%d", p.fd))
		if err != nil {
			continue
		}
		for _, l := range strings.Split(string(b), "\n") {
			f := strings.Fields(l)
			if len(f) >= 4 && f[0] == "tfd:" && f[2] == "events:" {
				fd, _ := strconv.Atoi(f[1])
				ev, _ := strconv.ParseUint(f[3], 16, 32)
				if fd == p.wop.FD {
					continue
				}
				regs = append(regs, vReg{fd, uint32(ev)})
			}
		}
	}
	return regs
}

func vSanitize(s string) string {
	s = strings.Map(func(r rune) rune {
		if r == ' ' || r == '\n' || r == '\t' || r == '=' {
			return '_'
		}
		return r
	}, s)
	if len(s) > 80 {
		s = s[:80]
	}
	return s
}

// vdClassify maps an error of the dial path to the model's error classes.
func vdClassify(err error) (class string, timeout bool) {
	if err == nil {
		return "-", false
	}
	if ne, ok := err.(net.Error); ok {
		timeout = ne.Timeout()
	}
	inner := err
	if oe, ok := err.(*net.OpError); ok {
		inner = oe.Err
	}
	switch {
	case inner == errIOTimeout:
		return "ctx:deadline", timeout
	case inner == errCanceled:
		return "ctx:canceled", timeout
	case inner == errMissingAddress:
		return "addr", timeout
	}
	switch e := inner.(type) {
	case *exception:
		if e.no == ErrConnClosed && e.suffix == "by peer" {
			return "closedByPeer", timeout
		}
		if e.no == ErrConnClosed {
			// connection.register: Exception(ErrConnClosed, err.Error()) - recover the errno from its text
			for n := 1; n < 134; n++ {
				if syscall.Errno(n).Error() == e.suffix {
					return "register:" + strconv.Itoa(n), timeout
				}
			}
			return "register:" + vSanitize(e.suffix), timeout
		}
		return "exception:" + strconv.Itoa(int(e.no)), timeout
	case *os.SyscallError:
		no, _ := e.Err.(syscall.Errno)
		switch e.Syscall {
		case "connect":
			return "sysConnect:" + strconv.Itoa(int(no)), timeout
		case "getsockopt":
			return "sysGetsockopt:" + strconv.Itoa(int(no)), timeout
		case "socket", "setnonblock":
			return "sysSocket:" + strconv.Itoa(int(no)), timeout
		case "setsockopt":
			return "setsockopt:" + strconv.Itoa(int(no)), timeout
		case "bind":
			return "bind:" + strconv.Itoa(int(no)), timeout
		}
		return "syscall:" + e.Syscall + ":" + strconv.Itoa(int(no)), timeout
	case syscall.Errno:
		return "epollCtl:" + strconv.Itoa(int(e)), timeout
	case *net.AddrError:
		return "addr", timeout
	}
	return "other:" + vSanitize(inner.Error()), timeout
}

func vB(b bool) int {
	if b {
		return 1
	}
	return 0
}

// ---------------------------------------------------------------------------------------------
// scripted mode

type vWakeRec struct {
	evs  string
	pick byte
	ctl  int
	gso  int
	so   int
	peer bool
}

func (w *vWakeRec) String() string {
	evs := w.evs
	if evs == "" {
		evs = "-"
	}
	return fmt.Sprintf("%s/%c/%d/%d/%d/%d", evs, w.pick, w.ctl, w.gso, w.so, vB(w.peer))
}

type vAttRec struct {
	fd    int
	sock  int
	opt   int
	ctx   byte
	e0    int
	local bool
	self  bool
	late  string
	wakes []*vWakeRec
}

func (a *vAttRec) String() string {
	ws := make([]string, len(a.wakes))
	for i, w := range a.wakes {
		ws[i] = w.String()
	}
	wakes := strings.Join(ws, ",")
	if wakes == "" {
		wakes = "-"
	}
	late := a.late
	if late == "" {
		late = "-"
	}
	return fmt.Sprintf("att fd=%d sock=%d opt=%d addr=0 bind=0 ctx=%c e0=%d local=%d self=%d late=%s wakes=%s",
		a.fd, a.sock, a.opt, a.ctx, a.e0, vB(a.local), vB(a.self), late, wakes)
}

type vFakeCtx struct {
	done chan struct{}
	mu   sync.Mutex
	err  error
}

func newVFakeCtx() *vFakeCtx                      { return &vFakeCtx{done: make(chan struct{})} }
func (c *vFakeCtx) Deadline() (time.Time, bool)   { return time.Time{}, false }
func (c *vFakeCtx) Done() <-chan struct{}         { return c.done }
func (c *vFakeCtx) Value(interface{}) interface{} { return nil }
func (c *vFakeCtx) Err() error                    { c.mu.Lock(); defer c.mu.Unlock(); return c.err }
func (c *vFakeCtx) fired() bool                   { return c.Err() != nil }
func (c *vFakeCtx) fire(kind byte) {
	c.mu.Lock()
	if c.err == nil {
		if kind == 'D' {
			c.err = context.DeadlineExceeded
		} else {
			c.err = context.Canceled
		}
		close(c.done)
	}
	c.mu.Unlock()
}

// vChooser supplies the environment's decisions: from the PRNG, or from a recorded script (replay).
type vChooser interface {
	reg() int // errno to provoke in connection.register (0 or 17)
	attempt(i int, ctxFired bool) *vAttRec
	ctl(i int) int                             // errno of EPOLL_CTL_ADD to provoke (0 or 17)
	firstWake(i int) (ev byte, late string)    // the event that wakes the first select
	sockopt(i, j int) (gso, so int, peer bool) // answers for iteration j
	preEvents(i, j int) string                 // events delivered before the select of iteration j (j ≥ 1)
	late(i, j int) string                      // events of a poller holding the token when connect returns after iteration j
}

type vRandChooser struct{ r *rand.Rand }

func vPickW(r *rand.Rand, vals []int, weights []int) int {
	t := 0
	for _, w := range weights {
		t += w
	}
	x := r.Intn(t)
	for i, w := range weights {
		if x < w {
			return vals[i]
		}
		x -= w
	}
	return vals[len(vals)-1]
}

func (c *vRandChooser) reg() int {
	if c.r.Intn(16) == 0 {
		return 17
	}
	return 0
}

func (c *vRandChooser) attempt(i int, ctxFired bool) *vAttRec {
	r := c.r
	a := &vAttRec{ctx: '-', local: true}
	if r.Intn(50) == 0 {
		a.sock = 24
	}
	if r.Intn(50) == 0 {
		a.opt = 92
	}
	if !ctxFired {
		switch x := r.Intn(100); {
		case x < 6:
			a.ctx = 'D'
		case x < 9:
			a.ctx = 'C'
		}
	}
	a.e0 = vPickW(r, []int{115, 0, 106, 114, 4, 22, 111, 99, 101, 110}, []int{56, 8, 3, 4, 4, 2, 6, 12, 3, 2})
	a.local = r.Intn(20) != 0
	a.self = r.Intn(12) == 0
	return a
}

func (c *vRandChooser) ctl(i int) int {
	if c.r.Intn(25) == 0 {
		return 17
	}
	return 0
}

func (c *vRandChooser) randEvs(n int, alphabet string) string {
	b := make([]byte, n)
	for i := range b {
		b[i] = alphabet[c.r.Intn(len(alphabet))]
	}
	return string(b)
}

func (c *vRandChooser) firstWake(i int) (byte, string) {
	ev := byte(vPickW(c.r, []int{'W', 'H', 'D', 'C'}, []int{62, 16, 14, 8}))
	late := ""
	if ev != 'W' && c.r.Intn(2) == 0 {
		late = c.randEvs(1+c.r.Intn(2), "WHWHDC")
	}
	return ev, late
}

func (c *vRandChooser) sockopt(i, j int) (int, int, bool) {
	gso := 0
	if c.r.Intn(30) == 0 {
		gso = 9
	}
	so := vPickW(c.r, []int{0, 115, 114, 4, 106, 111, 99, 110, 104, 113}, []int{34, 10, 5, 5, 8, 14, 12, 4, 4, 4})
	return gso, so, c.r.Intn(4) != 0
}

func (c *vRandChooser) preEvents(i, j int) string {
	if c.r.Intn(5) < 2 {
		return ""
	}
	return c.randEvs(1+c.r.Intn(3), "WHHDCW")
}

func (c *vRandChooser) late(i, j int) string {
	if c.r.Intn(5) < 3 {
		return ""
	}
	return c.randEvs(1+c.r.Intn(2), "WHWHDC")
}

// vScriptChooser replays a recorded scenario (attempts beyond the script get defaults).
type vScriptChooser struct {
	atts   []*vAttRec
	regErr int
}

func (c *vScriptChooser) reg() int { return c.regErr }

func (c *vScriptChooser) att(i int) *vAttRec {
	if i < len(c.atts) {
		return c.atts[i]
	}
	return &vAttRec{ctx: '-', e0: 111, local: true}
}
func (c *vScriptChooser) wake(i, j int) *vWakeRec {
	a := c.att(i)
	if j < len(a.wakes) {
		return a.wakes[j]
	}
	return &vWakeRec{pick: 'w', so: 111, peer: true}
}
func (c *vScriptChooser) attempt(i int, ctxFired bool) *vAttRec {
	a := *c.att(i)
	a.wakes = nil
	a.late = ""
	return &a
}
func (c *vScriptChooser) ctl(i int) int { return c.wake(i, 0).ctl }
func (c *vScriptChooser) firstWake(i int) (byte, string) {
	w := c.wake(i, 0)
	ev := byte('W')
	if len(w.evs) > 0 {
		ev = w.evs[0]
	}
	late := ""
	if ev != 'W' {
		late = c.att(i).late
	}
	return ev, late
}
func (c *vScriptChooser) sockopt(i, j int) (int, int, bool) {
	w := c.wake(i, j)
	return w.gso, w.so, w.peer
}
func (c *vScriptChooser) preEvents(i, j int) string { return c.wake(i, j).evs }
func (c *vScriptChooser) late(i, j int) string {
	if j == len(c.att(i).wakes)-1 {
		return c.att(i).late
	}
	return ""
}

func vAct1(e int) string {
	switch syscall.Errno(e) {
	case syscall.EINPROGRESS, syscall.EALREADY, syscall.EINTR:
		return "wait"
	case 0, syscall.EISCONN:
		return "done"
	}
	return "fail"
}

func vAct2(e int) string {
	switch syscall.Errno(e) {
	case syscall.EINPROGRESS, syscall.EALREADY, syscall.EINTR:
		return "again"
	case syscall.EISCONN:
		return "okNil"
	case 0:
		return "peer"
	}
	return "fail"
}

type vPipe struct{ r, w, dup int }

func vFullPipe() (vPipe, error) {
	var p [2]int
	if err := syscall.Pipe2(p[:], syscall.O_NONBLOCK|syscall.O_CLOEXEC); err != nil {
		return vPipe{}, err
	}
	syscall.Syscall(syscall.SYS_FCNTL, uintptr(p[1]), 1031 /* F_SETPIPE_SZ */, 4096)
	buf := make([]byte, 4096)
	for {
		if _, err := syscall.Write(p[1], buf); err != nil {
			break
		}
	}
	d, err := syscall.Dup(p[1])
	if err != nil {
		return vPipe{}, err
	}
	return vPipe{r: p[0], w: p[1], dup: d}, nil
}

// vHangAfter: a scripted scenario normally takes a millisecond; on a heavily loaded machine the goroutines
// involved have been seen to stall for seconds, so "did not return" means much longer than that.
var vHangAfter = 30 * time.Second

type vDialResult struct {
	conn  *TCPConnection
	err   error
	panic string
}

// vFindOp: the temporary operator of descriptor fd (allocated by newPollDesc), ignoring operators
// that were already handed out before this scenario (a leaked one keeps its FD and callbacks)
func vFindOp(p *defaultPoll, fd int, stale map[*FDOperator]bool) *FDOperator {
	c := p.opcache
	lock(&c.locked)
	defer unlock(&c.locked)
	for _, op := range c.cache {
		if op.FD == fd && op.OnWrite != nil && !stale[op] {
			return op
		}
	}
	return nil
}

func vLiveOps(p *defaultPoll) map[*FDOperator]bool {
	c := p.opcache
	m := map[*FDOperator]bool{}
	lock(&c.locked)
	defer unlock(&c.locked)
	for _, op := range c.cache {
		if op.OnWrite != nil || op.OnHup != nil {
			m[op] = true
		}
	}
	return m
}

// vRegistered: the kernel holds a registration for fd (a poller event for the temporary operator
// can only exist once EPOLL_CTL_ADD has returned, which is after `inuse()` set state 1)
func vRegistered(fd int) bool {
	for _, rg := range vEpollRegs() {
		if rg.fd == fd && rg.events&syscall.EPOLLOUT != 0 {
			return true
		}
	}
	return false
}

// vRunScripted runs one scenario; returns the script line and the observation line.
func vRunScripted(ch vChooser, id int) (string, string) {
	poll := vPolls()[0]
	const maxAtt = 3
	var pipes []vPipe
	for i := 0; i < maxAtt; i++ {
		p, err := vFullPipe()
		if err != nil {
			return fmt.Sprintf("# scenario %d: pipe: %v", id, err), "skip"
		}
		pipes = append(pipes, p)
	}
	baseSlots := vSlotsInUse()
	stale := vLiveOps(poll)
	fctx := newVFakeCtx()
	shim := make(chan *vReq)
	vShimCh = shim
	done := make(chan vDialResult, 1)
	raddr := &TCPAddr{TCPAddr: net.TCPAddr{IP: net.IP{127, 0, 0, 1}, Port: 9}}
	go func() {
		var res vDialResult
		defer func() {
			if r := recover(); r != nil {
				res.panic = fmt.Sprint(r)
			}
			done <- res
		}()
		res.conn, res.err = DialTCP(fctx, "tcp", nil, raddr)
	}()

	var atts []*vAttRec
	var cur *vAttRec
	var curWake *vWakeRec // the wake item whose select has not returned yet
	var op *FDOperator
	var onw, onh func(Poll) error
	nsock := 0
	waitingFirst := false
	expectPeer, peerAns := false, false
	tokenHeld := false
	var lateDue time.Time
	lateEvs := ""
	preReg := -1 // descriptor the harness pre-registered to provoke EEXIST
	wantReg := ch.reg()
	ctxBefore := false // the context was already done when the current attempt started waiting
	var regFds []int   // descriptors pre-registered so that connection.register fails with EEXIST
	remoteSA := &syscall.SockaddrInet4{Port: 9, Addr: [4]byte{127, 0, 0, 1}}
	notes := ""

	deliver := func(ev byte, holding bool) {
		switch ev {
		case 'W':
			if holding {
				onw(poll)
			} else if op.do() {
				onw(poll)
				op.done()
			}
		case 'H':
			if holding {
				op.Control(PollDetach)
				onh(poll)
			} else if op.do() {
				op.Control(PollDetach) // appendHup: p.detach(operator)
				op.done()
				onh(poll) // onhups goroutine
			}
		case 'D', 'C':
			fctx.fire(ev)
		}
	}
	getOp := func() bool {
		if op == nil {
			op = vFindOp(poll, cur.fd, stale)
		}
		if op != nil && (onw == nil || onh == nil) {
			// newPollDesc assigns FD, OnWrite, OnHup one after the other: take the callbacks once both are there
			onw, onh = op.OnWrite, op.OnHup
		}
		return op != nil && onw != nil && onh != nil
	}

	// the late events of a held token are delivered when due - or at once if the dial goroutine got past the
	// deferred Free without waiting for the token (then the code under test did not call Free)
	releaseToken := func() {
		if tokenHeld {
			for k := 0; k < len(lateEvs); k++ {
				deliver(lateEvs[k], true)
			}
			op.done()
			tokenHeld = false
		}
	}
	deadline := time.Now().Add(vHangAfter)
	var res vDialResult
	hung := false
	tick := time.NewTicker(100 * time.Microsecond)
	defer tick.Stop()
loop:
	for {
		select {
		case r := <-shim:
			switch r.kind {
			case "socket":
				releaseToken()
				cur = ch.attempt(nsock, fctx.fired())
				atts = append(atts, cur)
				op, curWake, waitingFirst, expectPeer = nil, nil, false, false
				onw, onh = nil, nil
				if cur.sock != 0 {
					cur.fd = 3
					nsock++
					r.rep <- vRep{errno: syscall.Errno(cur.sock)}
					break
				}
				if nsock >= maxAtt {
					notes += " more-than-3-attempts"
					r.rep <- vRep{errno: syscall.EMFILE}
					break
				}
				cur.fd = pipes[nsock].w
				nsock++
				r.rep <- vRep{fd: cur.fd}
			case "sockopt":
				r.rep <- vRep{errno: syscall.Errno(cur.opt)}
			case "connect":
				if cur.ctx != '-' {
					fctx.fire(cur.ctx)
				}
				if vAct1(cur.e0) == "wait" {
					curWake = &vWakeRec{pick: 'w', peer: true}
					cur.wakes = append(cur.wakes, curWake)
					if ch.ctl(len(atts)-1) != 0 {
						var evt epollevent
						if err := EpollCtl(poll.fd, syscall.EPOLL_CTL_ADD, cur.fd, &evt); err == nil {
							preReg = cur.fd
							curWake.ctl = int(syscall.EEXIST)
						}
					}
					waitingFirst = true
					ctxBefore = fctx.fired()
				}
				r.rep <- vRep{errno: syscall.Errno(cur.e0)}
			case "getsockopt":
				waitingFirst = false
				if curWake == nil {
					// the code went round the loop where the errno tables say it returns
					notes += " loop-continued-after-return-condition"
					releaseToken()
					curWake = &vWakeRec{pick: 'w', peer: true}
					cur.wakes = append(cur.wakes, curWake)
				}
				j := len(cur.wakes) - 1
				w := curWake
				if j == 0 && !strings.Contains(w.evs, "W") && strings.Contains(cur.late, "W") {
					// the writable event delivered under the held token arrived before the goroutine had left
					// the select (and select took it): it is an event of this wake-up, not of the deferred Free
					w.evs += cur.late
					cur.late = ""
				}
				w.pick = 'w'
				w.gso, w.so, w.peer = ch.sockopt(len(atts)-1, j)
				returning := w.gso != 0 || vAct2(w.so) == "okNil" || vAct2(w.so) == "fail" || (vAct2(w.so) == "peer" && w.peer)
				if !getOp() {
					notes += " no-operator-at-getsockopt"
				}
				if returning {
					curWake = nil
					if op != nil {
						if l := ch.late(len(atts)-1, j); l != "" && op.do() {
							tokenHeld, lateEvs, cur.late = true, l, l
							lateDue = time.Now().Add(400 * time.Microsecond)
						}
					}
				} else {
					nw := &vWakeRec{pick: 'w', peer: true}
					nw.evs = ch.preEvents(len(atts)-1, j+1)
					if op != nil {
						for k := 0; k < len(nw.evs); k++ {
							deliver(nw.evs[k], false)
						}
					}
					cur.wakes = append(cur.wakes, nw)
					curWake = nw
				}
				expectPeer, peerAns = w.gso == 0 && vAct2(w.so) == "peer", w.peer
				r.rep <- vRep{n: w.so, errno: syscall.Errno(w.gso)}
			case "getpeername":
				if expectPeer {
					expectPeer = false
					r.rep <- vRep{ok: peerAns, sa: remoteSA}
				} else {
					r.rep <- vRep{ok: true, sa: remoteSA}
				}
			case "getsockname":
				if wantReg != 0 {
					// the connect has returned (its temporary registration is gone): occupy the descriptor's
					// place in the epoll set so that connection.register's EPOLL_CTL_ADD fails
					var evt epollevent
					if err := EpollCtl(poll.fd, syscall.EPOLL_CTL_ADD, cur.fd, &evt); err == nil {
						regFds = append(regFds, cur.fd)
					}
				}
				port := 10
				if cur.self {
					port = 9
				}
				r.rep <- vRep{ok: cur.local, sa: &syscall.SockaddrInet4{Port: port, Addr: [4]byte{127, 0, 0, 1}}}
			default:
				r.rep <- vRep{}
			}
		case res = <-done:
			break loop
		case <-tick.C:
			if time.Now().After(deadline) {
				hung = true
				break loop
			}
			if tokenHeld && time.Now().After(lateDue) {
				releaseToken()
			}
			if waitingFirst && curWake != nil && curWake.ctl == 0 && !fctx.fired() && getOp() && atomic.LoadInt32(&op.state) == 1 && vRegistered(cur.fd) {
				// the goroutine is (about to be) parked in WaitWrite's select with nothing ready: wake it
				waitingFirst = false
				ev, late := ch.firstWake(len(atts) - 1)
				curWake.evs = string(ev)
				if late != "" && op.do() {
					tokenHeld, lateEvs, cur.late = true, late, late
					lateDue = time.Now().Add(400 * time.Microsecond)
					deliver(ev, true)
				} else {
					deliver(ev, false)
				}
			}
		}
	}
	releaseToken()
	if hung {
		// let the goroutine go (context cancelled), then report
		fctx.fire('C')
		go func() {
			for {
				select {
				case r := <-shim:
					r.rep <- vRep{errno: syscall.ECONNREFUSED, n: int(syscall.ECONNREFUSED)}
				case <-time.After(500 * time.Millisecond):
					return
				}
			}
		}()
		select {
		case <-done:
		case <-time.After(600 * time.Millisecond):
		}
	}
	vShimCh = nil

	// the select choice of a wake item that ended in the select itself is read off the result
	class, tmo := vdClassify(res.err)
	if curWake != nil {
		switch {
		case strings.HasPrefix(class, "ctx:"):
			curWake.pick = 'c'
		case class == "closedByPeer":
			curWake.pick = 'h'
		}
		// Events delivered under the held token while the goroutine had not yet left the select are events of
		// this wake-up, not of the deferred Free: if the channel select took was made ready only by them, say so.
		if cur != nil && cur.late != "" {
			readyBy := map[byte]string{'h': "H", 'c': "DC", 'w': "W"}[curWake.pick]
			if !strings.ContainsAny(curWake.evs, readyBy) && !(curWake.pick == 'c' && ctxBefore) && strings.ContainsAny(cur.late, readyBy) {
				curWake.evs += cur.late
				cur.late = ""
			}
		}
	}
	if preReg >= 0 {
		var evt epollevent
		EpollCtl(poll.fd, syscall.EPOLL_CTL_DEL, preReg, &evt)
	}

	for _, fd := range regFds {
		var evt epollevent
		EpollCtl(poll.fd, syscall.EPOLL_CTL_DEL, fd, &evt)
	}
	parts := []string{fmt.Sprintf("dial id=%d auto=1 reg=%d", id, wantReg)}
	for _, a := range atts {
		parts = append(parts, a.String())
	}
	opLine := strings.Join(parts, " :: ")

	var impl string
	switch {
	case hung:
		impl = "hung" + notes
	case res.panic != "":
		impl = "panic " + vSanitize(res.panic)
	default:
		openfds := 0
		attFd := map[int]bool{}
		for i := 0; i < nsock && i < maxAtt; i++ {
			if i < len(atts) && atts[i].sock == 0 {
				attFd[atts[i].fd] = true
				if vFdOpen(atts[i].fd) {
					openfds++
				}
			}
		}
		slots := vSlotsInUse() - baseSlots
		tmpreg, creg := false, false
		lastFd := -1
		if len(atts) > 0 {
			lastFd = atts[len(atts)-1].fd
		}
		for _, rg := range vEpollRegs() {
			if attFd[rg.fd] && rg.events&syscall.EPOLLOUT != 0 {
				tmpreg = true
			}
			if res.conn != nil && rg.fd == lastFd && rg.events&syscall.EPOLLIN != 0 && rg.events&syscall.EPOLLOUT == 0 {
				creg = true
			}
		}
		impl = fmt.Sprintf("ret conn=%d err=%s timeout=%d last=%d openfds=%d slots=%d tmpreg=%d creg=%d%s",
			vB(res.conn != nil), class, vB(tmo), nsock-1, openfds, slots, vB(tmpreg), vB(creg), notes)
	}

	// cleanup
	if res.conn != nil {
		res.conn.Close()
	}
	for i, p := range pipes {
		syscall.Close(p.r)
		syscall.Close(p.dup)
		used := i < nsock && i < len(atts) && atts[i].sock == 0
		if !used || vFdOpen(p.w) {
			syscall.Close(p.w)
		}
	}
	return opLine, impl
}

func vParseKV(toks []string) map[string]string {
	m := map[string]string{}
	for _, t := range toks {
		if i := strings.IndexByte(t, '='); i > 0 {
			m[t[:i]] = t[i+1:]
		}
	}
	return m
}

func vdParseScript(line string) []*vAttRec {
	var atts []*vAttRec
	secs := strings.Split(line, "::")
	for _, s := range secs[1:] {
		kv := vParseKV(strings.Fields(s))
		a := &vAttRec{ctx: '-'}
		a.sock, _ = strconv.Atoi(kv["sock"])
		a.opt, _ = strconv.Atoi(kv["opt"])
		if c := kv["ctx"]; c != "" {
			a.ctx = c[0]
		}
		a.e0, _ = strconv.Atoi(kv["e0"])
		a.local = kv["local"] == "1"
		a.self = kv["self"] == "1"
		if l := kv["late"]; l != "-" {
			a.late = l
		}
		if w := kv["wakes"]; w != "" && w != "-" {
			for _, ws := range strings.Split(w, ",") {
				f := strings.Split(ws, "/")
				if len(f) != 6 {
					continue
				}
				wr := &vWakeRec{pick: 'w'}
				if f[0] != "-" {
					wr.evs = f[0]
				}
				if f[1] != "" {
					wr.pick = f[1][0]
				}
				wr.ctl, _ = strconv.Atoi(f[2])
				wr.gso, _ = strconv.Atoi(f[3])
				wr.so, _ = strconv.Atoi(f[4])
				wr.peer = f[5] == "1"
				a.wakes = append(a.wakes, wr)
			}
		}
		atts = append(atts, a)
	}
	return atts
}

// ---------------------------------------------------------------------------------------------
// real mode: the server side runs in a child process so that the dialing process's descriptor
// table changes only through the code under test.

func vServe() int {
	dir := os.Getenv("VERIF_DIALH_DIR")
	out := bufio.NewWriter(os.Stdout)
	var parts []string
	echo := func(fd int) {
		go func() {
			buf := make([]byte, 4096)
			for {
				n, err := syscall.Read(fd, buf)
				if n <= 0 || err != nil {
					syscall.Close(fd)
					return
				}
				for off := 0; off < n; {
					m, err := syscall.Write(fd, buf[off:n])
					if err != nil {
						syscall.Close(fd)
						return
					}
					off += m
				}
			}
		}()
	}
	acceptLoop := func(lfd int, reset bool) {
		go func() {
			for {
				fd, _, err := syscall.Accept(lfd)
				if err != nil {
					if err == syscall.EINTR || err == syscall.ECONNABORTED {
						continue
					}
					return
				}
				if reset {
					syscall.SetsockoptLinger(fd, syscall.SOL_SOCKET, syscall.SO_LINGER, &syscall.Linger{Onoff: 1, Linger: 0})
					syscall.Close(fd)
					continue
				}
				echo(fd)
			}
		}()
	}
	mk := func(family int, sa syscall.Sockaddr) (int, int, error) {
		fd, err := syscall.Socket(family, syscall.SOCK_STREAM, 0)
		if err != nil {
			return -1, 0, err
		}
		syscall.SetsockoptInt(fd, syscall.SOL_SOCKET, syscall.SO_REUSEADDR, 1)
		if err := syscall.Bind(fd, sa); err != nil {
			syscall.Close(fd)
			return -1, 0, err
		}
		ls, _ := syscall.Getsockname(fd)
		port := 0
		switch a := ls.(type) {
		case *syscall.SockaddrInet4:
			port = a.Port
		case *syscall.SockaddrInet6:
			port = a.Port
		}
		return fd, port, nil
	}
	fill := func(family int, sa syscall.Sockaddr) {
		// one connection that is never accepted fills a listen(fd, 0) queue
		fd, err := syscall.Socket(family, syscall.SOCK_STREAM, 0)
		if err == nil {
			syscall.Connect(fd, sa)
		}
	}
	for _, v := range []struct {
		tag    string
		family int
		any    func(port int) syscall.Sockaddr
	}{
		{"4", syscall.AF_INET, func(p int) syscall.Sockaddr { return &syscall.SockaddrInet4{Port: p, Addr: [4]byte{127, 0, 0, 1}} }},
		{"6", syscall.AF_INET6, func(p int) syscall.Sockaddr {
			a := &syscall.SockaddrInet6{Port: p}
			a.Addr[15] = 1
			return a
		}},
	} {
		fd, port, err := mk(v.family, v.any(0))
		if err != nil {
			continue // family not available
		}
		syscall.Listen(fd, 128)
		acceptLoop(fd, false)
		parts = append(parts, fmt.Sprintf("echo%s=%d", v.tag, port))
		if fd, port, err = mk(v.family, v.any(0)); err == nil {
			syscall.Listen(fd, 128)
			acceptLoop(fd, true)
			parts = append(parts, fmt.Sprintf("reset%s=%d", v.tag, port))
		}
		if fd, port, err = mk(v.family, v.any(0)); err == nil {
			syscall.Listen(fd, 0)
			fill(v.family, v.any(port))
			parts = append(parts, fmt.Sprintf("backlog%s=%d", v.tag, port))
		}
		if _, port, err = mk(v.family, v.any(0)); err == nil { // bound, never listening: connection refused
			parts = append(parts, fmt.Sprintf("refuse%s=%d", v.tag, port))
		}
	}
	unixSock := func(name string, listen int, accept bool, doFill bool) {
		path := dir + "/" + name
		os.Remove(path)
		fd, err := syscall.Socket(syscall.AF_UNIX, syscall.SOCK_STREAM, 0)
		if err != nil {
			return
		}
		if err := syscall.Bind(fd, &syscall.SockaddrUnix{Name: path}); err != nil {
			return
		}
		if listen >= 0 {
			syscall.Listen(fd, listen)
		}
		if accept {
			acceptLoop(fd, false)
		}
		if doFill {
			fill(syscall.AF_UNIX, &syscall.SockaddrUnix{Name: path})
		}
		parts = append(parts, fmt.Sprintf("unix_%s=%s", name, path))
	}
	if dir != "" {
		unixSock("echo", 128, true, false)
		unixSock("refuse", -1, false, false)
		unixSock("backlog", 0, false, true)
		parts = append(parts, "unix_missing="+dir+"/missing")
	}
	fmt.Fprintln(out, "ready "+strings.Join(parts, " "))
	out.Flush()
	io.Copy(io.Discard, os.Stdin) // serve until the parent closes the pipe
	return 0
}

type vRealReq struct {
	class string // accept refuse backlog reset unix-ok unix-missing unix-refuse unix-backlog
	//                  with api=laddr (a local address is given; the failures happen BEFORE connect(2)):
	//                  laddr-ok (free local address) bind-inuse (local port taken) bind-notlocal (address not on this
	//                  host: EADDRNOTAVAIL, retried by dialTCP) family-raddr / family-laddr (tcp4 with an IPv6 remote /
	//                  local address) unix-laddr-ok unix-bind-exists (local path exists)
	net       string // tcp4 tcp6 host unix
	api       string // dial (DialConnection) | ctx (DialTCP with a cancelled context) | laddr (DialTCP / DialUnix with a local address)
	timeoutUs int    // dial timeout; for api=ctx the cancellation delay
	conc      int
	n         int // dials per goroutine
}

func (q vRealReq) String() string {
	return fmt.Sprintf("realreq class=%s net=%s api=%s timeout_us=%d conc=%d n=%d", q.class, q.net, q.api, q.timeoutUs, q.conc, q.n)
}

type vRealEnv struct {
	hung  bool
	addrs map[string]string
	out   *bufio.Writer
	mu    sync.Mutex
	id    int
}

func (e *vRealEnv) target(q vRealReq) (network, addr string, ok bool) {
	key := map[string]string{"accept": "echo", "refuse": "refuse", "backlog": "backlog", "reset": "reset",
		"laddr-ok": "echo", "bind-inuse": "echo", "bind-notlocal": "echo", "family-raddr": "echo", "family-laddr": "echo"}[q.class]
	switch q.net {
	case "tcp4":
		p, ok := e.addrs[key+"4"]
		return "tcp", "127.0.0.1:" + p, ok
	case "tcp6":
		p, ok := e.addrs[key+"6"]
		return "tcp", "[::1]:" + p, ok
	case "host":
		p, ok := e.addrs[key+"4"]
		return "tcp", "localhost:" + p, ok
	case "unix":
		p, ok := e.addrs["unix_"+strings.TrimPrefix(q.class, "unix-")]
		if q.class == "unix-ok" || q.class == "unix-laddr-ok" || q.class == "unix-bind-exists" {
			p, ok = e.addrs["unix_echo"]
		}
		return "unix", p, ok
	}
	return "", "", false
}

type vDialObs struct {
	conn      Connection
	class     string
	timeout   bool
	elapsed   time.Duration
	usable    string
	usableWhy string
	creg      bool
	fdopen    bool
	slot      bool
	fd        int
	panic     string
}

func vConnParts(c Connection) (*connection, bool) {
	switch x := c.(type) {
	case *TCPConnection:
		if x == nil {
			return nil, false
		}
		return &x.connection, true
	case *UnixConnection:
		if x == nil {
			return nil, false
		}
		return &x.connection, true
	}
	return nil, false
}

// dialLocal: a dial through the public DialTCP / DialUnix WITH a local address (DialConnection never passes one).
// The class says what is wrong with it; everything that is wrong here is detected by netFD.dial before connect(2):
// `laddr.sockaddr(family)`, `syscall.Bind`, `raddr.sockaddr(family)`.
func (e *vRealEnv) dialLocal(q vRealReq, network, addr string, tag uint32) (Connection, error) {
	if network == "unix" {
		raddr := &UnixAddr{UnixAddr: net.UnixAddr{Name: addr, Net: "unix"}}
		local := addr // unix-bind-exists: the path of the listening socket itself
		if q.class == "unix-laddr-ok" {
			local = fmt.Sprintf("%s/lc-%08x", filepath.Dir(addr), tag)
			defer os.Remove(local)
		}
		uc, err := DialUnix("unix", &UnixAddr{UnixAddr: net.UnixAddr{Name: local, Net: "unix"}}, raddr)
		if uc == nil {
			return nil, err
		}
		return uc, err
	}
	host, port, _ := net.SplitHostPort(addr)
	pn, _ := strconv.Atoi(port)
	v6 := strings.Contains(host, ":")
	rip := net.ParseIP(host)
	loop, foreign := net.IPv4(127, 0, 0, 1), net.IPv4(192, 0, 2, 1) // TEST-NET-1: on no interface
	netw := "tcp"
	if v6 {
		loop, foreign = net.IPv6loopback, net.ParseIP("2001:db8::1") // documentation prefix
		netw = "tcp6"
	}
	laddr := &TCPAddr{TCPAddr: net.TCPAddr{IP: loop}}
	raddr := &TCPAddr{TCPAddr: net.TCPAddr{IP: rip, Port: pn}}
	switch q.class {
	case "laddr-ok":
	case "bind-inuse":
		laddr.Port = pn // the listener's own port
	case "bind-notlocal":
		laddr.IP = foreign
	case "family-raddr":
		netw, laddr, raddr = "tcp4", nil, &TCPAddr{TCPAddr: net.TCPAddr{IP: net.IPv6loopback, Port: pn}}
	case "family-laddr":
		netw, laddr = "tcp4", &TCPAddr{TCPAddr: net.TCPAddr{IP: net.IPv6loopback}}
	}
	ctx, cancel := context.WithTimeout(context.Background(), time.Duration(q.timeoutUs)*time.Microsecond)
	defer cancel()
	tc, err := DialTCP(ctx, netw, laddr, raddr)
	if tc == nil {
		return nil, err
	}
	return tc, err
}

func (e *vRealEnv) oneDial(q vRealReq, network, addr string, tag uint32) (o vDialObs) {
	defer func() {
		if r := recover(); r != nil {
			o.panic = vSanitize(fmt.Sprint(r))
		}
	}()
	var c Connection
	var err error
	t0 := time.Now()
	if q.api == "ctx" {
		ctx, cancel := context.WithCancel(context.Background())
		timer := time.AfterFunc(time.Duration(q.timeoutUs)*time.Microsecond, cancel)
		host, port, _ := net.SplitHostPort(addr)
		pn, _ := strconv.Atoi(port)
		netw := "tcp"
		if strings.Contains(host, ":") {
			netw = "tcp6"
		}
		var tc *TCPConnection
		tc, err = DialTCP(ctx, netw, nil, &TCPAddr{TCPAddr: net.TCPAddr{IP: net.ParseIP(host), Port: pn}})
		timer.Stop()
		cancel()
		if tc != nil {
			c = tc
		}
	} else if q.api == "laddr" {
		c, err = e.dialLocal(q, network, addr, tag)
	} else {
		c, err = DialConnection(network, addr, time.Duration(q.timeoutUs)*time.Microsecond)
	}
	o.elapsed = time.Since(t0)
	o.class, o.timeout = vdClassify(err)
	o.usable = "-"
	if cc, ok := vConnParts(c); ok {
		o.conn = c
		o.fd = cc.fd
		o.fdopen = vFdOpen(cc.fd)
		o.slot = atomic.LoadInt32(&cc.operator.state) != 0 && cc.operator.FD == cc.fd
		for _, rg := range vEpollRegs() {
			if rg.fd == cc.fd && rg.events&syscall.EPOLLIN != 0 {
				o.creg = true
			}
		}
		if q.class == "reset" && !o.creg {
			// The peer's RST may already have been dispatched to this connection: the poller detaches the operator
			// first and runs OnHup (which makes the connection inactive) from another goroutine a moment later.
			// A connection the poller hangs up was registered when the dial returned.
			for w := 0; w < 2000 && c.IsActive(); w++ {
				time.Sleep(5 * time.Millisecond)
			}
			if !c.IsActive() {
				o.creg = true
			}
		}
		if q.class == "accept" || q.class == "unix-ok" || q.class == "laddr-ok" || q.class == "unix-laddr-ok" {
			// usable in both directions: echo round trip
			msg := []byte(fmt.Sprintf("verif-c14-%08x--", tag))
			o.usable = "0"
			c.SetReadTimeout(20 * time.Second)
			if _, werr := c.Writer().WriteBinary(msg); werr != nil {
				o.usableWhy = "write:" + vSanitize(werr.Error())
			} else if ferr := c.Writer().Flush(); ferr != nil {
				o.usableWhy = "flush:" + vSanitize(ferr.Error())
			} else if got, rerr := c.Reader().Next(len(msg)); rerr != nil {
				o.usableWhy = "read:" + vSanitize(rerr.Error())
			} else if string(got) != string(msg) {
				o.usableWhy = "echo-mismatch:" + vSanitize(string(got))
			} else {
				o.usable = "1"
			}
		}
	}
	return o
}

func (e *vRealEnv) run(q vRealReq) {
	e.id++
	fmt.Fprintln(e.out, q.String())
	network, addr, ok := e.target(q)
	if !ok {
		fmt.Fprintf(e.out, "real id=%d class=%s net=%s skipped=unavailable\n", e.id, q.class, q.net)
		return
	}
	expectTimeout := q.class == "backlog" && q.api == "dial" && q.timeoutUs > 0
	sock0, slots0 := vSocketFds(), vSlotsInUse()
	regs0 := len(vEpollRegs())
	seq := q.conc == 1
	// canary: how late does a 500us sleep wake up while this request runs (scheduling noise of the machine)
	var jitterUs int64
	stopCanary := make(chan struct{})
	canaryDone := make(chan struct{})
	go func() {
		defer close(canaryDone)
		for {
			select {
			case <-stopCanary:
				return
			default:
			}
			t0 := time.Now()
			time.Sleep(500 * time.Microsecond)
			if d := time.Since(t0).Microseconds() - 500; d > atomic.LoadInt64(&jitterUs) {
				atomic.StoreInt64(&jitterUs, d)
			}
		}
	}()
	var wg sync.WaitGroup
	var mu sync.Mutex
	var conns []Connection
	lines := make([][]string, q.conc)
	for g := 0; g < q.conc; g++ {
		wg.Add(1)
		go func(g int) {
			defer wg.Done()
			for i := 0; i < q.n; i++ {
				var fdB map[int]string
				var slB, rgB int
				if seq {
					fdB, slB, rgB = vSocketFds(), vSlotsInUse(), len(vEpollRegs())
				}
				o := e.oneDial(q, network, addr, uint32(e.id<<16|g<<8|i))
				openfds, slots, tmpreg := 0, 0, 0
				if seq {
					openfds = len(vSocketFds()) - len(fdB)
					slots = vSlotsInUse() - slB
					// a temporary registration left behind shows as one more registration than the connection's own
					if d := len(vEpollRegs()) - rgB - vB(o.creg); d > 0 {
						tmpreg = 1
					}
				} else {
					// concurrent batch: per dial only what belongs to its own connection; leaks are judged on the batch line
					openfds, slots = vB(o.fdopen), vB(o.slot)
				}
				l := fmt.Sprintf("real id=%d class=%s net=%s api=%s timeout_us=%d conc=%d g=%d i=%d ", e.id, q.class, q.net, q.api, q.timeoutUs, q.conc, g, i)
				if o.panic != "" {
					l += "panic " + o.panic
				} else {
					l += fmt.Sprintf("ret conn=%d err=%s timeout=%d expect_timeout=%d elapsed_us=%d usable=%s openfds=%d slots=%d tmpreg=%d creg=%d",
						vB(o.conn != nil), o.class, vB(o.timeout), vB(expectTimeout), o.elapsed.Microseconds(), o.usable, openfds, slots, tmpreg, vB(o.creg))
					if o.usableWhy != "" {
						l += " usable_why=" + o.usableWhy
					}
				}
				lines[g] = append(lines[g], l)
				if o.conn != nil {
					if seq {
						o.conn.Close()
					} else {
						mu.Lock()
						conns = append(conns, o.conn)
						mu.Unlock()
					}
				}
			}
		}(g)
	}
	allDone := make(chan struct{})
	go func() { wg.Wait(); close(allDone) }()
	limit := 20*time.Second + 10*time.Duration(q.timeoutUs)*time.Microsecond
	select {
	case <-allDone:
	case <-time.After(limit):
		// a dial that does not come back: report and give up (the goroutine cannot be recovered)
		fmt.Fprintf(e.out, "real id=%d class=%s net=%s api=%s timeout_us=%d conc=%d hung after_us=%d\n", e.id, q.class, q.net, q.api, q.timeoutUs, q.conc, limit.Microseconds())
		e.out.Flush()
		e.hung = true
		return
	}
	close(stopCanary)
	<-canaryDone
	for _, c := range conns {
		c.Close()
	}
	for g := range lines {
		for _, l := range lines[g] {
			fmt.Fprintln(e.out, l)
		}
	}
	// after every returned connection has been closed the process must be back where it started
	fdDelta, slotDelta, regDelta := 0, 0, 0
	for try := 0; try < 50; try++ {
		fdDelta = len(vSocketFds()) - len(sock0)
		slotDelta = vSlotsInUse() - slots0
		regDelta = len(vEpollRegs()) - regs0
		if fdDelta == 0 && slotDelta == 0 && regDelta == 0 {
			break
		}
		time.Sleep(2 * time.Millisecond)
	}
	if fdDelta < 0 {
		fdDelta = -fdDelta + 1000
	}
	if slotDelta < 0 {
		slotDelta = -slotDelta + 1000
	}
	fmt.Fprintf(e.out, "real id=%d class=%s net=%s api=%s timeout_us=%d conc=%d batch=1 ret conn=0 err=batch timeout=0 expect_timeout=0 elapsed_us=0 usable=- openfds=%d slots=%d tmpreg=%d creg=0 jitter_us=%d\n",
		e.id, q.class, q.net, q.api, q.timeoutUs, q.conc, fdDelta, slotDelta, vB(regDelta != 0), atomic.LoadInt64(&jitterUs))
	e.out.Flush()
}

func vRealPlan(r *rand.Rand, tier string) []vRealReq {
	var plan []vRealReq
	nets := []string{"tcp4", "tcp6"}
	short := []int{20, 50, 100, 200, 400, 800, 1500, 3000}
	rep := 6
	if tier == "thorough" {
		rep = 60
	}
	for _, n := range nets {
		// far above the connect latency
		plan = append(plan, vRealReq{"accept", n, "dial", 2000000, 1, rep})
		plan = append(plan, vRealReq{"refuse", n, "dial", 2000000, 1, rep})
		plan = append(plan, vRealReq{"reset", n, "dial", 2000000, 1, rep})
		// the connect completing at any point relative to the timeout
		for _, t := range short {
			plan = append(plan, vRealReq{"accept", n, "dial", t + r.Intn(t/2+1), 1, rep})
			plan = append(plan, vRealReq{"refuse", n, "dial", t + r.Intn(t/2+1), 1, rep / 2})
		}
		// silent drop: only the deadline ends the dial
		for _, t := range []int{1000, 5000, 20000, 60000} {
			plan = append(plan, vRealReq{"backlog", n, "dial", t + r.Intn(t/4), 1, 3})
		}
		plan = append(plan, vRealReq{"backlog", n, "dial", 200000, 1, 2})
		plan = append(plan, vRealReq{"backlog", n, "ctx", 3000 + r.Intn(5000), 1, 3})
		plan = append(plan, vRealReq{"accept", n, "ctx", 50 + r.Intn(300), 1, rep})
		// many concurrent dials
		plan = append(plan, vRealReq{"accept", n, "dial", 2000000, 64, 1})
		plan = append(plan, vRealReq{"accept", n, "dial", 300 + r.Intn(400), 64, 1})
		plan = append(plan, vRealReq{"refuse", n, "dial", 500000, 64, 1})
		plan = append(plan, vRealReq{"backlog", n, "dial", 30000 + r.Intn(20000), 64, 1})
		plan = append(plan, vRealReq{"reset", n, "dial", 500000, 64, 1})
		// a local address is given: free, taken, not on this host
		plan = append(plan, vRealReq{"laddr-ok", n, "laddr", 2000000, 1, 3})
		plan = append(plan, vRealReq{"bind-inuse", n, "laddr", 2000000, 1, 3})
		plan = append(plan, vRealReq{"bind-notlocal", n, "laddr", 2000000, 1, 3})
		plan = append(plan, vRealReq{"bind-inuse", n, "laddr", 2000000, 16, 1})
		plan = append(plan, vRealReq{"bind-notlocal", n, "laddr", 2000000, 8, 1})
	}
	// network / address family mismatch (the network says IPv4, an address is IPv6)
	plan = append(plan, vRealReq{"family-raddr", "tcp4", "laddr", 2000000, 1, 3})
	plan = append(plan, vRealReq{"family-laddr", "tcp4", "laddr", 2000000, 1, 3})
	plan = append(plan, vRealReq{"family-raddr", "tcp4", "laddr", 2000000, 8, 1})
	plan = append(plan, vRealReq{"unix-laddr-ok", "unix", "laddr", 100000, 1, 2})
	plan = append(plan, vRealReq{"unix-bind-exists", "unix", "laddr", 100000, 1, 3})
	plan = append(plan, vRealReq{"unix-bind-exists", "unix", "laddr", 100000, 8, 1})
	plan = append(plan, vRealReq{"accept", "host", "dial", 2000000, 1, 3})
	plan = append(plan, vRealReq{"accept", "tcp4", "dial", 0, 1, 2}) // no deadline
	for _, c := range []string{"unix-ok", "unix-missing", "unix-refuse", "unix-backlog"} {
		plan = append(plan, vRealReq{c, "unix", "dial", 100000, 1, rep})
		plan = append(plan, vRealReq{c, "unix", "dial", 100000, 32, 1})
	}
	if tier == "thorough" {
		for k := 0; k < 40; k++ {
			n := nets[r.Intn(2)]
			plan = append(plan, vRealReq{"accept", n, "dial", 10 + r.Intn(2000), 1 + r.Intn(64), 2})
			plan = append(plan, vRealReq{"backlog", n, "dial", 500 + r.Intn(50000), 1 + r.Intn(64), 1})
			plan = append(plan, vRealReq{"refuse", n, "dial", 10 + r.Intn(2000), 1 + r.Intn(64), 2})
		}
		plan = append(plan, vRealReq{"backlog", "tcp4", "dial", 1000000, 4, 1})
	}
	r.Shuffle(len(plan), func(i, j int) { plan[i], plan[j] = plan[j], plan[i] })
	return plan
}

func vParseRealReq(line string) (vRealReq, bool) {
	f := strings.Fields(line)
	if len(f) == 0 || f[0] != "realreq" {
		return vRealReq{}, false
	}
	kv := vParseKV(f[1:])
	q := vRealReq{class: kv["class"], net: kv["net"], api: kv["api"]}
	q.timeoutUs, _ = strconv.Atoi(kv["timeout_us"])
	q.conc, _ = strconv.Atoi(kv["conc"])
	q.n, _ = strconv.Atoi(kv["n"])
	if q.conc < 1 {
		q.conc = 1
	}
	if q.n < 1 {
		q.n = 1
	}
	if q.api == "" {
		q.api = "dial"
	}
	return q, true
}

func vRealMain(seed int64, tier, outPath, replay, dir string) int {
	exe, err := os.Executable()
	if err != nil {
		fmt.Fprintln(os.Stderr, err)
		return 2
	}
	cmd := exec.Command(exe, "-mode", "server")
	cmd.Env = append(os.Environ(), "VERIF_DIALH_DIR="+dir)
	stdin, _ := cmd.StdinPipe()
	stdout, _ := cmd.StdoutPipe()
	cmd.Stderr = os.Stderr
	if err := cmd.Start(); err != nil {
		fmt.Fprintln(os.Stderr, "server:", err)
		return 2
	}
	defer func() { stdin.Close(); cmd.Wait() }()
	rd := bufio.NewReader(stdout)
	line, err := rd.ReadString('\n')
	if err != nil || !strings.HasPrefix(line, "ready") {
		fmt.Fprintln(os.Stderr, "server not ready:", line, err)
		return 2
	}
	f, err := os.Create(outPath)
	if err != nil {
		fmt.Fprintln(os.Stderr, err)
		return 2
	}
	defer f.Close()
	env := &vRealEnv{addrs: vParseKV(strings.Fields(line)[1:]), out: bufio.NewWriter(f)}
	fmt.Fprintln(env.out, "# server "+strings.TrimSpace(line))
	// warm up: pollers started, resolver and timers initialised, so the census baselines are stable
	if c, err := DialConnection("tcp", "127.0.0.1:"+env.addrs["echo4"], time.Second); err == nil {
		c.Close()
	}
	DialConnection("tcp", "localhost:"+env.addrs["refuse4"], 50*time.Millisecond)
	time.Sleep(5 * time.Millisecond)
	var plan []vRealReq
	if replay != "" {
		b, err := os.ReadFile(replay)
		if err != nil {
			fmt.Fprintln(os.Stderr, err)
			return 2
		}
		for _, l := range strings.Split(string(b), "\n") {
			if q, ok := vParseRealReq(l); ok {
				plan = append(plan, q)
			}
		}
	} else {
		plan = vRealPlan(rand.New(rand.NewSource(seed)), tier)
	}
	for _, q := range plan {
		env.run(q)
		if env.hung {
			env.out.Flush()
			return 3
		}
	}
	env.out.Flush()
	return 0
}

// ---------------------------------------------------------------------------------------------

func vScriptedMain(seed int64, n int, opsOut, implOut, replay string) int {
	of, err := os.Create(opsOut)
	if err != nil {
		fmt.Fprintln(os.Stderr, err)
		return 2
	}
	defer of.Close()
	inf, err := os.Create(implOut)
	if err != nil {
		fmt.Fprintln(os.Stderr, err)
		return 2
	}
	defer inf.Close()
	ow, iw := bufio.NewWriter(of), bufio.NewWriter(inf)
	defer ow.Flush()
	defer iw.Flush()
	emit := func(op, impl string) {
		fmt.Fprintln(ow, op)
		fmt.Fprintln(iw, impl)
		ow.Flush()
		iw.Flush()
	}
	// errno facts of the standard library the model hard-codes
	for e := 0; e < 134; e++ {
		emit(fmt.Sprintf("errnotimeout %d", e), fmt.Sprint(syscall.Errno(e).Timeout()))
	}
	for _, no := range []syscall.Errno{ErrConnClosed, ErrReadTimeout, ErrDialTimeout, ErrDialNoDeadline, ErrUnsupported, ErrEOF, ErrWriteTimeout, ErrConcurrentAccess} {
		emit(fmt.Sprintf("exctimeout %d", int(no)), fmt.Sprint(Exception(no, "").(net.Error).Timeout()))
	}
	if replay != "" {
		b, err := os.ReadFile(replay)
		if err != nil {
			fmt.Fprintln(os.Stderr, err)
			return 2
		}
		id := 0
		for _, l := range strings.Split(string(b), "\n") {
			if !strings.HasPrefix(l, "dial ") {
				continue
			}
			want := strings.SplitN(l, " :: ", 2)
			// select's choice cannot be forced: retry until the run follows the recorded script
			var op, impl string
			for try := 0; try < 40; try++ {
				hd := vParseKV(strings.Fields(strings.SplitN(l, "::", 2)[0]))
				regErr, _ := strconv.Atoi(hd["reg"])
				op, impl = vRunScripted(&vScriptChooser{atts: vdParseScript(l), regErr: regErr}, id)
				got := strings.SplitN(op, " :: ", 2)
				if len(want) == 2 && len(got) == 2 && vStripFds(want[1]) == vStripFds(got[1]) {
					break
				}
				if strings.HasPrefix(impl, "hung") {
					break
				}
			}
			emit(op, impl)
			id++
		}
		return 0
	}
	r := rand.New(rand.NewSource(seed))
	hangs := 0
	for i := 0; i < n; i++ {
		op, impl := vRunScripted(&vRandChooser{r: r}, i)
		emit(op, impl)
		if strings.HasPrefix(impl, "hung") {
			// every hang costs seconds and is already a finding: a few are enough
			if hangs++; hangs >= 2 {
				break
			}
		}
	}
	return 0
}

// vStripFds removes descriptor numbers (they differ between runs) from a script line
func vStripFds(s string) string {
	f := strings.Fields(s)
	var o []string
	for _, t := range f {
		if !strings.HasPrefix(t, "fd=") {
			o = append(o, t)
		}
	}
	return strings.Join(o, " ")
}

// VerifDialHMain is the entry point of go/cmd/dialh.
func VerifDialHMain(args []string) int {
	fs := flag.NewFlagSet("dialh", flag.ContinueOnError)
	mode := fs.String("mode", "scripted", "scripted | real | server")
	seed := fs.Int64("seed", 1, "")
	n := fs.Int("n", 200, "scripted scenarios")
	tier := fs.String("tier", "quick", "")
	opsOut := fs.String("ops-out", "", "")
	implOut := fs.String("impl-out", "", "")
	out := fs.String("out", "", "real mode: result file")
	replay := fs.String("replay", "", "")
	dir := fs.String("dir", "", "directory for unix sockets")
	loops := fs.Int("loops", 1, "number of pollers")
	if err := fs.Parse(args); err != nil {
		return 2
	}
	logger.SetOutput(io.Discard)
	runtime.GOMAXPROCS(runtime.NumCPU())
	switch *mode {
	case "server":
		return vServe()
	case "scripted":
		SetNumLoops(1)
		return vScriptedMain(*seed, *n, *opsOut, *implOut, *replay)
	case "real":
		SetNumLoops(*loops)
		return vRealMain(*seed, *tier, *out, *replay, *dir)
	}
	fmt.Fprintln(os.Stderr, "unknown mode")
	return 2
}

var _ = sort.Ints
