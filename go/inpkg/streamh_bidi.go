//go:build verif
// +build verif

package netpoll

// C04 harness, real sockets, two more scenario classes (see streamh.go for the rest).
//
// Scenario class bidi=true ("each endpoint reads the identical byte sequence the other one submitted"): BOTH endpoints are
// netpoll connections, and both push a position-keyed stream (two different streams) larger than the socket buffers with
// the random Writer API mix of vsSend while each of them reads the other one's stream (blocking reader goroutine or
// OnRequest handler, random Reader op mix).  Every flush that exceeds the socket buffer is parked in the poller
// (PollR2RW) while input keeps arriving on the same descriptor.  Neither side closes before both readers have their
// `total` bytes; then one side closes and the other must see end-of-stream and not one byte more.  A progress watchdog
// reports the dead-lock (no byte read in either direction for vsJitterStall although neither stream is complete).
//
// Scenario class reply=true ("bytes sent before the sender closes are all readable before end-of-stream"): a netpoll
// connection writes a payload larger than the socket buffers to a raw peer that does not read, so its flush is parked in
// the poller.  The peer then sends a short reply and ends its stream in an orderly way (shutdown(SHUT_WR); in one variant
// it then starts to drain what we sent).  The connection's reader (blocking reader or OnRequest handler) must get exactly
// the reply bytes, then end-of-stream; the parked Write must return (its result is not judged: the connection is closed
// by the peer).

import (
	"context"
	"fmt"
	"math/rand"
	"net"
	"os"
	"sync"
	"sync/atomic"
	"syscall"
	"time"
)

// vsPairOf builds the two endpoints of a bidi scenario. onReqA/onReqB may be nil (blocking reader on that side).
func vsPairOf(s vsScenario, onReqA, onReqB OnRequest) (a, b Connection, cleanup []func(), reason string) {
	switch s.transport {
	case "pair":
		fds, err := syscall.Socketpair(syscall.AF_UNIX, syscall.SOCK_STREAM, 0)
		if err != nil {
			return nil, nil, nil, "socketpair: " + err.Error()
		}
		if s.smallBuf {
			vsSetBuf(fds[0])
			vsSetBuf(fds[1])
		}
		ca, cb := &connection{}, &connection{}
		if err := ca.init(&netFD{fd: fds[0], network: "unix"}, &options{onRequest: onReqA}); err != nil {
			return nil, nil, nil, "init: " + err.Error()
		}
		if err := cb.init(&netFD{fd: fds[1], network: "unix"}, &options{onRequest: onReqB}); err != nil {
			ca.Close()
			return nil, nil, nil, "init: " + err.Error()
		}
		return ca, cb, []func(){func() { ca.Close(); cb.Close() }}, ""
	default:
		// a = dialed client connection, b = the server's accepted connection (always served by an OnRequest handler)
		network, addr := "tcp", "127.0.0.1:0"
		if s.transport == "unix" {
			network, addr = "unix", fmt.Sprintf("/tmp/verif-c04b-%d-%d.sock", os.Getpid(), s.id)
			os.Remove(addr)
			cleanup = append(cleanup, func() { os.Remove(addr) })
		}
		ln, err := CreateListener(network, addr)
		if err != nil {
			return nil, nil, cleanup, "listen: " + err.Error()
		}
		accepted := make(chan Connection, 1)
		el, err := NewEventLoop(onReqB, WithOnPrepare(func(c Connection) context.Context {
			if s.smallBuf {
				vsSetBuf(c.(Conn).Fd())
			}
			return context.Background()
		}), WithOnConnect(func(ctx context.Context, c Connection) context.Context {
			accepted <- c // registered in its poller by now: it may park a flush
			return ctx
		}))
		if err != nil {
			ln.Close()
			return nil, nil, cleanup, "eventloop: " + err.Error()
		}
		go el.Serve(ln)
		cleanup = append(cleanup, func() {
			ctx, cancel := context.WithTimeout(context.Background(), 2*time.Second)
			el.Shutdown(ctx)
			cancel()
		})
		target := ln.Addr().String()
		if network == "unix" {
			target = addr
		}
		ca, err := DialConnection(network, target, 2*time.Second)
		if err != nil {
			return nil, nil, cleanup, "dial: " + err.Error()
		}
		cleanup = append(cleanup, func() { ca.Close() })
		if s.smallBuf {
			vsSetBuf(ca.(Conn).Fd())
		}
		if onReqA != nil {
			ca.SetOnRequest(onReqA)
		}
		select {
		case b = <-accepted:
		case <-time.After(3 * time.Second):
			return nil, nil, cleanup, "accept timeout"
		}
		return ca, b, cleanup, ""
	}
}

func vsInner(c Connection) *connection {
	switch x := c.(type) {
	case *connection:
		return x
	case *TCPConnection:
		return &x.connection
	case *UnixConnection:
		return &x.connection
	}
	return nil
}

// vsSide is one endpoint of a bidi scenario: it sends stream `out` and expects stream `in`.
type vsSide struct {
	name    string
	in, out vsScenario // same scenario, seed = the stream's seed
	rr      *rand.Rand
	rops    map[string]int
	sops    map[string]int
	pos     int
	got     int64
	held    []vsHeld
	done    chan struct{} // closed when `total` bytes of `in` were read (or on a bad byte)
	once    sync.Once
	badMu   sync.Mutex
	bad     string
}

func (d *vsSide) setBad(b string) {
	d.badMu.Lock()
	if d.bad == "" && b != "" {
		d.bad = b
	}
	d.badMu.Unlock()
}

func (d *vsSide) getBad() string {
	d.badMu.Lock()
	defer d.badMu.Unlock()
	return d.bad
}

func (d *vsSide) finish() { d.once.Do(func() { close(d.done) }) }

// onReq: the handler of this side; consumes at least something, never past `total`.
func (d *vsSide) onReq(ctx context.Context, c Connection) error {
	rd := c.Reader()
	for i := 0; i < 1+d.rr.Intn(4) && rd.Len() > 0; i++ {
		left := d.in.total - d.pos
		if left <= 0 {
			// the peer sent more than its stream: consume and report
			n := rd.Len()
			rd.Skip(n)
			d.setBad(fmt.Sprintf("%s: %d byte(s) readable beyond the %d-byte stream of the peer", d.name, n, d.in.total))
			d.finish()
			break
		}
		maxN := rd.Len()
		if maxN > left {
			maxN = left
		}
		_, b := vsConsume(d.in, c, d.rr, &d.pos, maxN, d.rops, &d.held)
		atomic.StoreInt64(&d.got, int64(d.pos))
		if b != "" {
			d.setBad(d.name + ": " + b)
			d.finish()
			return nil
		}
	}
	d.held = d.held[:0]
	rd.Release()
	if d.pos >= d.in.total {
		d.finish()
	}
	return nil
}

// read: the blocking reader of this side.
func (d *vsSide) read(c Connection) {
	defer d.finish()
	for d.pos < d.in.total {
		eof, b := vsConsume(d.in, c, d.rr, &d.pos, d.in.total-d.pos, d.rops, &d.held)
		atomic.StoreInt64(&d.got, int64(d.pos))
		if b != "" {
			d.setBad(d.name + ": " + b)
			return
		}
		if eof {
			d.setBad(fmt.Sprintf("%s: end-of-stream after %d of %d bytes although the peer has not closed", d.name, d.pos, d.in.total))
			return
		}
	}
	d.held = d.held[:0]
	c.Reader().Release()
}

func vsRunBidi(s vsScenario) (res vsResult) {
	res.ops = map[string]int{}
	sa, sb := s, s
	sb.seed = s.seed + 7777777 // the stream B -> A
	A := &vsSide{name: "A", in: sb, out: sa, rr: rand.New(rand.NewSource(int64(s.seed)*104729 + 2)), rops: map[string]int{}, sops: map[string]int{}, done: make(chan struct{})}
	B := &vsSide{name: "B", in: sa, out: sb, rr: rand.New(rand.NewSource(int64(s.seed)*104729 + 3)), rops: map[string]int{}, sops: map[string]int{}, done: make(chan struct{})}
	handlerA := s.handler
	handlerB := s.handlerB || s.transport != "pair"
	var hA, hB OnRequest
	if handlerA {
		hA = A.onReq
	}
	if handlerB {
		hB = B.onReq
	}
	ca, cb, cleanup, reason := vsPairOf(s, hA, hB)
	var sendWG sync.WaitGroup
	defer func() {
		for _, f := range cleanup {
			f()
		}
		sendWG.Wait() // the op maps are written by the senders
		for _, d := range []*vsSide{A, B} {
			for k, v := range d.sops {
				res.ops[d.name+".w."+k] += v
			}
			for k, v := range d.rops {
				res.ops[d.name+".r."+k] += v
			}
		}
	}()
	if reason != "" {
		return vsResult{reason: reason, ops: res.ops}
	}
	total := func() int { return int(atomic.LoadInt64(&A.got) + atomic.LoadInt64(&B.got)) }
	sendErr := make(chan error, 2)
	for _, x := range []struct {
		d *vsSide
		c Connection
	}{{A, ca}, {B, cb}} {
		d, c := x.d, x.c
		sendWG.Add(1)
		go func() {
			defer sendWG.Done()
			err := vsSend(d.out, c, rand.New(rand.NewSource(int64(d.out.seed)*7919+1)), d.sops)
			if err != nil {
				err = fmt.Errorf("%s: %v", d.name, err)
			}
			sendErr <- err
		}()
	}
	if !handlerA {
		go A.read(ca)
	}
	if !handlerB {
		go B.read(cb)
	}
	// progress watchdog: both streams must keep moving until both are complete
	state := func() string {
		oa, ia, ob, ib := -1, -1, -1, -1
		if c := vsInner(ca); c != nil {
			oa, ia = c.outputBuffer.Len(), c.inputBuffer.Len()
		}
		if c := vsInner(cb); c != nil {
			ob, ib = c.outputBuffer.Len(), c.inputBuffer.Len()
		}
		return fmt.Sprintf("A read %d of %d and has %d bytes unsent, %d buffered unread; B read %d of %d and has %d unsent, %d unread; no error was reported to a sender",
			atomic.LoadInt64(&A.got), s.total, oa, ia, atomic.LoadInt64(&B.got), s.total, ob, ib)
	}
	last, lastMove := -1, time.Now()
	tick := time.NewTicker(100 * time.Millisecond)
	defer tick.Stop()
	pending := 4 // two readers, two senders
	doneA, doneB := A.done, B.done
	var serr error
	for pending > 0 {
		select {
		case <-doneA:
			doneA = nil
			pending--
		case <-doneB:
			doneB = nil
			pending--
		case err := <-sendErr:
			if err != nil && serr == nil {
				serr = err
			}
			pending--
		case <-tick.C:
			if g := total(); g != last {
				last, lastMove = g, time.Now()
			} else if time.Since(lastMove) >= vsJitterStall {
				return vsResult{reason: fmt.Sprintf("hang: both endpoints flush and read at the same time and nothing was read in either direction for %v: %s", vsJitterStall, state()), got: total(), ops: res.ops}
			}
		}
		if b := A.getBad() + B.getBad(); b != "" || serr != nil {
			break
		}
	}
	if b := A.getBad(); b != "" {
		return vsResult{reason: b, got: total(), ops: res.ops}
	}
	if b := B.getBad(); b != "" {
		return vsResult{reason: b, got: total(), ops: res.ops}
	}
	if serr != nil {
		return vsResult{reason: "sender: " + serr.Error(), got: total(), ops: res.ops}
	}
	// both complete: A closes, B must see end-of-stream and nothing more (blocking reader side only; a handler is
	// simply not called again, which onReq reports through bad if it is)
	ca.Close()
	if !handlerB {
		cb.SetReadTimeout(5 * time.Second)
		if p, err := cb.Reader().Next(1); err == nil {
			return vsResult{reason: fmt.Sprintf("B: byte %d readable after the %d-byte stream of A and A's Close", p[0], s.total), got: total(), ops: res.ops}
		}
	} else {
		time.Sleep(time.Millisecond)
		if b := B.getBad(); b != "" {
			return vsResult{reason: b, got: total(), ops: res.ops}
		}
	}
	if g := total(); g != 2*s.total {
		return vsResult{reason: fmt.Sprintf("read %d of %d bytes", g, 2*s.total), got: g, ops: res.ops}
	}
	return vsResult{ok: true, got: total(), ops: res.ops}
}

// vsRunReply: peer replies and ends its stream while our flush is parked (see the header comment).
func vsRunReply(s vsScenario) (res vsResult) {
	res.ops = map[string]int{}
	r := rand.New(rand.NewSource(int64(s.seed)*7919 + 1))
	replyLen := []int{1, 2, 100, 1000, 2000, 1 + r.Intn(2000)}[r.Intn(6)]
	drain := r.Intn(2) == 0
	rs := s
	rs.seed = s.seed + 7777777 // the reply stream
	rs.total = replyLen
	side := &vsSide{name: "reader", in: rs, rr: rand.New(rand.NewSource(int64(s.seed)*104729 + 2)), rops: map[string]int{}, done: make(chan struct{})}
	closed := make(chan struct{}, 2)
	var h OnRequest
	if s.handler {
		h = side.onReq
	}
	var c *connection
	var peerWrite func(p []byte) error
	var peerShutWr func() error
	var peerDrain func()
	var drained sync.WaitGroup
	var cleanup []func()
	defer func() {
		for _, f := range cleanup {
			f()
		}
		for k, v := range side.rops {
			res.ops["r."+k] += v
		}
	}()
	if s.transport == "tcp" {
		ln, err := net.Listen("tcp", "127.0.0.1:0")
		if err != nil {
			return vsResult{reason: "listen: " + err.Error(), ops: res.ops}
		}
		cleanup = append(cleanup, func() { ln.Close() })
		dc, err := DialConnection("tcp", ln.Addr().String(), 2*time.Second)
		if err != nil {
			return vsResult{reason: "dial: " + err.Error(), ops: res.ops}
		}
		pc, err := ln.Accept()
		if err != nil {
			dc.Close()
			return vsResult{reason: "accept: " + err.Error(), ops: res.ops}
		}
		tc := pc.(*net.TCPConn)
		c = vsInner(dc)
		if s.smallBuf {
			vsSetBuf(c.Fd())
			tc.SetReadBuffer(4096)
			tc.SetWriteBuffer(4096)
		}
		if h != nil {
			dc.SetOnRequest(h)
		}
		peerWrite = func(p []byte) error { _, err := tc.Write(p); return err }
		peerShutWr = tc.CloseWrite
		peerDrain = func() {
			buf := make([]byte, 65536)
			for {
				if _, err := tc.Read(buf); err != nil {
					return
				}
			}
		}
		cleanup = append(cleanup, func() { dc.Close(); tc.Close(); drained.Wait() })
	} else {
		fds, err := syscall.Socketpair(syscall.AF_UNIX, syscall.SOCK_STREAM, 0)
		if err != nil {
			return vsResult{reason: "socketpair: " + err.Error(), ops: res.ops}
		}
		if s.smallBuf {
			vsSetBuf(fds[0])
			vsSetBuf(fds[1])
		}
		c = &connection{}
		if err := c.init(&netFD{fd: fds[0], network: "unix"}, &options{onRequest: h}); err != nil {
			syscall.Close(fds[1])
			return vsResult{reason: "init: " + err.Error(), ops: res.ops}
		}
		peer := fds[1]
		peerWrite = func(p []byte) error {
			for len(p) > 0 {
				n, err := syscall.Write(peer, p)
				if err != nil && err != syscall.EINTR {
					return err
				}
				if n > 0 {
					p = p[n:]
				}
			}
			return nil
		}
		peerShutWr = func() error { return syscall.Shutdown(peer, syscall.SHUT_WR) }
		peerDrain = func() {
			buf := make([]byte, 65536)
			for {
				n, err := syscall.Read(peer, buf)
				if err == syscall.EINTR {
					continue
				}
				if n <= 0 || err != nil {
					return
				}
			}
		}
		// the raw descriptor is closed only after the drain goroutine (counted BEFORE it is started) has left it: a late
		// read on a recycled descriptor number would steal bytes from another scenario
		cleanup = append(cleanup, func() { c.Close(); syscall.Shutdown(peer, syscall.SHUT_RDWR); drained.Wait(); syscall.Close(peer) })
	}
	c.AddCloseCallback(func(Connection) error { closed <- struct{}{}; return nil })
	// our large Write: the peer does not read, so the flush gets parked in the poller
	payload := make([]byte, s.total)
	for i := range payload {
		payload[i] = vsByte(s.seed, i)
	}
	writeDone := make(chan error, 1)
	go func() {
		_, err := c.Write(payload)
		writeDone <- err
	}()
	parkBy := time.Now().Add(10 * time.Second)
	for stable, last := 0, -1; stable < 10; {
		select {
		case err := <-writeDone:
			// the kernel took the whole payload although the peer does not read (or the Write failed at once): there is no
			// parked flush to judge; say so instead of guessing
			res.ops["setup.not-parked"]++
			if err != nil {
				return vsResult{reason: "setup: the large Write failed before the peer did anything: " + err.Error(), ops: res.ops}
			}
			return vsResult{ok: true, ops: res.ops}
		default:
		}
		if time.Now().After(parkBy) {
			return vsResult{reason: "setup: the large Write never got parked", ops: res.ops}
		}
		time.Sleep(2 * time.Millisecond)
		l := c.outputBuffer.Len()
		if l > 0 && l == last {
			stable++
		} else {
			stable = 0
		}
		last = l
	}
	reply := make([]byte, replyLen)
	for i := range reply {
		reply[i] = vsByte(rs.seed, i)
	}
	if err := peerWrite(reply); err != nil {
		return vsResult{reason: "setup: raw reply write: " + err.Error(), ops: res.ops}
	}
	if err := peerShutWr(); err != nil {
		return vsResult{reason: "setup: shutdown(SHUT_WR): " + err.Error(), ops: res.ops}
	}
	if drain {
		drained.Add(1)
		go func() { defer drained.Done(); peerDrain() }()
	}
	what := fmt.Sprintf("the peer sent a %d-byte reply and shut its write side down (drain-afterwards=%v) while our %d-byte Write was parked in the poller", replyLen, drain, s.total)
	// the reader gets the reply, then end-of-stream
	if s.handler {
		select {
		case <-closed:
		case <-time.After(vsJitterStall):
			return vsResult{reason: fmt.Sprintf("hang: no end-of-stream within %v: %s; handler consumed %d", vsJitterStall, what, atomic.LoadInt64(&side.got)), got: int(atomic.LoadInt64(&side.got)), ops: res.ops}
		}
	} else {
		c.SetReadTimeout(vsJitterStall)
		eofAt := -1
		for eofAt < 0 {
			maxN := replyLen - side.pos
			if maxN <= 0 {
				maxN = 1 // provoke end-of-stream
			}
			eof, b := vsConsume(rs, c, side.rr, &side.pos, maxN, side.rops, &side.held)
			atomic.StoreInt64(&side.got, int64(side.pos))
			if b != "" {
				return vsResult{reason: fmt.Sprintf("%s: %s", what, b), got: side.pos, ops: res.ops}
			}
			if eof {
				eofAt = side.pos
			}
			if side.pos > replyLen {
				break
			}
		}
	}
	g := int(atomic.LoadInt64(&side.got))
	if b := side.getBad(); b != "" {
		return vsResult{reason: fmt.Sprintf("%s: %s", what, b), got: g, ops: res.ops}
	}
	if g != replyLen {
		return vsResult{reason: fmt.Sprintf("end-of-stream after %d of %d reply bytes: %s", g, replyLen, what), got: g, ops: res.ops}
	}
	select {
	case <-writeDone:
	case <-time.After(vsJitterStall):
		return vsResult{reason: "hang: the parked Write did not return after the peer ended its stream: " + what, got: g, ops: res.ops}
	}
	return vsResult{ok: true, got: g, ops: res.ops}
}
