//go:build verif
// +build verif

package netpoll

// C04 harness, scripted kernel: drives a real connection's FDOperator callbacks (inputs/inputAck,
// outputs/outputAck) in-package, playing the kernel: it accepts an arbitrary number of the offered
// bytes per round and delivers input in arbitrary chunks. Op lines + replies for `npdriver stream`
// (Netpoll.Conn.Stream.outRound / inRound).

import (
	"bufio"
	"flag"
	"fmt"
	"math/rand"
	"os"
	"strings"
	"syscall"
)

type vssConn struct {
	c    *connection
	peer int
	wire []byte
}

func vssNew() (*vssConn, error) {
	fds, err := syscall.Socketpair(syscall.AF_UNIX, syscall.SOCK_STREAM, 0)
	if err != nil {
		return nil, err
	}
	c := &connection{}
	if err := c.init(&netFD{fd: fds[0], network: "unix"}, &options{}); err != nil {
		return nil, err
	}
	return &vssConn{c: c, peer: fds[1]}, nil
}

func (v *vssConn) close() {
	v.c.Close()
	syscall.Close(v.peer)
}

// exec runs one op; returns the (possibly rewritten) op line and the reply.
func (v *vssConn) exec(toks []string) (op string, reply string) {
	atoi := func(s string) int {
		var n int
		fmt.Sscanf(s, "%d", &n)
		return n
	}
	op = strings.Join(toks, " ")
	defer func() {
		if r := recover(); r != nil {
			reply = "panic"
		}
	}()
	c := v.c
	res := "ok"
	switch toks[0] {
	case "wmal":
		p, err := c.Malloc(atoi(toks[1]))
		for i := range p {
			p[i] = vGenByte(atoi(toks[2]), i)
		}
		if err != nil {
			res = "err"
		}
	case "wbin":
		if _, err := c.WriteBinary(vGenBytes(atoi(toks[2]), atoi(toks[1]), 0)); err != nil {
			res = "err"
		}
	case "wbyte":
		if err := c.WriteByte(byte(atoi(toks[1]))); err != nil {
			res = "err"
		}
	case "wsubmit":
		// the submit half of Flush (c.Flush would also send): outputBuffer.Flush()
		c.outputBuffer.Flush()
	case "out":
		if !c.operator.do() {
			return op, "busy"
		}
		bs := c.outputBarrier.bs
		vs, _ := c.outputs(bs)
		offered := 0
		var lens []string
		for _, x := range vs {
			offered += len(x)
			lens = append(lens, fmt.Sprint(len(x)))
		}
		k := atoi(toks[1])
		if k > offered {
			k = offered
		}
		left := k
		for _, x := range vs {
			if left == 0 {
				break
			}
			n := len(x)
			if n > left {
				n = left
			}
			v.wire = append(v.wire, x[:n]...)
			left -= n
		}
		for i := range bs {
			bs[i] = nil
		}
		if len(vs) > 0 {
			c.outputAck(k)
		}
		c.operator.done()
		l := strings.Join(lens, ",")
		if l == "" {
			l = "-"
		}
		op = fmt.Sprintf("out %d %s", k, l)
	case "in":
		if !c.operator.do() {
			return op, "busy"
		}
		bs := make([][]byte, 1)
		rs := c.inputs(bs)
		k := atoi(toks[1])
		if k > len(rs[0]) {
			k = len(rs[0])
		}
		for i := 0; i < k; i++ {
			rs[0][i] = vGenByte(atoi(toks[2]), i)
		}
		c.inputAck(k)
		c.operator.done()
		op = fmt.Sprintf("in %d %s", k, toks[2])
	case "rnext":
		p, err := c.Next(atoi(toks[1]))
		res = vBytesRes(p)
		if err != nil {
			res = "err"
		}
	case "rpeek":
		p, err := c.Peek(atoi(toks[1]))
		res = vBytesRes(p)
		if err != nil {
			res = "err"
		}
	case "rskip":
		if err := c.Skip(atoi(toks[1])); err != nil {
			res = "err"
		}
	case "rbin":
		p, err := c.ReadBinary(atoi(toks[1]))
		res = vBytesRes(p)
		if err != nil {
			res = "err"
		}
	case "rrel":
		if err := c.Release(); err != nil {
			res = "err"
		}
	default:
		return op, "bad-op"
	}
	return op, fmt.Sprintf("%s ## in=%d out=%d/%d wire=%d:%d book=%d max=%d", res, c.inputBuffer.Len(), c.outputBuffer.Len(),
		c.outputBuffer.MallocLen(), len(v.wire), vFnv(v.wire), c.bookSize, c.maxSize)
}

// VerifStreamScriptMain: streamscript -seed S -seqs N -ops K -ops-out F -impl-out F [-replay F]
func VerifStreamScriptMain(args []string) int {
	fs := flag.NewFlagSet("streamscript", flag.ContinueOnError)
	seed := fs.Int64("seed", 1, "")
	seqs := fs.Int("seqs", 50, "")
	nops := fs.Int("ops", 60, "")
	opsOut := fs.String("ops-out", "", "")
	implOut := fs.String("impl-out", "", "")
	replay := fs.String("replay", "", "")
	if err := fs.Parse(args); err != nil {
		return 2
	}
	SetNumLoops(1)
	io_, err := os.Create(*implOut)
	if err != nil {
		fmt.Fprintln(os.Stderr, err)
		return 2
	}
	defer io_.Close()
	iw := bufio.NewWriter(io_)
	defer iw.Flush()
	oo, err := os.Create(*opsOut)
	if err != nil {
		fmt.Fprintln(os.Stderr, err)
		return 2
	}
	defer oo.Close()
	ow := bufio.NewWriter(oo)
	defer ow.Flush()
	if *replay != "" {
		f, err := os.Open(*replay)
		if err != nil {
			fmt.Fprintln(os.Stderr, err)
			return 2
		}
		defer f.Close()
		sc := bufio.NewScanner(f)
		var v *vssConn
		for sc.Scan() {
			line := strings.TrimSpace(sc.Text())
			if line == "" || strings.HasPrefix(line, "#") {
				continue
			}
			toks := strings.Fields(line)
			if toks[0] == "seq" {
				if v != nil {
					v.close()
				}
				v, err = vssNew()
				if err != nil {
					fmt.Fprintln(os.Stderr, err)
					return 2
				}
				fmt.Fprintln(ow, line)
				fmt.Fprintln(iw, "seq")
				continue
			}
			op, rep := v.exec(toks)
			fmt.Fprintln(ow, op)
			fmt.Fprintln(iw, rep)
		}
		if v != nil {
			v.close()
		}
		return 0
	}
	r := rand.New(rand.NewSource(*seed))
	for s := 0; s < *seqs; s++ {
		v, err := vssNew()
		if err != nil {
			fmt.Fprintln(os.Stderr, err)
			return 2
		}
		fmt.Fprintf(ow, "seq %d\n", s)
		fmt.Fprintln(iw, "seq")
		// directed class (every third sequence): ONE submit of more non-empty output nodes than the iovec barrier holds
		// (barriercap = 32 vectors per GetBytes/sendmsg): 30..44 pieces of 4..8 KiB, each a node of its own, then rounds
		// in which the kernel takes everything offered / an arbitrary part
		var directed []string
		if s%3 == 1 {
			for j, k := 0, 30+r.Intn(15); j < k; j++ {
				n := 4096
				if r.Intn(2) == 0 {
					n += r.Intn(4097)
				}
				directed = append(directed, fmt.Sprintf("%s %d %d", []string{"wmal", "wbin"}[r.Intn(2)], n, r.Intn(1000)))
			}
			directed = append(directed, "wsubmit", fmt.Sprintf("out %d", []int{1 << 30, 1 << 30, 31 * 4096, 1 + r.Intn(300000)}[r.Intn(4)]), "out 1073741824")
		}
		for i := 0; i < *nops; i++ {
			c := v.c
			var line string
			if i < len(directed) {
				op, rep := v.exec(strings.Fields(directed[i]))
				fmt.Fprintln(ow, op)
				fmt.Fprintln(iw, rep)
				if rep == "panic" {
					break
				}
				continue
			}
			sz := []int{1, 2, 100, 1000, 4095, 4096, 4097, 8192, 9000, 1 + r.Intn(20000)}[r.Intn(10)]
			switch k := r.Intn(14); {
			case k < 2:
				line = fmt.Sprintf("wmal %d %d", sz, r.Intn(1000))
			case k < 3:
				line = fmt.Sprintf("wbin %d %d", sz, r.Intn(1000))
			case k < 4:
				line = fmt.Sprintf("wbyte %d", r.Intn(251))
			case k < 6:
				line = "wsubmit"
			case k < 9:
				l := c.outputBuffer.Len()
				line = fmt.Sprintf("out %d", []int{0, 1, l / 2, l, l, 4096, 1 + r.Intn(l+1)}[r.Intn(7)])
			case k < 11:
				line = fmt.Sprintf("in %d %d", []int{0, 1, 100, 4096, 8192, 20000, 1 + r.Intn(9000)}[r.Intn(7)], r.Intn(1000))
			default:
				l := c.inputBuffer.Len()
				n := 0
				if l > 0 {
					n = []int{1, l / 2, l, 1 + r.Intn(l)}[r.Intn(4)]
				}
				line = []string{fmt.Sprintf("rnext %d", n), fmt.Sprintf("rpeek %d", n), fmt.Sprintf("rskip %d", n), fmt.Sprintf("rbin %d", n), "rrel", "rrel"}[r.Intn(6)]
			}
			op, rep := v.exec(strings.Fields(line))
			fmt.Fprintln(ow, op)
			fmt.Fprintln(iw, rep)
			if rep == "panic" {
				break
			}
		}
		v.close()
	}
	return 0
}
