//go:build verif && verifsched
// +build verif,verifsched

package netpoll

// Connection-lifecycle scenarios for the controlled scheduler (properties C05, C06, C09; the same
// scenario machinery is meant to be extended for C07/C08/C10/C19 – see /verif/SCHED.md).
//
// One scenario = one connection on a real socketpair, whose FDOperator belongs to a fake Poll (no real
// poller goroutine ever sees the descriptor).  Actors:
//   acc      server style: the REAL server.onAccept (init -> onPrepare -> register, track, onConnect)
//   init     client style: connection.init(conn, nil) as NewFDConnection / dialer do, then the user's setters
//   setreq   client style: SetOnRequest with data possibly buffered already
//   poller   plays defaultPoll.handler for this operator: per scripted event do(), Inputs, ioread, InputAck,
//            (readall, appendHup = Control(PollDetach) + done()), done(); after the batch onhups() -> actor hup
//   hup      the goroutine started by onhups(): OnHup(p)
//   closer<i>, detacher   user goroutines calling Close / Detach
//   obs      user goroutine sampling IsActive
//   task<k>  handler tasks, spawned by the real code through runner.RunTask (custom runner)
// The user callbacks are scripted (kinds below) and emit ghost events.

import (
	"context"
	"fmt"
	"io/ioutil"
	"log"
	"net"
	"strconv"
	"strings"
	"sync/atomic"
	"syscall"
	"time"
	"unsafe"
)

var _ verifHooks = (*vsSched)(nil)

type vsLifeScn struct {
	style   string   // server | client
	oc      string   // OnConnect: none | short | close | panic | read
	od      bool     // OnDisconnect set
	or      string   // OnRequest: none | consume | partial | lazy | close | panic
	closers int      // number of Close callers
	detach  bool     // a Detach caller
	events  []string // poller script: d<n> data event, h peer close, x<n> data and peer close reported together
	obs     int      // IsActive samples of the observer actor
	prep    string   // server OnPrepare: ok | close
	rel     bool     // handler calls Reader().Release() after consuming
	ncb     int      // user close callbacks
	setreq  bool     // client style: OnRequest is set by actor setreq after init (else before the poller starts)
}

func vsParseScn(spec string) (vsLifeScn, error) {
	sc := vsLifeScn{style: "server", oc: "none", or: "consume", prep: "ok", ncb: 2}
	for _, kv := range strings.Split(spec, ",") {
		if kv == "" {
			continue
		}
		p := strings.SplitN(kv, "=", 2)
		if len(p) != 2 {
			return sc, fmt.Errorf("bad scenario item %q", kv)
		}
		k, v := p[0], p[1]
		switch k {
		case "style":
			sc.style = v
		case "oc":
			sc.oc = v
		case "od":
			sc.od = v == "1"
		case "or":
			sc.or = v
		case "closers":
			sc.closers, _ = strconv.Atoi(v)
		case "detach":
			sc.detach = v == "1"
		case "ev":
			if v != "" && v != "-" {
				sc.events = strings.Split(v, ".")
			}
		case "obs":
			sc.obs, _ = strconv.Atoi(v)
		case "prep":
			sc.prep = v
		case "rel":
			sc.rel = v == "1"
		case "ncb":
			sc.ncb, _ = strconv.Atoi(v)
		case "setreq":
			sc.setreq = v == "1"
		default:
			return sc, fmt.Errorf("unknown scenario key %q", k)
		}
	}
	return sc, nil
}

// ---------------------------------------------------------------------------------------------
// fake Poll: mirrors defaultPoll.Control/Alloc/Free without the epoll syscalls

type vsFakePoll struct {
	s          *vsSched
	opcache    *operatorCache
	op         *FDOperator
	registered bool
	deleted    bool
	adds, dels int
	frees      int
	ctlPoint   bool // C08: epoll_ctl(MOD) is a schedule point of its own (the lifecycle scenarios keep their schedules)
	interestW  bool // EPOLLOUT interest as set by PollR2RW / PollRW2R (C08: write events are fetched only while it is set and !deleted)
}

func (p *vsFakePoll) Wait() error    { return nil }
func (p *vsFakePoll) Close() error   { return nil }
func (p *vsFakePoll) Trigger() error { return nil }

func (p *vsFakePoll) Control(operator *FDOperator, event PollEvent) error {
	switch event {
	case PollReadable, PollWritable:
		operator.inuse()
		p.registered = true
		p.adds++
		p.s.ghost("epoll add")
	case PollDetach:
		p.deleted = true
		p.dels++
		p.s.ghost("epoll del")
	case PollR2RW:
		if p.ctlPoint {
			p.s.point("poll.ctl")
		}
		p.interestW = true
		p.s.ghost("epoll mod rw")
	case PollRW2R:
		if p.ctlPoint {
			p.s.point("poll.ctl")
		}
		p.interestW = false
		p.s.ghost("epoll mod r")
	}
	return nil
}

func (p *vsFakePoll) Alloc() (operator *FDOperator) {
	op := p.opcache.alloc()
	op.poll = p
	p.op = op
	return op
}

func (p *vsFakePoll) Free(operator *FDOperator) {
	p.opcache.freeable(operator)
	p.frees++
	p.s.ghost("slot free")
}

// ---------------------------------------------------------------------------------------------

type vsLifeRun struct {
	sc       vsLifeScn
	s        *vsSched
	fp       *vsFakePoll
	c        *connection
	cfd, pfd int
	escaped  bool // user code has the connection (OnPrepare ran / client init returned)
	initDone bool
	peerShut bool
	hups     []func(p Poll) error
	skipped  bool // the last handle() found the operator token taken (level-triggered epoll would report the event again)
	br       barrier
	nReq     int
	fdClosed int
}

func (r *vsLifeRun) wordOf(addr unsafe.Pointer) string {
	if c := r.c; c != nil {
		switch addr {
		case unsafe.Pointer(&c.keychain[closing]):
			return "closing"
		case unsafe.Pointer(&c.keychain[processing]):
			return "processing"
		case unsafe.Pointer(&c.keychain[connecting]):
			return "connecting"
		case unsafe.Pointer(&c.keychain[flushing]):
			return "flushing"
		case unsafe.Pointer(&c.state):
			return "state"
		case unsafe.Pointer(&c.netFD.closed):
			return "fd.closed"
		case unsafe.Pointer(&c.netFD.detaching):
			return "detaching"
		case unsafe.Pointer(&c.onRequestCallback):
			// the handler word: SetOnRequest's Store is a schedule point (the Dekker hand-off {publish handler, look at the
			// buffer} x {publish length, look at the handler}); the Loads are traced but merged with the loader's previous
			// step (quietOp below): a Store commutes with that step, so no behaviour is lost
			return "orCb"
		}
		if c.inputBuffer != nil && addr == unsafe.Pointer(&c.inputBuffer.length) {
			return "inLen"
		}
	}
	if op := r.fp.op; op != nil {
		switch addr {
		case unsafe.Pointer(&op.state):
			return "op.state"
		case unsafe.Pointer(&op.detached):
			return "op.detached"
		}
	}
	return ""
}

func (r *vsLifeRun) chanOf(ch interface{}) string {
	c := r.c
	if c == nil {
		return ""
	}
	switch x := ch.(type) {
	case chan error:
		if x == c.readTrigger {
			return "rd"
		}
		if x == c.writeTrigger {
			return "wr"
		}
	case <-chan time.Time:
		if c.readTimer != nil && x == c.readTimer.C {
			return "rtimer"
		}
		if c.writeTimer != nil && x == c.writeTimer.C {
			return "wtimer"
		}
	}
	return ""
}

func (r *vsLifeRun) timerOf(ch interface{}) *time.Timer {
	c := r.c
	if c == nil {
		return nil
	}
	if x, ok := ch.(<-chan time.Time); ok {
		if c.readTimer != nil && x == c.readTimer.C {
			return c.readTimer
		}
		if c.writeTimer != nil && x == c.writeTimer.C {
			return c.writeTimer
		}
	}
	return nil
}

func (r *vsLifeRun) unread() int {
	if r.c == nil || r.c.inputBuffer == nil {
		return 0
	}
	return int(atomic.LoadInt64(&r.c.inputBuffer.length))
}

// --- scripted user callbacks

func (r *vsLifeRun) onPrepare(conn Connection) context.Context {
	r.c = conn.(*connection)
	r.escaped = true
	r.s.ghost("PREP start")
	r.addUserCallbacks(conn)
	if r.sc.prep == "close" {
		conn.Close()
	}
	r.s.ghost("PREP end")
	return context.Background()
}

func (r *vsLifeRun) addUserCallbacks(conn Connection) {
	for i := 1; i <= r.sc.ncb; i++ {
		i := i
		conn.AddCloseCallback(func(Connection) error {
			r.s.ghost("closecb %d unread=%d", i, r.unread())
			return nil
		})
	}
}

func (r *vsLifeRun) onConnect(ctx context.Context, conn Connection) context.Context {
	r.s.ghost("OC start")
	switch r.sc.oc {
	case "close":
		conn.Close()
	case "read":
		if n := conn.Reader().Len(); n > 0 {
			conn.Reader().Skip(n)
		}
	case "panic":
		r.s.ghost("OC panic")
		panic("scripted OnConnect panic")
	}
	r.s.ghost("OC end")
	return ctx
}

func (r *vsLifeRun) onDisconnect(ctx context.Context, conn Connection) {
	r.s.ghost("OD run")
}

func (r *vsLifeRun) onRequest(ctx context.Context, conn Connection) error {
	r.nReq++
	n := conn.Reader().Len()
	r.s.ghost("H start len=%d", n)
	switch r.sc.or {
	case "consume":
		conn.Reader().Skip(n)
	case "partial":
		conn.Reader().Skip((n + 1) / 2)
	case "lazy":
		if r.nReq > 1 {
			conn.Reader().Skip(n)
		}
	case "close":
		conn.Close()
	case "panic":
		r.s.ghost("H panic")
		panic("scripted OnRequest panic")
	}
	if r.sc.rel {
		conn.Reader().Release()
	}
	r.s.ghost("H end")
	return nil
}

// --- the poller (transcription of defaultPoll.handler for one connection operator; keep in step with
// poll_default_linux.go handler / poll_default.go appendHup, detach, onhups, readall)

func (r *vsLifeRun) appendHup(op *FDOperator) {
	r.hups = append(r.hups, op.OnHup)
	if err := op.Control(PollDetach); err != nil {
		r.s.ghost("detach error")
	}
	op.done()
}

// handle processes one epoll event for the operator; returns true when the hang-up was appended.
func (r *vsLifeRun) handle(op *FDOperator, evt uint32) bool {
	r.skipped = false
	if !op.do() {
		r.skipped = true
		r.s.ghost("poller skip")
		return false
	}
	var totalRead int
	triggerRead := evt&syscall.EPOLLIN != 0
	triggerHup := evt&(syscall.EPOLLHUP|syscall.EPOLLRDHUP) != 0
	if triggerRead {
		if op.OnRead != nil {
			op.OnRead(r.fp)
		} else if op.Inputs != nil {
			bs := op.Inputs(r.br.bs)
			if len(bs) > 0 {
				n, err := ioread(op.FD, bs, r.br.ivs)
				op.InputAck(n)
				totalRead += n
				if err != nil {
					r.appendHup(op)
					return true
				}
			}
		}
	}
	if triggerHup {
		if triggerRead && op.Inputs != nil {
			leftRead, _ := readall(op, r.br)
			totalRead += leftRead
		}
		if totalRead == 0 {
			r.appendHup(op)
			return true
		}
	}
	op.done()
	return false
}

func (r *vsLifeRun) onhups() {
	if len(r.hups) == 0 {
		return
	}
	hups := r.hups
	r.hups = nil
	r.s.spawn("hup", "hup", false, nil, func() {
		for i := range hups {
			if hups[i] != nil {
				hups[i](r.fp)
			}
		}
	})
}

func (r *vsLifeRun) pollerBody() {
	fetch := func() bool {
		r.s.guardPoint("poller.fetch", func() bool { return r.fp.registered })
		if r.fp.deleted {
			// A-epoll-del: no event is fetched for a descriptor after EPOLL_CTL_DEL returned
			r.s.ghost("poller gone")
			return false
		}
		return true
	}
	for _, ev := range r.sc.events {
		n, _ := strconv.Atoi(ev[1:])
		switch ev[0] {
		case 'd':
			syscall.Write(r.pfd, make([]byte, n))
			if !fetch() {
				return
			}
			r.s.ghost("deliver %d", n)
			r.handle(r.fp.op, syscall.EPOLLIN)
			r.onhups()
			r.fp.opcache.free()
		case 'h', 'x':
			if n > 0 {
				syscall.Write(r.pfd, make([]byte, n))
			}
			syscall.Shutdown(r.pfd, syscall.SHUT_WR)
			r.peerShut = true
			for i := 0; i < 4; i++ {
				if !fetch() {
					return
				}
				r.s.ghost("deliver-hup %d", n)
				done := r.handle(r.fp.op, syscall.EPOLLIN|syscall.EPOLLRDHUP)
				r.onhups()
				r.fp.opcache.free()
				if done {
					return
				}
			}
		}
	}
}

// ---------------------------------------------------------------------------------------------

// vsLifeExec runs one scenario under one chooser and returns the trace (text) and the scheduler.
func vsLifeExec(sc vsLifeScn, ch vsChooser) (string, *vsSched) {
	fds, err := syscall.Socketpair(syscall.AF_UNIX, syscall.SOCK_STREAM, 0)
	if err != nil {
		panic(err)
	}
	s := vsNewSched()
	s.chooser = ch
	r := &vsLifeRun{sc: sc, s: s, cfd: fds[0], pfd: fds[1]}
	r.fp = &vsFakePoll{s: s, opcache: newOperatorCache()}
	r.br = barrier{bs: make([][]byte, barriercap), ivs: make([]syscall.Iovec, barriercap)}
	s.wordOf, s.chanOf, s.timerOf = r.wordOf, r.chanOf, r.timerOf
	s.quiet = vsQuiet
	s.quietOp = func(word, fn string) bool { return word == "orCb" && fn == "Value.Load" }

	savedPM, savedLogger := pollmanager, logger
	m := &manager{numLoops: 1, status: managerInitialized}
	m.polls = []Poll{r.fp}
	m.balance = newLoadbalance(RoundRobin, m.polls)
	pollmanager = m
	logger = log.New(ioutil.Discard, "", 0)
	SetRunner(func(ctx context.Context, f func()) { s.spawnTask(f) })
	verifHook = s
	defer func() {
		verifHook = nil
		pollmanager, logger = savedPM, savedLogger
	}()

	addr := &net.UnixAddr{Name: "verif", Net: "unix"}
	nfd := func() *netFD { return &netFD{fd: r.cfd, network: "unix", localAddr: addr, remoteAddr: addr} }
	var handler OnRequest
	if sc.or != "none" {
		handler = r.onRequest
	}
	if sc.style == "server" {
		opts := &options{onPrepare: r.onPrepare}
		if sc.oc != "none" {
			opts.onConnect = r.onConnect
		}
		if sc.od {
			opts.onDisconnect = r.onDisconnect
		}
		opts.onRequest = handler
		srv := &server{opts: opts}
		s.spawn("acc", "acceptor", false, nil, func() {
			srv.onAccept(nfd())
			s.ghost("accept-done")
		})
	} else {
		c := new(connection)
		r.c = c
		s.spawn("init", "client", false, nil, func() {
			c.init(nfd(), nil)
			r.escaped = true
			r.addUserCallbacks(c)
			if sc.od {
				c.SetOnDisconnect(r.onDisconnect)
			}
			if handler != nil && !sc.setreq {
				s.ghost("setreq-call")
				c.SetOnRequest(handler)
			}
			r.initDone = true
			s.ghost("init-done")
		})
		if handler != nil && sc.setreq {
			s.spawn("setreq", "setreq", true, func() bool { return r.initDone }, func() {
				s.ghost("setreq-call")
				c.SetOnRequest(handler)
				s.ghost("setreq-done")
			})
		}
	}
	s.spawn("poller", "poller", true, func() bool { return r.fp.registered }, r.pollerBody)
	for i := 1; i <= sc.closers; i++ {
		s.spawn("closer"+strconv.Itoa(i), "closer", true, func() bool { return r.escaped }, func() {
			r.c.Close()
			s.ghost("close-ret")
		})
	}
	if sc.detach {
		s.spawn("detacher", "closer", true, func() bool { return r.escaped }, func() {
			s.ghost("detach-call")
			r.c.Detach()
			s.ghost("detach-ret")
		})
	}
	if sc.obs > 0 {
		s.spawn("obs", "obs", true, func() bool { return r.escaped }, func() {
			for i := 0; i < sc.obs; i++ {
				v := r.c.IsActive()
				s.ghost("isactive %v", v)
			}
		})
	}

	status := s.run()

	// summary (plain reads: every actor is parked or finished)
	fdOpen := 1
	if _, _, e := syscall.Syscall(syscall.SYS_FCNTL, uintptr(r.cfd), syscall.F_GETFD, 0); e != 0 {
		fdOpen = 0
	}
	closingV, procV, stV := int32(-1), int32(-1), int32(-1)
	if r.c != nil {
		closingV, procV, stV = r.c.keychain[closing], r.c.keychain[processing], r.c.state
	}
	if s.foreign > 0 {
		s.line("G env foreign-hook-calls %d", s.foreign)
	}
	s.line("end status=%s steps=%d fdopen=%d unread=%d closing=%d processing=%d state=%d adds=%d dels=%d frees=%d parked=%s",
		status, s.steps, fdOpen, r.unread(), closingV, procV, stV, r.fp.adds, r.fp.dels, r.fp.frees, s.parked())
	if fdOpen == 1 {
		syscall.Close(r.cfd)
	}
	syscall.Close(r.pfd)
	return s.trace.String(), s
}

// sites that are traced but are not schedule points in the lifecycle scenarios (keeps schedules short):
// none at present – every registered word / channel is a schedule point.
func vsQuiet(site string) bool { return false }
