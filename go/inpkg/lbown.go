//go:build verif && !race
// +build verif,!race

package netpoll

// Ownership oracle for C02 / C03 on the real LinkBuffer, used by the lbdiff harness with -own:
// the instrumented allocator (go/pool/mcache.go) never reuses and poisons freed blocks; every
// zero-copy result is a *view* that must keep its content until its reader is released; every pool
// block must be freed at most once, never while a view or a chained node still refers to it, and
// caller-owned memory must never be freed or written.

import (
	"bytes"
	"fmt"
	"strings"
	"unsafe"

	"github.com/bytedance/gopkg/lang/mcache"
)

type vView struct {
	owner int
	p     []byte
	snap  []byte
	block int  // pool block the view lies in (-1: not pool memory)
	perm  bool // private copy handed to the caller (ReadBinary/ReadString/Read): valid for ever
	dead  bool
}

type vCallerMem struct {
	p   []byte
	sum uint32
}

type vOwn struct {
	views   []*vView
	callers []vCallerMem
	split   map[int]bool // pool blocks that a WriteDirect split shares between an unmanaged head and a managed tail
	nviews  int
	nfree   int
	nmalloc int
	w       *vWorld  // the buffers of this sequence (free-time check)
	cur     []string // the op being executed
	atFree  []string // problems seen at the moment of a Free during the current op
}

func newVOwn() *vOwn { return &vOwn{split: map[int]bool{}} }

// attach makes this oracle the observer of the harness allocator's Free calls for world w.
func (o *vOwn) attach(w *vWorld) {
	if o == nil {
		return
	}
	o.w = w
	mcache.VerifOnFree = o.onFree
}

// onFree runs at the very moment netpoll hands a block back to the pool (before it is logged and poisoned).
// "... returned to the pool ... only after the data in it has been consumed": no live buffer may still owe a
// reader bytes that lie in this block, i.e. no node between its read cursor and its write node (inclusive) with
// readable or pending bytes sits on the block.  (A check after the op cannot see this when the release also
// clears the node's slice.)  Close discards the data of the buffer being closed at the caller's request: exempt.
func (o *vOwn) onFree(buf []byte) {
	if o == nil || o.w == nil || cap(buf) == 0 {
		return
	}
	full := buf[:cap(buf)]
	lo := uintptr(unsafe.Pointer(&full[0]))
	hi := lo + uintptr(cap(buf))
	seen := map[int]bool{}
	for _, id := range o.w.order {
		vb := o.w.bufs[id]
		if vb == nil || vb.b == nil || vb.b.read == nil || seen[id] {
			continue
		}
		seen[id] = true
		if len(o.cur) >= 2 && o.cur[0] == "close" && o.cur[1] == fmt.Sprint(id) {
			continue
		}
		n := 0
		for nd := vb.b.read; nd != nil && n < 100000; nd = nd.next {
			n++
			if cap(nd.buf) > 0 && (nd.off < len(nd.buf) || len(nd.buf) < nd.malloc) {
				p := uintptr(unsafe.Pointer(&nd.buf[:1][0]))
				if p >= lo && p < hi {
					bid, _, _ := mcache.VerifBlockOf(full)
					tg := ""
					if o.split[bid] {
						tg = "[D4-split-block]"
					}
					o.atFree = append(o.atFree, fmt.Sprintf("free-of-unconsumed-data block=%d buf=%d readable=%d pending=%d%s",
						bid, id, len(nd.buf)-nd.off, nd.malloc-len(nd.buf), tg))
					break
				}
			}
			if nd == vb.b.write {
				break
			}
		}
	}
}

func (o *vOwn) view(owner int, p []byte, perm bool) {
	if o == nil || len(p) == 0 {
		return
	}
	id, _, _ := mcache.VerifBlockOf(p)
	o.views = append(o.views, &vView{owner: owner, p: p, snap: append([]byte(nil), p...), block: id, perm: perm})
	o.nviews++
}

func (o *vOwn) caller(p []byte) {
	if o == nil || len(p) == 0 {
		return
	}
	o.callers = append(o.callers, vCallerMem{p: p, sum: vFnv(p)})
}

func (o *vOwn) released(owner int) {
	if o == nil {
		return
	}
	for _, v := range o.views {
		if v.owner == owner && !v.perm {
			v.dead = true
		}
	}
}

// markSplit records the pool blocks that sit under an unmanaged, non-child node (the head part left by
// WriteDirect's split): known finding D4 concerns exactly these blocks.
func (o *vOwn) markSplit(b *UnsafeLinkBuffer) {
	if o == nil {
		return
	}
	for nd := b.head; nd != nil; nd = nd.next {
		if nd.getFlag(flagUnmanaged) && nd.origin == nil && cap(nd.buf) > 0 {
			if id, _, _ := mcache.VerifBlockOf(nd.buf[:cap(nd.buf)]); id >= 0 {
				o.split[id] = true
			}
		}
	}
}

// after is called after every op: returns " @@ <allocator events> !! <problems>".
func (o *vOwn) after(w *vWorld) string {
	if o == nil {
		return ""
	}
	var ev, probs []string
	probs = append(probs, o.atFree...)
	o.atFree = nil
	tag := func(block int) string {
		if o.split[block] {
			return "[D4-split-block]"
		}
		return ""
	}
	for _, e := range mcache.VerifTake() {
		switch e.Kind {
		case 'm':
			ev = append(ev, fmt.Sprintf("m%d:%d", e.ID, e.Cap))
			o.nmalloc++
		case 'f':
			o.nfree++
			ev = append(ev, fmt.Sprintf("f%d", e.ID))
			if e.ID < 0 {
				kind := "foreign-free"
				for _, c := range o.callers {
					base := uintptr(unsafe.Pointer(&c.p[:1][0]))
					if e.Ptr >= base && e.Ptr < base+uintptr(cap(c.p)) {
						kind = "caller-memory-freed"
					}
				}
				probs = append(probs, fmt.Sprintf("%s cap=%d", kind, e.Cap))
				continue
			}
			if e.Dup > 0 {
				probs = append(probs, fmt.Sprintf("double-free block=%d%s", e.ID, tag(e.ID)))
			}
			for i, v := range o.views {
				if !v.dead && v.block == e.ID {
					probs = append(probs, fmt.Sprintf("free-while-view-live block=%d view=%d owner=%d%s", e.ID, i, v.owner, tag(e.ID)))
				}
			}
		}
	}
	// a node still on some chain must not sit on a freed block
	for _, id := range w.order {
		vb := w.bufs[id]
		if vb == nil {
			continue
		}
		n := 0
		for nd := vb.b.head; nd != nil && n < 100000; nd = nd.next {
			n++
			if cap(nd.buf) == 0 {
				continue
			}
			if bid, freed, _ := mcache.VerifBlockOf(nd.buf[:cap(nd.buf)]); bid >= 0 && freed {
				probs = append(probs, fmt.Sprintf("freed-block-in-chain block=%d buf=%d%s", bid, id, tag(bid)))
			}
		}
	}
	for i, v := range o.views {
		if v.dead {
			continue
		}
		if !bytes.Equal(v.p, v.snap) {
			probs = append(probs, fmt.Sprintf("view-corrupt view=%d owner=%d block=%d%s", i, v.owner, v.block, tag(v.block)))
			v.dead = true
		}
		if v.perm && v.block >= 0 {
			probs = append(probs, fmt.Sprintf("private-copy-in-pool-block view=%d block=%d", i, v.block))
			v.dead = true
		}
	}
	for i := range o.callers {
		c := &o.callers[i]
		if vFnv(c.p) != c.sum {
			probs = append(probs, fmt.Sprintf("caller-memory-written idx=%d", i))
			c.sum = vFnv(c.p)
		}
	}
	s := " @@ " + strings.Join(ev, " ")
	if len(probs) > 0 {
		s += " !! " + strings.Join(probs, " ; ")
	}
	return s + " %% " + o.dumpOwn(w)
}

// dumpOwn prints, for every buffer with a chain, per node `refer/<pool block>+<offset in block>/<origin's refer or ->`
// (the ownership fields the ledger model `Netpoll.Buf.Owner` keeps; compared with `npdriver own` op by op).
func (o *vOwn) dumpOwn(w *vWorld) string {
	var parts []string
	seen := map[int]bool{}
	for _, id := range w.order {
		vb := w.bufs[id]
		if vb == nil || vb.b.head == nil || seen[id] {
			continue
		}
		seen[id] = true
		var nds []string
		n := 0
		for nd := vb.b.head; nd != nil && n < 100000; nd = nd.next {
			n++
			blk := "-1+0"
			if cap(nd.buf) > 0 {
				if bid, _, off := mcache.VerifBlockOf(nd.buf[:cap(nd.buf)]); bid >= 0 {
					blk = fmt.Sprintf("%d+%d", bid, off)
				}
			}
			org := "-"
			if nd.origin != nil {
				org = fmt.Sprintf("%d", nd.origin.refer)
			}
			nds = append(nds, fmt.Sprintf("%d/%s/%s", nd.refer, blk, org))
		}
		parts = append(parts, fmt.Sprintf("B%d:%s", id, strings.Join(nds, ",")))
	}
	return strings.Join(parts, " ")
}
