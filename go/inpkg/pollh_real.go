//go:build verif
// +build verif

package netpoll

// Real-epoll scenarios for C11: a private poll instance (openDefaultPoll) runs the REAL Wait loop on its
// own goroutine; the harness plays the peers (write / shutdown / close / reset in every order, on unix
// socketpairs and loopback TCP), calls Trigger and Close.  Wait's Handler field is wrapped, so every batch
// the kernel delivers is logged in the same `batch` line format as the synthetic cases (flags as
// delivered, descriptor state as the history that led to it, system-call results measured on a twin
// brought through the same history) and is therefore checked against the model and the spec oracle, and
// can be replayed synthetically.  Each scenario ends with a `real` line carrying the end-to-end facts:
// all bytes delivered before the hang-up, hang-up exactly once, Trigger woke the blocked loop, Close made
// Wait return and released both descriptors (and a hang-up handled in the same wake-up as the close message
// was still reported), the event array grew as the rule says.

import (
	"bufio"
	"fmt"
	"math/rand"
	"runtime"
	"strconv"
	"strings"
	"sync"
	"sync/atomic"
	"syscall"
	"time"
	"unsafe"
)

type vrConn struct {
	id      int
	tcp     bool
	d       *vpDesc
	hist    []string // peer / our actions so far
	acked   int      // bytes acknowledged through InputAck so far
	errs    int      // reads that returned an errno (each took the pending socket error)
	written int      // bytes the peer wrote
	capv    int
	out     int // bytes Outputs offers (0: nothing to send)
	op      *FDOperator
	hups    int
	outs    int  // Outputs calls (writability reported)
	gone    bool // peer closed / reset / shut down
	badData bool
}

func (c *vrConn) ds() string {
	t := "u"
	if c.tcp {
		t = "t"
	}
	h := append([]string(nil), c.hist...)
	if c.acked > 0 {
		h = append(h, "r"+strconv.Itoa(c.acked))
	}
	for i := 0; i < c.errs; i++ {
		h = append(h, "x")
	}
	return "h:" + t + ":" + strings.Join(h, ".")
}

// vrMapMu guards vrPoll.conns and vpRecPoll.ids of the real-loop scenarios (written by the scenario goroutine in newConn, read by the
// loop's goroutine in handle and in the recording Poll wrapper)
var vrMapMu sync.Mutex

func (v *vrPoll) connOf(op *FDOperator) *vrConn {
	vrMapMu.Lock()
	defer vrMapMu.Unlock()
	return v.conns[op]
}

type vrPoll struct {
	mu       sync.Mutex // held while a batch is handled and while the harness acts on a peer
	p        *defaultPoll
	rec      *vpRec
	rp       *vpRecPoll
	conns    map[*FDOperator]*vrConn
	ow, iw   *bufio.Writer
	batches  int64 // batches handled (atomic)
	wakes    int64 // batches containing the wake-up descriptor (atomic)
	closeMsg bool  // Close was called
	psize    int
	pn       int
	sizes    []string
	bad      []string
	gate     chan struct{} // when non-nil the next batch waits here before it is handled
	atGate   int32         // the loop is waiting at the gate
}

func (v *vrPoll) fail(s string) { v.bad = append(v.bad, s) }

// wrapped Handler: log the batch, run the real handler, log the outcome
func (v *vrPoll) handle(events []epollevent) bool {
	if g := v.gate; g != nil {
		atomic.StoreInt32(&v.atGate, 1)
		<-g
	}
	v.mu.Lock()
	defer v.mu.Unlock()
	p := v.p
	evs := make([]*vpEv, len(events))
	ops := make([]*FDOperator, len(events))
	for i := range events {
		op := p.getOperator(0, unsafe.Pointer(&events[i].data))
		ops[i] = op
		if op == nil {
			// an entry that names no operator (never produced by the kernel for this poll: the array handed to the handler is
			// not the one epoll_wait filled): logged as it is, the handler skips it
			evs[i] = &vpEv{id: i, evt: events[i].events, ds: "unknown", cap: vpCap, ol: vpSmall}
			continue
		}
		e := &vpEv{id: i, evt: events[i].events, st: atomic.LoadInt32(&op.state), det: atomic.LoadInt32(&op.detached), cap: vpCap, ol: vpSmall}
		if op == p.wop {
			e.kind = "K"
			e.id = 100000
			if v.closeMsg {
				e.ds, e.wake = "wake:0:1:0", "1"
			} else {
				e.ds, e.wake = "wake:1:0:0", strconv.FormatUint(1<<56, 10)
			}
			atomic.AddInt64(&v.wakes, 1)
		} else if c := v.connOf(op); c != nil {
			e.id, e.kind, e.ds, e.cap = c.id, "HIO", c.ds(), c.capv
			if c.out > 0 {
				e.ol = c.out
			} else {
				e.outs = "e"
			}
			if err := vpObserve(e); err != nil {
				v.fail("observe: " + err.Error())
			}
		} else {
			e.kind, e.ds = "", "unknown"
		}
		evs[i] = e
	}
	strs := make([]string, len(evs))
	for i, e := range evs {
		strs[i] = e.String()
	}
	prev := "-"
	if v.psize > 0 {
		prev = fmt.Sprintf("%d:%d", v.psize, v.pn)
	}
	trig0 := atomic.LoadUint32(&p.trigger)
	fmt.Fprintf(v.ow, "batch n=%d buf0=%d size=%d prev=%s trig0=%d real=1 ; %s\n", len(evs), p.buf[0], p.size, prev, trig0, strings.Join(strs, " ; "))
	v.ow.Flush()
	v.sizes = append(v.sizes, fmt.Sprintf("%d/%d", len(evs), p.size))
	v.psize, v.pn = p.size, len(evs)
	mark := len(v.rec.snapshot())
	wopFD, epFD := p.wop.FD, p.fd
	base := runtime.NumGoroutine()
	closed, panicked := false, ""
	func() {
		defer func() {
			if r := recover(); r != nil {
				panicked = fmt.Sprint(r)
			}
		}()
		closed = p.handler(events)
	}()
	if !vpWaitGoroutines(base) {
		panicked += " hup-goroutine-did-not-finish"
	}
	if panicked != "" {
		fmt.Fprintln(v.iw, "panic "+strings.Join(strings.Fields(panicked), "_"))
		v.iw.Flush()
		atomic.AddInt64(&v.batches, 1)
		return closed
	}
	var tr, st, reg, got []string
	sent := map[int]int{}
	for _, it := range v.rec.snapshot()[mark:] {
		s := strconv.Itoa(it.id) + ":" + it.code
		if it.hasN {
			s += strconv.Itoa(it.n)
		}
		tr = append(tr, s+"@"+strconv.Itoa(int(it.tok)))
		if it.code == "B" && it.n > 0 {
			sent[it.id] += it.n
		}
	}
	wopClosed, epClosed := vpFdClosed(wopFD), vpFdClosed(epFD)
	var regset map[int]bool
	if !epClosed {
		regset = vpRegistered(epFD)
	}
	for i, e := range evs {
		if ops[i] == nil {
			st = append(st, fmt.Sprintf("%d:0/0", e.id))
			if regset != nil {
				reg = append(reg, fmt.Sprintf("%d:0", e.id))
			}
			got = append(got, fmt.Sprintf("%d:0", e.id))
			continue
		}
		st = append(st, fmt.Sprintf("%d:%d/%d", e.id, atomic.LoadInt32(&ops[i].state), atomic.LoadInt32(&ops[i].detached)))
		if regset != nil {
			r := 0
			if regset[ops[i].FD] {
				r = 1
			}
			reg = append(reg, fmt.Sprintf("%d:%d", e.id, r))
		}
		g := 0
		if c := v.connOf(ops[i]); c != nil && c.d.b >= 0 {
			if sent[c.id] > 0 && c.tcp {
				vpSettleBytes(c.d.b, c.d.prefill+sent[c.id])
			}
			g = vpDrain(c.d.b) - c.d.prefill
			c.d.prefill = 0
		}
		got = append(got, fmt.Sprintf("%d:%d", e.id, g))
	}
	j := func(l []string) string {
		if len(l) == 0 {
			return "-"
		}
		return strings.Join(l, ",")
	}
	b2 := func(b bool) string {
		if b {
			return "1"
		}
		return "0"
	}
	fmt.Fprintf(v.iw, "tr=%s exit=%s st=%s reg=%s got=%s trig=%d closed=%s%s buf0=%d\n",
		j(tr), b2(closed), j(st), j(reg), j(got), atomic.LoadUint32(&p.trigger), b2(wopClosed), b2(epClosed), p.buf[0])
	v.iw.Flush()
	atomic.AddInt64(&v.batches, 1)
	return closed
}

func (v *vrPoll) newConn(id int, tcp bool, capv int) (*vrConn, error) {
	t := "h:u:"
	if tcp {
		t = "h:t:"
	}
	d, err := vpPrepare(t, capv)
	if err != nil {
		return nil, err
	}
	c := &vrConn{id: id, tcp: tcp, d: d, capv: capv}
	e := &vpEv{id: id, kind: "HIO", cap: capv}
	op := &FDOperator{FD: d.a}
	rec := v.rec
	tok := func() int32 { return atomic.LoadInt32(&op.state) }
	buf := make([]byte, capv)
	op.Inputs = func(vs [][]byte) [][]byte {
		rec.add(id, "I", 0, false, tok())
		vs[0] = buf
		return vs[:1]
	}
	op.InputAck = func(n int) error {
		rec.add(id, "A", n, true, tok())
		if n > 0 {
			for i := 0; i < n && i < len(buf); i++ {
				if buf[i] != vpPat(c.acked+i) {
					c.badData = true
				}
			}
			c.acked += n
		}
		if n < 0 {
			c.errs++
		}
		return nil
	}
	out := make([]byte, 1<<16)
	op.Outputs = func(vs [][]byte) ([][]byte, bool) {
		rec.add(id, "O", 0, false, tok())
		c.outs++
		if c.out == 0 {
			return vs[:0], false
		}
		vs[0] = out[:c.out]
		return vs[:1], false
	}
	op.OutputAck = func(n int) error {
		rec.add(id, "B", n, true, tok())
		if n > 0 {
			c.out -= n
		}
		if c.out == 0 {
			// what connection.outputAck does once everything is flushed
			op.Control(PollRW2R)
		}
		return nil
	}
	op.OnHup = func(p Poll) error { rec.add(id, "H", 0, false, tok()); c.hups++; return nil }
	_ = e
	op.poll = v.rp
	// the loop's goroutine reads both maps while it handles a batch (some callers hold v.mu, some do not: own lock)
	vrMapMu.Lock()
	v.rp.ids[op] = id
	c.op = op
	v.conns[op] = c
	vrMapMu.Unlock()
	return c, nil
}

// act performs one peer-side (or our-side) action on a connection while no batch is being handled
func (v *vrPoll) act(c *vrConn, a string) {
	v.mu.Lock()
	defer v.mu.Unlock()
	n := 0
	if len(a) > 1 {
		n, _ = strconv.Atoi(a[1:])
	}
	switch a[0] {
	case 'w':
		if c.d.b < 0 {
			return
		}
		if err := vpWriteAll(c.d.b, vpPattern(c.written, n)); err != nil {
			return
		}
		c.written += n
		if c.tcp {
			vpSettleBytes(c.d.a, c.written-c.acked)
		}
	case 'o':
		if vpWriteAll(c.d.a, make([]byte, n)) != nil {
			return
		}
		c.d.prefill += n
		if c.tcp {
			vpSettleBytes(c.d.b, c.d.prefill)
		}
	case 'c', 'l':
		if c.d.b < 0 {
			return
		}
		if a[0] == 'l' {
			syscall.SetsockoptLinger(c.d.b, syscall.SOL_SOCKET, syscall.SO_LINGER, &syscall.Linger{Onoff: 1, Linger: 0})
		}
		syscall.Close(c.d.b)
		c.d.b = -1
		c.gone = true
		if c.tcp {
			vpSettle(c.d.a, 0x2000|0x10|0x8)
		}
	case 's':
		if c.d.b < 0 || syscall.Shutdown(c.d.b, syscall.SHUT_WR) != nil {
			return
		}
		c.gone = true
		if c.tcp {
			vpSettle(c.d.a, 0x2000)
		}
	}
	c.hist = append(c.hist, a)
}

func (v *vrPoll) register(c *vrConn) error {
	v.mu.Lock()
	defer v.mu.Unlock()
	return v.p.Control(c.op, PollReadable)
}

// quiesce: wait until the loop has handled what there is to handle (no new batch for a while)
func (v *vrPoll) quiesce(minBatches int64, until func() bool) bool {
	return v.quiesceFor(30*time.Second, minBatches, until)
}

func (v *vrPoll) quiesceFor(d time.Duration, minBatches int64, until func() bool) bool {
	dl := time.Now().Add(d)
	if len(v.bad) > 0 {
		dl = time.Now().Add(time.Second) // this round has failed already: do not wait long again
	}
	last, lastT := atomic.LoadInt64(&v.batches), time.Now()
	for time.Now().Before(dl) {
		time.Sleep(200 * time.Microsecond)
		cur := atomic.LoadInt64(&v.batches)
		if cur != last {
			last, lastT = cur, time.Now()
		}
		if cur >= minBatches && (until == nil || until()) && time.Since(lastT) > 3*time.Millisecond {
			return true
		}
	}
	return false
}

type vrScenario struct {
	name    string
	tcp     bool
	pre     []string // actions before the descriptor is registered (seen in one wake-up)
	steps   []string // actions afterwards, the loop quiesces after each
	wantHup bool
}

var vrScenarios = []vrScenario{
	{"write-then-close", false, nil, []string{"w5", "c"}, true},
	{"data-and-fin-in-one-wakeup", false, []string{"w5", "c"}, nil, true},
	{"big-data-and-fin-in-one-wakeup", false, []string{"w19", "c"}, nil, true},
	{"fin-only", false, []string{"c"}, nil, true},
	{"shutdown-write", false, nil, []string{"w3", "s"}, true},
	{"data-then-shutdown-in-one-wakeup", false, []string{"w7", "s"}, nil, true},
	{"reset-unread", false, nil, []string{"o3", "c"}, true},
	{"data-and-reset-in-one-wakeup", false, []string{"w5", "o3", "c"}, nil, true},
	{"writes-only", false, nil, []string{"w1", "w8", "w9", "w30"}, false},
	{"write-close-write-order", false, nil, []string{"w4", "w4", "c"}, true},
	{"tcp-write-then-close", true, nil, []string{"w5", "c"}, true},
	{"tcp-data-and-fin-in-one-wakeup", true, []string{"w5", "c"}, nil, true},
	{"tcp-big-data-and-fin", true, []string{"w19", "c"}, nil, true},
	{"tcp-reset-with-unread-data", true, []string{"o3", "l"}, nil, true},
	{"tcp-data-then-reset", true, nil, []string{"w5", "l"}, true},
	{"tcp-data-and-reset-in-one-wakeup", true, []string{"w5", "o3", "l"}, nil, true},
	{"tcp-shutdown-write", true, nil, []string{"w2", "s"}, true},
}

// vrRun runs one round: a fresh poll, a few connections each following a scenario (interleaved), then
// a writable round-trip, Trigger while blocked, optionally the growth rule, finally Close.
func vrRun(seed int64, growth bool, ow, iw *bufio.Writer) (ok bool) {
	r := rand.New(rand.NewSource(seed))
	head := fmt.Sprintf("real seed=%d growth=%v", seed, growth)
	p, err := openDefaultPoll()
	if err != nil {
		fmt.Fprintln(ow, head)
		fmt.Fprintln(iw, "harness-error open: "+err.Error())
		return false
	}
	v := &vrPoll{p: p, rec: &vpRec{}, conns: map[*FDOperator]*vrConn{}, ow: ow, iw: iw}
	v.rp = &vpRecPoll{p: p, rec: v.rec, ids: map[*FDOperator]int{}}
	p.Handler = v.handle
	wopFD, epFD := p.wop.FD, p.fd
	waitDone := make(chan error, 1)
	go func() { waitDone <- p.Wait() }()
	// give the loop time to block in epoll_wait
	time.Sleep(time.Millisecond)

	// --- connections following scenarios, interleaved
	nconn := 1 + r.Intn(4)
	type run struct {
		c    *vrConn
		sc   vrScenario
		next int
	}
	var runs []*run
	var names []string
	for i := 0; i < nconn; i++ {
		sc := vrScenarios[r.Intn(len(vrScenarios))]
		capv := []int{8, 8, 3, 64}[r.Intn(4)]
		c, err := v.newConn(i, sc.tcp, capv)
		if err != nil {
			v.fail("conn: " + err.Error())
			continue
		}
		for _, a := range sc.pre {
			v.act(c, a)
		}
		if sc.tcp && len(sc.pre) > 0 {
			vpSettle(c.d.a, 0x1|0x2000|0x10|0x8)
		}
		if err := v.register(c); err != nil {
			v.fail("register: " + err.Error())
		}
		runs = append(runs, &run{c: c, sc: sc})
		names = append(names, sc.name)
	}
	v.quiesce(0, nil)
	for {
		var live []*run
		for _, x := range runs {
			if x.next < len(x.sc.steps) {
				live = append(live, x)
			}
		}
		if len(live) == 0 {
			break
		}
		x := live[r.Intn(len(live))]
		v.act(x.c, x.sc.steps[x.next])
		x.next++
		if r.Intn(3) != 0 {
			v.quiesce(0, nil)
		}
	}
	lossy := func(sc vrScenario) bool {
		for _, a := range append(append([]string(nil), sc.pre...), sc.steps...) {
			if a == "l" {
				return true // a TCP reset may discard queued data
			}
		}
		return false
	}
	v.quiesce(0, func() bool {
		v.mu.Lock()
		defer v.mu.Unlock()
		for _, x := range runs {
			if x.sc.wantHup && x.c.hups == 0 {
				return false
			}
			if !lossy(x.sc) && x.c.acked != x.c.written {
				return false
			}
		}
		return true
	})
	v.mu.Lock()
	for _, x := range runs {
		c := x.c
		tag := fmt.Sprintf("conn%d(%s)", c.id, x.sc.name)
		if c.badData {
			v.fail(tag + ": bytes out of order")
		}
		if x.sc.wantHup && c.hups != 1 {
			v.fail(fmt.Sprintf("%s: hang-up reported %d times", tag, c.hups))
		}
		if !x.sc.wantHup && c.hups != 0 {
			v.fail(fmt.Sprintf("%s: hang-up reported %d times without a cause", tag, c.hups))
		}
		// a TCP reset may discard nothing here (data was queued before the RST): everything written must arrive
		if c.acked != c.written && !lossy(x.sc) {
			v.fail(fmt.Sprintf("%s: %d bytes written by the peer, %d delivered before the hang-up", tag, c.written, c.acked))
		}
		if x.sc.wantHup && vpRegistered(epFD)[c.d.a] {
			v.fail(tag + ": still registered after the hang-up")
		}
	}
	v.mu.Unlock()

	// --- writability: PollR2RW with 5 bytes to send => Outputs/OutputAck(5), then RW2R
	{
		c, err := v.newConn(50, r.Intn(2) == 0, 8)
		if err == nil {
			v.register(c)
			v.mu.Lock()
			c.out = 5
			c.op.Control(PollR2RW)
			v.mu.Unlock()
			if !v.quiesce(0, func() bool { v.mu.Lock(); defer v.mu.Unlock(); return c.out == 0 }) {
				v.fail("writable: the output callbacks never ran")
			}
			v.act(c, "c")
			v.quiesce(0, func() bool { return c.hups > 0 })
			if c.hups != 1 {
				v.fail(fmt.Sprintf("writable conn: hang-up reported %d times", c.hups))
			}
			runs = append(runs, &run{c: c})
		}
	}

	// --- Trigger wakes a blocked loop; several Triggers may coalesce but the flag ends at 0
	{
		w0 := atomic.LoadInt64(&v.wakes)
		k := 1 + r.Intn(3)
		v.mu.Lock() // not while a batch is being logged (the reply shows the flag word)
		for i := 0; i < k; i++ {
			if err := p.Trigger(); err != nil {
				v.fail("Trigger: " + err.Error())
			}
		}
		v.mu.Unlock()
		if !v.quiesce(0, func() bool { return atomic.LoadInt64(&v.wakes) > w0 && atomic.LoadUint32(&p.trigger) == 0 }) {
			v.fail(fmt.Sprintf("Trigger x%d did not wake the blocked loop (wake batches %d -> %d, flag %d)", k, w0, atomic.LoadInt64(&v.wakes), atomic.LoadUint32(&p.trigger)))
		}
	}

	// --- growth rule: a wake-up that fills the event array (128 events) doubles it for the NEXT fetch, and the full batch itself
	// is dispatched completely.  The batch holds level-triggered connections with 2 bytes each and, at its head (they become
	// ready first), EDGE-triggered registrations (PollWritable, what the dialer uses): writable edges of descriptors registered
	// while the loop is held at the gate, and the hang-up of one registered earlier whose peer closes now.  The kernel reports an
	// edge once: an event of that batch that is not dispatched is never seen again.
	if growth {
		// H: registered edge-triggered now (its first writable edge is consumed before the gate closes)
		v.mu.Lock()
		hc, herr := v.newConn(900, false, 8)
		if herr == nil {
			v.p.Control(hc.op, PollWritable)
		}
		v.mu.Unlock()
		if herr == nil {
			v.quiesceFor(5*time.Second, 0, func() bool { v.mu.Lock(); defer v.mu.Unlock(); return hc.outs > 0 })
		} else {
			v.fail("growth conn: " + herr.Error())
		}
		gate := make(chan struct{})
		atomic.StoreInt32(&v.atGate, 0)
		v.gate = gate
		v.mu.Lock()
		p.Trigger() // the loop wakes up and waits at the gate
		v.mu.Unlock()
		for dl := time.Now().Add(10 * time.Second); atomic.LoadInt32(&v.atGate) == 0 && time.Now().Before(dl); {
			time.Sleep(100 * time.Microsecond)
		}
		if atomic.LoadInt32(&v.atGate) == 0 {
			v.fail("growth: Trigger did not bring the loop to the gate")
		}
		if hc != nil {
			v.act(hc, "c") // RDHUP|HUP edge
		}
		var extra, edge []*vrConn
		nedge := 1 + r.Intn(3)
		for i := 0; i < nedge; i++ {
			c, err := v.newConn(910+i, false, 8)
			if err != nil {
				v.fail("growth conn: " + err.Error())
				break
			}
			v.p.Control(c.op, PollWritable) // writable at once: the edge is queued now
			edge = append(edge, c)
		}
		// ready descriptors in all: exactly the array size, or a few more (the first fetch is full either way)
		total := []int{128, 128, 129, 131}[r.Intn(4)]
		nlt := total - len(edge)
		if hc != nil {
			nlt--
		}
		for i := 0; i < nlt; i++ {
			c, err := v.newConn(1000+i, false, 8)
			if err != nil {
				v.fail("growth conn: " + err.Error())
				break
			}
			vpWriteAll(c.d.b, vpPattern(0, 2))
			c.written = 2
			c.hist = append(c.hist, "w2")
			v.p.Control(c.op, PollReadable)
			extra = append(extra, c)
		}
		v.gate = nil
		close(gate)
		v.quiesce(0, func() bool {
			v.mu.Lock()
			defer v.mu.Unlock()
			for _, c := range extra {
				if c.acked != 2 {
					return false
				}
			}
			return true
		})
		// the level-triggered connections have all been served, so the loop is past the full batch: whatever the edge-triggered
		// ones were going to get they have got (a little patience for the hang-up goroutine)
		v.quiesceFor(2*time.Second, 0, func() bool {
			v.mu.Lock()
			defer v.mu.Unlock()
			for _, c := range edge {
				if c.outs == 0 {
					return false
				}
			}
			return hc == nil || hc.hups > 0
		})
		// the array grows at the top of the loop's NEXT iteration (after the handler of the full batch returned)
		for dl := time.Now().Add(3 * time.Second); p.size != 256 && time.Now().Before(dl); {
			time.Sleep(200 * time.Microsecond)
		}
		v.mu.Lock()
		if p.size != 256 {
			v.fail(fmt.Sprintf("growth: event array size %d after a full batch, want 256 (batches n/size: %s)", p.size, strings.Join(v.sizes, " ")))
		}
		for _, c := range extra {
			if c.acked != 2 {
				v.fail(fmt.Sprintf("growth: conn%d got %d of 2 bytes (batches n/size: %s)", c.id, c.acked, strings.Join(v.sizes, " ")))
				break
			}
		}
		for _, c := range edge {
			if c.outs != 1 {
				v.fail(fmt.Sprintf("growth: conn%d (edge-triggered, writable edge in the full batch): writability reported %d times, want 1 (batches n/size: %s)", c.id, c.outs, strings.Join(v.sizes, " ")))
				break
			}
		}
		if hc != nil {
			if hc.hups != 1 {
				v.fail(fmt.Sprintf("growth: conn%d (edge-triggered, peer closed, hang-up edge in the full batch): hang-up reported %d times, want 1 (batches n/size: %s)", hc.id, hc.hups, strings.Join(v.sizes, " ")))
			} else if vpRegistered(epFD)[hc.d.a] {
				v.fail(fmt.Sprintf("growth: conn%d still registered after its hang-up", hc.id))
			}
			runs = append(runs, &run{c: hc})
		}
		v.mu.Unlock()
		for _, c := range append(extra, edge...) {
			runs = append(runs, &run{c: c})
		}
	}

	// --- Close: Wait returns nil, both descriptors are released.  The close message arrives in ONE wake-up with a
	// hang-up: the loop is held at the gate with a data batch of a helper connection while the peer of `last` closes
	// and Close() is called (three rounds in four the hang-up became ready first and is in front of the close message:
	// `last` is detached in that batch and must still get its OnHup; else the close message is first and `last` is
	// not touched at all)
	var last *vrConn
	{
		c, err1 := v.newConn(60, false, 8)
		x, err2 := v.newConn(61, false, 8)
		if err1 != nil || err2 != nil {
			v.fail(fmt.Sprint("close-with-hup conns: ", err1, err2))
		} else {
			v.register(c)
			v.register(x)
			v.quiesce(0, nil)
			gate := make(chan struct{})
			atomic.StoreInt32(&v.atGate, 0)
			v.gate = gate
			v.act(x, "w2") // the loop wakes up for x and waits at the gate
			for dl := time.Now().Add(10 * time.Second); atomic.LoadInt32(&v.atGate) == 0 && time.Now().Before(dl); {
				time.Sleep(100 * time.Microsecond)
			}
			if atomic.LoadInt32(&v.atGate) == 0 {
				v.fail("close-with-hup: data did not bring the loop to the gate")
			}
			closeFirst := r.Intn(4) == 0
			if !closeFirst {
				v.act(c, "c")
			}
			v.mu.Lock()
			v.closeMsg = true
			v.mu.Unlock()
			if err := p.Close(); err != nil {
				v.fail("Close: " + err.Error())
			}
			if closeFirst {
				v.act(c, "c")
			}
			v.gate = nil
			close(gate)
			last = c
			runs = append(runs, &run{c: c}, &run{c: x})
		}
	}
	if last == nil {
		v.mu.Lock()
		v.closeMsg = true
		v.mu.Unlock()
		if err := p.Close(); err != nil {
			v.fail("Close: " + err.Error())
		}
	}
	select {
	case err := <-waitDone:
		if err != nil {
			v.fail("Wait returned " + err.Error())
		}
		if !vpFdClosed(wopFD) || !vpFdClosed(epFD) {
			v.fail("Close: the poller's descriptors are still open after Wait returned")
		}
		// the wrapped handler waited for the hang-up goroutine before it let Wait return
		if last != nil {
			if det := atomic.LoadInt32(&last.op.detached); det > 0 && last.hups != 1 {
				v.fail(fmt.Sprintf("close-with-hup: the connection was detached in the poller's last batch and its hang-up was reported %d times", last.hups))
			} else if det == 0 && last.hups != 0 {
				v.fail(fmt.Sprintf("close-with-hup: hang-up reported %d times to a connection that was never detached", last.hups))
			}
		}
	case <-time.After(30 * time.Second):
		v.fail("Close did not make Wait return")
	}
	for _, x := range runs {
		x.c.d.close()
	}
	fmt.Fprintf(ow, "%s conns=%s\n", head, strings.Join(names, ","))
	ow.Flush()
	if len(v.bad) == 0 {
		fmt.Fprintln(iw, "ok")
	} else {
		fmt.Fprintln(iw, "FAIL:"+strings.Join(strings.Fields(strings.Join(v.bad, ";")), "_"))
	}
	iw.Flush()
	return len(v.bad) == 0
}

// vrWake: "Trigger wakes a blocked loop", under contention.  Several goroutines hammer Trigger on a private poll running the real
// Wait loop (that is where the coalescing flag and the eventfd counter can get out of step); after each burst, once every Trigger
// call has returned and the loop is idle, ONE more Trigger call must cause one more pass of the loop.
func vrWake(seed int64, ow, iw *bufio.Writer) (ok bool) {
	head := fmt.Sprintf("real wake seed=%d", seed)
	fmt.Fprintln(ow, head)
	ow.Flush()
	p, err := openDefaultPoll()
	if err != nil {
		fmt.Fprintln(iw, "harness-error open: "+err.Error())
		return false
	}
	var passes int64
	p.Handler = func(events []epollevent) bool {
		closed := p.handler(events)
		atomic.AddInt64(&passes, 1)
		return closed
	}
	waitDone := make(chan error, 1)
	go func() { waitDone <- p.Wait() }()
	r := rand.New(rand.NewSource(seed))
	bad := ""
	idle := func() int64 {
		last, lastT := atomic.LoadInt64(&passes), time.Now()
		for time.Since(lastT) < 2*time.Millisecond {
			time.Sleep(100 * time.Microsecond)
			if cur := atomic.LoadInt64(&passes); cur != last {
				last, lastT = cur, time.Now()
			}
		}
		return last
	}
	for burst := 0; burst < 6 && bad == ""; burst++ {
		g := 2 + r.Intn(6)
		per := 200 + r.Intn(3000)
		done := make(chan struct{}, g)
		for k := 0; k < g; k++ {
			spin := r.Intn(40)
			go func() {
				x := 0
				for j := 0; j < per; j++ {
					p.Trigger()
					for q := 0; q < spin; q++ {
						x += q
					}
				}
				_ = x
				done <- struct{}{}
			}()
		}
		for k := 0; k < g; k++ {
			<-done
		}
		before := idle()
		if err := p.Trigger(); err != nil {
			bad = "trigger-error:" + err.Error()
			break
		}
		dl := time.Now().Add(2 * time.Second)
		for atomic.LoadInt64(&passes) == before && time.Now().Before(dl) {
			time.Sleep(100 * time.Microsecond)
		}
		if atomic.LoadInt64(&passes) == before {
			bad = fmt.Sprintf("trigger-did-not-wake-the-blocked-loop(burst=%d,goroutines=%d,flag=%d)", burst, g, atomic.LoadUint32(&p.trigger))
		}
	}
	p.Close()
	select {
	case <-waitDone:
	case <-time.After(2 * time.Second):
		if bad == "" {
			bad = "close-did-not-stop-the-loop"
		} else {
			// the loop is stuck in epoll_wait for good: release its descriptors ourselves
			syscall.Close(p.wop.FD)
			syscall.Close(p.fd)
		}
	}
	if bad == "" {
		fmt.Fprintln(iw, "ok")
	} else {
		fmt.Fprintln(iw, "FAIL:"+bad)
	}
	iw.Flush()
	return bad == ""
}

func vpRealMain(seed int64, n int, tier string, ow, iw *bufio.Writer, progress *int64) {
	failed := 0
	for i := 0; i < n && failed < 2; i++ {
		if i%4 == 1 {
			if !vrWake(seed*1000+int64(i), ow, iw) {
				failed++
			}
			atomic.AddInt64(progress, 1)
			continue
		}
		if !vrRun(seed*1000+int64(i), i%8 == 0, ow, iw) {
			failed++ // two failing rounds are enough to report; a broken loop makes every further round slow
		}
		atomic.AddInt64(progress, 1)
	}
}

func vpRealReplay(line string, ow, iw *bufio.Writer) {
	var seed int64
	growth := false
	if strings.HasPrefix(line, "real wake ") {
		fmt.Sscanf(line, "real wake seed=%d", &seed)
		vrWake(seed, ow, iw)
		return
	}
	for _, kv := range strings.Fields(line) {
		if strings.HasPrefix(kv, "seed=") {
			seed, _ = strconv.ParseInt(kv[5:], 10, 64)
		}
		if kv == "growth=true" {
			growth = true
		}
	}
	vrRun(seed, growth, ow, iw)
}
