//go:build verif
// +build verif

package netpoll

import "bufio"

func vpRealMain(seed int64, n int, tier string, ow, iw *bufio.Writer, progress *int64) int { return 0 }
func vpRealReplay(line string, ow, iw *bufio.Writer)                                      {}
