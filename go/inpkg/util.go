//go:build verif
// +build verif

package netpoll

// helpers shared by the verification harness files

import "fmt"

func vGenByte(seed, i int) byte { return byte(((seed+1)*31 + i*7 + i/13) % 251) }

func vGenBytes(seed, n, c int) []byte {
	if c < n {
		c = n
	}
	p := make([]byte, n, c)
	for i := range p {
		p[i] = vGenByte(seed, i)
	}
	return p
}

func vFnv(bs []byte) uint32 {
	h := uint32(2166136261)
	for _, b := range bs {
		h ^= uint32(b)
		h *= 16777619
	}
	return h
}

func vBytesRes(p []byte) string { return fmt.Sprintf("ok b:%d:%d", len(p), vFnv(p)) }
