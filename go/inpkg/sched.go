//go:build verif && verifsched
// +build verif,verifsched

package netpoll

// Controlled scheduler ("T-sched") for the REAL code.  See /verif/SCHED.md.
//
// The files of the lifecycle protocol are replaced at build time by instrumented copies
// (tools/instrument, regenerated from /repo on every run).  Every sync/atomic operation, select,
// blocking receive, spin-loop iteration, close(2) and user-callback call in them passes a hook
// (interface verifHooks in the generated zz_verif_hooks.go).  This file implements those hooks:
// actors are goroutines of which exactly ONE runs between two schedule points; the scheduler waits
// until the running actor is parked at a point / blocked at a wait point / finished, then resumes the
// actor the schedule names.  A schedule is a list of actor names and replays exactly.
//
// Nothing in this file is specific to one property.  A scenario (sched_life.go for C05/C06/C09)
// creates the objects under test, registers the shared words it wants scheduled and traced, spawns
// actors and calls run().

import (
	"bytes"
	"fmt"
	"math/rand"
	"reflect"
	"runtime"
	"sort"
	"strconv"
	"strings"
	"sync"
	"syscall"
	"time"
	"unsafe"
)

// ---------------------------------------------------------------------------------------------
// actors

const (
	vsParkStart = iota // not yet started (optionally guarded)
	vsParkPoint        // at a schedule point: always enabled (optionally guarded)
	vsParkWait         // at a blocking select / receive / send: enabled iff a channel is ready (or its timer may fire)
	vsParkYield        // inside a spin loop: enabled iff another actor made a step since
)

type vsActor struct {
	id      int
	name    string
	kind    string
	gid     int64
	done    bool
	running bool
	park    int
	site    string
	guard   func() bool
	chans   []interface{}
	dirs    string
	epoch   int // global step count when it yielded
	resume  chan struct{}
	steps   int
	fn      func()
	env     bool // environment actor: being parked at a false guard for ever is not a deadlock
	// spin detection: a yielding actor may always retry once; it is disabled only when it yields twice in a row
	// without any other actor having made a step in between (then its test cannot have changed)
	yielded  bool
	idleSpin bool
	yGlobal  int
	yOwn     int
	// atomicMode: the actor parks only at BLOCKING points (a whole call of it is one scheduler step); its operations
	// are still traced.  Used for the second flusher of C08 (model action flush2 is one atomic step).
	atomicMode bool
	// select forcing (see vsSched.run): alias != nil marks a pseudo entry "name~k" = actor alias taking its k-th ready
	// communication; hidden = values transiently taken out of the other ready channels, put back at the actor's next hook
	alias     *vsActor
	aliasCase int
	hidden    []vsHidden
}

type vsHidden struct {
	ch  interface{}
	val reflect.Value
}

// vsChoice is one scheduling decision (for enumeration by re-execution).
type vsChoice struct {
	enabled []string
	chosen  string
	prev    string // actor that ran the previous step
	prevEn  bool   // ... and whether it was still enabled (then choosing another actor is a preemption)
}

// vsChooser picks the next actor among the enabled ones (sorted by actor id).
type vsChooser interface {
	choose(s *vsSched, enabled []*vsActor, prev *vsActor) *vsActor
}

type vsSched struct {
	mu       sync.RWMutex
	actors   []*vsActor
	byGid    map[int64]*vsActor
	evt      chan *vsActor
	trace    bytes.Buffer
	steps    int
	maxSteps int
	chooser  vsChooser
	choices  []vsChoice
	status   string
	// scenario supplied
	wordOf  func(addr unsafe.Pointer) string // "" = not a word of interest: no schedule point, no trace line
	chanOf  func(ch interface{}) string      // "" = not a channel of interest
	timerOf func(ch interface{}) *time.Timer // timer behind a channel a wait point listens on (nil = none)
	quiet   func(site string) bool           // sites that are traced but are not schedule points (may be nil)
	quietOp func(word, fn string) bool       // (word, atomic function) pairs that are traced but are not schedule points (may be nil)
	// statistics
	siteHits map[string]int
	nTask    int
	watchdog time.Duration
	cur      *vsActor // the actor resumed by the scheduler (nil while the scheduler decides)
	foreign  int      // hook calls from a goroutine other than the running actor (vsCheckGid)
	// C07/C08 extensions (nil/false = off; the lifecycle scenarios do not use them)
	timerName    func(t *time.Timer) string // "" = not a timer of interest; set => timer operations are schedule points
	newTimerName func(site string) string   // name of the timer created at a time.NewTimer site
	armed        map[*time.Timer]bool       // armed and neither fired (by fireTimer) nor stopped since
	forceSelect  bool                       // a wait point with several ready channels becomes a scheduling choice
	kernel       func(a *vsActor, site string, fd int, bs [][]byte, ivs []syscall.Iovec) (n int, err error, offered int, handled bool)
}

func vsNewSched() *vsSched {
	return &vsSched{byGid: map[int64]*vsActor{}, evt: make(chan *vsActor, 64), maxSteps: 3000,
		siteHits: map[string]int{}, watchdog: 60 * time.Second, armed: map[*time.Timer]bool{}}
}

func vsGid() int64 {
	var buf [64]byte
	n := runtime.Stack(buf[:], false)
	// "goroutine 123 [running]:"
	s := buf[10:n]
	i := bytes.IndexByte(s, ' ')
	id, _ := strconv.ParseInt(string(s[:i]), 10, 64)
	return id
}

// vsCheckGid: identify the calling actor by goroutine id on EVERY hook call (slow: runtime.Stack) and report a
// hook call that does not come from the actor the scheduler resumed.  Off by default: exactly one actor runs
// at a time, so the running actor is known; corpus replays and `-checkgid` runs turn it on.
var vsCheckGid = false

func (s *vsSched) self() *vsActor {
	cur := s.cur
	if !vsCheckGid {
		if cur != nil && cur.running {
			return cur
		}
		return nil
	}
	g := vsGid()
	s.mu.RLock()
	a := s.byGid[g]
	s.mu.RUnlock()
	if a != cur && (a != nil || (cur != nil && cur.running)) {
		s.foreign++
	}
	return a
}

// spawn registers a new actor; it starts (parked at "start") immediately but runs only when scheduled.
// guard (may be nil) must hold for it to be started.  Callable from the setup goroutine and from a running actor.
func (s *vsSched) spawn(name, kind string, env bool, guard func() bool, fn func()) *vsActor {
	a := &vsActor{name: name, kind: kind, park: vsParkStart, site: "start", guard: guard, resume: make(chan struct{}), fn: fn, env: env}
	s.mu.Lock()
	a.id = len(s.actors)
	s.actors = append(s.actors, a)
	s.mu.Unlock()
	ready := make(chan struct{})
	go func() {
		a.gid = vsGid()
		s.mu.Lock()
		s.byGid[a.gid] = a
		s.mu.Unlock()
		close(ready)
		<-a.resume
		defer func() {
			if r := recover(); r != nil {
				s.line("G %s panic-out %s", a.name, vsOneLine(fmt.Sprint(r)))
			}
			s.restoreHidden(a)
			a.done = true
			a.running = false
			s.evt <- a
		}()
		a.fn()
	}()
	<-ready
	return a
}

// spawnTask is the runner installed with SetRunner: every handler task becomes an actor "task<k>".
func (s *vsSched) spawnTask(fn func()) {
	s.nTask++
	name := "task" + strconv.Itoa(s.nTask)
	if cur := s.self(); cur != nil {
		s.line("G %s spawn %s", cur.name, name)
	}
	s.spawn(name, "task", false, nil, fn)
}

func vsOneLine(x string) string {
	x = strings.ReplaceAll(x, "\n", " ")
	x = strings.ReplaceAll(x, " ", "_")
	if len(x) > 80 {
		x = x[:80]
	}
	return x
}

func (s *vsSched) line(format string, args ...interface{}) {
	fmt.Fprintf(&s.trace, format, args...)
	s.trace.WriteByte('\n')
}

// ghost writes a ghost event attributed to the running actor (or "env" from the setup goroutine).
func (s *vsSched) ghost(format string, args ...interface{}) {
	name := "env"
	if a := s.self(); a != nil {
		name = a.name
	}
	s.line("G %s %s", name, fmt.Sprintf(format, args...))
}

// parkHere parks the calling actor and blocks until the scheduler resumes it.
func (s *vsSched) parkHere(a *vsActor, park int, site string, guard func() bool, dirs string, chans []interface{}) {
	a.park, a.site, a.guard, a.dirs, a.chans = park, site, guard, dirs, chans
	a.epoch = s.steps
	a.running = false
	s.evt <- a
	<-a.resume
}

// point is a schedule point in harness code (name appears as the site).
func (s *vsSched) point(site string) {
	if a := s.self(); a != nil {
		s.parkHere(a, vsParkPoint, site, nil, "", nil)
	}
}

// guardPoint parks the actor until guard() holds (evaluated by the scheduler while nobody runs).
func (s *vsSched) guardPoint(site string, guard func() bool) {
	if a := s.self(); a != nil {
		s.parkHere(a, vsParkPoint, site, guard, "", nil)
	}
}

// ---------------------------------------------------------------------------------------------
// hooks called by the instrumented code (interface verifHooks)

func (s *vsSched) Pre(site, fn string, addr unsafe.Pointer) {
	a := s.self()
	if a == nil {
		return
	}
	s.restoreHidden(a)
	if s.wordOf == nil || s.wordOf(addr) == "" {
		return
	}
	if s.quiet != nil && s.quiet(site) {
		return
	}
	if s.quietOp != nil && s.quietOp(s.wordOf(addr), fn) {
		return
	}
	if a.atomicMode {
		return
	}
	s.parkHere(a, vsParkPoint, site, nil, "", nil)
}

func (s *vsSched) Post(site, fn string, addr unsafe.Pointer, x, y, r int64) {
	a := s.self()
	if a == nil || s.wordOf == nil {
		return
	}
	w := s.wordOf(addr)
	if w == "" {
		s.siteHits["~"+site]++
		return
	}
	s.siteHits[site]++
	s.line("S %s %s %s %s %d %d %d", a.name, site, w, fn, x, y, r)
}

func vsChanReady(dir byte, ch interface{}) bool {
	v := reflect.ValueOf(ch)
	if !v.IsValid() || v.Kind() != reflect.Chan || v.IsNil() {
		return false
	}
	if dir == 's' {
		return v.Len() < v.Cap()
	}
	return v.Len() > 0
}

func (s *vsSched) Sel(site string, hasDefault bool, dirs string, chans []interface{}) {
	a := s.self()
	if a == nil || s.chanOf == nil {
		return
	}
	s.restoreHidden(a)
	names := make([]string, len(chans))
	any := false
	for i, c := range chans {
		names[i] = s.chanOf(c)
		if names[i] != "" {
			any = true
		}
	}
	if !any {
		s.siteHits["~"+site]++
		return
	}
	if hasDefault {
		if (s.quiet == nil || !s.quiet(site)) && !a.atomicMode {
			s.parkHere(a, vsParkPoint, site, nil, "", nil)
		}
	} else {
		s.parkHere(a, vsParkWait, site, nil, dirs, chans)
	}
	// observed result, now that we own the processor: which communications are ready
	s.siteHits[site]++
	var b strings.Builder
	for i, c := range chans {
		if i > 0 {
			b.WriteByte(',')
		}
		n := names[i]
		if n == "" {
			n = "?"
		}
		r := 0
		if vsChanReady(dirs[i], c) {
			r = 1
		}
		fmt.Fprintf(&b, "%c:%s:%d", dirs[i], n, r)
	}
	d := 0
	if hasDefault {
		d = 1
	}
	s.line("P %s %s %d %s", a.name, site, d, b.String())
}

func (s *vsSched) Yield(site string) {
	a := s.self()
	if a == nil {
		return
	}
	s.restoreHidden(a)
	s.siteHits[site]++
	s.line("Y %s %s", a.name, site)
	others := (s.steps - a.yGlobal) - (a.steps - a.yOwn)
	a.idleSpin = a.yielded && others == 0
	a.yGlobal, a.yOwn, a.yielded = s.steps, a.steps, true
	s.parkHere(a, vsParkYield, site, nil, "", nil)
}

func (s *vsSched) Cb(site string, enter bool, callee string) {
	a := s.self()
	if a == nil {
		return
	}
	s.restoreHidden(a)
	s.siteHits[site]++
	if (s.quiet == nil || !s.quiet(site)) && !a.atomicMode {
		s.parkHere(a, vsParkPoint, site, nil, "", nil)
	}
	if enter {
		s.line("C %s %s enter %s", a.name, site, callee)
	} else {
		s.line("C %s %s exit %s", a.name, site, callee)
	}
}

func (s *vsSched) SysClose(site string, fd int) {
	a := s.self()
	if a == nil {
		return
	}
	s.restoreHidden(a)
	s.siteHits[site]++
	s.parkHere(a, vsParkPoint, site, nil, "", nil)
	s.line("X %s %s close %d", a.name, site, fd)
}

// --- timers (C07/C08): time.NewTimer / Reset / Stop in the instrumented files are schedule points and are traced
// ("T actor site op timer result"); the scheduler keeps track of which registered timer is armed, so that its expiry
// can be offered as a scheduling choice (fireTimer, called by a scenario's timer actor).

func (s *vsSched) TimerPre(site, op string, t *time.Timer) {
	a := s.self()
	if a == nil || s.timerName == nil {
		return
	}
	s.restoreHidden(a)
	if t != nil && s.timerName(t) == "" {
		return
	}
	if a.atomicMode {
		return
	}
	s.parkHere(a, vsParkPoint, site, nil, "", nil)
}

func (s *vsSched) TimerPost(site, op string, t *time.Timer, res bool) {
	a := s.self()
	if a == nil || s.timerName == nil {
		return
	}
	n := s.timerName(t)
	if op == "new" && n == "" && s.newTimerName != nil {
		n = s.newTimerName(site) // the result of NewTimer is not yet stored in the connection
	}
	if n == "" {
		s.siteHits["~"+site]++
		return
	}
	s.siteHits[site]++
	s.armed[t] = op != "stop"
	s.line("T %s %s %s %s %d", a.name, site, op, n, map[bool]int{false: 0, true: 1}[res])
}

// fireTimer makes an armed timer expire NOW (Reset(0) on the connection's own timer, then wait for the tick to sit in
// its channel).  Called by a timer actor, i.e. as a scheduling choice.
func (s *vsSched) fireTimer(t *time.Timer) bool {
	if !s.armed[t] {
		return false
	}
	t.Reset(0)
	ok := false
	for i := 0; i < 20000; i++ {
		if vsChanReady('r', t.C) {
			ok = true
			break
		}
		time.Sleep(20 * time.Microsecond)
	}
	s.armed[t] = false
	return ok
}

// --- the kernel (C08): connection.flush's sendmsg call goes through this hook; the scenario scripts the answer.

func vsErrName(err error) string {
	switch err {
	case nil:
		return "ok"
	case syscall.EAGAIN:
		return "EAGAIN"
	}
	return vsOneLine(err.Error())
}

func (s *vsSched) Sendmsg(site string, fd int, bs [][]byte, ivs []syscall.Iovec, zerocopy bool) (int, error, bool) {
	a := s.self()
	if a == nil || s.kernel == nil {
		return 0, nil, false
	}
	s.restoreHidden(a)
	if !a.atomicMode {
		s.parkHere(a, vsParkPoint, site, nil, "", nil)
	}
	vecs := len(bs) // GetBytes fills at most barriercap vectors: with that many, the offer may be a proper prefix of the buffer
	n, err, offered, handled := s.kernel(a, site, fd, bs, ivs)
	if !handled {
		s.siteHits["~"+site]++
		return 0, nil, false
	}
	s.siteHits[site]++
	s.line("K %s %s sendmsg %d %d %s vecs=%d", a.name, site, offered, n, vsErrName(err), vecs)
	return n, err, true
}

// --- select forcing: a blocking select resumed with several ready channels is resolved by the Go runtime at random.
// With forceSelect the scheduler makes it a choice: entry "name" takes the first ready registered communication,
// "name~k" the k-th; the values of the other ready channels are taken out before the actor is resumed and put back
// at its next hook call (no other actor runs in between, so the effect equals the runtime having picked that case).

func (s *vsSched) readyCases(a *vsActor) []int {
	var out []int
	if a.park != vsParkWait {
		return nil
	}
	for i, c := range a.chans {
		if a.dirs[i] == 'r' && vsChanReady('r', c) && s.chanOf != nil && s.chanOf(c) != "" {
			out = append(out, i)
		}
	}
	return out
}

func (s *vsSched) hideAllBut(a *vsActor, keep int) {
	var also []string
	for _, i := range s.readyCases(a) {
		if i == keep {
			continue
		}
		v := reflect.ValueOf(a.chans[i])
		if x, ok := v.TryRecv(); ok {
			a.hidden = append(a.hidden, vsHidden{ch: a.chans[i], val: x})
			also = append(also, s.chanOf(a.chans[i]))
		}
	}
	if len(also) > 0 {
		// the communication the select is made to take, and the ones that were ready as well
		s.line("G %s select-forced case=%s also-ready=%s", a.name, s.chanOf(a.chans[keep]), strings.Join(also, "+"))
	}
}

func (s *vsSched) restoreHidden(a *vsActor) {
	if len(a.hidden) == 0 {
		return
	}
	for _, h := range a.hidden {
		switch c := h.ch.(type) {
		case <-chan time.Time:
			// a timer channel is receive-only by type; same representation as the bidirectional channel behind it
			bc := *(*chan time.Time)(unsafe.Pointer(&c))
			select {
			case bc <- h.val.Interface().(time.Time):
			default:
			}
		default:
			reflect.ValueOf(h.ch).TrySend(h.val)
		}
	}
	a.hidden = nil
}

func vsBase(name string) string {
	if i := strings.IndexByte(name, '~'); i >= 0 {
		return name[:i]
	}
	return name
}

// ---------------------------------------------------------------------------------------------
// the scheduler loop

func (s *vsSched) isEnabled(a *vsActor) bool {
	if a.done || a.running {
		return false
	}
	switch a.park {
	case vsParkStart, vsParkPoint:
		return a.guard == nil || a.guard()
	case vsParkWait:
		for i, c := range a.chans {
			if vsChanReady(a.dirs[i], c) {
				return true
			}
		}
		return false
	case vsParkYield:
		return !a.idleSpin || s.steps > a.epoch // see vsActor.idleSpin
	}
	return false
}

// timerFor returns the timer whose expiry would wake actor a (parked at a wait point), if any.
func (s *vsSched) timerFor(a *vsActor) *time.Timer {
	if a.done || a.running || a.park != vsParkWait || s.timerOf == nil {
		return nil
	}
	for i, c := range a.chans {
		if a.dirs[i] == 'r' && !vsChanReady('r', c) {
			if t := s.timerOf(c); t != nil {
				return t
			}
		}
	}
	return nil
}

// run executes the scenario until no actor is enabled.  Call from the setup goroutine after spawning the
// initial actors.  Returns the status: quiescent | blocked | livelock | maxsteps | stuck.
func (s *vsSched) run() string {
	var prev *vsActor
	wd := time.NewTimer(time.Hour)
	defer wd.Stop()
	for {
		s.mu.RLock()
		actors := append([]*vsActor(nil), s.actors...)
		s.mu.RUnlock()
		var en []*vsActor
		for _, a := range actors {
			if s.isEnabled(a) {
				en = append(en, a)
			}
		}
		// timer expiry is a scheduling choice: pseudo actor "timer:<actor>"
		var timers []*vsActor
		for _, a := range actors {
			if !s.isEnabled(a) && s.timerFor(a) != nil {
				timers = append(timers, a)
			}
		}
		if len(en) == 0 && len(timers) == 0 {
			s.status = "quiescent"
			for _, a := range actors {
				if a.done {
					continue
				}
				switch {
				case a.park == vsParkYield:
					s.status = "livelock"
				case a.park == vsParkWait:
					if s.status != "livelock" {
						s.status = "blocked"
					}
				case !a.env:
					if s.status == "quiescent" {
						s.status = "blocked"
					}
				}
			}
			return s.status
		}
		if s.steps >= s.maxSteps {
			s.status = "maxsteps"
			return s.status
		}
		if len(en) == 0 {
			// only timers can make progress: fire the first (deterministic)
			s.fire(timers[0])
			continue
		}
		if s.forceSelect {
			var en2 []*vsActor
			for _, e := range en {
				en2 = append(en2, e)
				if rc := s.readyCases(e); len(rc) > 1 {
					for k := 1; k < len(rc); k++ {
						en2 = append(en2, &vsActor{name: e.name + "~" + strconv.Itoa(k), alias: e, aliasCase: rc[k], id: e.id})
					}
				}
			}
			en = en2
		}
		a := s.chooser.choose(s, en, prev)
		names := make([]string, len(en))
		for i, e := range en {
			names[i] = e.name
		}
		pn, pe := "", false
		if prev != nil {
			pn = prev.name
			for _, e := range en {
				if e == prev {
					pe = true
				}
			}
		}
		s.choices = append(s.choices, vsChoice{enabled: names, chosen: a.name, prev: pn, prevEn: pe})
		if s.forceSelect {
			if a.alias != nil {
				k := a.aliasCase
				a = a.alias
				s.hideAllBut(a, k)
			} else if rc := s.readyCases(a); len(rc) > 1 {
				s.hideAllBut(a, rc[0])
			}
		}
		s.steps++
		a.steps++
		a.running = true
		s.cur = a
		a.resume <- struct{}{}
		if !wd.Stop() {
			select {
			case <-wd.C:
			default:
			}
		}
		wd.Reset(s.watchdog)
		select {
		case <-s.evt:
		case <-wd.C:
			s.status = "stuck"
			s.line("G env stuck %s after %s", a.name, a.site)
			return s.status
		}
		s.cur = nil
		prev = a
	}
}

func (s *vsSched) fire(a *vsActor) {
	t := s.timerFor(a)
	t.Reset(0)
	for i := 0; i < 2000 && !s.isEnabled(a); i++ {
		time.Sleep(50 * time.Microsecond)
	}
	s.line("G env timer-fired %s", a.name)
}

func (s *vsSched) schedule() []string {
	out := make([]string, len(s.choices))
	for i, c := range s.choices {
		out[i] = c.chosen
	}
	return out
}

// parked describes where every unfinished actor sits (for the end line).
func (s *vsSched) parked() string {
	var p []string
	for _, a := range s.actors {
		if !a.done {
			p = append(p, a.name+"@"+a.site)
		}
	}
	sort.Strings(p)
	if len(p) == 0 {
		return "-"
	}
	return strings.Join(p, ",")
}

// ---------------------------------------------------------------------------------------------
// choosers

// vsDefault: never preempt; when the previous actor cannot continue take the enabled actor with the lowest id.
func vsDefaultPick(enabled []*vsActor, prev *vsActor) *vsActor {
	for _, e := range enabled {
		if e == prev {
			return e
		}
	}
	return enabled[0]
}

// vsReplay follows a list of actor names, then the default policy.  A name that is not enabled at its
// position makes the run fall back to the default policy from there on (recorded in `diverged`).
type vsReplay struct {
	names    []string
	pos      int
	diverged int // -1 = no
}

func (r *vsReplay) choose(s *vsSched, enabled []*vsActor, prev *vsActor) *vsActor {
	if r.pos < len(r.names) && r.diverged < 0 {
		n := r.names[r.pos]
		r.pos++
		for _, e := range enabled {
			if e.name == n {
				return e
			}
		}
		r.diverged = r.pos - 1
	}
	return vsDefaultPick(enabled, prev)
}

// vsRandom: seeded random walk; with probability stay/100 the previous actor continues if it can.
type vsRandom struct {
	rnd  *rand.Rand
	stay int
}

func (r *vsRandom) choose(s *vsSched, enabled []*vsActor, prev *vsActor) *vsActor {
	if prev != nil && r.rnd.Intn(100) < r.stay {
		for _, e := range enabled {
			if e == prev {
				return e
			}
		}
	}
	return enabled[r.rnd.Intn(len(enabled))]
}
