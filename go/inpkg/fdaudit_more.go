//go:build verif
// +build verif

package netpoll

// More lifecycle scenarios of the descriptor audit (property C15), same conventions as fdaudit.go:
//
//   pool-resize        the poller pool is grown, shrunk (SetNumLoops smaller, applied by the next Pick), used, reset and
//                      finally closed: every poller the pool ever opened is a lifecycle of the scenario and must have
//                      closed both its descriptors at the end
//   pool-init-race     after SetNumLoops(larger) sixteen goroutines released together call Initialize() / make the first
//                      Picks; then the pool is used, shrunk, reset and closed as in pool-resize: every poller ever opened
//                      is a declared lifecycle, the final census is the baseline
//   netfd-close-race   several goroutines, released from a spin barrier, call Close on the SAME *netFD at the same
//                      instant: the net.Conn that Listener.Accept returns, a bare netFD, and a connection
//   dial-prebind-fails dials through DialTCP / DialUnix that fail BEFORE connect(2): local address in use, local address
//                      not on this host, address family mismatch, unix local path that exists
//   dial-selfconnect   dials to refusing ports inside the ephemeral port range until the kernel connects a socket to
//                      itself (net_tcpsock.go: the retry loop closes it and dials again); run in a private network
//                      namespace with a narrow port range (lib/fdrun.py: `unshare -n`), so that this happens within
//                      a few dozen dials

import (
	"context"
	"fmt"
	"io"
	"net"
	"os"
	"runtime"
	"strconv"
	"strings"
	"sync"
	"sync/atomic"
	"syscall"
	"time"
	"unsafe"
)

// ---- pool-resize ----

func fdaPoolSize() int { return len(pollmanager.polls) }

// fdaSetLoops reconfigures the pool to n pollers (applied by the Pick that follows, as in SetNumLoops' contract);
// every poller that Run will open is declared as a lifecycle first
func (x *fdaCtx) fdaSetLoops(n int) bool {
	for i := fdaPoolSize(); i < n; i++ {
		x.kind("poller 2")
	}
	if err := pollmanager.SetNumLoops(n); err != nil {
		x.failf("SetNumLoops(%d): %v", n, err)
		return false
	}
	if p := pollmanager.Pick(); p == nil {
		x.failf("Pick after SetNumLoops(%d) returned nil", n)
		return false
	}
	if got := fdaPoolSize(); got != n {
		x.failf("pool has %d pollers after SetNumLoops(%d) and Pick", got, n)
		return false
	}
	return true
}

// a connection on a socketpair served by whatever poller the pool picks: data must arrive, then it is closed
func (x *fdaCtx) fdaUsePool(rounds int) {
	for i := 0; i < rounds; i++ {
		a, b, ok := fdaSocketpair(x)
		if !ok {
			return
		}
		x.kind("fdConn %d 3", a)
		fdaMark("G %d", a)
		c, err := NewFDConnection(a)
		if err != nil {
			x.failf("NewFDConnection: %v", err)
			fdaClose(b)
			return
		}
		syscall.Write(b, []byte("ping"))
		if !fdaWait(func() bool { return c.Reader().Len() >= 4 }, 8*time.Second) {
			x.failf("pool-resize: data did not arrive through the resized pool")
		}
		c.Close()
		fdaClose(b)
	}
}

func fdaPoolResizeScenario(x *fdaCtx) {
	x.usePollManager()
	x.know("conn_detach", false)
	x.know("conn_viaServer", false)
	x.know("prepare_closes", false)
	n0 := fdaPoolSize()
	if n0 == 0 {
		x.failf("pool did not start")
		return
	}
	big := n0 + 2 + x.rnd.Intn(3)
	small := 1 + x.rnd.Intn(n0) // <= big - 2: at least two pollers are dropped
	steps := []int{big, small}
	switch x.rnd.Intn(3) {
	case 0:
		steps = append(steps, small+1+x.rnd.Intn(2), 1) // grow a little, shrink to one
	case 1:
		steps = []int{big, big - 1, small} // shrink in two steps
	}
	for _, n := range steps {
		if !x.fdaSetLoops(n) {
			return
		}
		x.fdaUsePool(2)
		time.Sleep(time.Duration(x.rnd.Intn(400)) * time.Microsecond)
	}
	if x.rnd.Intn(2) == 0 {
		// Reset: every poller is closed and the configured number opened again
		for i := 0; i < fdaPoolSize(); i++ {
			x.kind("poller 2")
		}
		if err := pollmanager.Reset(); err != nil {
			x.failf("Reset: %v", err)
			return
		}
		x.fdaUsePool(1)
	}
}

// ---- pool-init-race ----

// Start-up as applications do it: the pool is reconfigured (SetNumLoops larger), then several goroutines begin to use
// netpoll at the same moment - some call the package-level Initialize() ("safe to call it multi times"), the others go
// straight to what every dial / accept / NewFDConnection does first, pollmanager.Pick().  However these calls interleave,
// every poller that gets opened must belong to the pool (one `poller` lifecycle per missing poller, declared before the
// release): the pool is then used, shrunk, in the end reset / closed as in pool-resize, and the final census must be the
// baseline - a poller opened by a caller that lost the race is owned by nobody and its two descriptors stay.
func fdaPoolInitRaceScenario(x *fdaCtx) {
	x.usePollManager()
	x.know("conn_detach", false)
	x.know("conn_viaServer", false)
	x.know("prepare_closes", false)
	n0 := fdaPoolSize()
	if n0 == 0 {
		x.failf("pool did not start")
		return
	}
	const callers = 16
	rounds := 3 + x.rnd.Intn(2)
	for r := 0; r < rounds; r++ {
		big := fdaPoolSize() + 8 + x.rnd.Intn(17)
		for i := fdaPoolSize(); i < big; i++ {
			x.kind("poller 2")
		}
		if err := SetNumLoops(big); err != nil {
			x.failf("SetNumLoops(%d): %v", big, err)
			return
		}
		ninit := 1 + x.rnd.Intn(callers-1) // 1..15 callers of Initialize, the others Pick
		var wg sync.WaitGroup
		var ready, flag int32
		start := make(chan struct{})
		var nilPicks int32
		for i := 0; i < callers; i++ {
			wg.Add(1)
			go func(i int) {
				defer wg.Done()
				defer func() {
					if e := recover(); e != nil {
						x.failf("pool-init-race: caller %d panicked: %v", i, e)
					}
				}()
				atomic.AddInt32(&ready, 1)
				<-start
				// a short spin after the wake-up brings the callers closer together than the channel alone
				for j := 0; j < 2000 && atomic.LoadInt32(&flag) == 0; j++ {
				}
				if i*ninit/callers != (i+1)*ninit/callers { // ninit of the callers, spread evenly
					Initialize()
				} else if pollmanager.Pick() == nil {
					atomic.AddInt32(&nilPicks, 1)
				}
			}(i)
		}
		fdaWait(func() bool { return atomic.LoadInt32(&ready) == callers }, 8*time.Second)
		close(start)
		atomic.StoreInt32(&flag, 1)
		wg.Wait()
		if nilPicks > 0 {
			x.failf("pool-init-race: %d first Picks returned nil", nilPicks)
		}
		if got := fdaPoolSize(); got != big {
			x.failf("pool has %d pollers after SetNumLoops(%d) and %d concurrent Initialize/Pick", got, big, callers)
			return
		}
		x.fdaUsePool(1)
		// shrink again (applied by the next Pick), sometimes in two steps
		small := 1 + x.rnd.Intn(n0+1)
		if x.rnd.Intn(3) == 0 && !x.fdaSetLoops(small+(big-small)/2) {
			return
		}
		if !x.fdaSetLoops(small) {
			return
		}
		x.fdaUsePool(1)
	}
	if x.rnd.Intn(2) == 0 {
		for i := 0; i < fdaPoolSize(); i++ {
			x.kind("poller 2")
		}
		if err := pollmanager.Reset(); err != nil {
			x.failf("Reset: %v", err)
			return
		}
		x.fdaUsePool(1)
	}
}

// ---- netfd-close-race ----

// fdaBarrier releases `n` long-lived goroutines at the same instant, once per round; each calls Close on the round's
// target.  The goroutines spin (no scheduler, no system call between the release and the call); after the release each
// waits a few more iterations, a different number every round, so that the offsets between the callers vary round by
// round instead of being fixed by the order in which the cores see the release.
type fdaBarrier struct {
	n      int
	gen    int32
	target atomic.Value // fdaCloserBox
	done   int32
	quit   int32
	sink   uint32
}

type fdaCloserBox struct{ c io.Closer }

func fdaNewBarrier(n int, seed int64) *fdaBarrier {
	b := &fdaBarrier{n: n}
	for i := 0; i < n; i++ {
		rs := uint32(seed)*2654435761 + uint32(i+1)*40503
		go func() {
			runtime.LockOSThread()
			defer runtime.UnlockOSThread()
			seen := int32(0)
			for {
				g := atomic.LoadInt32(&b.gen)
				if g == seen {
					if atomic.LoadInt32(&b.quit) == 1 {
						return
					}
					continue
				}
				seen = g
				c := b.target.Load().(fdaCloserBox).c
				rs ^= rs << 13
				rs ^= rs >> 17
				rs ^= rs << 5
				acc := uint32(0)
				for d := rs % 24; d > 0; d-- {
					acc += d
				}
				c.Close()
				atomic.AddUint32(&b.sink, acc)
				atomic.AddInt32(&b.done, 1)
			}
		}()
	}
	return b
}

func (b *fdaBarrier) closeTogether(c io.Closer) bool {
	b.target.Store(fdaCloserBox{c})
	atomic.StoreInt32(&b.done, 0)
	atomic.AddInt32(&b.gen, 1)
	end := time.Now().Add(8 * time.Second)
	for atomic.LoadInt32(&b.done) < int32(b.n) {
		if time.Now().After(end) {
			return false
		}
		runtime.Gosched()
	}
	return true
}

func (b *fdaBarrier) stop() { atomic.StoreInt32(&b.quit, 1) }

func fdaNetFDCloseRaceScenario(x *fdaCtx) {
	x.usePollManager()
	x.know("conn_detach", false)
	x.know("conn_viaServer", false)
	x.know("prepare_closes", false)
	x.know("ln_viaServer", false)
	bar := fdaNewBarrier(4, x.seed)
	defer bar.stop()

	// 1. a bare netFD (what socket() hands to the dialer, what Accept hands to the application) on a descriptor of the
	// caller: duplicates of one socket, so that a round costs two system calls
	p0, q0, ok := fdaSocketpair(x)
	if !ok {
		return
	}
	for i := 0; i < 250; i++ {
		fd, err := syscall.Dup(p0)
		if err != nil {
			x.failf("dup: %v", err)
			break
		}
		fdaOwn(fd)
		x.kind("fdConn %d 4", fd)
		fdaMark("G %d", fd)
		if !bar.closeTogether(&netFD{fd: fd}) {
			x.failf("closers did not return")
			break
		}
	}
	fdaClose(p0)
	fdaClose(q0)

	// 2. the net.Conn (a *netFD) that Listener.Accept hands to the application
	x.kind("createListener 2")
	ln, err := CreateListener("tcp", "127.0.0.1:0")
	if err != nil {
		x.failf("CreateListener: %v", err)
		return
	}
	defer ln.Close()
	port := ln.Addr().(*net.TCPAddr).Port
	for i := 0; i < 30; i++ {
		cfd, err := syscall.Socket(syscall.AF_INET, syscall.SOCK_STREAM, 0)
		if err != nil {
			x.failf("socket: %v", err)
			return
		}
		fdaOwn(cfd)
		if err := syscall.Connect(cfd, &syscall.SockaddrInet4{Addr: [4]byte{127, 0, 0, 1}, Port: port}); err != nil {
			x.failf("connect: %v", err)
			fdaClose(cfd)
			return
		}
		x.kind("acceptConn 5")
		var conn net.Conn
		fdaWait(func() bool { conn, err = ln.Accept(); return conn != nil || err != nil }, 8*time.Second)
		if conn == nil {
			x.failf("Accept: %v", err)
			fdaClose(cfd)
			return
		}
		if !bar.closeTogether(conn) {
			x.failf("closers did not return")
		}
		if i%10 == 0 {
			conn.Close() // once more, later
		}
		fdaClose(cfd)
	}

	// 3. a connection: Close from several goroutines at once
	for i := 0; i < 10; i++ {
		a, b, ok := fdaSocketpair(x)
		if !ok {
			return
		}
		x.kind("fdConn %d 4", a)
		fdaMark("G %d", a)
		c, err := NewFDConnection(a)
		if err != nil {
			x.failf("NewFDConnection: %v", err)
			fdaClose(b)
			return
		}
		if !bar.closeTogether(c) {
			x.failf("closers did not return")
		}
		fdaClose(b)
	}
}

// ---- dial-prebind-fails ----

func fdaDialPrebindFailScenario(x *fdaCtx) {
	x.usePollManager()
	x.know("prepare_closes", false)
	x.know("conn_detach", false)
	x.know("conn_viaServer", false)
	// an echo-less listener of the harness: the port is in use and somebody accepts
	lfd, err := syscall.Socket(syscall.AF_INET, syscall.SOCK_STREAM, 0)
	if err != nil {
		x.failf("socket: %v", err)
		return
	}
	fdaOwn(lfd)
	defer fdaClose(lfd)
	if err := syscall.Bind(lfd, &syscall.SockaddrInet4{Addr: [4]byte{127, 0, 0, 1}}); err != nil {
		x.failf("bind: %v", err)
		return
	}
	syscall.Listen(lfd, 16)
	sa, _ := syscall.Getsockname(lfd)
	port := sa.(*syscall.SockaddrInet4).Port
	lo := net.IPv4(127, 0, 0, 1)
	raddr := &TCPAddr{TCPAddr: net.TCPAddr{IP: lo, Port: port}}
	dialTCP := func(what, network string, laddr, raddr *TCPAddr, wantErr bool) {
		k := x.kind("dialTCP 1")
		ctx, cancel := context.WithTimeout(context.Background(), 2*time.Second)
		c, err := DialTCP(ctx, network, laddr, raddr)
		cancel()
		if err != nil {
			x.dialFailed(k)
			if !wantErr {
				x.failf("%s: %v", what, err)
			}
			return
		}
		if wantErr {
			x.failf("%s: dial succeeded", what)
		}
		c.Close()
	}
	for round := 0; round < 2; round++ {
		// control: a free local address works
		dialTCP("free local address", "tcp", &TCPAddr{TCPAddr: net.TCPAddr{IP: lo}}, raddr, false)
		// the local port is taken (by the listener itself)
		dialTCP("local port in use", "tcp", &TCPAddr{TCPAddr: net.TCPAddr{IP: lo, Port: port}}, raddr, true)
		// the local address is not on this host (TEST-NET-1): EADDRNOTAVAIL, retried twice by dialTCP
		dialTCP("local address not on this host", "tcp", &TCPAddr{TCPAddr: net.TCPAddr{IP: net.IPv4(192, 0, 2, 1)}}, raddr, true)
		// network / address family mismatch: remote, then local
		dialTCP("tcp4 with an IPv6 remote address", "tcp4", nil, &TCPAddr{TCPAddr: net.TCPAddr{IP: net.IPv6loopback, Port: port}}, true)
		dialTCP("tcp4 with an IPv6 local address", "tcp4", &TCPAddr{TCPAddr: net.TCPAddr{IP: net.IPv6loopback}}, raddr, true)
		// unix: the local path exists already
		upath := x.tmpSock()
		ufd, err := syscall.Socket(syscall.AF_UNIX, syscall.SOCK_STREAM, 0)
		if err != nil {
			x.failf("socket: %v", err)
			return
		}
		fdaOwn(ufd)
		if err := syscall.Bind(ufd, &syscall.SockaddrUnix{Name: upath}); err != nil {
			x.failf("bind unix: %v", err)
			fdaClose(ufd)
			return
		}
		syscall.Listen(ufd, 16)
		k := x.kind("dialUnix 1")
		uc, err := DialUnix("unix", &UnixAddr{UnixAddr: net.UnixAddr{Name: upath, Net: "unix"}}, &UnixAddr{UnixAddr: net.UnixAddr{Name: upath, Net: "unix"}})
		if err == nil {
			x.failf("DialUnix with an existing local path succeeded")
			uc.Close()
		} else {
			x.dialFailed(k)
		}
		fdaClose(ufd)
		os.Remove(upath)
	}
	// drain the accept queue (peers of the control dials), announced
	syscall.SetNonblock(lfd, true)
	for {
		nfd, _, err := syscall.Accept(lfd)
		if err != nil {
			break
		}
		fdaOwn(nfd)
		fdaClose(nfd)
	}
}

// ---- dial-selfconnect ----

func fdaPortRange() (lo, hi int, ok bool) {
	b, err := os.ReadFile("/proc/sys/net/ipv4/ip_local_port_range")
	if err != nil {
		return 0, 0, false
	}
	f := strings.Fields(string(b))
	if len(f) != 2 {
		return 0, 0, false
	}
	lo, _ = strconv.Atoi(f[0])
	hi, _ = strconv.Atoi(f[1])
	return lo, hi, lo > 0 && hi >= lo
}

// fdaPrivateNetns: called before anything else when lib/fdrun.py started this process in its own network namespace
// (`unshare -n`, VERIF_FDA_NETNS=1): bring the loopback interface up and make the ephemeral port range narrow.
// Nothing outside this process's namespace is touched.
func fdaPrivateNetns() bool {
	s, err := syscall.Socket(syscall.AF_INET, syscall.SOCK_DGRAM, 0)
	if err != nil {
		return false
	}
	defer syscall.Close(s)
	var ifr [40]byte
	copy(ifr[:], "lo")
	if _, _, e := syscall.Syscall(syscall.SYS_IOCTL, uintptr(s), syscall.SIOCGIFFLAGS, uintptr(unsafe.Pointer(&ifr[0]))); e != 0 {
		return false
	}
	flags := (*uint16)(unsafe.Pointer(&ifr[16]))
	*flags |= syscall.IFF_UP | syscall.IFF_RUNNING
	if _, _, e := syscall.Syscall(syscall.SYS_IOCTL, uintptr(s), syscall.SIOCSIFFLAGS, uintptr(unsafe.Pointer(&ifr[0]))); e != 0 {
		return false
	}
	return os.WriteFile("/proc/sys/net/ipv4/ip_local_port_range", []byte("50000 50063\n"), 0o644) == nil
}

func fdaSelfConnectScenario(x *fdaCtx) {
	x.usePollManager()
	x.know("prepare_closes", false)
	x.know("conn_detach", false)
	x.know("conn_viaServer", false)
	lo, hi, ok := fdaPortRange()
	narrow := ok && os.Getenv("VERIF_FDA_NETNS") == "1" && hi-lo < 512
	ndials := 8
	if narrow {
		// the kernel walks through the range in steps of two, one parity first: two refusing targets of different
		// parity in the middle of the range, twice the range each (observed: the first self-connect within 90 dials)
		ndials = 4 * (hi - lo + 1)
	} else if !ok {
		lo, hi = 32768, 60999
	}
	mid := (lo + hi) / 2
	refused := 0
	for i := 0; i < ndials; i++ {
		k := x.kind("dialTCP 1")
		c, err := DialConnection("tcp", fmt.Sprintf("127.0.0.1:%d", mid+i%2), 500*time.Millisecond)
		if err == nil {
			// somebody listens there after all, or the socket connected to itself three times in a row and dialTCP
			// "relents and uses the result": an ordinary connection, closed by us
			c.Close()
		} else {
			x.dialFailed(k)
			refused++
		}
	}
	if refused == 0 {
		x.failf("no dial to the unused ports %d, %d was refused", mid, mid+1)
	}
}

func fdaMoreScenarios() []fdaScenario {
	return []fdaScenario{
		{name: "pool-resize", run: fdaPoolResizeScenario},
		{name: "pool-init-race", run: fdaPoolInitRaceScenario},
		{name: "netfd-close-race", run: fdaNetFDCloseRaceScenario, quiet: true},
		{name: "dial-prebind-fails", run: fdaDialPrebindFailScenario, noExpect: []string{"spuriousENOTAVAIL"}},
		{name: "dial-selfconnect", run: fdaSelfConnectScenario, netns: true, noExpect: []string{"selfConnect"}},
	}
}
