//go:build verif
// +build verif

package netpoll

// C04 harness, real sockets: a sender pushes a position-keyed pseudo-random stream through a netpoll
// connection with a random Writer API mix and chunking, tiny socket buffers force EAGAIN and the
// poller-driven completion; the receiver (OnRequest handler or blocking reader) consumes with a random
// Reader op mix and pace and checks every byte against its stream position; the sender closes after its
// last Flush returned nil, and the receiver must have got every byte before it sees end-of-stream.
//
// Scenario class jitter=true ("for all interleavings of the user goroutines with the poller goroutine"): the SENDER's
// operator.poll is wrapped by vsJitterPoll, which forwards every call unchanged to the real poll and only sleeps 0 or 0.3 ms in
// front of a Control call (what a preempted thread or a slow epoll_ctl does): the windows of the flusher/poller hand-off
// (PollR2RW by the flusher, PollRW2R + wake-up by the poller) become milliseconds wide.  The sender pushes back-to-back
// payloads larger than the 4 KB socket buffer, so every flush completes through the poller.  No call is dropped, failed or
// reordered.  A progress watchdog reports the stall (nothing read for vsJitterStall although the sender has not finished).
//
// Scenario class poll=true ("any pace of Reader calls"): the receiver is a POLLING reader - it never blocks in
// waitRead but loops `if Len()==0 { Release(); continue }; <random Reader op on at most Len() bytes>` - and the
// sender is the raw peer descriptor writing the stream in pieces of 1..48 bytes, so that Release() (operator
// do()/done() around the tail reset) races the poller's inputs/inputAck on every delivery. A stall watchdog judges the
// clause "nothing lost": bytes the peer's write(2) has accepted and that are neither consumed nor buffered must become
// readable while the reader keeps polling; if the count read does not move for vsStallFor although the reader loop
// keeps running and bytes are outstanding, the scenario FAILs (the state of the operator token is printed with it).

import (
	"context"
	"errors"
	"flag"
	"fmt"
	"math/rand"
	"net"
	"os"
	"sync"
	"sync/atomic"
	"syscall"
	"time"
)

func vsByte(seed, i int) byte { return byte((seed*131 + i*31 + (i>>8)*7 + (i>>16)*13 + 5) % 253) }

type vsScenario struct {
	id        int
	seed      int
	transport string // pair | tcp | unix
	handler   bool   // receiver consumes in OnRequest (else: blocking reader goroutine)
	total     int
	smallBuf  bool
	slowRead  bool
	poll      bool // polling reader + raw small-piece sender (vsRunPoll)
	jitter    bool // delays in front of the sender's Control calls (vsJitterPoll), large back-to-back payloads
	bidi      bool // both endpoints are netpoll connections sending and reading at the same time (vsRunBidi, streamh_bidi.go)
	handlerB  bool // bidi: endpoint B consumes in OnRequest (handler = endpoint A)
	reply     bool // a raw peer replies and ends its stream while our flush is parked (vsRunReply, streamh_bidi.go)
	burst     bool // the sender starts with one flush of 33+ non-empty output nodes (more than the iovec barrier holds)
}

// vsJitterPoll forwards to the real poll; Control is preceded by a pause of 0 or 0.3 ms (seeded).
type vsJitterPoll struct {
	Poll
	mu sync.Mutex
	r  *rand.Rand
}

func (p *vsJitterPoll) Control(operator *FDOperator, event PollEvent) error {
	p.mu.Lock()
	d := p.r.Intn(2)
	p.mu.Unlock()
	if d == 1 {
		time.Sleep(300 * time.Microsecond)
	}
	return p.Poll.Control(operator, event)
}

const vsJitterStall = 10 * time.Second

type vsResult struct {
	ok     bool
	reason string
	got    int
	ops    map[string]int
	ms     int // wall time of the scenario
}

// vsSend writes s.total bytes of the stream through w with a random API mix.
func vsSend(s vsScenario, c Connection, r *rand.Rand, ops map[string]int) error {
	w := c.Writer()
	pos := 0
	fill := func(p []byte, at int) {
		for i := range p {
			p[i] = vsByte(s.seed, at+i)
		}
	}
	mk := func(n, at int) []byte {
		p := make([]byte, n)
		fill(p, at)
		return p
	}
	pendingFlush := false
	// burst: one flush whose output buffer holds 34..48 non-empty nodes (each Malloc / WriteBinary of 4..8 KiB makes a
	// node of its own) - more than one GetBytes call / one sendmsg can take (barriercap vectors)
	burst := func() error {
		ops["Burst"]++
		k := 34 + r.Intn(15)
		for j := 0; j < k && pos < s.total; j++ {
			n := 4096
			if r.Intn(2) == 0 {
				n += r.Intn(4097)
			}
			if n > s.total-pos {
				n = s.total - pos
			}
			if r.Intn(2) == 0 {
				p, err := w.Malloc(n)
				if err != nil {
					return fmt.Errorf("writer op at %d: %v", pos, err)
				}
				fill(p, pos)
			} else if _, err := w.WriteBinary(mk(n, pos)); err != nil {
				return fmt.Errorf("writer op at %d: %v", pos, err)
			}
			pos += n
		}
		ops["Flush"]++
		pendingFlush = false
		if err := w.Flush(); err != nil {
			return fmt.Errorf("flush at %d: %v", pos, err)
		}
		return nil
	}
	if s.burst {
		if err := burst(); err != nil {
			return err
		}
	}
	for pos < s.total {
		left := s.total - pos
		n := []int{1, 2, 7, 100, 1000, 4095, 4096, 4097, 8192, 16384, 70000, 1 + r.Intn(40000)}[r.Intn(12)]
		if n > left {
			n = left
		}
		var err error
		switch k := r.Intn(12); k {
		case 11:
			if left < 34*4096 {
				continue
			}
			if err = burst(); err != nil {
				return err
			}
			continue
		case 0, 1:
			ops["Malloc"]++
			var p []byte
			p, err = w.Malloc(n)
			fill(p, pos)
		case 2:
			ops["WriteBinary"]++
			_, err = w.WriteBinary(mk(n, pos))
		case 3:
			ops["WriteString"]++
			_, err = w.WriteString(string(mk(n, pos)))
		case 4:
			ops["WriteByte"]++
			n = 1
			err = w.WriteByte(vsByte(s.seed, pos))
		case 5:
			// Malloc(a+b); WriteDirect(extra, b)  => a, extra, b
			if n < 3 || pendingFlush {
				continue
			}
			ops["WriteDirect"]++
			a, e := 1+r.Intn(n/3), 1+r.Intn(n/3)
			b := n - a - e
			var p []byte
			p, err = w.Malloc(a + b)
			if err == nil {
				fill(p[:a], pos)
				fill(p[a:], pos+a+e)
				err = w.WriteDirect(mk(e, pos+a), b)
			}
		case 6:
			// Malloc more than needed, keep the first n
			ops["MallocAck"]++
			if pendingFlush {
				continue
			}
			var p []byte
			p, err = w.Malloc(n + 1 + r.Intn(100))
			if err == nil {
				fill(p[:n], pos)
				err = w.MallocAck(n)
			}
		case 7:
			ops["Append"]++
			lb := NewLinkBuffer()
			p, _ := lb.Malloc(n)
			fill(p, pos)
			if r.Intn(2) == 0 {
				lb.Flush()
			}
			err = w.Append(lb)
		case 8:
			// Write = Malloc+copy+Flush in one call; only legal with nothing pending
			if pendingFlush {
				if err = w.Flush(); err != nil {
					return fmt.Errorf("flush at %d: %v", pos, err)
				}
				pendingFlush = false
			}
			ops["Write"]++
			_, err = c.Write(mk(n, pos))
			pos += n
			if err != nil {
				return fmt.Errorf("write at %d: %v", pos, err)
			}
			continue
		default:
			ops["Flush"]++
			err = w.Flush()
			pendingFlush = false
			if err != nil {
				return fmt.Errorf("flush at %d: %v", pos, err)
			}
			continue
		}
		if err != nil {
			return fmt.Errorf("writer op at %d: %v", pos, err)
		}
		pendingFlush = true
		pos += n
		if r.Intn(3) == 0 {
			ops["Flush"]++
			if err = w.Flush(); err != nil {
				return fmt.Errorf("flush at %d: %v", pos, err)
			}
			pendingFlush = false
		}
	}
	ops["Flush"]++
	if err := w.Flush(); err != nil {
		return fmt.Errorf("final flush: %v", err)
	}
	return nil
}

// vsConsume performs one random reader op; returns bytes consumed or an error string.
type vsHeld struct {
	p  []byte
	at int
}

// vsConsume performs one random reader op. Zero-copy results (Next, Peek) are kept in *held and re-checked
// after every later op until the next Release (C02 seen through a connection: a held result must keep its content).
func vsConsume(s vsScenario, c Connection, r *rand.Rand, pos *int, maxN int, ops map[string]int, held *[]vsHeld) (eof bool, bad string) {
	rd := c.Reader()
	defer func() {
		if bad != "" {
			return
		}
		for _, h := range *held {
			for i := range h.p {
				if h.p[i] != vsByte(s.seed, h.at+i) {
					bad = fmt.Sprintf("a zero-copy result obtained at stream position %d (%d bytes) changed before Release: byte %d is %d, want %d", h.at, len(h.p), i, h.p[i], vsByte(s.seed, h.at+i))
					return
				}
			}
		}
	}()
	check := func(p []byte, at int, what string) string {
		for i := range p {
			if p[i] != vsByte(s.seed, at+i) {
				return fmt.Sprintf("%s: byte at stream position %d is %d, want %d (op returned %d bytes from position %d)", what, at+i, p[i], vsByte(s.seed, at+i), len(p), at)
			}
		}
		return ""
	}
	n := []int{1, 2, 3, 100, 1000, 4096, 8192, 1 + r.Intn(20000)}[r.Intn(8)]
	if n > maxN {
		n = maxN
	}
	if n <= 0 {
		n = 1
	}
	isEOF := func(err error) bool { return errors.Is(err, ErrEOF) }
	var err error
	switch r.Intn(10) {
	case 9:
		// net.Conn style Read: copies out, must not invalidate what Next/Peek handed out before
		ops["Read"]++
		p := make([]byte, n)
		var k int
		if k, err = c.Read(p); err == nil {
			bad = check(p[:k], *pos, "Read")
			*pos += k
		}
	case 0, 1:
		ops["Next"]++
		var p []byte
		if p, err = rd.Next(n); err == nil {
			bad = check(p, *pos, "Next")
			*held = append(*held, vsHeld{p, *pos})
			*pos += len(p)
		}
	case 2:
		ops["Peek"]++
		var p []byte
		if p, err = rd.Peek(n); err == nil {
			bad = check(p, *pos, "Peek")
			*held = append(*held, vsHeld{p, *pos})
		}
	case 3:
		ops["Skip"]++
		if err = rd.Skip(n); err == nil {
			*pos += n
		}
	case 4:
		ops["ReadBinary"]++
		var p []byte
		if p, err = rd.ReadBinary(n); err == nil {
			bad = check(p, *pos, "ReadBinary")
			*pos += len(p)
		}
	case 5:
		ops["ReadString"]++
		var str string
		if str, err = rd.ReadString(n); err == nil {
			bad = check([]byte(str), *pos, "ReadString")
			*pos += len(str)
		}
	case 6:
		ops["ReadByte"]++
		var b byte
		if b, err = rd.ReadByte(); err == nil {
			bad = check([]byte{b}, *pos, "ReadByte")
			*pos++
		}
	case 7:
		ops["Slice"]++
		var sl Reader
		*held = (*held)[:0] // "Slice will automatically execute a Release"
		if sl, err = rd.Slice(n); err == nil {
			p, e2 := sl.Next(n)
			if e2 != nil {
				bad = "Slice reader Next failed: " + e2.Error()
			} else {
				bad = check(p, *pos, "Slice")
			}
			*pos += n
			sl.Release()
		}
	default:
		ops["Release"]++
		*held = (*held)[:0]
		err = rd.Release()
	}
	if err != nil {
		if isEOF(err) {
			return true, bad
		}
		return false, "reader op failed: " + err.Error()
	}
	if r.Intn(4) == 0 {
		*held = (*held)[:0]
		rd.Release()
	}
	return false, bad
}

func vsSetBuf(fd int) {
	syscall.SetsockoptInt(fd, syscall.SOL_SOCKET, syscall.SO_SNDBUF, 4096)
	syscall.SetsockoptInt(fd, syscall.SOL_SOCKET, syscall.SO_RCVBUF, 4096)
}

// vsStallFor: how long the polling reader may see no new byte while the peer's accepted bytes are outstanding.
const vsStallFor = 4 * time.Second

// vsRunPoll: polling reader against a raw sender (see the header comment).
func vsRunPoll(s vsScenario) (res vsResult) {
	res.ops = map[string]int{}
	rs := rand.New(rand.NewSource(int64(s.seed)*7919 + 1))
	rr := rand.New(rand.NewSource(int64(s.seed)*104729 + 2))
	fds, err := syscall.Socketpair(syscall.AF_UNIX, syscall.SOCK_STREAM, 0)
	if err != nil {
		return vsResult{reason: "socketpair: " + err.Error(), ops: res.ops}
	}
	if s.smallBuf {
		vsSetBuf(fds[0])
		vsSetBuf(fds[1])
	}
	rc := &connection{}
	if err := rc.init(&netFD{fd: fds[1], network: "unix"}, &options{}); err != nil {
		syscall.Close(fds[0])
		return vsResult{reason: "init: " + err.Error(), ops: res.ops}
	}
	var written, got, polls int64
	var stop int32
	sendDone := make(chan error, 1)
	go func() {
		// raw peer: blocking write(2) of 1..48 bytes at a time, then close
		defer syscall.Close(fds[0])
		buf := make([]byte, 48)
		pos := 0
		for pos < s.total && atomic.LoadInt32(&stop) == 0 {
			n := 1 + rs.Intn(48)
			if n > s.total-pos {
				n = s.total - pos
			}
			for i := 0; i < n; i++ {
				buf[i] = vsByte(s.seed, pos+i)
			}
			m, err := syscall.Write(fds[0], buf[:n])
			if err != nil {
				if err == syscall.EINTR || err == syscall.EAGAIN {
					continue
				}
				sendDone <- fmt.Errorf("raw write at %d: %v", pos, err)
				return
			}
			pos += m
			atomic.StoreInt64(&written, int64(pos))
		}
		sendDone <- nil
	}()
	rops := map[string]int{}
	defer func() {
		for k, v := range rops {
			res.ops["r."+k] += v
		}
	}()
	bad := ""
	readDone := make(chan struct{})
	go func() {
		defer close(readDone)
		pos := 0
		var held []vsHeld
		rd := rc.Reader()
		for atomic.LoadInt32(&stop) == 0 {
			atomic.AddInt64(&polls, 1)
			l := rd.Len()
			if l == 0 {
				if !rc.IsActive() && rd.Len() == 0 {
					return // end-of-stream
				}
				rops["Release"]++
				held = held[:0]
				rd.Release()
				continue
			}
			_, b := vsConsume(s, rc, rr, &pos, l, rops, &held)
			atomic.StoreInt64(&got, int64(pos))
			if b != "" {
				bad = b
				return
			}
		}
	}()
	// watchdog
	stalled := ""
	last, lastPolls, lastMove := int64(-1), int64(0), time.Now()
	tick := time.NewTicker(50 * time.Millisecond)
	defer tick.Stop()
	deadline := time.After(60 * time.Second)
WATCH:
	for {
		select {
		case <-readDone:
			break WATCH
		case <-deadline:
			stalled = fmt.Sprintf("hang: polling reader at %d of %d after 60s", atomic.LoadInt64(&got), s.total)
			break WATCH
		case <-tick.C:
		}
		g, w, p := atomic.LoadInt64(&got), atomic.LoadInt64(&written), atomic.LoadInt64(&polls)
		if g != last || w <= g || p == lastPolls {
			// progress, or nothing outstanding, or the reader itself did not run: no judgement
			last, lastMove = g, time.Now()
			lastPolls = p
			continue
		}
		lastPolls = p
		if time.Since(lastMove) >= vsStallFor {
			stalled = fmt.Sprintf("stall: the peer's write(2) accepted %d bytes, the polling reader (Len()==0 -> Release(), else read) consumed %d, %d are buffered, and nothing became readable for %v although the reader kept polling (%d polls); operator.state=%d (2 = do() token taken)",
				w, g, rc.inputBuffer.Len(), vsStallFor, p, atomic.LoadInt32(&rc.operator.state))
			break WATCH
		}
	}
	atomic.StoreInt32(&stop, 1)
	if stalled != "" {
		// clean-up only: unblock the raw writer, wait for the reader to leave Release(), and give a token that nobody
		// holds back, otherwise Close() spins in operator.unused() for ever and disturbs the scenarios that follow
		syscall.Shutdown(fds[0], syscall.SHUT_RDWR)
		<-readDone
		if atomic.LoadInt32(&rc.operator.state) == 2 {
			rc.operator.done()
		}
		rc.Close()
		return vsResult{reason: stalled, got: int(atomic.LoadInt64(&got)), ops: res.ops}
	}
	var serr error
	select {
	case serr = <-sendDone:
	case <-time.After(10 * time.Second):
		syscall.Shutdown(fds[0], syscall.SHUT_RDWR)
		rc.Close()
		return vsResult{reason: "hang: raw sender did not finish", got: int(atomic.LoadInt64(&got)), ops: res.ops}
	}
	rc.Close()
	g := int(atomic.LoadInt64(&got))
	switch {
	case bad != "":
		return vsResult{reason: bad, got: g, ops: res.ops}
	case serr != nil:
		return vsResult{reason: "sender: " + serr.Error(), got: g, ops: res.ops}
	case g != s.total:
		return vsResult{reason: fmt.Sprintf("end-of-stream after %d of %d bytes (the peer wrote everything and closed)", g, s.total), got: g, ops: res.ops}
	}
	return vsResult{ok: true, got: g, ops: res.ops}
}

func vsRun(s vsScenario) (res vsResult) {
	if s.poll {
		return vsRunPoll(s)
	}
	if s.bidi {
		return vsRunBidi(s)
	}
	if s.reply {
		return vsRunReply(s)
	}
	res.ops = map[string]int{}
	var opsMu sync.Mutex
	rs := rand.New(rand.NewSource(int64(s.seed)*7919 + 1))
	rr := rand.New(rand.NewSource(int64(s.seed)*104729 + 2))
	sops, rops := map[string]int{}, map[string]int{}
	defer func() {
		opsMu.Lock()
		for k, v := range sops {
			res.ops["w."+k] += v
		}
		for k, v := range rops {
			res.ops["r."+k] += v
		}
		opsMu.Unlock()
	}()
	var got int64
	var badMu sync.Mutex
	bad := ""
	setBad := func(b string) {
		badMu.Lock()
		if bad == "" && b != "" {
			bad = b
		}
		badMu.Unlock()
	}
	eofCh := make(chan struct{}, 2)
	pos := 0
	var held []vsHeld
	onReq := func(ctx context.Context, c Connection) error {
		rd := c.Reader()
		// consume at least something, at most everything that is buffered (sometimes block for more)
		for i := 0; i < 1+rr.Intn(4) && rd.Len() > 0; i++ {
			maxN := rd.Len()
			if rr.Intn(10) == 0 && s.total-pos > maxN {
				maxN += 1 + rr.Intn(3000) // may have to wait for the rest
				if maxN > s.total-pos {
					maxN = s.total - pos
				}
			}
			_, b := vsConsume(s, c, rr, &pos, maxN, rops, &held)
			atomic.StoreInt64(&got, int64(pos))
			if b != "" {
				setBad(b)
				c.Close()
				return nil
			}
			if s.slowRead && rr.Intn(8) == 0 {
				time.Sleep(time.Duration(rr.Intn(300)) * time.Microsecond)
			}
		}
		held = held[:0]
		rd.Release()
		return nil
	}
	var sender, receiver Connection
	var cleanup []func()
	defer func() {
		for _, f := range cleanup {
			f()
		}
	}()
	switch s.transport {
	case "pair":
		fds, err := syscall.Socketpair(syscall.AF_UNIX, syscall.SOCK_STREAM, 0)
		if err != nil {
			return vsResult{reason: "socketpair: " + err.Error(), ops: res.ops}
		}
		if s.smallBuf {
			vsSetBuf(fds[0])
			vsSetBuf(fds[1])
		}
		sc, rc := &connection{}, &connection{}
		ropts := &options{}
		if s.handler {
			ropts.onRequest = onReq
		}
		if err := rc.init(&netFD{fd: fds[1], network: "unix"}, ropts); err != nil {
			return vsResult{reason: "init: " + err.Error(), ops: res.ops}
		}
		rc.AddCloseCallback(func(Connection) error { eofCh <- struct{}{}; return nil })
		if err := sc.init(&netFD{fd: fds[0], network: "unix"}, &options{}); err != nil {
			return vsResult{reason: "init: " + err.Error(), ops: res.ops}
		}
		if s.jitter {
			sc.operator.poll = &vsJitterPoll{Poll: sc.operator.poll, r: rand.New(rand.NewSource(int64(s.seed)*31 + 7))}
		}
		sender, receiver = sc, rc
		cleanup = append(cleanup, func() { sc.Close(); rc.Close() })
	default:
		network, addr := "tcp", "127.0.0.1:0"
		if s.transport == "unix" {
			network, addr = "unix", fmt.Sprintf("/tmp/verif-c04-%d-%d.sock", os.Getpid(), s.id)
			os.Remove(addr)
			cleanup = append(cleanup, func() { os.Remove(addr) })
		}
		ln, err := CreateListener(network, addr)
		if err != nil {
			return vsResult{reason: "listen: " + err.Error(), ops: res.ops}
		}
		accepted := make(chan Connection, 1)
		var opts []Option
		opts = append(opts, WithOnPrepare(func(c Connection) context.Context {
			if s.smallBuf {
				vsSetBuf(c.(Conn).Fd())
			}
			c.AddCloseCallback(func(Connection) error { eofCh <- struct{}{}; return nil })
			accepted <- c
			return context.Background()
		}))
		var h OnRequest = func(ctx context.Context, c Connection) error { return nil }
		if s.handler {
			h = onReq
		} else {
			// blocking-reader mode on the server side: the handler must not consume; hand the connection to a goroutine
			h = nil
		}
		if h == nil {
			// a server needs an OnRequest; emulate the blocking reader with a client-style pair instead
			ln.Close()
			s.transport = "pair"
			return vsRun(s)
		}
		el, err := NewEventLoop(h, opts...)
		if err != nil {
			ln.Close()
			return vsResult{reason: "eventloop: " + err.Error(), ops: res.ops}
		}
		go el.Serve(ln)
		cleanup = append(cleanup, func() {
			ctx, cancel := context.WithTimeout(context.Background(), 2*time.Second)
			el.Shutdown(ctx)
			cancel()
		})
		target := ln.Addr().String()
		if network == "unix" {
			target = addr
		}
		sc, err := DialConnection(network, target, 2*time.Second)
		if err != nil {
			return vsResult{reason: "dial: " + err.Error(), ops: res.ops}
		}
		if s.smallBuf {
			vsSetBuf(sc.(Conn).Fd())
		}
		select {
		case receiver = <-accepted:
		case <-time.After(3 * time.Second):
			return vsResult{reason: "accept timeout", ops: res.ops}
		}
		sender = sc
		cleanup = append(cleanup, func() { sc.Close() })
		_ = net.IPv4len
	}
	sendDone := make(chan error, 1)
	go func() {
		err := vsSend(s, sender, rs, sops)
		if err == nil {
			err = sender.Close()
		}
		sendDone <- err
	}()
	deadline := time.After(60 * time.Second)
	if s.jitter {
		// progress watchdog: with delays only in front of epoll_ctl calls the stream must keep moving
		stall := make(chan time.Time, 1)
		go func() {
			last, lastMove := int64(-1), time.Now()
			for {
				time.Sleep(100 * time.Millisecond)
				if g := atomic.LoadInt64(&got); g != last {
					last, lastMove = g, time.Now()
				} else if time.Since(lastMove) >= vsJitterStall {
					stall <- time.Now()
					return
				}
			}
		}()
		deadline = stall
	}
	if !s.handler {
		// blocking reader: read until EOF
		readDone := make(chan struct{})
		go func() {
			defer close(readDone)
			for {
				maxN := s.total - pos
				if maxN <= 0 {
					maxN = 1 // provoke EOF
				}
				eof, b := vsConsume(s, receiver, rr, &pos, maxN, rops, &held)
				atomic.StoreInt64(&got, int64(pos))
				if b != "" {
					setBad(b)
					return
				}
				if eof {
					return
				}
				if s.slowRead && rr.Intn(16) == 0 {
					time.Sleep(time.Duration(rr.Intn(300)) * time.Microsecond)
				}
			}
		}()
		select {
		case <-readDone:
		case <-deadline:
			return vsResult{reason: fmt.Sprintf("hang: reader stuck at %d of %d%s", atomic.LoadInt64(&got), s.total, vsHangNote(s, sender)), got: int(atomic.LoadInt64(&got)), ops: res.ops}
		}
	} else {
		select {
		case <-eofCh:
		case <-deadline:
			return vsResult{reason: fmt.Sprintf("hang: receiver saw no end-of-stream, got %d of %d%s", atomic.LoadInt64(&got), s.total, vsHangNote(s, sender)), got: int(atomic.LoadInt64(&got)), ops: res.ops}
		}
	}
	var serr error
	select {
	case serr = <-sendDone:
	case <-time.After(10 * time.Second):
		return vsResult{reason: "hang: sender did not finish", got: int(atomic.LoadInt64(&got)), ops: res.ops}
	}
	badMu.Lock()
	b := bad
	badMu.Unlock()
	g := int(atomic.LoadInt64(&got))
	switch {
	case b != "":
		return vsResult{reason: b, got: g, ops: res.ops}
	case serr != nil:
		return vsResult{reason: "sender: " + serr.Error(), got: g, ops: res.ops}
	case g != s.total:
		return vsResult{reason: fmt.Sprintf("end-of-stream after %d of %d bytes (sender flushed everything and closed)", g, s.total), got: g, ops: res.ops}
	}
	return vsResult{ok: true, got: g, ops: res.ops}
}

// vsHangNote: what the sender side looks like when the stream stopped (diagnostics of a jitter scenario)
func vsHangNote(s vsScenario, sender Connection) string {
	sc, ok := sender.(*connection)
	if !ok || !s.jitter {
		return ""
	}
	return fmt.Sprintf(" (nothing read for %v while the sender had not finished; sender: %d bytes still in its output buffer, flushing=%d, no write error reported; Control calls were only delayed, never dropped)",
		vsJitterStall, sc.outputBuffer.Len(), atomic.LoadInt32(&sc.keychain[flushing]))
}

func vsScenarioOf(seed, id int, big bool) vsScenario {
	r := rand.New(rand.NewSource(int64(seed)*1000003 + int64(id)))
	totals := []int{1, 2, 100, 4096, 8192, 8193, 65536, 200000, 1 << 20}
	if big {
		totals = append(totals, 4<<20, 32<<20)
	}
	sc := vsScenario{id: id, seed: seed*100000 + id, transport: []string{"pair", "pair", "tcp", "unix"}[r.Intn(4)],
		handler: r.Intn(3) != 0, total: totals[r.Intn(len(totals))] + r.Intn(3), smallBuf: r.Intn(3) != 0, slowRead: r.Intn(2) == 0}
	if sc.transport == "tcp" && sc.smallBuf && sc.total > 1<<20+2 {
		// (-big only) a 4 KB TCP window moves some 50 KB/s on a loaded machine: 4 MB and more do not fit the 60 s deadline
		sc.total = 1<<20 + r.Intn(3)
	}
	if id%6 == 2 {
		// every sixth scenario: delays in front of the sender's epoll_ctl calls, every flush larger than the socket buffer
		sc.jitter, sc.transport, sc.smallBuf = true, "pair", true
		if sc.total < 200000 {
			sc.total = 200000 + r.Intn(3)
		}
	}
	if id%6 == 1 {
		// every sixth scenario: both endpoints send more than the socket buffers hold and read, at the same time
		sc.bidi, sc.smallBuf, sc.handlerB = true, true, r.Intn(2) == 0
		sc.total = []int{200000, 300000, 400000}[r.Intn(3)] + r.Intn(3)
		if sc.transport == "tcp" {
			sc.total = 100000 + r.Intn(3) // a 4 KB TCP window moves ~40 KB/s per direction
		}
		if big && r.Intn(3) == 0 {
			sc.smallBuf, sc.total = false, 8<<20+r.Intn(3)
		}
	}
	if id%6 == 4 {
		// every sixth scenario: the peer replies and ends its stream while our flush is parked
		sc.reply = true
		if sc.transport != "tcp" {
			sc.transport = "pair"
		}
		sc.total = 200000 + r.Intn(3)
		if !sc.smallBuf {
			sc.total = 4<<20 + r.Intn(3)
			if sc.transport == "tcp" {
				sc.total = 16<<20 + r.Intn(3) // default TCP buffers auto-tune up to several MB
			}
		}
	}
	if id%6 == 3 || id%6 == 2 {
		// one flush with more output nodes than the iovec barrier holds, first thing
		sc.burst = true
		if !sc.jitter {
			// default socket buffers: one sendmsg can take more than barriercap nodes' worth
			sc.smallBuf = false
		}
		if sc.total < 300000 && !sc.jitter {
			sc.total = 300000 + r.Intn(3)
		}
	}
	if id%6 == 5 {
		// every sixth scenario: polling reader + raw small-piece sender
		sc.poll, sc.transport, sc.handler, sc.slowRead = true, "pair", false, false
		sc.total = []int{300000, 600000, 1 << 20}[r.Intn(3)] + r.Intn(3)
		if sc.smallBuf {
			sc.total /= 3 // 4 KB socket buffers: the raw writer blocks every few pieces, three times the switches per byte
		}
		if big {
			sc.total *= 4
		}
	}
	return sc
}

// VerifStreamMain: streamh -seed S -n N [-big] [-only id]  — one line per scenario
func VerifStreamMain(args []string) int {
	fs := flag.NewFlagSet("streamh", flag.ContinueOnError)
	seed := fs.Int("seed", 1, "")
	n := fs.Int("n", 50, "")
	big := fs.Bool("big", false, "")
	only := fs.Int("only", -1, "")
	par := fs.Int("par", 4, "")
	if err := fs.Parse(args); err != nil {
		return 2
	}
	SetNumLoops(2)
	type out struct {
		s vsScenario
		r vsResult
	}
	results := make([]out, *n)
	sem := make(chan struct{}, *par)
	var wg sync.WaitGroup
	for i := 0; i < *n; i++ {
		if *only >= 0 && i != *only {
			continue
		}
		wg.Add(1)
		sem <- struct{}{}
		go func(i int) {
			defer wg.Done()
			defer func() { <-sem }()
			s := vsScenarioOf(*seed, i, *big)
			t0 := time.Now()
			r := vsRun(s)
			r.ms = int(time.Since(t0) / time.Millisecond)
			results[i] = out{s, r}
		}(i)
	}
	wg.Wait()
	fail := 0
	for i, o := range results {
		if *only >= 0 && i != *only {
			continue
		}
		st := "ok"
		if !o.r.ok {
			st = "FAIL " + o.r.reason
			fail++
		}
		fmt.Printf("scn seed=%d id=%d transport=%s handler=%v poll=%v jitter=%v bidi=%v handlerB=%v reply=%v burst=%v total=%d smallbuf=%v slow=%v got=%d ms=%d ops=%v :: %s\n",
			*seed, i, o.s.transport, o.s.handler, o.s.poll, o.s.jitter, o.s.bidi, o.s.handlerB, o.s.reply, o.s.burst, o.s.total, o.s.smallBuf, o.s.slowRead, o.r.got, o.r.ms, o.r.ops, st)
	}
	if fail > 0 {
		return 1
	}
	return 0
}
