//go:build verif && !race
// +build verif,!race

package netpoll

// C10 harness: the harness IS the poller. A private defaultPoll (no Wait goroutine) is installed as the
// only poll of the pool; real connections on socketpairs are opened, fed, closed and misused after
// close; the body of Wait's loop is executed step by step: fetch (real EpollWait), dispatch of one
// event at a time (real handler), opcache.free() at the end of the batch. Every step is written as an
// op line and the observed slot state as a reply line; `npdriver opcache` replays the per-slot Lean
// model (Netpoll.Poll.OpCache) on the same steps.

import (
	"bufio"
	"runtime/pprof"
	"context"
	"flag"
	"fmt"
	"math/rand"
	"os"
	"runtime"
	"sort"
	"strings"
	"sync/atomic"
	"syscall"
	"time"
	"unsafe"
)

type vocConn struct {
	id     int
	c      *connection
	peer   int
	op     *FDOperator
	idx    int32
	closed bool
	sent   int
	// connections opened with "openh" have an OnRequest handler (it consumes everything and counts it): the poller's
	// hang-up path then tears them down by itself (close callbacks on the hang-up goroutine, closing == poller)
	handler    bool
	got        int64
	peerClosed bool
	hupped     bool // no handler: the hang-up detached the operator, the user's Close does the rest
}

// settle waits until the connection's handler task (if any) is idle and has consumed what arrived
func (vc *vocConn) settle() {
	if !vc.handler {
		return
	}
	dl := time.Now().Add(2 * time.Second)
	for time.Now().Before(dl) {
		if vc.c.isUnlock(processing) && (vc.c.inputBuffer.Len() == 0 || !vc.c.IsActive()) {
			return
		}
		time.Sleep(50 * time.Microsecond)
	}
}

// freed waits until the connection's slot has been given back (teardown finished on whatever goroutine runs it)
func (w *vocWorld) freed(vc *vocConn) bool {
	dl := time.Now().Add(2 * time.Second)
	for time.Now().Before(dl) {
		c := w.p.opcache
		lock(&c.freelocked)
		in := false
		for _, i := range c.freelist {
			if i == vc.idx {
				in = true
			}
		}
		unlock(&c.freelocked)
		if in {
			// the finalizer goes on to close the descriptor and recycle the buffers
			for k := 0; k < 200 && atomic.LoadUint32(&vc.c.netFD.closed) == 0 && atomic.LoadInt32(&vc.c.netFD.detaching) == 0; k++ {
				time.Sleep(20 * time.Microsecond)
			}
			return true
		}
		time.Sleep(50 * time.Microsecond)
	}
	return false
}

type vocWorld struct {
	p       *defaultPoll
	conns   []*vocConn
	batch   []epollevent
	bpos    int
	inBatch bool
	ran     []int // connection ids whose Inputs callback ran during the last dispatch
	nextID  int
	slots   map[int32]bool
	held    []*FDOperator // operators taken by "drain" and never used
	mid     func()        // "dclose": runs once inside the next Inputs callback, i.e. while the poller holds that slot's token
}

func (w *vocWorld) slotObs(idx int32) string {
	op := w.p.opcache.cache[idx]
	loc := "owned"
	for f := w.p.opcache.first; f != nil; f = f.next {
		if f == op {
			loc = "first"
		}
	}
	for _, i := range w.p.opcache.freelist {
		if i == idx {
			loc = "freelist"
		}
	}
	cb := 0
	if op.Inputs != nil {
		cb = 1
	}
	return fmt.Sprintf("s%d:st=%d,loc=%s,cb=%d", idx, op.state, loc, cb)
}

func (w *vocWorld) obs() string {
	var ids []int
	for i := range w.slots {
		ids = append(ids, int(i))
	}
	sort.Ints(ids)
	var parts []string
	for _, i := range ids {
		parts = append(parts, w.slotObs(int32(i)))
	}
	return strings.Join(parts, " ")
}

func (w *vocWorld) open(handler bool) (string, string) {
	fds, err := syscall.Socketpair(syscall.AF_UNIX, syscall.SOCK_STREAM, 0)
	if err != nil {
		return "", "setup-failed"
	}
	c := &connection{}
	vc := &vocConn{id: w.nextID, peer: fds[1], handler: handler}
	opts := &options{}
	if handler {
		opts.onRequest = func(ctx context.Context, conn Connection) error {
			r := conn.Reader()
			n := r.Len()
			if n > 0 && r.Skip(n) == nil {
				atomic.AddInt64(&vc.got, int64(n))
			}
			return nil
		}
	}
	if err := c.init(&netFD{fd: fds[0], network: "unix"}, opts); err != nil {
		return "", "setup-failed " + err.Error()
	}
	vc.c, vc.op, vc.idx = c, c.operator, c.operator.index
	w.nextID++
	orig := c.operator.Inputs
	id := vc.id
	c.operator.Inputs = func(vs [][]byte) [][]byte {
		w.ran = append(w.ran, id)
		if m := w.mid; m != nil {
			w.mid = nil
			m()
		}
		return orig(vs)
	}
	w.conns = append(w.conns, vc)
	w.slots[vc.idx] = true
	// C10, last sentence: the slot must not get a new owner while the poller still holds a fetched, undispatched event through it
	name := "open"
	if handler {
		name = "openh"
	}
	if w.inBatch {
		for _, ev := range w.batch[w.bpos:] {
			if *(**FDOperator)(unsafe.Pointer(&ev.data)) == vc.op {
				return fmt.Sprintf("%s %d slot=%d", name, vc.id, vc.idx), fmt.Sprintf("BYSTANDER-FAIL slot %d handed to connection %d while the poller holds a fetched, undispatched event through it", vc.idx, vc.id)
			}
		}
	}
	return fmt.Sprintf("%s %d slot=%d", name, vc.id, vc.idx), "ok " + w.obs()
}

func (w *vocWorld) exec(toks []string) (op string, reply string) {
	atoi := func(s string) int {
		var n int
		fmt.Sscanf(s, "%d", &n)
		return n
	}
	defer func() {
		if r := recover(); r != nil {
			reply = fmt.Sprintf("panic %v", r)
		}
	}()
	op = strings.Join(toks, " ")
	switch toks[0] {
	case "open":
		return w.open(false)
	case "openh":
		return w.open(true)
	case "hup":
		// the peer closes its end: the next event fetched for the connection carries the hang-up
		vc := w.conns[atoi(toks[1])]
		if vc.closed || vc.peerClosed {
			return op, "skip"
		}
		vc.peerClosed = true
		syscall.Close(vc.peer)
		return fmt.Sprintf("hup %d", vc.id), "ok " + w.obs()
	case "drain":
		// use up the cache's free chain, so the next alloc has to get its operator some other way
		// (a fresh block; never a slot that still waits in the freelist for the end of the batch).
		// Slots the model knows are taken like a new connection would take them (callbacks installed, never registered).
		var known []string
		for w.p.opcache.first != nil {
			o := w.p.Alloc()
			w.held = append(w.held, o)
			if w.slots[o.index] {
				o.Inputs = func(vs [][]byte) [][]byte { return vs }
				known = append(known, fmt.Sprint(o.index))
			}
		}
		l := strings.Join(known, ",")
		if l == "" {
			l = "-"
		}
		return "drain " + l, "ok " + w.obs()
	case "send":
		vc := w.conns[atoi(toks[1])]
		if vc.peerClosed {
			return op, "skip"
		}
		syscall.Write(vc.peer, []byte("abc"))
		vc.sent += 3
		return op, "ok " + w.obs()
	case "fetch":
		if w.inBatch {
			return op, "skip"
		}
		n, err := EpollWait(w.p.fd, w.p.events, 0)
		if err != nil || n < 0 {
			n = 0
		}
		w.batch = append(w.batch[:0], w.p.events[:n]...)
		w.bpos, w.inBatch = 0, true
		var idxs []string
		for i := range w.batch {
			o := *(**FDOperator)(unsafe.Pointer(&w.batch[i].data))
			idxs = append(idxs, fmt.Sprint(o.index))
		}
		l := strings.Join(idxs, ",")
		if l == "" {
			l = "-"
		}
		return "fetch " + l, "ok " + w.obs()
	case "dispatch":
		if !w.inBatch || w.bpos >= len(w.batch) {
			return op, "skip"
		}
		ev := w.batch[w.bpos : w.bpos+1]
		o := *(**FDOperator)(unsafe.Pointer(&ev[0].data))
		w.bpos++
		w.ran = w.ran[:0]
		var vc *vocConn
		for _, c := range w.conns {
			if !c.closed && !c.hupped && c.op == o {
				vc = c
			}
		}
		willRun := atomic.LoadInt32(&o.state) == 1
		w.p.handler(ev)
		ran := "none"
		if len(w.ran) > 0 {
			ran = fmt.Sprint(w.ran[0])
		}
		note := ""
		if vc != nil && willRun {
			// (with data in the same event the handler reads first and leaves the hang-up to the next wait)
			if atomic.LoadInt32(&o.detached) > 0 || vc.c.status(closing) != 0 {
				// the hang-up path: appendHup detached the operator inside the dispatch, the hang-up goroutine does the rest
				if vc.handler {
					if !w.freed(vc) {
						if os.Getenv("VERIF_DEBUG") != "" {
							fmt.Fprintf(os.Stderr, "conn %d: closing=%d processing=%d len=%d got=%d state=%d\n", vc.id, vc.c.status(closing), vc.c.status(processing), vc.c.inputBuffer.Len(), vc.got, vc.op.state)
							pprof.Lookup("goroutine").WriteTo(os.Stderr, 1)
						}
						return fmt.Sprintf("dispatch %d hup=full", o.index), "hang"
					}
					vc.closed = true
					note = " hup=full"
				} else {
					dl := time.Now().Add(2 * time.Second)
					for !vc.c.isCloseBy(poller) && time.Now().Before(dl) {
						time.Sleep(50 * time.Microsecond)
					}
					time.Sleep(100 * time.Microsecond)
					vc.hupped = true
					note = " hup=detached"
				}
			} else {
				vc.settle()
			}
		}
		return fmt.Sprintf("dispatch %d%s", o.index, note), fmt.Sprintf("ok ran=%s %s", ran, w.obs())
	case "dclose":
		// dispatch of the next event with the owner's Close() running CONCURRENTLY, started while the poller holds the slot's
		// token (inside Inputs, before the readv on operator.FD).  While the closer is at work a probe descriptor pair is opened
		// and filled: the kernel hands out the lowest free number, so if the closed connection's descriptor number has been
		// given back before the dispatch ended the probe gets it and the stale readv eats the probe's bytes (C10: descriptor reuse).
		if !w.inBatch || w.bpos >= len(w.batch) {
			return op, "skip"
		}
		ev := w.batch[w.bpos : w.bpos+1]
		o := *(**FDOperator)(unsafe.Pointer(&ev[0].data))
		var vc *vocConn
		for _, c := range w.conns {
			if !c.closed && !c.hupped && !c.peerClosed && !c.handler && c.op == o {
				vc = c
			}
		}
		if vc == nil || atomic.LoadInt32(&o.state) != 1 {
			return op, "skip"
		}
		w.bpos++
		w.ran = w.ran[:0]
		closedCh := make(chan struct{})
		probe := []int{-1, -1}
		w.mid = func() {
			go func() {
				vc.c.Close()
				close(closedCh)
			}()
			select {
			case <-closedCh:
			case <-time.After(3 * time.Millisecond):
			}
			if fds, err := syscall.Socketpair(syscall.AF_UNIX, syscall.SOCK_STREAM, 0); err == nil {
				probe = fds[:]
				syscall.Write(fds[1], []byte("PROBE"))
			}
		}
		w.p.handler(ev)
		started := w.mid == nil
		w.mid = nil
		if !started {
			// the event was skipped (cannot happen for a live owner whose token is free): run the close anyway
			vc.c.Close()
			close(closedCh)
		}
		select {
		case <-closedCh:
		case <-time.After(3 * time.Second):
			return fmt.Sprintf("dclose %d slot=%d", vc.id, vc.idx), "hang"
		}
		vc.closed = true
		syscall.Close(vc.peer)
		verdict := "intact"
		if probe[0] >= 0 {
			buf := make([]byte, 16)
			n, _, _ := syscall.Recvfrom(probe[0], buf, syscall.MSG_PEEK|syscall.MSG_DONTWAIT)
			if n != 5 {
				verdict = fmt.Sprintf("eaten(fd=%d,left=%d)", probe[0], n)
			}
			syscall.Close(probe[0])
			syscall.Close(probe[1])
		}
		ran := "none"
		if len(w.ran) > 0 {
			ran = fmt.Sprint(w.ran[0])
		}
		if verdict != "intact" {
			return fmt.Sprintf("dclose %d slot=%d", vc.id, vc.idx), "BYSTANDER-FAIL bytes of a descriptor opened while connection " + fmt.Sprint(vc.id) + "'s event was being dispatched were consumed on behalf of that (closed) connection: " + verdict
		}
		return fmt.Sprintf("dclose %d slot=%d", vc.id, vc.idx), fmt.Sprintf("ok ran=%s probe=intact %s", ran, w.obs())
	case "rel":
		// Release() on a LIVE connection between two poller steps: with nothing buffered it takes the slot's token
		// (operator.do()), resets the tail node and gives the token back; the slot must look as before
		vc := w.conns[atoi(toks[1])]
		if vc.closed || vc.hupped || vc.handler {
			return op, "skip"
		}
		vc.c.Release()
		return fmt.Sprintf("rel %d", vc.id), "ok " + w.obs()
	case "drel":
		// dispatch of the next event (input arriving) with the owner's Release() loop running CONCURRENTLY on another
		// goroutine: Release's do()/done() section races the poller's do() / inputs / inputAck / done() on the same token.
		// The loop is stopped and joined before the slot is observed, so on return nobody is inside a call.
		if !w.inBatch || w.bpos >= len(w.batch) {
			return op, "skip"
		}
		ev := w.batch[w.bpos : w.bpos+1]
		o := *(**FDOperator)(unsafe.Pointer(&ev[0].data))
		var vc *vocConn
		for _, c := range w.conns {
			if !c.closed && !c.hupped && !c.peerClosed && !c.handler && c.op == o {
				vc = c
			}
		}
		if vc == nil || atomic.LoadInt32(&o.state) != 1 {
			return op, "skip"
		}
		w.bpos++
		w.ran = w.ran[:0]
		var spin, started int32 = 1, 0
		joined := make(chan struct{})
		go func() {
			defer close(joined)
			for atomic.LoadInt32(&spin) == 1 {
				vc.c.Release()
				atomic.StoreInt32(&started, 1)
			}
		}()
		for atomic.LoadInt32(&started) == 0 {
			runtime.Gosched()
		}
		w.p.handler(ev)
		atomic.StoreInt32(&spin, 0)
		<-joined
		ran := "none"
		if len(w.ran) > 0 {
			ran = fmt.Sprint(w.ran[0])
		}
		skip := 0
		if ran == "none" {
			skip = 1
		}
		return fmt.Sprintf("drel %d skip=%d", o.index, skip), fmt.Sprintf("ok ran=%s %s", ran, w.obs())
	case "endbatch":
		if !w.inBatch || w.bpos < len(w.batch) {
			return op, "skip"
		}
		w.p.opcache.free()
		w.inBatch = false
		return op, "ok " + w.obs()
	case "close":
		vc := w.conns[atoi(toks[1])]
		if vc.closed {
			return op, "skip"
		}
		vc.settle()
		vc.c.Close()
		if vc.handler && !w.freed(vc) {
			return fmt.Sprintf("close %d slot=%d", vc.id, vc.idx), "hang"
		}
		vc.closed = true
		if !vc.peerClosed {
			syscall.Close(vc.peer)
		}
		pre := ""
		if vc.hupped {
			pre = " pre=detached"
		}
		return fmt.Sprintf("close %d slot=%d%s", vc.id, vc.idx, pre), "ok " + w.obs()
	case "stale":
		vc := w.conns[atoi(toks[1])]
		if !vc.closed {
			return op, "skip"
		}
		res := ""
		switch toks[2] {
		case "release":
			res = fmt.Sprint(vc.c.Release() == nil)
		case "close":
			res = fmt.Sprint(vc.c.Close() == nil)
		case "next":
			_, err := vc.c.Next(1)
			res = fmt.Sprint(err != nil)
		case "write":
			_, err := vc.c.Write([]byte("x"))
			res = fmt.Sprint(err != nil)
		case "flush":
			res = fmt.Sprint(vc.c.Flush() != nil)
		}
		return fmt.Sprintf("stale %d %s slot=%d", vc.id, toks[2], vc.idx), "ok " + w.obs() + vocIgnore(res)
	case "check":
		// bystanders: every live connection must have received exactly what was sent to it
		var bad []string
		for _, vc := range w.conns {
			if vc.closed {
				continue
			}
			vc.settle()
			if have := vc.c.inputBuffer.Len() + int(atomic.LoadInt64(&vc.got)); have != vc.sent {
				bad = append(bad, fmt.Sprintf("conn%d got %d of %d", vc.id, have, vc.sent))
			}
			// quiescence (no dispatch and no API call in progress): a live connection's slot must not be left with its
			// token taken - the poller skips every event of a slot whose do() fails, the connection would be stalled for ever
			if st := atomic.LoadInt32(&vc.op.state); !vc.hupped && st == 2 {
				bad = append(bad, fmt.Sprintf("conn%d: slot %d left with its token taken (state 2) at quiescence, nobody holds it", vc.id, vc.idx))
			}
		}
		if len(bad) > 0 {
			return op, "BYSTANDER-FAIL " + strings.Join(bad, "; ")
		}
		return op, "ok " + w.obs()
	}
	return op, "bad-op"
}

func vocIgnore(string) string { return "" }

func vocNewWorld() (*vocWorld, func(), error) {
	p, err := openDefaultPoll()
	if err != nil {
		return nil, nil, err
	}
	p.Reset(128, barriercap)
	m := &manager{numLoops: 1, status: managerInitialized}
	m.polls = []Poll{p}
	m.balance = newLoadbalance(RoundRobin, m.polls)
	old := pollmanager
	pollmanager = m
	w := &vocWorld{p: p, slots: map[int32]bool{}}
	return w, func() {
		for _, vc := range w.conns {
			if !vc.closed {
				vc.c.Close()
				if !vc.peerClosed {
					syscall.Close(vc.peer)
				}
			}
		}
		pollmanager = old
		syscall.Close(p.wop.FD)
		syscall.Close(p.fd)
	}, nil
}

// VerifOpCacheMain: opcacheh -seed S -seqs N -ops K -ops-out F -impl-out F [-replay F]
func VerifOpCacheMain(args []string) int {
	fs := flag.NewFlagSet("opcacheh", flag.ContinueOnError)
	seed := fs.Int64("seed", 1, "")
	seqs := fs.Int("seqs", 50, "")
	nops := fs.Int("ops", 60, "")
	opsOut := fs.String("ops-out", "", "")
	implOut := fs.String("impl-out", "", "")
	replay := fs.String("replay", "", "")
	hazard := fs.Bool("hazard", false, "start every sequence with a directed prelude around the slot-reuse window (search for a failing input)")
	if err := fs.Parse(args); err != nil {
		return 2
	}
	io_, err := os.Create(*implOut)
	if err != nil {
		fmt.Fprintln(os.Stderr, err)
		return 2
	}
	defer io_.Close()
	iw := bufio.NewWriter(io_)
	defer iw.Flush()
	oo, err := os.Create(*opsOut)
	if err != nil {
		fmt.Fprintln(os.Stderr, err)
		return 2
	}
	defer oo.Close()
	ow := bufio.NewWriter(oo)
	defer ow.Flush()
	var progress int64 = time.Now().UnixNano()
	go func() {
		// global watchdog (covers the clean-up between sequences too)
		for {
			time.Sleep(time.Second)
			if time.Now().UnixNano()-atomic.LoadInt64(&progress) > int64(8*time.Second) {
				fmt.Fprintln(ow, "# no progress for 8s")
				fmt.Fprintln(iw, "hang")
				ow.Flush()
				iw.Flush()
				os.Exit(3)
			}
		}
	}()
	emit := func(w *vocWorld, line string) bool {
		atomic.StoreInt64(&progress, time.Now().UnixNano())
		// watchdog: a step that does not return (e.g. a spin on a token that is never given back) ends the run
		type res struct{ op, rep string }
		ch := make(chan res, 1)
		go func() {
			op, rep := w.exec(strings.Fields(line))
			ch <- res{op, rep}
		}()
		var op, rep string
		select {
		case r := <-ch:
			op, rep = r.op, r.rep
		case <-time.After(5 * time.Second):
			fmt.Fprintln(ow, line)
			fmt.Fprintln(iw, "hang")
			ow.Flush()
			iw.Flush()
			os.Exit(3)
		}
		if rep == "skip" {
			return true
		}
		fmt.Fprintln(ow, op)
		fmt.Fprintln(iw, rep)
		return !strings.HasPrefix(rep, "panic")
	}
	if *replay != "" {
		f, err := os.Open(*replay)
		if err != nil {
			fmt.Fprintln(os.Stderr, err)
			return 2
		}
		defer f.Close()
		sc := bufio.NewScanner(f)
		var w *vocWorld
		var done func()
		for sc.Scan() {
			line := strings.TrimSpace(sc.Text())
			if line == "" || strings.HasPrefix(line, "#") {
				continue
			}
			if strings.HasPrefix(line, "seq") {
				if done != nil {
					done()
				}
				w, done, err = vocNewWorld()
				if err != nil {
					fmt.Fprintln(os.Stderr, err)
					return 2
				}
				fmt.Fprintln(ow, line)
				fmt.Fprintln(iw, "seq")
				continue
			}
			// op lines carry annotations (slot=…, fetched indices): strip them for re-execution
			t := strings.Fields(line)
			switch t[0] {
			case "open", "openh", "fetch", "endbatch", "check", "drain", "dclose":
				t = t[:1]
			case "dispatch":
				t = t[:1]
			case "drel":
				t = t[:1]
			case "close", "send", "hup", "rel":
				t = t[:2]
			case "stale":
				t = t[:3]
			}
			emit(w, strings.Join(t, " "))
		}
		if done != nil {
			done()
		}
		return 0
	}
	r := rand.New(rand.NewSource(*seed))
	for s := 0; s < *seqs; s++ {
		w, done, err := vocNewWorld()
		if err != nil {
			fmt.Fprintln(os.Stderr, err)
			return 2
		}
		fmt.Fprintf(ow, "seq %d\n", s)
		fmt.Fprintln(iw, "seq")
		if *hazard {
			// directed prelude: k connections, allocation list used up, data for some of them fetched but not dispatched,
			// one or two of those closed (or told to hang up), new connections opened inside the batch, then the batch is dispatched
			k := 2 + r.Intn(3)
			for i := 0; i < k; i++ {
				emit(w, "open")
			}
			if r.Intn(4) != 0 {
				emit(w, "drain")
			}
			for i := 0; i < k; i++ {
				if r.Intn(3) != 0 {
					emit(w, fmt.Sprintf("send %d", i))
				}
			}
			emit(w, "fetch")
			for j := 1 + r.Intn(2); j > 0; j-- {
				emit(w, fmt.Sprintf("close %d", r.Intn(k)))
			}
			if r.Intn(3) == 0 {
				emit(w, "drain")
			}
			for j := 1 + r.Intn(2); j > 0; j-- {
				emit(w, "open")
			}
			if r.Intn(2) == 0 {
				emit(w, "dclose")
			}
		} else if r.Intn(3) == 0 {
			emit(w, "drain")
		}
		for i := 0; i < *nops; i++ {
			var line string
			nc := len(w.conns)
			pick := func() int { return r.Intn(nc) }
			switch k := r.Intn(21); {
			case k == 20:
				if r.Intn(2) == 0 {
					continue
				}
				line = "drain"
			case k < 3 || nc == 0:
				if nc >= 6 {
					continue
				}
				line = "open"
				if r.Intn(2) == 0 {
					line = "openh"
				}
			case k < 7:
				vc := w.conns[pick()]
				if vc.closed {
					continue
				}
				line = fmt.Sprintf("send %d", vc.id)
			case k < 10:
				line = "fetch"
			case k < 14:
				line = "dispatch"
				switch r.Intn(6) {
				case 0:
					line = "dclose"
				case 1, 2:
					line = "drel"
				}
			case k < 16:
				line = "endbatch"
			case k < 18:
				line = fmt.Sprintf("close %d", pick())
			case k == 18 && r.Intn(2) == 0:
				line = fmt.Sprintf("hup %d", pick())
			case k == 18:
				line = fmt.Sprintf("rel %d", pick())
			default:
				line = fmt.Sprintf("stale %d %s", pick(), []string{"release", "release", "close", "next", "write", "flush"}[r.Intn(6)])
			}
			if !emit(w, line) {
				break
			}
		}
		// drain: finish the batch, deliver everything, check bystanders
		for w.inBatch && w.bpos < len(w.batch) {
			emit(w, "dispatch")
		}
		emit(w, "endbatch")
		emit(w, "fetch")
		for w.inBatch && w.bpos < len(w.batch) {
			emit(w, "dispatch")
		}
		emit(w, "endbatch")
		emit(w, "check")
		done()
	}
	return 0
}
