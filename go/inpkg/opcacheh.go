//go:build verif && !race
// +build verif,!race

package netpoll

// C10 harness: the harness IS the poller. A private defaultPoll (no Wait goroutine) is installed as the
// only poll of the pool; real connections on socketpairs are opened, fed, closed and misused after
// close; the body of Wait's loop is executed step by step: fetch (real EpollWait), dispatch of one
// event at a time (real handler), opcache.free() at the end of the batch. Every step is written as an
// op line and the observed slot state as a reply line; `npdriver opcache` replays the per-slot Lean
// model (Netpoll.Poll.OpCache) on the same steps.

import (
	"bufio"
	"context"
	"flag"
	"fmt"
	"math/rand"
	"os"
	"runtime"
	"runtime/pprof"
	"sort"
	"strings"
	"sync/atomic"
	"syscall"
	"time"
	"unsafe"
)

type vocConn struct {
	id     int
	c      *connection
	peer   int
	op     *FDOperator
	idx    int32
	closed bool
	sent   int
	// connections opened with "openh" have an OnRequest handler (it consumes everything and counts it): the poller's
	// hang-up path then tears them down by itself (close callbacks on the hang-up goroutine, closing == poller)
	handler    bool
	got        int64
	peerClosed bool
	hupped     bool // no handler: the hang-up detached the operator, the user's Close does the rest
	// hang-up queue scenarios: OnDisconnect of every connection counts its calls; with a gate armed it blocks there (a slow user
	// callback), which delays every later entry of the same hang-up list
	disc     int32
	gate     chan struct{}
	deferred bool // its hang-up was recorded in a handler call behind a blocked entry and has not been delivered yet
}

// vocDial: a DIAL in progress as a slot owner.  The harness is the dialing goroutine's scheduler: newPollDesc and pollDesc.WaitWrite
// (with a context the harness cancels) are the real code on a never-ready descriptor (one end of a socketpair whose send buffer is
// full); what netFD.connect does after WaitWrite returned - the deferred operator.Free() - and what socket() does after connect
// failed - netfd.Close() - are separate steps ("dfree", "dclosefd"; tie: Netpoll.Tie.Dial.connectDefer_eq /
// socket_closes_on_dial_error), so that poller batches, new connections and late events of the dial's descriptor can be placed between them.
type vocDial struct {
	id         int
	fd, peer   int
	pd         *pollDesc
	op         *FDOperator
	idx        int32
	cancel     context.CancelFunc
	ret        chan struct{} // closed when WaitWrite has returned
	err        error
	returned   bool // the harness has seen WaitWrite return
	freed      bool // connect's deferred operator.Free() done
	fdClosed   bool // socket()'s netfd.Close() done
	peerClosed bool
	deferred   bool // its hang-up was recorded behind a blocked entry of a hang-up list and has not been delivered yet
}

func vocChClosed(ch chan struct{}) bool {
	select {
	case <-ch:
		return true
	default:
		return false
	}
}

// waitRet waits until the dial's WaitWrite has returned
func (d *vocDial) waitRet(dur time.Duration) bool {
	if d.returned {
		return true
	}
	select {
	case <-d.ret:
		d.returned = true
		return true
	case <-time.After(dur):
		return false
	}
}

// verifBeforeSendmsg is called by the hooked copy of sendmsg (lib/epollhook.py) in front of the system call: a schedule point between
// a writer's lock(flushing) and its sendmsg on c.fd; nil, or never called when the harness was built without that overlay
var verifBeforeSendmsg func(fd int)

func vocSendHookAvailable() bool {
	hit := false
	old := verifBeforeSendmsg
	verifBeforeSendmsg = func(int) { hit = true }
	sendmsg(-1, [][]byte{{0}}, make([]syscall.Iovec, 1), false)
	verifBeforeSendmsg = old
	return hit
}

// regs reads the REAL epoll set of the poller (/proc/self/fdinfo/<epfd>): slot pointer (the registration's data word) -> descriptors
// registered under it
func (w *vocWorld) regs() map[uintptr][]int {
	out := map[uintptr][]int{}
	b, err := os.ReadFile(fmt.Sprintf("/proc/self/fdinfo/%d", w.p.fd))
	if err != nil {
		return nil
	}
	for _, l := range strings.Split(string(b), "\n") {
		f := strings.Fields(l)
		if len(f) < 6 || f[0] != "tfd:" || f[4] != "data:" {
			continue
		}
		var fd int
		var data uint64
		fmt.Sscanf(f[1], "%d", &fd)
		fmt.Sscanf(f[5], "%x", &data)
		out[uintptr(data)] = append(out[uintptr(data)], fd)
	}
	for _, l := range out {
		sort.Ints(l)
	}
	return out
}

func (w *vocWorld) regCount(op *FDOperator) int {
	return len(w.regs()[uintptr(unsafe.Pointer(op))])
}

// pendingThrough: the poller holds a fetched, undispatched event through the slot
func (w *vocWorld) pendingThrough(op *FDOperator) bool {
	if !w.inBatch {
		return false
	}
	for _, ev := range w.batch[w.bpos:] {
		if *(**FDOperator)(unsafe.Pointer(&ev.data)) == op {
			return true
		}
	}
	return false
}

func (w *vocWorld) dialOf(o *FDOperator) *vocDial {
	for _, d := range w.dials {
		if !d.freed && d.op == o {
			return d
		}
	}
	return nil
}

// vocSentinel: an operator of the harness whose (synthetic) hang-up is the LAST entry of one handler call's hang-up list:
// when its OnHup runs, the goroutine of that call has been through every earlier entry
type vocSentinel struct {
	op   *FDOperator
	fds  [2]int
	done chan struct{}
}

// settle waits until the connection's handler task (if any) is idle and has consumed what arrived
func (vc *vocConn) settle() {
	if !vc.handler {
		return
	}
	dl := time.Now().Add(2 * time.Second)
	for time.Now().Before(dl) {
		if vc.c.isUnlock(processing) && (vc.c.inputBuffer.Len() == 0 || !vc.c.IsActive()) {
			return
		}
		time.Sleep(50 * time.Microsecond)
	}
}

// freed waits until the connection's slot has been given back (teardown finished on whatever goroutine runs it)
func (w *vocWorld) freed(vc *vocConn) bool {
	dl := time.Now().Add(2 * time.Second)
	for time.Now().Before(dl) {
		c := w.p.opcache
		lock(&c.freelocked)
		in := false
		for _, i := range c.freelist {
			if i == vc.idx {
				in = true
			}
		}
		unlock(&c.freelocked)
		if in {
			// the finalizer goes on to close the descriptor and recycle the buffers
			for k := 0; k < 200 && atomic.LoadUint32(&vc.c.netFD.closed) == 0 && atomic.LoadInt32(&vc.c.netFD.detaching) == 0; k++ {
				time.Sleep(20 * time.Microsecond)
			}
			return true
		}
		time.Sleep(50 * time.Microsecond)
	}
	return false
}

type vocWorld struct {
	p       *defaultPoll
	conns   []*vocConn
	dials   []*vocDial
	wcloses int
	batch   []epollevent
	bpos    int
	inBatch bool
	ran     []int // connection ids whose Inputs callback ran during the last dispatch
	nextID  int
	slots   map[int32]bool
	held    []*FDOperator  // operators taken by "drain" and never used
	mid     func()         // "dclose": runs once inside the next Inputs callback, i.e. while the poller holds that slot's token
	sents   []*vocSentinel // hang-up goroutines that have not finished (an entry is blocked at a gate)
	// real-Wait mode ("waitstart" … "waitstop"): defaultPoll.Wait runs on its own goroutine and IS the poller; it reports to the
	// harness after every return of epoll_wait (schedule point of lib/epollhook.py) and at the entry of p.Handler (wrapped func
	// field) and waits there until it is resumed: fetch and opcache.free() are Wait's, the harness only observes them
	realWait  bool
	hookBatch []epollevent
	toMain    chan vocEv
	resume    chan struct{}
	waitDone  chan error
	waitEnded bool // Wait returned: the close message made handler close the poller's descriptors
}

type vocEv struct {
	kind  int // 1: epoll_wait returned, 2: p.Handler entered
	n     int
	batch []epollevent
	wop   bool
}

// verifAfterEpollWait is called by the hooked copy of EpollWait (lib/epollhook.py) after the system call returned; nil, or never
// called when the harness was built without that overlay
var verifAfterEpollWait func(epfd int, events []epollevent, n int)

var vocHookWorld *vocWorld

func vocHookAvailable() bool {
	fd, err := EpollCreate(0)
	if err != nil {
		return false
	}
	defer syscall.Close(fd)
	hit := false
	old := verifAfterEpollWait
	verifAfterEpollWait = func(int, []epollevent, int) { hit = true }
	EpollWait(fd, make([]epollevent, 1), 0)
	verifAfterEpollWait = old
	return hit
}

func (w *vocWorld) startWait() bool {
	if !vocHookAvailable() {
		return false
	}
	w.toMain, w.resume, w.waitDone = make(chan vocEv), make(chan struct{}), make(chan error, 1)
	w.realWait = true
	p := w.p
	p.Handler = func(events []epollevent) bool {
		for i := range events {
			if *(**FDOperator)(unsafe.Pointer(&events[i].data)) == p.wop {
				return p.handler(events)
			}
		}
		w.toMain <- vocEv{kind: 2}
		<-w.resume
		return false // the harness has dispatched every event of the batch through the real handler meanwhile
	}
	vocHookWorld = w
	verifAfterEpollWait = func(epfd int, events []epollevent, n int) {
		hw := vocHookWorld
		if hw == nil || epfd != hw.p.fd {
			return
		}
		ev := vocEv{kind: 1, n: n}
		if n > 0 {
			ev.batch = append([]epollevent(nil), events[:n]...)
			for i := range ev.batch {
				if *(**FDOperator)(unsafe.Pointer(&ev.batch[i].data)) == hw.p.wop {
					ev.wop = true
				}
			}
		}
		hw.toMain <- ev
		<-hw.resume
	}
	go func() { w.waitDone <- p.Wait() }()
	return true
}

func (w *vocWorld) recv() (vocEv, bool) {
	select {
	case ev := <-w.toMain:
		return ev, true
	case <-time.After(5 * time.Second):
		return vocEv{}, false
	}
}

// pump follows the real loop until it blocks in epoll_wait again: every batch it fetches is written as "fetch", its events are
// dispatched ("dispatch" = the real handler, one event per call, on behalf of the parked loop) and the state after the loop's own
// opcache.free() is observed as "endbatch".  first: actions placed into the first batch –
// afterFetch runs between the return of epoll_wait and the loop's next statement, beforeDispatch at the entry of p.Handler.
func (w *vocWorld) pump(emit func(string) bool, afterFetch, beforeDispatch func()) bool {
	fetched := false
	for {
		ev, ok := w.recv()
		if !ok || ev.kind != 1 {
			return false
		}
		if w.inBatch {
			emit("endbatch") // Wait is past its free() of the previous iteration (if it is where it belongs)
		}
		if ev.n <= 0 || ev.wop {
			w.resume <- struct{}{}
			if ev.n <= 0 && fetched {
				return true // msec = -1: the loop blocks until something arrives
			}
			// an empty return before the round's batch (epoll_wait interrupted by a signal – the Go runtime preempts with
			// SIGURG – or the wake-up descriptor alone): the data sent in this round is still to come
			continue
		}
		fetched = true
		w.hookBatch = ev.batch
		emit("fetch")
		if afterFetch != nil {
			afterFetch()
			afterFetch = nil
		}
		w.resume <- struct{}{}
		if ev2, ok := w.recv(); !ok || ev2.kind != 2 {
			return false
		}
		if beforeDispatch != nil {
			beforeDispatch()
			beforeDispatch = nil
		}
		for w.inBatch && w.bpos < len(w.batch) {
			if !emit("dispatch") {
				break
			}
		}
		w.resume <- struct{}{}
	}
}

func (w *vocWorld) stopWait(emit func(string) bool) bool {
	if !w.realWait || w.waitEnded {
		return true
	}
	w.p.Close()
	dl := time.After(10 * time.Second)
	for {
		select {
		case ev := <-w.toMain:
			if ev.kind == 1 && w.inBatch {
				emit("endbatch")
			}
			if ev.kind == 1 && ev.n > 0 && !ev.wop {
				// connection events fetched together with nothing else: dispatch them like any batch
				w.hookBatch = ev.batch
				emit("fetch")
				w.resume <- struct{}{}
				if ev2, ok := w.recv(); !ok || ev2.kind != 2 {
					return false
				}
				for w.inBatch && w.bpos < len(w.batch) {
					if !emit("dispatch") {
						break
					}
				}
			}
			w.resume <- struct{}{}
		case <-w.waitDone:
			w.waitEnded = true
			vocHookWorld = nil
			verifAfterEpollWait = nil
			return true
		case <-dl:
			return false
		}
	}
}

func (w *vocWorld) newSentinel() (*vocSentinel, error) {
	fds, err := syscall.Socketpair(syscall.AF_UNIX, syscall.SOCK_STREAM, 0)
	if err != nil {
		return nil, err
	}
	st := &vocSentinel{fds: [2]int{fds[0], fds[1]}, done: make(chan struct{})}
	st.op = &FDOperator{FD: fds[0], poll: w.p}
	st.op.OnHup = func(p Poll) error { close(st.done); return nil }
	if err := w.p.Control(st.op, PollReadable); err != nil {
		syscall.Close(fds[0])
		syscall.Close(fds[1])
		return nil, err
	}
	return st, nil
}

func (st *vocSentinel) wait(d time.Duration) bool {
	select {
	case <-st.done:
		syscall.Close(st.fds[0])
		syscall.Close(st.fds[1])
		return true
	case <-time.After(d):
		return false
	}
}

// bystanders: a connection that was neither closed by its user nor hung up on by its peer must be untouched: active, registered,
// its OnDisconnect never called (C10: nothing done on behalf of another connection closes or stalls it)
func (w *vocWorld) disturbed() []string {
	var bad []string
	regs := w.regs()
	for _, vc := range w.conns {
		if vc.closed || vc.peerClosed {
			continue
		}
		// a slot has a single owner: the only descriptor the real epoll set holds under the slot's pointer is its connection's
		if fds := regs[uintptr(unsafe.Pointer(vc.op))]; regs != nil && len(fds) > 0 && (len(fds) != 1 || fds[0] != vc.c.fd) {
			bad = append(bad, fmt.Sprintf("conn%d (slot %d, fd %d): the epoll set holds the descriptors %v under its slot's pointer: the slot has a second registered owner", vc.id, vc.idx, vc.c.fd, fds))
			continue
		}
		switch {
		case atomic.LoadInt32(&vc.disc) > 0:
			bad = append(bad, fmt.Sprintf("conn%d (slot %d): OnDisconnect ran although its peer is alive", vc.id, vc.idx))
		case !vc.c.IsActive():
			bad = append(bad, fmt.Sprintf("conn%d (slot %d): closed although neither its user nor its peer closed it", vc.id, vc.idx))
		case atomic.LoadInt32(&vc.op.detached) != 0:
			bad = append(bad, fmt.Sprintf("conn%d (slot %d): deregistered from the poller although its peer is alive", vc.id, vc.idx))
		}
	}
	return bad
}

// release opens every gate and waits until the delayed hang-up goroutines are through their lists
func (w *vocWorld) release() (full []string, hang bool) {
	for _, vc := range w.conns {
		if vc.gate != nil {
			close(vc.gate)
			vc.gate = nil
		}
	}
	for _, st := range w.sents {
		if !st.wait(3 * time.Second) {
			hang = true
		}
	}
	w.sents = nil
	for _, d := range w.dials {
		if d.deferred {
			// the recorded hang-up has been delivered: pd.onhup closed closeTrigger, WaitWrite returns (unless it had returned before)
			d.deferred = false
			if !d.returned && !d.waitRet(2*time.Second) {
				hang = true
			}
		}
	}
	for _, vc := range w.conns {
		if !vc.deferred {
			continue
		}
		vc.deferred = false
		if vc.closed {
			continue // its user closed it before the hang-up was delivered: the delivery found nothing to do
		}
		if vc.handler {
			if !w.freed(vc) {
				hang = true
				continue
			}
			vc.closed = true
			full = append(full, fmt.Sprint(vc.idx))
		} else {
			dl := time.Now().Add(2 * time.Second)
			for !vc.c.isCloseBy(poller) && time.Now().Before(dl) {
				time.Sleep(50 * time.Microsecond)
			}
		}
	}
	return full, hang
}

func (w *vocWorld) slotObs(idx int32) string {
	op := w.p.opcache.cache[idx]
	loc := "owned"
	for f := w.p.opcache.first; f != nil; f = f.next {
		if f == op {
			loc = "first"
		}
	}
	for _, i := range w.p.opcache.freelist {
		if i == idx {
			loc = "freelist"
		}
	}
	cb := 0
	if op.Inputs != nil || op.OnWrite != nil || op.OnHup != nil {
		cb = 1
	}
	return fmt.Sprintf("s%d:st=%d,loc=%s,cb=%d", idx, op.state, loc, cb)
}

func (w *vocWorld) obs() string {
	var ids []int
	for i := range w.slots {
		ids = append(ids, int(i))
	}
	sort.Ints(ids)
	var parts []string
	for _, i := range ids {
		parts = append(parts, w.slotObs(int32(i)))
	}
	return strings.Join(parts, " ")
}

func (w *vocWorld) open(handler bool) (string, string) {
	fds, err := syscall.Socketpair(syscall.AF_UNIX, syscall.SOCK_STREAM, 0)
	if err != nil {
		return "", "setup-failed"
	}
	c := &connection{}
	vc := &vocConn{id: w.nextID, peer: fds[1], handler: handler}
	opts := &options{}
	opts.onDisconnect = func(ctx context.Context, conn Connection) {
		atomic.AddInt32(&vc.disc, 1)
		if g := vc.gate; g != nil {
			<-g
		}
	}
	if handler {
		opts.onRequest = func(ctx context.Context, conn Connection) error {
			r := conn.Reader()
			n := r.Len()
			if n > 0 && r.Skip(n) == nil {
				atomic.AddInt64(&vc.got, int64(n))
			}
			return nil
		}
	}
	if err := c.init(&netFD{fd: fds[0], network: "unix"}, opts); err != nil {
		return "", "setup-failed " + err.Error()
	}
	vc.c, vc.op, vc.idx = c, c.operator, c.operator.index
	w.nextID++
	orig := c.operator.Inputs
	id := vc.id
	c.operator.Inputs = func(vs [][]byte) [][]byte {
		w.ran = append(w.ran, id)
		if m := w.mid; m != nil {
			w.mid = nil
			m()
		}
		return orig(vs)
	}
	w.conns = append(w.conns, vc)
	w.slots[vc.idx] = true
	// C10, last sentence: the slot must not get a new owner while the poller still holds a fetched, undispatched event through it
	name := "open"
	if handler {
		name = "openh"
	}
	if w.pendingThrough(vc.op) {
		return fmt.Sprintf("%s %d slot=%d", name, vc.id, vc.idx), fmt.Sprintf("BYSTANDER-FAIL slot %d handed to connection %d while the poller holds a fetched, undispatched event through it", vc.idx, vc.id)
	}
	return fmt.Sprintf("%s %d slot=%d", name, vc.id, vc.idx), "ok " + w.obs()
}

// dial: a dial in progress takes a slot: newPollDesc on a never-ready descriptor, WaitWrite (registers PollWritable, then blocks) on its
// own goroutine with a context the harness cancels ("dtimeout")
func (w *vocWorld) dial() (string, string) {
	fds, err := syscall.Socketpair(syscall.AF_UNIX, syscall.SOCK_STREAM, 0)
	if err != nil {
		return "", "setup-failed"
	}
	syscall.SetNonblock(fds[0], true)
	syscall.SetNonblock(fds[1], true)
	syscall.SetsockoptInt(fds[0], syscall.SOL_SOCKET, syscall.SO_SNDBUF, 4096)
	chunk := make([]byte, 4096)
	for i := 0; i < 4096; i++ {
		if _, err := syscall.Write(fds[0], chunk); err != nil {
			break
		}
	}
	d := &vocDial{id: len(w.dials), fd: fds[0], peer: fds[1], ret: make(chan struct{})}
	d.pd = newPollDesc(fds[0])
	d.op, d.idx = d.pd.operator, d.pd.operator.index
	var ctx context.Context
	ctx, d.cancel = context.WithCancel(context.Background())
	w.dials = append(w.dials, d)
	w.slots[d.idx] = true
	line := fmt.Sprintf("dial %d slot=%d", d.id, d.idx)
	if w.pendingThrough(d.op) {
		d.returned, d.err = true, nil
		close(d.ret)
		return line, fmt.Sprintf("BYSTANDER-FAIL slot %d handed to dial %d while the poller holds a fetched, undispatched event through it", d.idx, d.id)
	}
	go func() {
		d.err = d.pd.WaitWrite(ctx)
		close(d.ret)
	}()
	dl := time.Now().Add(2 * time.Second)
	for atomic.LoadInt32(&d.op.state) == 0 && time.Now().Before(dl) {
		time.Sleep(20 * time.Microsecond)
	}
	for w.regCount(d.op) == 0 && time.Now().Before(dl) {
		time.Sleep(20 * time.Microsecond)
	}
	if w.regCount(d.op) == 0 {
		return line, "hang"
	}
	return line, fmt.Sprintf("ok reg=%d %s", w.regCount(d.op), w.obs())
}

func (w *vocWorld) exec(toks []string) (op string, reply string) {
	atoi := func(s string) int {
		var n int
		fmt.Sscanf(s, "%d", &n)
		return n
	}
	defer func() {
		if r := recover(); r != nil {
			reply = fmt.Sprintf("panic %v", r)
		}
	}()
	op = strings.Join(toks, " ")
	switch toks[0] {
	case "open":
		return w.open(false)
	case "openh":
		return w.open(true)
	case "hup":
		// the peer closes its end: the next event fetched for the connection carries the hang-up
		vc := w.conns[atoi(toks[1])]
		if vc.closed || vc.peerClosed {
			return op, "skip"
		}
		vc.peerClosed = true
		syscall.Close(vc.peer)
		return fmt.Sprintf("hup %d", vc.id), "ok " + w.obs()
	case "drain":
		// use up the cache's free chain, so the next alloc has to get its operator some other way
		// (a fresh block; never a slot that still waits in the freelist for the end of the batch).
		// Slots the model knows are taken like a new connection would take them (callbacks installed, never registered).
		var known []string
		for w.p.opcache.first != nil {
			o := w.p.Alloc()
			w.held = append(w.held, o)
			if w.slots[o.index] {
				o.Inputs = func(vs [][]byte) [][]byte { return vs }
				known = append(known, fmt.Sprint(o.index))
			}
		}
		l := strings.Join(known, ",")
		if l == "" {
			l = "-"
		}
		return "drain " + l, "ok " + w.obs()
	case "send":
		vc := w.conns[atoi(toks[1])]
		if vc.peerClosed {
			return op, "skip"
		}
		syscall.Write(vc.peer, []byte("abc"))
		vc.sent += 3
		return op, "ok " + w.obs()
	case "fetch":
		if w.inBatch {
			return op, "skip"
		}
		if w.realWait {
			// the batch is the one defaultPoll.Wait's own epoll_wait returned
			if w.hookBatch == nil {
				return op, "skip"
			}
			w.batch = append(w.batch[:0], w.hookBatch...)
			w.hookBatch = nil
		} else {
			n, err := EpollWait(w.p.fd, w.p.events, 0)
			if err != nil || n < 0 {
				n = 0
			}
			w.batch = append(w.batch[:0], w.p.events[:n]...)
		}
		w.bpos, w.inBatch = 0, true
		var idxs []string
		for i := range w.batch {
			o := *(**FDOperator)(unsafe.Pointer(&w.batch[i].data))
			idxs = append(idxs, fmt.Sprint(o.index))
		}
		l := strings.Join(idxs, ",")
		if l == "" {
			l = "-"
		}
		return "fetch " + l, "ok " + w.obs()
	case "dispatch":
		if !w.inBatch || w.bpos >= len(w.batch) {
			return op, "skip"
		}
		ev := w.batch[w.bpos : w.bpos+1]
		o := *(**FDOperator)(unsafe.Pointer(&ev[0].data))
		w.bpos++
		w.ran = w.ran[:0]
		var vc *vocConn
		for _, c := range w.conns {
			if !c.closed && !c.hupped && c.op == o {
				vc = c
			}
		}
		willRun := atomic.LoadInt32(&o.state) == 1
		var dl *vocDial
		if vc == nil {
			dl = w.dialOf(o)
		}
		// (a dial whose WaitWrite has already detached it - ctx.Done() - while an event fetched earlier is still in the batch: the
		// callbacks run, their detach is a no-op)
		dsuf := ""
		if atomic.LoadInt32(&o.detached) > 0 {
			dsuf = "d"
		}
		w.p.handler(ev)
		ran := "none"
		if len(w.ran) > 0 {
			ran = fmt.Sprint(w.ran[0])
		}
		note := ""
		if dl != nil && willRun && atomic.LoadInt32(&o.detached) > 0 {
			// a dial's event: pollDesc.onwrite detached inside the dispatch and woke WaitWrite, or the hang-up path (appendHup detached,
			// pd.onhup runs on the hang-up goroutine and wakes WaitWrite)
			if vocChClosed(dl.pd.writeTrigger) {
				note = " dial=out" + dsuf
			} else {
				t := time.Now().Add(2 * time.Second)
				for !vocChClosed(dl.pd.closeTrigger) && time.Now().Before(t) {
					time.Sleep(50 * time.Microsecond)
				}
				note = " dial=hup" + dsuf
			}
			if !dl.waitRet(2 * time.Second) {
				return fmt.Sprintf("dispatch %d%s", o.index, note), "hang"
			}
		}
		if vc != nil && willRun {
			// (with data in the same event the handler reads first and leaves the hang-up to the next wait)
			if atomic.LoadInt32(&o.detached) > 0 || vc.c.status(closing) != 0 {
				// the hang-up path: appendHup detached the operator inside the dispatch, the hang-up goroutine does the rest
				if vc.handler {
					if !w.freed(vc) {
						if os.Getenv("VERIF_DEBUG") != "" {
							fmt.Fprintf(os.Stderr, "conn %d: closing=%d processing=%d len=%d got=%d state=%d\n", vc.id, vc.c.status(closing), vc.c.status(processing), vc.c.inputBuffer.Len(), vc.got, vc.op.state)
							pprof.Lookup("goroutine").WriteTo(os.Stderr, 1)
						}
						return fmt.Sprintf("dispatch %d hup=full", o.index), "hang"
					}
					vc.closed = true
					note = " hup=full"
				} else {
					dl := time.Now().Add(2 * time.Second)
					for !vc.c.isCloseBy(poller) && time.Now().Before(dl) {
						time.Sleep(50 * time.Microsecond)
					}
					time.Sleep(100 * time.Microsecond)
					vc.hupped = true
					note = " hup=detached"
				}
			} else {
				vc.settle()
			}
		}
		return fmt.Sprintf("dispatch %d%s", o.index, note), fmt.Sprintf("ok ran=%s %s", ran, w.obs())
	case "dclose":
		// dispatch of the next event with the owner's Close() running CONCURRENTLY, started while the poller holds the slot's
		// token (inside Inputs, before the readv on operator.FD).  While the closer is at work a probe descriptor pair is opened
		// and filled: the kernel hands out the lowest free number, so if the closed connection's descriptor number has been
		// given back before the dispatch ended the probe gets it and the stale readv eats the probe's bytes (C10: descriptor reuse).
		if !w.inBatch || w.bpos >= len(w.batch) {
			return op, "skip"
		}
		ev := w.batch[w.bpos : w.bpos+1]
		o := *(**FDOperator)(unsafe.Pointer(&ev[0].data))
		var vc *vocConn
		for _, c := range w.conns {
			if !c.closed && !c.hupped && !c.peerClosed && !c.handler && c.op == o {
				vc = c
			}
		}
		if vc == nil || atomic.LoadInt32(&o.state) != 1 {
			return op, "skip"
		}
		w.bpos++
		w.ran = w.ran[:0]
		closedCh := make(chan struct{})
		probe := []int{-1, -1}
		w.mid = func() {
			go func() {
				vc.c.Close()
				close(closedCh)
			}()
			select {
			case <-closedCh:
			case <-time.After(3 * time.Millisecond):
			}
			if fds, err := syscall.Socketpair(syscall.AF_UNIX, syscall.SOCK_STREAM, 0); err == nil {
				probe = fds[:]
				syscall.Write(fds[1], []byte("PROBE"))
			}
		}
		w.p.handler(ev)
		started := w.mid == nil
		w.mid = nil
		if !started {
			// the event was skipped (cannot happen for a live owner whose token is free): run the close anyway
			vc.c.Close()
			close(closedCh)
		}
		select {
		case <-closedCh:
		case <-time.After(3 * time.Second):
			return fmt.Sprintf("dclose %d slot=%d", vc.id, vc.idx), "hang"
		}
		vc.closed = true
		syscall.Close(vc.peer)
		verdict := "intact"
		if probe[0] >= 0 {
			buf := make([]byte, 16)
			n, _, _ := syscall.Recvfrom(probe[0], buf, syscall.MSG_PEEK|syscall.MSG_DONTWAIT)
			if n != 5 {
				verdict = fmt.Sprintf("eaten(fd=%d,left=%d)", probe[0], n)
			}
			syscall.Close(probe[0])
			syscall.Close(probe[1])
		}
		ran := "none"
		if len(w.ran) > 0 {
			ran = fmt.Sprint(w.ran[0])
		}
		if verdict != "intact" {
			return fmt.Sprintf("dclose %d slot=%d", vc.id, vc.idx), "BYSTANDER-FAIL bytes of a descriptor opened while connection " + fmt.Sprint(vc.id) + "'s event was being dispatched were consumed on behalf of that (closed) connection: " + verdict
		}
		return fmt.Sprintf("dclose %d slot=%d", vc.id, vc.idx), fmt.Sprintf("ok ran=%s probe=intact %s", ran, w.obs())
	case "waitround", "waitend":
		return op, "ok " + w.obs()
	case "waithang":
		return op, "hang"
	case "gate":
		// the connection's OnDisconnect callback will block until "release" (a slow user callback on the hang-up goroutine)
		vc := w.conns[atoi(toks[1])]
		if vc.closed || vc.hupped || vc.handler || vc.gate != nil {
			return op, "skip"
		}
		vc.gate = make(chan struct{})
		return op, "ok " + w.obs()
	case "dispatchall":
		// the rest of the batch in ONE handler call, as Wait does it: one hang-up list, one hang-up goroutine for all of them
		if !w.inBatch || w.bpos >= len(w.batch) {
			return op, "skip"
		}
		evs := append([]epollevent(nil), w.batch[w.bpos:]...)
		type item struct {
			o       *FDOperator
			vc      *vocConn
			dl      *vocDial
			willRun bool
			pre     bool // detached before the handler call
		}
		items := make([]item, len(evs))
		for i := range evs {
			o := *(**FDOperator)(unsafe.Pointer(&evs[i].data))
			items[i] = item{o: o, willRun: atomic.LoadInt32(&o.state) == 1, pre: atomic.LoadInt32(&o.detached) > 0}
			for _, c := range w.conns {
				if !c.closed && !c.hupped && c.op == o {
					items[i].vc = c
				}
			}
			if items[i].vc == nil {
				items[i].dl = w.dialOf(o)
			}
		}
		st, err := w.newSentinel()
		if err != nil {
			return op, "skip"
		}
		var sev epollevent
		sev.events = syscall.EPOLLHUP
		*(**FDOperator)(unsafe.Pointer(&sev.data)) = st.op
		evs = append(evs, sev)
		w.bpos = len(w.batch)
		w.ran = w.ran[:0]
		w.p.handler(evs)
		runtime.KeepAlive(st)
		ran := "none"
		if len(w.ran) > 0 {
			// one entry per event: an event with data and a hang-up calls Inputs again from readall
			var l []string
			for i, id := range w.ran {
				if i == 0 || w.ran[i-1] != id {
					l = append(l, fmt.Sprint(id))
				}
			}
			ran = strings.Join(l, "+")
		}
		var notes []string
		blocked := false
		for _, it := range items {
			vc, o := it.vc, it.o
			tag := ""
			if dl := it.dl; dl != nil && it.willRun && atomic.LoadInt32(&o.detached) > 0 {
				dsuf := ""
				if it.pre {
					dsuf = "d"
				}
				switch {
				case vocChClosed(dl.pd.writeTrigger):
					tag = ":dout"
					if !dl.waitRet(2 * time.Second) {
						return "dispatchall -", "hang"
					}
				case blocked:
					// recorded behind a blocked entry of the same hang-up list: pd.onhup has not run, WaitWrite is still parked
					dl.deferred, tag = true, ":dhupq"
				default:
					tag = ":dhup"
					if !dl.waitRet(2 * time.Second) {
						return "dispatchall -", "hang"
					}
				}
				tag += dsuf
			}
			if vc != nil && it.willRun {
				if atomic.LoadInt32(&o.detached) > 0 || vc.c.status(closing) != 0 {
					switch {
					case blocked:
						// behind a blocked entry of the same list: recorded, not delivered
						vc.deferred, vc.hupped, tag = true, true, ":hupq"
					case vc.gate != nil:
						dl := time.Now().Add(4 * time.Second)
						for atomic.LoadInt32(&vc.disc) == 0 && time.Now().Before(dl) {
							time.Sleep(50 * time.Microsecond)
						}
						if atomic.LoadInt32(&vc.disc) == 0 {
							return "dispatchall -", "hang"
						}
						blocked, vc.hupped, tag = true, true, ":hupg"
					case vc.handler:
						if !w.freed(vc) {
							return "dispatchall -", "hang"
						}
						vc.closed, tag = true, ":hupf"
					default:
						dl := time.Now().Add(2 * time.Second)
						for !vc.c.isCloseBy(poller) && time.Now().Before(dl) {
							time.Sleep(50 * time.Microsecond)
						}
						time.Sleep(100 * time.Microsecond)
						vc.hupped, tag = true, ":hupd"
					}
				} else {
					vc.settle()
				}
			}
			notes = append(notes, fmt.Sprintf("%d%s", o.index, tag))
		}
		if blocked {
			w.sents = append(w.sents, st)
		} else if !st.wait(3 * time.Second) {
			return "dispatchall " + strings.Join(notes, ","), "hang"
		}
		return "dispatchall " + strings.Join(notes, ","), fmt.Sprintf("ok ran=%s %s", ran, w.obs())
	case "release":
		if len(w.sents) == 0 {
			armed := false
			for _, vc := range w.conns {
				armed = armed || vc.gate != nil
			}
			if !armed {
				return op, "skip"
			}
		}
		full, hang := w.release()
		l := strings.Join(full, ",")
		if l == "" {
			l = "-"
		}
		if hang {
			return "release full=" + l, "hang"
		}
		if bad := w.disturbed(); len(bad) > 0 {
			return "release full=" + l, "BYSTANDER-FAIL after the delayed hang-ups were delivered: " + strings.Join(bad, "; ")
		}
		return "release full=" + l, "ok " + w.obs()
	case "rel":
		// Release() on a LIVE connection between two poller steps: with nothing buffered it takes the slot's token
		// (operator.do()), resets the tail node and gives the token back; the slot must look as before
		vc := w.conns[atoi(toks[1])]
		if vc.closed || vc.hupped || vc.handler {
			return op, "skip"
		}
		vc.c.Release()
		return fmt.Sprintf("rel %d", vc.id), "ok " + w.obs()
	case "drel":
		// dispatch of the next event (input arriving) with the owner's Release() loop running CONCURRENTLY on another
		// goroutine: Release's do()/done() section races the poller's do() / inputs / inputAck / done() on the same token.
		// The loop is stopped and joined before the slot is observed, so on return nobody is inside a call.
		if !w.inBatch || w.bpos >= len(w.batch) {
			return op, "skip"
		}
		ev := w.batch[w.bpos : w.bpos+1]
		o := *(**FDOperator)(unsafe.Pointer(&ev[0].data))
		var vc *vocConn
		for _, c := range w.conns {
			if !c.closed && !c.hupped && !c.peerClosed && !c.handler && c.op == o {
				vc = c
			}
		}
		if vc == nil || atomic.LoadInt32(&o.state) != 1 {
			return op, "skip"
		}
		w.bpos++
		w.ran = w.ran[:0]
		var spin, started int32 = 1, 0
		joined := make(chan struct{})
		go func() {
			defer close(joined)
			for atomic.LoadInt32(&spin) == 1 {
				vc.c.Release()
				atomic.StoreInt32(&started, 1)
			}
		}()
		for atomic.LoadInt32(&started) == 0 {
			runtime.Gosched()
		}
		w.p.handler(ev)
		atomic.StoreInt32(&spin, 0)
		<-joined
		ran := "none"
		if len(w.ran) > 0 {
			ran = fmt.Sprint(w.ran[0])
		}
		skip := 0
		if ran == "none" {
			skip = 1
		}
		return fmt.Sprintf("drel %d skip=%d", o.index, skip), fmt.Sprintf("ok ran=%s %s", ran, w.obs())
	case "wclose":
		// an API call of the connection IN FLIGHT across its close: Write() has passed IsActive(), holds lock(flushing) and is parked
		// in front of its sendmsg on c.fd (schedule point of lib/epollhook.py) while the owner's Close() runs on another goroutine.
		// While the closer is at work probe descriptor pairs are opened (the kernel hands out the lowest free numbers: if the
		// connection's descriptor number has been given back a probe gets it); then the writer goes on.  Its bytes must not appear on
		// a probe (C10: nothing done on behalf of the closed connection injects data into another one, even when its descriptor number was reused).
		vc := w.conns[atoi(toks[1])]
		if vc.closed || vc.hupped || vc.peerClosed || vc.deferred || vc.gate != nil || !vocSendHookAvailable() {
			return op, "skip"
		}
		vc.settle()
		line := fmt.Sprintf("wclose %d slot=%d", vc.id, vc.idx)
		afd := vc.c.fd
		arrived, resume := make(chan struct{}), make(chan struct{})
		var once int32
		verifBeforeSendmsg = func(fd int) {
			if fd == afd && atomic.CompareAndSwapInt32(&once, 0, 1) {
				close(arrived)
				<-resume
			}
		}
		defer func() { verifBeforeSendmsg = nil }()
		payload := []byte("A-PRIVATE-BYTES")
		wdone := make(chan error, 1)
		go func() {
			_, err := vc.c.Write(payload)
			wdone <- err
		}()
		select {
		case <-arrived:
		case <-wdone:
			return op, "skip" // the writer did not get as far as its sendmsg
		case <-time.After(3 * time.Second):
			return line, "hang"
		}
		closedCh := make(chan struct{})
		go func() {
			vc.c.Close()
			close(closedCh)
		}()
		// give the closer time to get as far as it can while the writer is in flight
		for t := time.Now().Add(2 * time.Millisecond); time.Now().Before(t) && atomic.LoadUint32(&vc.c.netFD.closed) == 0; {
			runtime.Gosched()
		}
		var probes [][2]int
		for i := 0; i < 3; i++ {
			fds, err := syscall.Socketpair(syscall.AF_UNIX, syscall.SOCK_STREAM, 0)
			if err != nil {
				break
			}
			syscall.Write(fds[1], []byte("PROBE"))
			probes = append(probes, [2]int{fds[0], fds[1]})
			if fds[0] == afd || fds[1] == afd {
				break
			}
		}
		close(resume)
		hang := false
		select {
		case <-wdone:
		case <-time.After(3 * time.Second):
			hang = true
		}
		select {
		case <-closedCh:
		case <-time.After(3 * time.Second):
			hang = true
		}
		if !hang && vc.handler && !w.freed(vc) {
			hang = true
		}
		verdict := ""
		for _, pr := range probes {
			buf := make([]byte, 64)
			n0, _, _ := syscall.Recvfrom(pr[0], buf, syscall.MSG_PEEK|syscall.MSG_DONTWAIT)
			got0 := string(buf[:vocMax0(n0)])
			n1, _, _ := syscall.Recvfrom(pr[1], buf, syscall.MSG_PEEK|syscall.MSG_DONTWAIT)
			got1 := string(buf[:vocMax0(n1)])
			if verdict == "" && (got0 != "PROBE" || got1 != "") {
				verdict = fmt.Sprintf("probe pair (fd %d, fd %d) opened while connection %d's Write was in flight (its descriptor number: %d): %q / %q readable instead of \"PROBE\" / nothing", pr[0], pr[1], vc.id, afd, got0, got1)
			}
			syscall.Close(pr[0])
			syscall.Close(pr[1])
		}
		if hang {
			return line, "hang"
		}
		vc.closed = true
		syscall.Close(vc.peer)
		w.wcloses++
		if verdict != "" {
			return line, "BYSTANDER-FAIL bytes written on behalf of a connection that was closed meanwhile were injected into another descriptor: " + verdict
		}
		return line, "ok probe=intact " + w.obs()
	case "dial":
		if len(w.dials) >= 3 {
			return op, "skip"
		}
		return w.dial()
	case "dev":
		// the network acts on a dial's descriptor: its peer goes away (hang-up) or takes the queued bytes (the descriptor becomes writable)
		if atoi(toks[1]) >= len(w.dials) || len(toks) < 3 {
			return op, "skip"
		}
		d := w.dials[atoi(toks[1])]
		if d.peerClosed {
			return op, "skip"
		}
		if toks[2] == "hup" {
			d.peerClosed = true
			syscall.Close(d.peer)
		} else {
			buf := make([]byte, 65536)
			for {
				if n, err := syscall.Read(d.peer, buf); n <= 0 || err != nil {
					break
				}
			}
		}
		return fmt.Sprintf("dev %d %s", d.id, toks[2]), "ok " + w.obs()
	case "dtimeout":
		// the dial's context ends while WaitWrite is parked: the ctx.Done() branch of the real WaitWrite runs
		if atoi(toks[1]) >= len(w.dials) {
			return op, "skip"
		}
		d := w.dials[atoi(toks[1])]
		if d.returned || d.freed {
			return op, "skip"
		}
		pre := ""
		if atomic.LoadInt32(&d.op.detached) > 0 {
			pre = " pre=detached" // a hang-up was recorded (appendHup detached the operator) and has not been delivered yet
		}
		d.cancel()
		line := fmt.Sprintf("dtimeout %d slot=%d%s", d.id, d.idx, pre)
		if !d.waitRet(3 * time.Second) {
			return line, "hang"
		}
		return line, fmt.Sprintf("ok reg=%d %s", w.regCount(d.op), w.obs())
	case "dfree":
		// netFD.connect's deferred func after WaitWrite returned: c.pd.operator.Free()
		if atoi(toks[1]) >= len(w.dials) {
			return op, "skip"
		}
		d := w.dials[atoi(toks[1])]
		if !d.returned || d.freed {
			return op, "skip"
		}
		o := d.op
		d.op.Free()
		d.freed = true
		return fmt.Sprintf("dfree %d slot=%d", d.id, d.idx), fmt.Sprintf("ok reg=%d %s", w.regCount(o), w.obs())
	case "dclosefd":
		// socket() after the failed dial: netfd.Close()
		if atoi(toks[1]) >= len(w.dials) {
			return op, "skip"
		}
		d := w.dials[atoi(toks[1])]
		if !d.freed || d.fdClosed {
			return op, "skip"
		}
		syscall.Close(d.fd)
		d.fdClosed = true
		return fmt.Sprintf("dclosefd %d slot=%d", d.id, d.idx), fmt.Sprintf("ok reg=%d %s", w.regCount(d.op), w.obs())
	case "endbatch":
		if !w.inBatch || w.bpos < len(w.batch) {
			return op, "skip"
		}
		if !w.realWait {
			w.p.opcache.free() // (in real-Wait mode this is the loop's own statement; the step only observes the result)
		}
		w.inBatch = false
		return op, "ok " + w.obs()
	case "close":
		vc := w.conns[atoi(toks[1])]
		if vc.closed {
			return op, "skip"
		}
		vc.settle()
		vc.c.Close()
		if vc.handler && !w.freed(vc) {
			return fmt.Sprintf("close %d slot=%d", vc.id, vc.idx), "hang"
		}
		vc.closed = true
		if !vc.peerClosed {
			syscall.Close(vc.peer)
		}
		pre := ""
		if vc.hupped {
			pre = " pre=detached"
		}
		return fmt.Sprintf("close %d slot=%d%s", vc.id, vc.idx, pre), "ok " + w.obs()
	case "stale":
		vc := w.conns[atoi(toks[1])]
		if !vc.closed {
			return op, "skip"
		}
		res := ""
		switch toks[2] {
		case "release":
			res = fmt.Sprint(vc.c.Release() == nil)
		case "close":
			res = fmt.Sprint(vc.c.Close() == nil)
		case "next":
			_, err := vc.c.Next(1)
			res = fmt.Sprint(err != nil)
		case "write":
			_, err := vc.c.Write([]byte("x"))
			res = fmt.Sprint(err != nil)
		case "flush":
			res = fmt.Sprint(vc.c.Flush() != nil)
		}
		return fmt.Sprintf("stale %d %s slot=%d", vc.id, toks[2], vc.idx), "ok " + w.obs() + vocIgnore(res)
	case "check":
		// bystanders: every live connection must have received exactly what was sent to it
		var bad []string
		for _, vc := range w.conns {
			if vc.closed {
				continue
			}
			vc.settle()
			if have := vc.c.inputBuffer.Len() + int(atomic.LoadInt64(&vc.got)); have != vc.sent {
				bad = append(bad, fmt.Sprintf("conn%d got %d of %d", vc.id, have, vc.sent))
			}
			// quiescence (no dispatch and no API call in progress): a live connection's slot must not be left with its
			// token taken - the poller skips every event of a slot whose do() fails, the connection would be stalled for ever
			if st := atomic.LoadInt32(&vc.op.state); !vc.hupped && st == 2 {
				bad = append(bad, fmt.Sprintf("conn%d: slot %d left with its token taken (state 2) at quiescence, nobody holds it", vc.id, vc.idx))
			}
		}
		bad = append(bad, w.disturbed()...)
		if len(bad) > 0 {
			return op, "BYSTANDER-FAIL " + strings.Join(bad, "; ")
		}
		return op, "ok " + w.obs()
	}
	return op, "bad-op"
}

func vocIgnore(string) string { return "" }

func vocMax0(n int) int {
	if n < 0 {
		return 0
	}
	return n
}

func vocNewWorld() (*vocWorld, func(), error) {
	p, err := openDefaultPoll()
	if err != nil {
		return nil, nil, err
	}
	p.Reset(128, barriercap)
	m := &manager{numLoops: 1, status: managerInitialized}
	m.polls = []Poll{p}
	m.balance = newLoadbalance(RoundRobin, m.polls)
	old := pollmanager
	pollmanager = m
	w := &vocWorld{p: p, slots: map[int32]bool{}}
	return w, func() {
		w.release()
		for _, d := range w.dials {
			d.cancel()
			d.waitRet(2 * time.Second)
			if d.returned && !d.freed {
				d.op.Free()
				d.freed = true
			}
			if d.freed && !d.fdClosed {
				syscall.Close(d.fd)
				d.fdClosed = true
			}
			if !d.peerClosed {
				syscall.Close(d.peer)
				d.peerClosed = true
			}
		}
		for _, vc := range w.conns {
			if !vc.closed {
				vc.c.Close()
				if !vc.peerClosed {
					syscall.Close(vc.peer)
				}
			}
		}
		pollmanager = old
		if w.realWait {
			if w.stopWait(func(l string) bool { w.exec(strings.Fields(l)); return true }) {
				return // the close message made the loop close both descriptors
			}
			vocHookWorld = nil
			verifAfterEpollWait = nil
		}
		syscall.Close(p.wop.FD)
		syscall.Close(p.fd)
	}, nil
}

// runRound: one round of a real-Wait sequence.  spec = "s=<ids> c=<ids> o=<n> x=<0|1>": the connections in s get data (their
// events make the loop's next batch); when the loop's epoll_wait has returned – and before the loop executes its next statement –
// the users of the connections in c close them; at the entry of p.Handler, i.e. between fetch and dispatch, o new connections are
// opened (x=1: the last one gets data at once); then the batch is dispatched and the loop goes on.
func (w *vocWorld) runRound(spec string, emit func(string) bool) {
	ids := func(v string) []int {
		var out []int
		for _, t := range strings.Split(v, ",") {
			var n int
			if _, err := fmt.Sscanf(t, "%d", &n); err == nil {
				out = append(out, n)
			}
		}
		return out
	}
	var sends, closes []int
	opens, sendNew := 0, false
	for _, kv := range strings.Fields(spec) {
		switch {
		case strings.HasPrefix(kv, "s="):
			sends = ids(kv[2:])
		case strings.HasPrefix(kv, "c="):
			closes = ids(kv[2:])
		case strings.HasPrefix(kv, "o="):
			fmt.Sscanf(kv[2:], "%d", &opens)
		case kv == "x=1":
			sendNew = true
		}
	}
	emit("waitround " + spec)
	sent := 0
	for _, id := range sends {
		if id < len(w.conns) && !w.conns[id].closed && !w.conns[id].peerClosed {
			emit(fmt.Sprintf("send %d", id))
			sent++
		}
	}
	if sent > 0 {
		ok := w.pump(emit, func() {
			for _, id := range closes {
				if id < len(w.conns) {
					emit(fmt.Sprintf("close %d", id))
				}
			}
		}, func() {
			for i := 0; i < opens; i++ {
				emit("open")
			}
			if sendNew && opens > 0 {
				emit(fmt.Sprintf("send %d", len(w.conns)-1))
			}
		})
		if !ok {
			emit("waithang")
		}
	}
	emit("waitend")
}

// vocDirected: directed preludes around (0) a Write in flight across the close of its connection, (1) the window between a timed-out
// dial's operator.Free() and the close of its descriptor, (2) a dial's hang-up delivered late by the hang-up goroutine
func vocDirected(w *vocWorld, r *rand.Rand, kind int, emit func(string) bool) {
	k := 1 + r.Intn(3)
	for i := 0; i < k; i++ {
		if i > 0 && r.Intn(3) == 0 {
			emit("openh")
		} else {
			emit("open")
		}
	}
	if r.Intn(3) == 0 {
		emit("drain")
	}
	switch kind {
	case 0:
		for i := 0; i < k; i++ {
			if r.Intn(2) == 0 {
				emit(fmt.Sprintf("send %d", i))
			}
		}
		if r.Intn(2) == 0 {
			emit("fetch")
		}
		emit(fmt.Sprintf("wclose %d", r.Intn(k)))
		if r.Intn(2) == 0 {
			emit("open")
			emit(fmt.Sprintf("send %d", len(w.conns)-1))
		}
	case 1:
		emit("dial")
		d := len(w.dials) - 1
		if d < 0 {
			return
		}
		if r.Intn(3) == 0 {
			emit(fmt.Sprintf("send %d", r.Intn(k)))
			emit("fetch")
		}
		emit(fmt.Sprintf("dtimeout %d", d))
		emit(fmt.Sprintf("dfree %d", d))
		closeEarly := r.Intn(4) == 0
		if closeEarly {
			emit(fmt.Sprintf("dclosefd %d", d))
		}
		// the poller ends a batch: the freed slot goes back to the free chain; a new connection takes it
		for w.inBatch && w.bpos < len(w.batch) {
			emit("dispatch")
		}
		emit("fetch")
		for w.inBatch && w.bpos < len(w.batch) {
			emit("dispatch")
		}
		emit("endbatch")
		for j := 1 + r.Intn(2); j > 0; j-- {
			emit("open")
		}
		// the late answer to the dial arrives
		emit(fmt.Sprintf("dev %d %s", d, []string{"hup", "hup", "out"}[r.Intn(3)]))
		if r.Intn(2) == 0 {
			emit(fmt.Sprintf("send %d", len(w.conns)-1))
		}
		emit("fetch")
		for w.inBatch && w.bpos < len(w.batch) {
			emit("dispatch")
		}
		emit("endbatch")
		emit(fmt.Sprintf("dclosefd %d", d))
		emit("check")
	case 2:
		emit("gate 0")
		emit("dial")
		d := len(w.dials) - 1
		if d < 0 {
			return
		}
		emit("hup 0")
		emit(fmt.Sprintf("dev %d hup", d))
		emit("fetch")
		emit("dispatchall")
		emit(fmt.Sprintf("dtimeout %d", d))
		emit(fmt.Sprintf("dfree %d", d))
		if r.Intn(4) != 0 {
			emit(fmt.Sprintf("dclosefd %d", d))
		}
		emit("endbatch")
		if r.Intn(2) == 0 {
			emit("fetch")
			emit("endbatch")
		}
		for j := 1 + r.Intn(2); j > 0; j-- {
			emit("open")
		}
		if r.Intn(2) == 0 {
			emit(fmt.Sprintf("send %d", len(w.conns)-1))
		}
		emit("release")
		emit(fmt.Sprintf("dclosefd %d", d))
		emit("fetch")
		for w.inBatch && w.bpos < len(w.batch) {
			emit("dispatch")
		}
		emit("endbatch")
		emit("check")
	}
}

// VerifOpCacheMain: opcacheh -seed S -seqs N -ops K -ops-out F -impl-out F [-replay F]
func VerifOpCacheMain(args []string) int {
	fs := flag.NewFlagSet("opcacheh", flag.ContinueOnError)
	seed := fs.Int64("seed", 1, "")
	seqs := fs.Int("seqs", 50, "")
	nops := fs.Int("ops", 60, "")
	opsOut := fs.String("ops-out", "", "")
	implOut := fs.String("impl-out", "", "")
	replay := fs.String("replay", "", "")
	waitEvery := fs.Int("wait-every", 4, "every n-th sequence runs the REAL defaultPoll.Wait loop as the poller (needs the EpollWait schedule point of lib/epollhook.py; 0 = never)")
	hazard := fs.Bool("hazard", false, "start every sequence with a directed prelude around the slot-reuse window (search for a failing input)")
	if err := fs.Parse(args); err != nil {
		return 2
	}
	io_, err := os.Create(*implOut)
	if err != nil {
		fmt.Fprintln(os.Stderr, err)
		return 2
	}
	defer io_.Close()
	iw := bufio.NewWriter(io_)
	defer iw.Flush()
	oo, err := os.Create(*opsOut)
	if err != nil {
		fmt.Fprintln(os.Stderr, err)
		return 2
	}
	defer oo.Close()
	ow := bufio.NewWriter(oo)
	defer ow.Flush()
	var progress int64 = time.Now().UnixNano()
	go func() {
		// global watchdog (covers the clean-up between sequences too)
		for {
			time.Sleep(time.Second)
			if time.Now().UnixNano()-atomic.LoadInt64(&progress) > int64(8*time.Second) {
				fmt.Fprintln(ow, "# no progress for 8s")
				fmt.Fprintln(iw, "hang")
				ow.Flush()
				iw.Flush()
				os.Exit(3)
			}
		}
	}()
	emit := func(w *vocWorld, line string) bool {
		atomic.StoreInt64(&progress, time.Now().UnixNano())
		// watchdog: a step that does not return (e.g. a spin on a token that is never given back) ends the run
		type res struct{ op, rep string }
		ch := make(chan res, 1)
		go func() {
			op, rep := w.exec(strings.Fields(line))
			ch <- res{op, rep}
		}()
		var op, rep string
		select {
		case r := <-ch:
			op, rep = r.op, r.rep
		case <-time.After(5 * time.Second):
			fmt.Fprintln(ow, line)
			fmt.Fprintln(iw, "hang")
			ow.Flush()
			iw.Flush()
			os.Exit(3)
		}
		if rep == "skip" {
			return true
		}
		fmt.Fprintln(ow, op)
		fmt.Fprintln(iw, rep)
		return !strings.HasPrefix(rep, "panic")
	}
	if *replay != "" {
		f, err := os.Open(*replay)
		if err != nil {
			fmt.Fprintln(os.Stderr, err)
			return 2
		}
		defer f.Close()
		sc := bufio.NewScanner(f)
		var w *vocWorld
		var done func()
		skipRound := false
		for sc.Scan() {
			line := strings.TrimSpace(sc.Text())
			if line == "" || strings.HasPrefix(line, "#") {
				continue
			}
			if strings.HasPrefix(line, "seq") {
				if done != nil {
					done()
				}
				skipRound = false
				w, done, err = vocNewWorld()
				if err != nil {
					fmt.Fprintln(os.Stderr, err)
					return 2
				}
				fmt.Fprintln(ow, line)
				fmt.Fprintln(iw, "seq")
				continue
			}
			// op lines carry annotations (slot=…, fetched indices): strip them for re-execution
			t := strings.Fields(line)
			if skipRound {
				// the lines a round of the real loop produced: re-created by re-running the round
				skipRound = t[0] != "waitend"
				continue
			}
			switch t[0] {
			case "waitstart":
				if !w.startWait() {
					fmt.Fprintln(os.Stderr, "opcacheh: built without the EpollWait schedule point (lib/epollhook.py): cannot replay a real-Wait sequence")
					return 2
				}
				fmt.Fprintln(ow, "waitstart")
				fmt.Fprintln(iw, "ok "+w.obs())
				continue
			case "waitround":
				w.runRound(strings.Join(t[1:], " "), func(l string) bool { return emit(w, l) })
				skipRound = true
				continue
			case "waitstop":
				rep := "hang"
				if w.stopWait(func(l string) bool { return emit(w, l) }) {
					rep = "ok " + w.obs()
				}
				fmt.Fprintln(ow, "waitstop")
				fmt.Fprintln(iw, rep)
				continue
			}
			switch t[0] {
			case "open", "openh", "fetch", "endbatch", "check", "drain", "dclose", "dispatchall", "release":
				t = t[:1]
			case "dispatch":
				t = t[:1]
			case "drel":
				t = t[:1]
			case "dial":
				t = t[:1]
			case "close", "send", "hup", "gate", "rel", "wclose", "dtimeout", "dfree", "dclosefd":
				t = t[:2]
			case "dev":
				t = t[:3]
			case "stale":
				t = t[:3]
			}
			emit(w, strings.Join(t, " "))
		}
		if done != nil {
			done()
		}
		return 0
	}
	r := rand.New(rand.NewSource(*seed))
	for s := 0; s < *seqs; s++ {
		w, done, err := vocNewWorld()
		if err != nil {
			fmt.Fprintln(os.Stderr, err)
			return 2
		}
		fmt.Fprintf(ow, "seq %d\n", s)
		fmt.Fprintln(iw, "seq")
		if *waitEvery > 0 && s%*waitEvery == *waitEvery-1 {
			// the REAL loop is the poller: closes placed between the return of its epoll_wait and its next statement, opens placed
			// between its fetch and its dispatch; its own opcache.free() decides when a released slot can be handed out again
			em := func(l string) bool { return emit(w, l) }
			k := 2 + r.Intn(3)
			for i := 0; i < k; i++ {
				if r.Intn(3) == 0 {
					emit(w, "openh")
				} else {
					emit(w, "open")
				}
			}
			if r.Intn(3) == 0 {
				emit(w, "drain")
			}
			if w.startWait() {
				fmt.Fprintln(ow, "waitstart")
				fmt.Fprintln(iw, "ok "+w.obs())
				for round := 1 + r.Intn(3); round > 0; round-- {
					var live []int
					for _, vc := range w.conns {
						if !vc.closed && !vc.peerClosed {
							live = append(live, vc.id)
						}
					}
					if len(live) == 0 {
						break
					}
					r.Shuffle(len(live), func(i, j int) { live[i], live[j] = live[j], live[i] })
					ns := 1 + r.Intn(len(live))
					if ns > 3 {
						ns = 3
					}
					sends := live[:ns]
					var cl []string
					for i, id := range sends {
						// the first one (whose data wakes the loop) is closed two rounds in three
						if (i == 0 && r.Intn(3) != 0) || (i > 0 && r.Intn(3) == 0) {
							cl = append(cl, fmt.Sprint(id))
						}
					}
					var sl []string
					for _, id := range sends {
						sl = append(sl, fmt.Sprint(id))
					}
					c := strings.Join(cl, ",")
					if c == "" {
						c = "-"
					}
					w.runRound(fmt.Sprintf("s=%s c=%s o=%d x=%d", strings.Join(sl, ","), c, r.Intn(3), r.Intn(2)), em)
				}
				emit(w, "check")
				// every connection is closed while the poller's descriptors are still open; then the close message ends the loop
				for _, vc := range w.conns {
					if !vc.closed {
						emit(w, fmt.Sprintf("close %d", vc.id))
					}
				}
				rep := "hang"
				if w.stopWait(em) {
					rep = "ok " + w.obs()
				}
				fmt.Fprintln(ow, "waitstop")
				fmt.Fprintln(iw, rep)
				done()
				continue
			}
		}
		if dk := r.Intn(15); dk < 3 || (*hazard && dk < 9) {
			vocDirected(w, r, dk%3, func(l string) bool { return emit(w, l) })
		} else if *hazard && r.Intn(3) == 0 {
			// directed prelude around the hang-up queue: several peers hang up, all of it dispatched in ONE handler call with the first
			// connection's OnDisconnect blocked (one hang-up list, one goroutine, stuck at its first entry); meanwhile users close some of
			// the others, the batch ends, new connections take the freed slots; then the goroutine is let go
			k := 2 + r.Intn(3)
			emit(w, "open")
			for i := 1; i < k; i++ {
				if r.Intn(3) == 0 {
					emit(w, "openh")
				} else {
					emit(w, "open")
				}
			}
			if r.Intn(4) != 0 {
				emit(w, "drain")
			}
			emit(w, "gate 0")
			for i := 0; i < k; i++ {
				if i < 2 || r.Intn(4) != 0 {
					emit(w, fmt.Sprintf("hup %d", i))
				} else {
					emit(w, fmt.Sprintf("send %d", i))
				}
			}
			emit(w, "fetch")
			emit(w, "dispatchall")
			for j := 1 + r.Intn(2); j > 0; j-- {
				emit(w, fmt.Sprintf("close %d", 1+r.Intn(k-1)))
			}
			emit(w, "endbatch")
			if r.Intn(2) == 0 {
				emit(w, "fetch")
				emit(w, "endbatch")
			}
			for j := 1 + r.Intn(2); j > 0; j-- {
				emit(w, "open")
			}
			if r.Intn(2) == 0 {
				emit(w, fmt.Sprintf("send %d", len(w.conns)-1))
			}
			if r.Intn(3) != 0 {
				emit(w, "release")
			}
		} else if *hazard {
			// directed prelude: k connections, allocation list used up, data for some of them fetched but not dispatched,
			// one or two of those closed (or told to hang up), new connections opened inside the batch, then the batch is dispatched
			k := 2 + r.Intn(3)
			for i := 0; i < k; i++ {
				emit(w, "open")
			}
			if r.Intn(4) != 0 {
				emit(w, "drain")
			}
			for i := 0; i < k; i++ {
				if r.Intn(3) != 0 {
					emit(w, fmt.Sprintf("send %d", i))
				}
			}
			emit(w, "fetch")
			for j := 1 + r.Intn(2); j > 0; j-- {
				emit(w, fmt.Sprintf("close %d", r.Intn(k)))
			}
			if r.Intn(3) == 0 {
				emit(w, "drain")
			}
			for j := 1 + r.Intn(2); j > 0; j-- {
				emit(w, "open")
			}
			if r.Intn(2) == 0 {
				emit(w, "dclose")
			}
		} else if r.Intn(3) == 0 {
			emit(w, "drain")
		}
		for i := 0; i < *nops; i++ {
			var line string
			nc := len(w.conns)
			pick := func() int { return r.Intn(nc) }
			switch k := r.Intn(27); {
			case k == 20:
				if r.Intn(2) == 0 {
					continue
				}
				line = "drain"
			case k < 3 || nc == 0:
				if nc >= 6 {
					continue
				}
				line = "open"
				if r.Intn(2) == 0 {
					line = "openh"
				}
			case k == 24 || k == 25:
				// a dial in progress as a slot owner: started, its peer acting, its context ending, connect's deferred Free, socket()'s close
				nd := len(w.dials)
				if nd == 0 || (nd < 3 && r.Intn(4) == 0) {
					line = "dial"
				} else {
					d := r.Intn(nd)
					line = []string{fmt.Sprintf("dev %d hup", d), fmt.Sprintf("dev %d out", d), fmt.Sprintf("dtimeout %d", d), fmt.Sprintf("dtimeout %d", d),
						fmt.Sprintf("dfree %d", d), fmt.Sprintf("dfree %d", d), fmt.Sprintf("dclosefd %d", d)}[r.Intn(7)]
				}
			case k == 26:
				if r.Intn(2) == 0 {
					continue
				}
				line = fmt.Sprintf("wclose %d", pick())
			case k == 21:
				line = fmt.Sprintf("gate %d", pick())
			case k == 22:
				line = "release"
			case k == 23:
				line = fmt.Sprintf("hup %d", pick())
			case k < 7:
				vc := w.conns[pick()]
				if vc.closed {
					continue
				}
				line = fmt.Sprintf("send %d", vc.id)
			case k < 10:
				line = "fetch"
			case k < 14:
				line = "dispatch"
				switch r.Intn(6) {
				case 0:
					line = "dclose"
				case 1:
					line = "dispatchall"
				case 2, 3:
					line = "drel"
				}
			case k < 16:
				line = "endbatch"
			case k < 18:
				line = fmt.Sprintf("close %d", pick())
			case k == 18 && r.Intn(2) == 0:
				line = fmt.Sprintf("hup %d", pick())
			case k == 18:
				line = fmt.Sprintf("rel %d", pick())
			default:
				line = fmt.Sprintf("stale %d %s", pick(), []string{"release", "release", "close", "next", "write", "flush"}[r.Intn(6)])
			}
			if !emit(w, line) {
				break
			}
		}
		// drain: let delayed hang-ups through, finish the batch, deliver everything, check bystanders
		emit(w, "release")
		for w.inBatch && w.bpos < len(w.batch) {
			emit(w, "dispatch")
		}
		emit(w, "endbatch")
		emit(w, "fetch")
		for w.inBatch && w.bpos < len(w.batch) {
			emit(w, "dispatch")
		}
		emit(w, "endbatch")
		emit(w, "check")
		done()
	}
	return 0
}
