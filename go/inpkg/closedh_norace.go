//go:build verif && !race
// +build verif,!race

package netpoll

func vcNoNodes(b *LinkBuffer) bool { return b.head == nil }
