//go:build verif && verifsched
// +build verif,verifsched

package netpoll

// Command line of the controlled-scheduler harness (go/cmd/sched):
//
//	sched -mode replay -in FILE [-out FILE]            run every "scn <spec>" / "sched a,b,c" pair of FILE
//	sched -mode enum   -scn SPEC[;SPEC…] -bound K -maxruns N -seed S [-out FILE]
//	                                                   all schedules up to K preemptions by re-execution (DFS);
//	                                                   when the frontier exceeds the budget it is sampled (seeded)
//	sched -mode random -scn SPEC[;SPEC…] -runs N -seed S [-stay P] [-out FILE]
//
// Output: one trace per run (see SCHED.md for the line format):
//
//	run <k> scn <spec>
//	S/P/C/Y/X/G lines …
//	end status=… …
//	sched <comma separated actor choices>
import (
	"bufio"
	"flag"
	"fmt"
	"math/rand"
	"os"
	"runtime"
	"runtime/pprof"
	"sort"
	"strings"
)

type vsOut struct {
	w     *bufio.Writer
	runs  int
	sites map[string]int
}

func (o *vsOut) emit(spec, trace string, s *vsSched, note string) {
	o.runs++
	fmt.Fprintf(o.w, "run %d scn %s%s\n", o.runs, spec, note)
	o.w.WriteString(trace)
	fmt.Fprintf(o.w, "sched %s\n", strings.Join(s.schedule(), ","))
	for k, v := range s.siteHits {
		o.sites[k] += v
	}
	if s.status == "stuck" {
		// the running actor did not reach a schedule point within the watchdog (a blocking operation outside the
		// instrumentation, or a real deadlock).  Its goroutine is still alive and would disturb later runs of this
		// process, so stop here; lib/schedrun.py reports it.
		fmt.Fprintf(o.w, "info aborted-after-stuck run=%d\n", o.runs)
		o.w.Flush()
		os.Exit(3)
	}
}

func vsPreempts(cs []vsChoice) int {
	n := 0
	for _, c := range cs {
		if c.prevEn && vsBase(c.chosen) != c.prev {
			n++
		}
	}
	return n
}

// vsNode is a frontier node: the schedule base[:k] followed by alt (base is shared by all children of a run).
type vsNode struct {
	base     []string
	k        int
	alt      string
	preempts int
}

func (n vsNode) prefix() []string {
	if n.alt == "" {
		return nil
	}
	p := make([]string, 0, n.k+1)
	p = append(p, n.base[:n.k]...)
	return append(p, n.alt)
}

// vsEnum explores the schedules of one scenario with at most `bound` preemptions by re-execution.
func vsEnum(o *vsOut, spec string, exec vsExec, bound, maxRuns int, rnd *rand.Rand) (runs int, exhausted bool, maxPre int) {
	stack := []vsNode{{}}
	for len(stack) > 0 && runs < maxRuns {
		// take a random frontier node (seeded): a search truncated by the budget is then spread over the
		// whole tree instead of concentrating on late deviations; an exhausted search visits every node anyway
		i := rnd.Intn(len(stack))
		n := stack[i]
		stack[i] = stack[len(stack)-1]
		stack = stack[:len(stack)-1]
		pre := n.prefix()
		rp := &vsReplay{names: pre, diverged: -1}
		trace, s := exec(rp)
		runs++
		note := ""
		if rp.diverged >= 0 {
			note = fmt.Sprintf(" DIVERGED@%d", rp.diverged)
		}
		if p := vsPreempts(s.choices); p > maxPre {
			maxPre = p
		}
		o.emit(spec, trace, s, note)
		if rp.diverged >= 0 {
			continue
		}
		base := s.schedule()
		for k := len(pre); k < len(s.choices); k++ {
			c := s.choices[k]
			for _, alt := range c.enabled {
				if alt == c.chosen {
					continue
				}
				cost := 0
				if c.prevEn && vsBase(alt) != c.prev {
					cost = 1
				}
				if n.preempts+cost > bound {
					continue
				}
				stack = append(stack, vsNode{base: base, k: k, alt: alt, preempts: n.preempts + cost})
			}
		}
	}
	return runs, len(stack) == 0, maxPre
}

// vsExec runs one scenario under one chooser and returns the trace (text) and the scheduler.
type vsExec func(ch vsChooser) (string, *vsSched)

// vsParseAny: the scenario kind is chosen by the spec's prefix: `kind=read,…` (C07, sched_read.go), `kind=flush,…`
// (C08, sched_flush.go), anything else is a connection-lifecycle scenario (sched_life.go).
func vsParseAny(spec string) (vsExec, error) {
	switch {
	case strings.HasPrefix(spec, "kind=read"):
		sc, err := vsParseRdScn(spec)
		if err != nil {
			return nil, err
		}
		return func(ch vsChooser) (string, *vsSched) { return vsReadExec(sc, ch) }, nil
	case strings.HasPrefix(spec, "kind=flush"):
		sc, err := vsParseFlScn(spec)
		if err != nil {
			return nil, err
		}
		return func(ch vsChooser) (string, *vsSched) { return vsFlushExec(sc, ch) }, nil
	}
	sc, err := vsParseScn(spec)
	if err != nil {
		return nil, err
	}
	return func(ch vsChooser) (string, *vsSched) { return vsLifeExec(sc, ch) }, nil
}

// VerifSchedMain is the entry point used by go/cmd/sched.
func VerifSchedMain(args []string) int {
	fs := flag.NewFlagSet("sched", flag.ContinueOnError)
	mode := fs.String("mode", "random", "replay | enum | random")
	in := fs.String("in", "", "replay file")
	out := fs.String("out", "", "trace output (default stdout)")
	scn := fs.String("scn", "", "scenario specs separated by ';'")
	bound := fs.Int("bound", 2, "preemption bound (enum)")
	maxRuns := fs.Int("maxruns", 1000, "max runs per scenario (enum)")
	runs := fs.Int("runs", 100, "runs per scenario (random)")
	seed := fs.Int64("seed", 1, "seed")
	fs.BoolVar(&vsCheckGid, "checkgid", false, "identify the calling actor by goroutine id on every hook call (slow)")
	prof := fs.String("cpuprofile", "", "write a CPU profile")
	stay := fs.Int("stay", 60, "random walk: percent probability of letting the previous actor continue")
	if err := fs.Parse(args); err != nil {
		return 2
	}
	if os.Getenv("GOMAXPROCS") == "" {
		// one P: actor hand-offs become plain goroutine switches (5x faster than futex wake-ups across Ps);
		// nothing is lost, the scheduler serialises the actors anyway.  Shard over processes for parallelism.
		runtime.GOMAXPROCS(1)
	}
	if *prof != "" {
		pf, _ := os.Create(*prof)
		pprof.StartCPUProfile(pf)
		defer pprof.StopCPUProfile()
	}
	w := bufio.NewWriterSize(os.Stdout, 1<<20)
	if *out != "" {
		f, err := os.Create(*out)
		if err != nil {
			fmt.Fprintln(os.Stderr, err)
			return 2
		}
		defer f.Close()
		w = bufio.NewWriterSize(f, 1<<20)
	}
	defer w.Flush()
	o := &vsOut{w: w, sites: map[string]int{}}
	var specs []string
	for _, s := range strings.Split(*scn, ";") {
		if s = strings.TrimSpace(s); s != "" {
			specs = append(specs, s)
		}
	}
	switch *mode {
	case "replay":
		data, err := os.ReadFile(*in)
		if err != nil {
			fmt.Fprintln(os.Stderr, err)
			return 2
		}
		cur := ""
		for _, l := range strings.Split(string(data), "\n") {
			l = strings.TrimSpace(l)
			switch {
			case strings.HasPrefix(l, "scn "):
				cur = strings.TrimSpace(l[4:])
			case strings.HasPrefix(l, "sched"):
				exec, err := vsParseAny(cur)
				if err != nil {
					fmt.Fprintln(os.Stderr, err)
					return 2
				}
				var names []string
				if rest := strings.TrimSpace(l[5:]); rest != "" {
					names = strings.Split(rest, ",")
				}
				rp := &vsReplay{names: names, diverged: -1}
				trace, s := exec(rp)
				note := ""
				if rp.diverged >= 0 {
					note = fmt.Sprintf(" DIVERGED@%d", rp.diverged)
				}
				o.emit(cur, trace, s, note)
			}
		}
	case "enum":
		for i, spec := range specs {
			exec, err := vsParseAny(spec)
			if err != nil {
				fmt.Fprintln(os.Stderr, err)
				return 2
			}
			rnd := rand.New(rand.NewSource(*seed*7919 + int64(i)))
			n, ex, mp := vsEnum(o, spec, exec, *bound, *maxRuns, rnd)
			fmt.Fprintf(w, "info enum scn %s runs=%d exhausted=%v bound=%d maxpreempt=%d\n", spec, n, ex, *bound, mp)
		}
	case "random":
		for i, spec := range specs {
			exec, err := vsParseAny(spec)
			if err != nil {
				fmt.Fprintln(os.Stderr, err)
				return 2
			}
			rnd := rand.New(rand.NewSource(*seed*104729 + int64(i)))
			for k := 0; k < *runs; k++ {
				trace, s := exec(&vsRandom{rnd: rnd, stay: *stay})
				o.emit(spec, trace, s, "")
			}
		}
	default:
		fmt.Fprintln(os.Stderr, "unknown mode")
		return 2
	}
	keys := make([]string, 0, len(o.sites))
	for k := range o.sites {
		keys = append(keys, k)
	}
	sort.Strings(keys)
	for _, k := range keys {
		fmt.Fprintf(w, "info site %s %d\n", k, o.sites[k])
	}
	return 0
}
