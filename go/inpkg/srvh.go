//go:build verif
// +build verif

// srvh.go: harness for property C13 (server tracking and graceful shutdown), compiled INTO package
// netpoll by the overlay.
//
//   -mode sweep : deterministic windows. The srvh build overlays instrumented copies of
//                 netpoll_server.go / netpoll_unix.go (tools/extract -instr) that call verifSrvPoint
//                 before every statement of the server methods, so the REAL onAccept / Close can be
//                 paused between any two statements while the peer closes, data arrives, Shutdown
//                 runs or another connection is accepted.  Every statement passed and every injected
//                 event is an op line; the observed (active, tracked, descriptor closed) triple of
//                 every connection is the reply line.  `npdriver srv` replays the op lines on the Lean
//                 model, `npdriver srvspec` judges the replies.
//   -mode real  : real event loops on loopback / unix sockets, seeded random clients, handler
//                 durations and deadlines around Shutdown; one `obs` line per scenario.
//   -mode emfile: descriptor exhaustion (RLIMIT_NOFILE lowered in this process), two episodes.
//   -mode stretch: descriptor exhaustion as a script of accept results: a Listener handed to Serve answers its first
//                 accepts from the script (EMFILE / ENFILE, other errno values accept(2) may report, a real accept
//                 in between), k consecutive EMFILE up to beyond the length of the back-off goroutine's delay table
//                 and fault sequences EMFILE^k followed by / mixed with transient errors included.
package netpoll

import (
	"bufio"
	"context"
	"encoding/json"
	"flag"
	"fmt"
	"io"
	"math/rand"
	"net"
	"os"
	"runtime"
	"sort"
	"strconv"
	"strings"
	"sync"
	"sync/atomic"
	"syscall"
	"time"
)

var verifSrvHook atomic.Value // func(fn string, k int, label string)

// verifSrvPoint is called by the instrumented copies of the server files before statement k of fn.
func verifSrvPoint(fn string, k int, label string) {
	if h, _ := verifSrvHook.Load().(func(string, int, string)); h != nil {
		h(fn, k, label)
	}
}

// ---------------------------------------------------------------- sweep

type swConn struct {
	nc       *connection
	fd       int
	cli      net.Conn
	injected bool // peer closed
	busy     bool // handler held by the harness
	entered  chan struct{}
	release  chan struct{}
	started  bool // onAccept seen
}

type sweep struct {
	mu       sync.Mutex
	ops      []string
	impl     []string
	s        *server
	ln       Listener
	conns    []*swConn
	cur      int
	cfg      string
	steps    map[string][]string
	cbLo     int // points of the untrack closure inside server.onAccept: (cbLo, cbHi)
	cbHi     int
	muHeld   bool // onAccept goroutine between "0 expr:mu.Lock" and "0 expr:mu.Unlock"
	tFn      string
	tK       int
	tWhat    string
	fired    bool
	logCb    bool
	shErr    string
	problems []string
	closeRun bool
}

func (w *sweep) obs() string {
	if len(w.conns) == 0 {
		return "-"
	}
	parts := make([]string, len(w.conns))
	for i, c := range w.conns {
		if c.nc == nil {
			parts[i] = fmt.Sprintf("c%d:u", i)
			continue
		}
		a, t, f := 0, 0, 0
		if c.nc.IsActive() {
			a = 1
		}
		if v, ok := w.s.connections.Load(c.fd); ok && v == interface{}(c.nc) {
			t = 1
		}
		if atomic.LoadUint32(&c.nc.closed) != 0 {
			f = 1
		}
		parts[i] = fmt.Sprintf("c%d:a%dt%df%d", i, a, t, f)
	}
	return strings.Join(parts, " ")
}

func (w *sweep) log(op string) {
	w.mu.Lock()
	w.ops = append(w.ops, op)
	w.impl = append(w.impl, w.obs())
	w.mu.Unlock()
}

func (w *sweep) logr(op, reply string) {
	w.mu.Lock()
	w.ops = append(w.ops, op)
	w.impl = append(w.impl, reply)
	w.mu.Unlock()
}

// waitTorn waits until connection i is torn down (descriptor closed). The wait is short when the
// teardown is known to be blocked (behind the onAccept mutex, or behind a handler the harness holds).
func (w *sweep) waitTorn(i int) bool {
	c := w.conns[i]
	if c.nc == nil {
		return false
	}
	limit := 10 * time.Second
	if c.busy {
		return false
	}
	if w.muHeld && i == w.cur {
		// the untrack callback will block behind the onAccept mutex: wait (without a timing assumption) until
		// the poller has closed the connection, then only briefly for a teardown that is not expected to finish
		for dl := time.Now().Add(10 * time.Second); c.nc.IsActive() && time.Now().Before(dl); {
			time.Sleep(200 * time.Microsecond)
		}
		limit = 40 * time.Millisecond
	}
	dl := time.Now().Add(limit)
	for time.Now().Before(dl) {
		if atomic.LoadUint32(&c.nc.closed) != 0 {
			return true
		}
		time.Sleep(200 * time.Microsecond)
	}
	return false
}

func (w *sweep) waitEntered(i int) bool {
	c := w.conns[i]
	select {
	case <-c.entered:
		return true
	case <-time.After(10 * time.Second):
		return false
	}
}

// settlePending: effects of events injected before the connection object existed / while blocked
func (w *sweep) settlePending() {
	for i, c := range w.conns {
		if c.nc == nil {
			continue
		}
		if c.busy && c.entered != nil {
			select {
			case <-c.entered:
			default:
				if c.nc.operator != nil && !w.waitEntered(i) {
					// data never reached a handler (connection closed first): not busy after all
				}
			}
		}
		if (c.injected || !c.nc.IsActive()) && !w.logCb && atomic.LoadUint32(&c.nc.closed) == 0 {
			w.waitTorn(i) // a closed connection whose handler is not held is torn down: wait for it, however long it takes
		}
	}
}

func (w *sweep) doInject(i int, what string) {
	c := w.conns[i]
	switch what {
	case "close":
		c.injected = true
		c.cli.Close()
		w.waitTorn(i)
		w.log(fmt.Sprintf("inject %d", i))
	case "busy":
		if c.nc != nil && !c.nc.IsActive() { // already closed: the data cannot reach a handler
			c.cli.Write([]byte("x"))
			w.log(fmt.Sprintf("nobusy %d", i))
			return
		}
		c.busy = true
		c.cli.Write([]byte("x"))
		if c.nc != nil {
			w.waitEntered(i)
		}
		w.log(fmt.Sprintf("busy %d", i))
	case "datafin":
		c.busy = true
		c.injected = true
		c.cli.Write([]byte("x"))
		if c.nc != nil {
			w.waitEntered(i)
		}
		w.log(fmt.Sprintf("busy %d", i))
		c.cli.Close()
		if c.nc != nil { // closed by the poller while the handler runs: wait for IsActive to turn false
			dl := time.Now().Add(10 * time.Second)
			for c.nc.IsActive() && time.Now().Before(dl) {
				time.Sleep(200 * time.Microsecond)
			}
		}
		w.log(fmt.Sprintf("injectbusy %d", i))
	case "shutdown":
		w.runClose(30 * time.Millisecond)
	case "accept":
		w.acceptOne(len(w.conns))
	}
}

func (w *sweep) runClose(d time.Duration) {
	ctx, cancel := context.WithTimeout(context.Background(), d)
	defer cancel()
	done := make(chan string, 1)
	w.closeRun = true
	go func() {
		defer func() {
			if r := recover(); r != nil {
				done <- fmt.Sprintf("panic:%v", r)
			}
		}()
		err := w.s.Close(ctx)
		if err == nil {
			done <- "nil"
		} else if err == ctx.Err() {
			done <- "ctx"
		} else {
			done <- "err:" + err.Error()
		}
	}()
	select {
	case r := <-done:
		w.shErr = r
	case <-time.After(15 * time.Second):
		w.shErr = "hang"
	}
	w.closeRun = false
	w.settlePending()
	w.logr("shret", "sh="+w.shErr+" "+w.obs())
}

func (w *sweep) hook(fn string, k int, label string) {
	switch fn {
	case "server.onAccept":
		if k > w.cbLo && k < w.cbHi { // inside the untrack callback: runs in whoever tears the connection down
			if w.logCb {
				w.log(fmt.Sprintf("cbpt 0 %d %s", k, label))
				if w.tFn == fn && w.tK == k && !w.fired {
					w.fired = true
					w.doInject(0, w.tWhat)
				}
			}
			return
		}
		if w.cur >= 0 && w.cur < len(w.conns) {
			w.conns[w.cur].started = true
		}
		w.settlePending()
		w.log(fmt.Sprintf("pt %d %s %d %s", w.cur, fn, k, label))
		if label == "0 expr:mu.Lock" {
			w.muHeld = true
		}
		if w.tFn == fn && w.tK == k && !w.fired && !w.logCb {
			w.fired = true
			w.doInject(w.cur, w.tWhat)
		}
		if label == "0 expr:mu.Unlock" { // the statement after this point releases it; later waits are long again
			w.muHeld = false
		}
	case "server.Close":
		if !w.closeRun {
			return
		}
		w.settlePending()
		w.log(fmt.Sprintf("pt - %s %d %s", fn, k, label))
		if w.tFn == fn && w.tK == k && !w.fired {
			w.fired = true
			w.doInject(0, w.tWhat)
		}
	}
}

func (w *sweep) acceptOne(i int) {
	cli, err := net.Dial("tcp", w.ln.Addr().String())
	if err != nil {
		w.problems = append(w.problems, "dial: "+err.Error())
		return
	}
	c := &swConn{cli: cli, entered: make(chan struct{}), release: make(chan struct{})}
	w.conns = append(w.conns, c)
	prev := w.cur
	w.cur = i
	dl := time.Now().Add(10 * time.Second)
	for !c.started && time.Now().Before(dl) {
		func() {
			defer func() {
				if r := recover(); r != nil {
					w.problems = append(w.problems, fmt.Sprintf("panic in OnRead: %v", r))
					c.started = true
				}
			}()
			w.s.OnRead(nil)
		}()
		if !c.started {
			time.Sleep(200 * time.Microsecond)
		}
	}
	if !c.started {
		w.problems = append(w.problems, "accept never happened")
	}
	w.log(fmt.Sprintf("ret %d", i))
	w.cur = prev
	w.muHeld = false
}

func (w *sweep) scenario(id int, kind, fn string, k int) {
	w.ops = append(w.ops, fmt.Sprintf("scn %d %s %s %d cfg=%s", id, kind, fn, k, w.cfg))
	w.impl = append(w.impl, "scn")
	ln, err := CreateListener("tcp", "127.0.0.1:0")
	if err != nil {
		w.problems = append(w.problems, "listen: "+err.Error())
		return
	}
	w.ln = ln
	w.conns, w.cur, w.fired, w.muHeld, w.logCb, w.shErr, w.closeRun = nil, -1, false, false, false, "", false
	w.tFn, w.tK, w.tWhat = "", -1, ""
	opts := &options{}
	opts.onRequest = func(ctx context.Context, c Connection) error {
		nc := c.(*connection)
		var me *swConn
		for _, x := range w.conns {
			if x.nc == nc {
				me = x
			}
		}
		c.Reader().Skip(c.Reader().Len())
		if me != nil && me.busy {
			select {
			case <-me.entered:
			default:
				close(me.entered)
			}
			<-me.release
		}
		return nil
	}
	opts.onPrepare = func(c Connection) context.Context {
		nc := c.(*connection)
		if w.cur >= 0 && w.cur < len(w.conns) {
			sc := w.conns[w.cur]
			sc.nc, sc.fd = nc, nc.fd
			w.log(fmt.Sprintf("accept %d %d", w.cur, nc.fd))
		}
		return context.Background()
	}
	w.s = newServer(ln, opts, func(error) {})
	w.s.operator = FDOperator{FD: ln.Fd(), OnRead: w.s.OnRead, OnHup: w.s.OnHup, poll: pollmanager.Pick()}
	shutdownLater := false
	switch kind {
	case "acc-close":
		w.tFn, w.tK, w.tWhat = fn, k, "close"
		w.acceptOne(0)
	case "acc-busy":
		w.tFn, w.tK, w.tWhat = fn, k, "busy"
		w.acceptOne(0)
	case "acc-datafin": // probe of the known finding: data + FIN inside the accept window, slow handler
		w.tFn, w.tK, w.tWhat = fn, k, "datafin"
		w.acceptOne(0)
		shutdownLater = true
	case "acc-shutdown":
		w.tFn, w.tK, w.tWhat = fn, k, "shutdown"
		w.acceptOne(0)
	case "sh-busy", "sh-close":
		w.acceptOne(0)
		w.tFn, w.tK, w.tWhat = fn, k, strings.TrimPrefix(kind, "sh-")
		w.runClose(30 * time.Millisecond)
	case "cb-accept":
		w.acceptOne(0)
		w.tFn, w.tK, w.tWhat = fn, k, "accept"
		w.logCb = true
		if len(w.conns) > 0 && w.conns[0].nc != nil {
			w.conns[0].injected = true
			w.log("injectcb 0")
			w.conns[0].cli.Close()
			w.waitTorn(0)
			w.log("tdone 0")
		}
		w.logCb = false
	case "plain":
		w.acceptOne(0)
	}
	if shutdownLater {
		w.runClose(30 * time.Millisecond)
	}
	// release handlers, let everything finish
	for i, c := range w.conns {
		if c.busy {
			w.log(fmt.Sprintf("idle %d", i)) // observed before the handler is released
			c.busy = false
			close(c.release)
		}
	}
	time.Sleep(2 * time.Millisecond)
	w.settlePending()
	w.log("settle")
	// tear the scenario down: close the remaining clients, then the listener
	for i, c := range w.conns {
		if !c.injected {
			c.injected = true
			c.cli.Close()
			if c.nc != nil && c.nc.operator != nil && atomic.LoadUint32(&c.nc.closed) == 0 {
				w.waitTorn(i)
			}
		}
	}
	w.log("final")
	ln.Close()
}

func srvSweep(factsPath, planPath, opsOut, implOut, cfg string) int {
	var facts struct {
		ServerSteps map[string][]string `json:"server_steps"`
	}
	b, err := os.ReadFile(factsPath)
	if err != nil {
		fmt.Fprintln(os.Stderr, err)
		return 2
	}
	if err := json.Unmarshal(b, &facts); err != nil {
		fmt.Fprintln(os.Stderr, err)
		return 2
	}
	w := &sweep{steps: facts.ServerSteps, cfg: cfg, cbLo: -1, cbHi: -1}
	oa := facts.ServerSteps["server.onAccept"]
	for i, l := range oa {
		if l == "0 expr:AddCloseCallback" {
			w.cbLo = i
			w.cbHi = len(oa)
			for j := i + 1; j < len(oa); j++ {
				if strings.HasPrefix(oa[j], "0 ") {
					w.cbHi = j
					break
				}
			}
		}
	}
	verifSrvHook.Store(func(fn string, k int, label string) { w.hook(fn, k, label) })
	plan, err := os.ReadFile(planPath)
	if err != nil {
		fmt.Fprintln(os.Stderr, err)
		return 2
	}
	id := 0
	for _, l := range strings.Split(string(plan), "\n") {
		f := strings.Fields(l)
		if len(f) < 3 || strings.HasPrefix(l, "#") {
			continue
		}
		k, _ := strconv.Atoi(f[2])
		func() {
			defer func() {
				if r := recover(); r != nil {
					w.problems = append(w.problems, fmt.Sprintf("panic in scenario %s: %v", l, r))
					w.logr("panic", fmt.Sprintf("panic %v", r))
				}
			}()
			w.scenario(id, f[0], f[1], k)
		}()
		id++
	}
	verifSrvHook.Store(func(string, int, string) {})
	if err := os.WriteFile(opsOut, []byte(strings.Join(w.ops, "\n")+"\n"), 0o644); err != nil {
		return 2
	}
	if err := os.WriteFile(implOut, []byte(strings.Join(w.impl, "\n")+"\n"), 0o644); err != nil {
		return 2
	}
	for _, p := range w.problems {
		fmt.Println("PROBLEM", p)
	}
	return 0
}

// ---------------------------------------------------------------- real event loops

type rcEvent struct {
	what string
	at   time.Duration
}

type rcConn struct {
	id      int
	fd      int
	nc      *connection
	ev      []rcEvent
	closed  int32
	hstart  []time.Duration
	hend    []time.Duration
	activeE []bool // IsActive at handler end
	hcli    []int  // client index carried by the request
}

type cliPlan struct {
	connectAt time.Duration
	kind      string        // idle | send | sendclose | closeat | connclose
	at        time.Duration // time of the send / close, relative to connect
	handler   time.Duration // requested handler duration (sent in the request)
	unixSock  bool
}

func censusFds() (socks []int, total int) {
	d, err := os.Open("/proc/self/fd")
	if err != nil {
		return nil, -1
	}
	names, _ := d.Readdirnames(-1)
	dfd := int(d.Fd())
	d.Close()
	for _, n := range names {
		fd, err := strconv.Atoi(n)
		if err != nil || fd == dfd {
			continue
		}
		total++
		if l, err := os.Readlink("/proc/self/fd/" + n); err == nil && strings.HasPrefix(l, "socket:") {
			socks = append(socks, fd)
		}
	}
	sort.Ints(socks)
	return
}

type realRes struct {
	line     string
	problems []string
}

// one scenario with a real event loop; returns the obs line
func realScenario(id int, rng *rand.Rand, probe string, baseSocks map[int]bool) string {
	start := time.Now()
	since := func() time.Duration { return time.Since(start) }
	network, addr := "tcp", "127.0.0.1:0"
	if rng.Intn(3) == 0 && probe == "" {
		network, addr = "unix", fmt.Sprintf("/tmp/verif-srvh-%d-%d.sock", os.Getpid(), id)
		os.Remove(addr)
		defer os.Remove(addr)
	}
	ln, err := CreateListener(network, addr)
	if err != nil {
		return fmt.Sprintf("obs id=%d setup=%q", id, err.Error())
	}
	var mu sync.Mutex
	var conns []*rcConn
	byNc := map[*connection]*rcConn{}
	rec := func(c *rcConn, what string) {
		mu.Lock()
		c.ev = append(c.ev, rcEvent{what, since()})
		mu.Unlock()
	}
	find := func(c Connection) *rcConn {
		mu.Lock()
		defer mu.Unlock()
		return byNc[c.(*connection)]
	}
	useOnConnect := rng.Intn(2) == 0
	prepDelay := time.Duration(0)
	if rng.Intn(3) == 0 {
		prepDelay = time.Duration(1+rng.Intn(8)) * time.Millisecond
	}
	if probe == "r2" {
		prepDelay = 120 * time.Millisecond
	}
	var running int32
	handler := func(ctx context.Context, c Connection) error {
		atomic.AddInt32(&running, 1)
		defer atomic.AddInt32(&running, -1)
		rc := find(c)
		r := c.Reader()
		for r.Len() >= 4 {
			b, _ := r.Next(4)
			ms := int(b[0])<<8 | int(b[1])
			t0 := since()
			if ms > 0 {
				time.Sleep(time.Duration(ms) * time.Millisecond)
			}
			act := c.IsActive()
			if act {
				c.Writer().WriteBinary([]byte{'o', 'k', b[2], b[3]})
				c.Writer().Flush()
			}
			if rc != nil {
				mu.Lock()
				rc.hstart = append(rc.hstart, t0)
				rc.hend = append(rc.hend, since())
				rc.activeE = append(rc.activeE, act)
				rc.hcli = append(rc.hcli, int(b[2])<<8|int(b[3]))
				mu.Unlock()
			}
		}
		if n := r.Len(); n > 0 && !c.IsActive() {
			r.Skip(n)
		}
		return nil
	}
	opts := []Option{
		WithOnPrepare(func(c Connection) context.Context {
			nc := c.(*connection)
			rc := &rcConn{nc: nc, fd: nc.fd}
			mu.Lock()
			rc.id = len(conns)
			conns = append(conns, rc)
			byNc[nc] = rc
			mu.Unlock()
			rec(rc, "prepare")
			c.AddCloseCallback(func(Connection) error {
				atomic.AddInt32(&rc.closed, 1)
				rec(rc, "closecb")
				return nil
			})
			if prepDelay > 0 {
				time.Sleep(prepDelay)
			}
			return context.Background()
		}),
		WithOnDisconnect(func(ctx context.Context, c Connection) {
			if rc := find(c); rc != nil {
				rec(rc, "disconnect")
			}
		}),
	}
	if useOnConnect {
		opts = append(opts, WithOnConnect(func(ctx context.Context, c Connection) context.Context {
			if rc := find(c); rc != nil {
				rec(rc, "connect")
			}
			return ctx
		}))
	}
	evl, _ := NewEventLoop(handler, opts...)
	served := make(chan error, 1)
	go func() { served <- evl.Serve(ln) }()
	for i := 0; i < 2000; i++ {
		evl.(*eventLoop).Lock()
		ok := evl.(*eventLoop).svr != nil
		evl.(*eventLoop).Unlock()
		if ok {
			break
		}
		time.Sleep(100 * time.Microsecond)
	}
	evl.(*eventLoop).Lock()
	svr := evl.(*eventLoop).svr
	evl.(*eventLoop).Unlock()

	// plan
	tShut := time.Duration(60+rng.Intn(60)) * time.Millisecond
	deadline := time.Duration(40+rng.Intn(60)) * time.Millisecond
	if rng.Intn(2) == 0 {
		deadline = time.Duration(350+rng.Intn(200)) * time.Millisecond
	}
	n := 3 + rng.Intn(10)
	var plans []cliPlan
	kinds := []string{"idle", "send", "send", "sendclose", "closeat", "connclose", "connclose"}
	for i := 0; i < n; i++ {
		p := cliPlan{kind: kinds[rng.Intn(len(kinds))]}
		p.connectAt = time.Duration(rng.Intn(int(tShut/time.Millisecond)+20)) * time.Millisecond
		if rng.Intn(4) == 0 { // right around the Shutdown call
			p.connectAt = tShut - 2*time.Millisecond + time.Duration(rng.Intn(4000))*time.Microsecond
		}
		p.at = time.Duration(5+rng.Intn(100)) * time.Millisecond
		switch rng.Intn(4) {
		case 0:
			p.handler = 0
		case 1:
			p.handler = time.Duration(1+rng.Intn(30)) * time.Millisecond
		case 2:
			p.handler = time.Duration(60+rng.Intn(120)) * time.Millisecond
		case 3:
			p.handler = time.Duration(250+rng.Intn(500)) * time.Millisecond
		}
		plans = append(plans, p)
	}
	switch probe {
	case "r2": // a client connecting just before Shutdown while OnPrepare is slow
		plans = []cliPlan{{kind: "send", connectAt: tShut - 40*time.Millisecond, at: 200 * time.Millisecond, handler: 0}}
		deadline = 500 * time.Millisecond
	case "r4": // a second Shutdown after the first timed out
		plans = []cliPlan{{kind: "send", connectAt: 5 * time.Millisecond, at: 5 * time.Millisecond, handler: 400 * time.Millisecond}}
		deadline = 60 * time.Millisecond
	}
	type cliRes struct {
		connected bool
		replies   int
		sent      int
		eofAt     time.Duration
		sentAt    time.Duration
		replyAt   time.Duration
		closedAt  time.Duration
		err       string
	}
	res := make([]cliRes, len(plans))
	var wg sync.WaitGroup
	var shutdownNil int32
	stopClients := make(chan struct{})
	for i := range plans {
		wg.Add(1)
		go func(i int) {
			defer wg.Done()
			p := plans[i]
			time.Sleep(p.connectAt - since())
			c, err := net.DialTimeout(network, ln.Addr().String(), time.Second)
			if err != nil {
				res[i].err = "dial"
				return
			}
			res[i].connected = true
			if p.kind == "connclose" {
				res[i].closedAt = since()
				c.Close()
				return
			}
			rd := make(chan struct{})
			defer func() { // close, then join the reader so that its counters are final
				c.Close()
				<-rd
			}()
			go func() { // reader: replies and EOF
				buf := make([]byte, 64)
				for {
					k, err := c.Read(buf)
					if k >= 4 {
						res[i].replies += k / 4
						res[i].replyAt = since()
					}
					if err != nil {
						if ne, ok := err.(net.Error); !(ok && ne.Timeout()) {
							res[i].eofAt = since() // EOF / reset (or our own Close, for the clients that close first)
						}
						close(rd)
						return
					}
				}
			}()
			// the scenario is over: if Shutdown returned nil the server has closed this connection and the EOF
			// is already queued; give the reader the chance to see it before we close (no timing assumption)
			lastLook := func() {
				if atomic.LoadInt32(&shutdownNil) == 1 {
					c.SetReadDeadline(time.Now().Add(3 * time.Second))
					<-rd
				}
				res[i].closedAt = since()
			}
			sendAt := p.connectAt + p.at
			select {
			case <-time.After(sendAt - since()):
			case <-rd:
				return
			case <-stopClients:
				lastLook()
				return
			}
			switch p.kind {
			case "send", "sendclose":
				ms := int(p.handler / time.Millisecond)
				if _, err := c.Write([]byte{byte(ms >> 8), byte(ms), byte(i >> 8), byte(i)}); err == nil {
					res[i].sent++
					res[i].sentAt = since()
				}
				if p.kind == "sendclose" {
					time.Sleep(time.Duration(5+rng.Intn(5)) * time.Millisecond)
					res[i].closedAt = since()
					return
				}
			case "closeat":
				res[i].closedAt = since()
				return
			}
			select {
			case <-rd:
			case <-stopClients:
				lastLook()
			}
		}(i)
	}

	time.Sleep(tShut - since())
	switch probe { // the probes need their precondition, not a lucky timing
	case "r4":
		for dl := time.Now().Add(3 * time.Second); atomic.LoadInt32(&running) == 0 && time.Now().Before(dl); {
			time.Sleep(time.Millisecond)
		}
	case "r2":
		for dl := time.Now().Add(3 * time.Second); time.Now().Before(dl); time.Sleep(time.Millisecond) {
			mu.Lock()
			k := len(conns)
			mu.Unlock()
			if k > 0 {
				break
			}
		}
	}
	t0 := since()
	ctx, cancel := context.WithTimeout(context.Background(), deadline)
	var shErr error
	shPanic := ""
	func() {
		defer func() {
			if r := recover(); r != nil {
				shPanic = fmt.Sprint(r)
			}
		}()
		shErr = evl.Shutdown(ctx)
	}()
	t1 := since()
	ctxErr := ctx.Err()
	cancel()
	// at the return: tracked map, alive set
	trackedAtRet, staleAtRet := 0, 0
	svr.connections.Range(func(k, v interface{}) bool {
		trackedAtRet++
		if nc, ok := v.(*connection); ok && atomic.LoadUint32(&nc.closed) != 0 {
			staleAtRet++
		}
		return true
	})
	mu.Lock()
	accepted := len(conns)
	aliveAtRet, openAtRet, busyAtRet := 0, 0, 0
	for _, c := range conns {
		if atomic.LoadInt32(&c.closed) == 0 {
			aliveAtRet++
		}
		if atomic.LoadUint32(&c.nc.closed) == 0 {
			openAtRet++
		}
	}
	mu.Unlock()
	again := "-"
	againTracked := 0
	if probe == "r4" {
		ctx2, c2 := context.WithTimeout(context.Background(), 50*time.Millisecond)
		if e := evl.Shutdown(ctx2); e == nil {
			again = "nil"
		} else {
			again = "err"
		}
		c2()
		svr.connections.Range(func(k, v interface{}) bool { againTracked++; return true })
	}
	// grace: descriptors of connections whose teardown was in its last step
	openAfterGrace := -1
	for i := 0; i < 100; i++ {
		openAfterGrace = 0
		mu.Lock()
		for _, c := range conns {
			if atomic.LoadUint32(&c.nc.closed) == 0 {
				openAfterGrace++
			}
		}
		mu.Unlock()
		if openAfterGrace == 0 || shErr != nil {
			break
		}
		time.Sleep(time.Millisecond)
	}
	var serveRet string
	select {
	case e := <-served:
		if e == nil {
			serveRet = "nil"
		} else {
			serveRet = "err"
		}
	case <-time.After(time.Second):
		serveRet = "blocked"
	}
	lnOpen := 0
	if c, err := net.DialTimeout(network, ln.Addr().String(), 200*time.Millisecond); err == nil {
		lnOpen = 1 // somebody still listens on the address
		c.Close()
	}
	// let the long handlers finish, then everything must be gone
	longest := time.Duration(0)
	for _, p := range plans {
		if p.handler > longest {
			longest = p.handler
		}
	}
	// clients stay until every handler that may still be running has answered
	quiet := 0
	for dl := time.Now().Add(15 * time.Second); time.Now().Before(dl) && quiet < 15; time.Sleep(2 * time.Millisecond) {
		if atomic.LoadInt32(&running) == 0 {
			quiet++
		} else {
			quiet = 0
		}
	}
	if shErr == nil && shPanic == "" {
		atomic.StoreInt32(&shutdownNil, 1)
	}
	close(stopClients)
	wg.Wait()
	dl := time.Now().Add(longest + 15*time.Second)
	finalTracked, finalAlive, finalOpen := -1, -1, -1
	for time.Now().Before(dl) {
		finalTracked, finalAlive, finalOpen = 0, 0, 0
		svr.connections.Range(func(k, v interface{}) bool { finalTracked++; return true })
		mu.Lock()
		for _, c := range conns {
			if atomic.LoadInt32(&c.closed) == 0 {
				finalAlive++
			}
			if atomic.LoadUint32(&c.nc.closed) == 0 {
				finalOpen++
			}
		}
		mu.Unlock()
		if finalTracked == 0 && finalAlive == 0 && finalOpen == 0 {
			break
		}
		time.Sleep(2 * time.Millisecond)
	}
	// per-connection checks
	mu.Lock()
	cbBad, closeTwice, busyClosed, spanning, idleLeft, lateAccept := 0, 0, 0, 0, 0, 0
	badSeq := "-"
	for _, c := range conns {
		order := map[string]int{}
		ncl := 0
		bad0 := cbBad
		for j, e := range c.ev {
			if e.what == "closecb" {
				ncl++
			}
			if _, ok := order[e.what]; !ok {
				order[e.what] = j
			}
		}
		if ncl > 1 {
			closeTwice++
		}
		if order["prepare"] != 0 {
			cbBad++
		}
		if cj, ok := order["connect"]; ok && cj != 1 {
			cbBad++ // OnConnect, when it runs, is the first callback after OnPrepare
		}
		if cbBad > bad0 {
			names := make([]string, len(c.ev))
			for j, e := range c.ev {
				names[j] = e.what
			}
			badSeq = strings.Join(names, ">")
		}
		if c.ev[0].at > t0 {
			lateAccept++
		}
		// a handler running over the whole Shutdown call must find its connection active at the end
		// (unless its client closed meanwhile)
		for j := range c.hstart {
			if c.hstart[j] < t0-time.Millisecond && c.hend[j] > t1+time.Millisecond {
				spanning++
				if !c.activeE[j] && c.hcli[j] < len(plans) && plans[c.hcli[j]].kind == "send" {
					busyClosed++
				}
			}
		}
	}
	mu.Unlock()
	// clients that were idle (connected well before, nothing pending) must have seen EOF by the return + grace
	idleInfo := ""
	for i, p := range plans {
		if !res[i].connected || res[i].closedAt != 0 && res[i].closedAt < t1 {
			continue
		}
		quiet := p.kind == "idle" || ((p.kind == "send") && (p.connectAt+p.at > t1+20*time.Millisecond || (res[i].replyAt != 0 && res[i].replyAt < t0-20*time.Millisecond)))
		if quiet && p.connectAt < t0-20*time.Millisecond && shErr == nil {
			if res[i].eofAt == 0 || res[i].eofAt > t1+5*time.Second {
				idleLeft++
				idleInfo += fmt.Sprintf("[%s@%d/send@%d/eof@%d/replies%d]", p.kind, p.connectAt/time.Millisecond, (p.connectAt+p.at)/time.Millisecond, res[i].eofAt/time.Millisecond, res[i].replies)
			}
		}
	}
	// a handler that ran over the whole Shutdown call and whose client kept the connection: the reply arrived
	noReply := 0
	mu.Lock()
	for _, c := range conns {
		for j := range c.hstart {
			if c.hstart[j] < t0-time.Millisecond && c.hend[j] > t1+time.Millisecond && c.hcli[j] < len(plans) &&
				plans[c.hcli[j]].kind == "send" && res[c.hcli[j]].replies == 0 {
				noReply++
			}
		}
	}
	mu.Unlock()
	_ = busyAtRet
	sh := "nil"
	if shPanic != "" {
		sh = "panic"
	} else if shErr != nil {
		if shErr == ctxErr {
			sh = "ctx"
		} else {
			sh = "err"
		}
	}
	// descriptor census: a leak stays, an accept that is still finishing under load does not
	socks, _ := censusFds()
	for dl := time.Now().Add(10 * time.Second); time.Now().Before(dl); time.Sleep(5 * time.Millisecond) {
		extra := 0
		for _, fd := range socks {
			if !baseSocks[fd] {
				extra++
			}
		}
		if extra == 0 {
			break
		}
		socks, _ = censusFds()
	}
	left := 0
	leftInfo := "-"
	for _, fd := range socks {
		if !baseSocks[fd] {
			left++
			lsa, _ := syscall.Getsockname(fd)
			psa, perr := syscall.Getpeername(fd)
			acc, _ := syscall.GetsockoptInt(fd, syscall.SOL_SOCKET, syscall.SO_ACCEPTCONN)
			leftInfo = fmt.Sprintf("fd%d/local:%s/peer:%s/%v/listening:%d", fd, saStr(lsa), saStr(psa), perr, acc)
		}
	}
	return fmt.Sprintf("obs id=%d probe=%s net=%s clients=%d accepted=%d onconnect=%v prep_ms=%d sh=%s dur_ms=%d deadline_ms=%d serve=%s ln_open=%d tracked_at_ret=%d stale_at_ret=%d alive_at_ret=%d open_at_ret=%d open_after_grace=%d late_accept=%d again=%s again_tracked=%d final_tracked=%d final_alive=%d final_open=%d cb_bad=%d close_twice=%d spanning=%d busy_closed=%d no_reply=%d idle_left=%d socks_left=%d bad_seq=%s left_info=%s idle_info=%s t0_ms=%d",
		id, probeName(probe), network, len(plans), accepted, useOnConnect, prepDelay/time.Millisecond, sh, (t1-t0)/time.Millisecond, deadline/time.Millisecond,
		serveRet, lnOpen, trackedAtRet, staleAtRet, aliveAtRet, openAtRet, openAfterGrace, lateAccept, again, againTracked,
		finalTracked, finalAlive, finalOpen, cbBad, closeTwice, spanning, busyClosed, noReply, idleLeft, left, badSeq, strings.ReplaceAll(leftInfo, " ", "_"), "-"+idleInfo, t0/time.Millisecond)
}

func saStr(sa syscall.Sockaddr) string {
	switch a := sa.(type) {
	case *syscall.SockaddrInet4:
		return fmt.Sprintf("%d.%d.%d.%d:%d", a.Addr[0], a.Addr[1], a.Addr[2], a.Addr[3], a.Port)
	case *syscall.SockaddrUnix:
		return "unix:" + a.Name
	case nil:
		return "nil"
	}
	return fmt.Sprintf("%T", sa)
}

func probeName(p string) string {
	if p == "" {
		return "-"
	}
	return p
}

func srvReal(seed int64, n int, probes string, opsOut string) int {
	rng := rand.New(rand.NewSource(seed))
	base, _ := censusFds()
	baseSocks := map[int]bool{}
	for _, fd := range base {
		baseSocks[fd] = true
	}
	var lines []string
	id := 0
	for _, p := range strings.Split(probes, ",") {
		if p != "" {
			lines = append(lines, realScenario(id, rng, p, baseSocks))
			id++
		}
	}
	for i := 0; i < n; i++ {
		lines = append(lines, realScenario(id, rng, "", baseSocks))
		id++
	}
	time.Sleep(20 * time.Millisecond)
	end, _ := censusFds()
	lines = append(lines, fmt.Sprintf("census socks_before=%d socks_after=%d", len(base), len(end)))
	f, err := os.Create(opsOut)
	if err != nil {
		return 2
	}
	bw := bufio.NewWriter(f)
	for _, l := range lines {
		fmt.Fprintln(bw, l)
	}
	bw.Flush()
	f.Close()
	return 0
}

// ---------------------------------------------------------------- EMFILE

func srvEmfile(opsOut string) int {
	var onRead int64
	verifSrvHook.Store(func(fn string, k int, label string) {
		if fn == "server.OnRead" && k == 0 {
			atomic.AddInt64(&onRead, 1)
		}
	})
	ln, err := CreateListener("tcp", "127.0.0.1:0")
	if err != nil {
		fmt.Fprintln(os.Stderr, err)
		return 2
	}
	var handled int64
	evl, _ := NewEventLoop(func(ctx context.Context, c Connection) error {
		r := c.Reader()
		if n := r.Len(); n > 0 {
			b, _ := r.Next(n)
			c.Writer().WriteBinary(append([]byte(nil), b...))
			c.Writer().Flush()
			atomic.AddInt64(&handled, 1)
		}
		return nil
	})
	served := make(chan error, 1)
	go func() { served <- evl.Serve(ln) }()
	for i := 0; i < 20000; i++ { // until the listener is registered
		evl.(*eventLoop).Lock()
		ok := evl.(*eventLoop).svr != nil
		evl.(*eventLoop).Unlock()
		if ok {
			break
		}
		time.Sleep(100 * time.Microsecond)
	}
	ta := ln.Addr().(*net.TCPAddr)
	sa := &syscall.SockaddrInet4{Port: ta.Port, Addr: [4]byte{127, 0, 0, 1}}
	const perEp = 3
	// client sockets exist before the descriptors run out (connect needs no new descriptor)
	var socks []int
	for i := 0; i < 2*perEp; i++ {
		fd, err := syscall.Socket(syscall.AF_INET, syscall.SOCK_STREAM, 0)
		if err != nil {
			fmt.Fprintln(os.Stderr, "socket:", err)
			return 2
		}
		socks = append(socks, fd)
	}
	var lim syscall.Rlimit
	syscall.Getrlimit(syscall.RLIMIT_NOFILE, &lim)
	_, total := censusFds()
	lim.Cur = uint64(total + 40)
	if err := syscall.Setrlimit(syscall.RLIMIT_NOFILE, &lim); err != nil {
		fmt.Fprintln(os.Stderr, "setrlimit:", err)
		return 2
	}
	hog := func() []int {
		var hs []int
		for {
			fd, err := syscall.Open("/dev/null", syscall.O_RDONLY, 0)
			if err != nil {
				return hs
			}
			hs = append(hs, fd)
		}
	}
	unhog := func(hs []int) {
		for _, fd := range hs {
			syscall.Close(fd)
		}
	}
	out := []string{}
	baseG := runtime.NumGoroutine()
	for ep := 0; ep < 2; ep++ {
		hs := hog()
		r0 := atomic.LoadInt64(&onRead)
		for i := 0; i < perEp; i++ {
			syscall.Connect(socks[ep*perEp+i], sa)
		}
		stretch := 120 * time.Millisecond
		if ep == 1 {
			stretch = 60 * time.Millisecond
		}
		time.Sleep(stretch)
		calls := atomic.LoadInt64(&onRead) - r0
		gor := runtime.NumGoroutine() - baseG
		h0 := atomic.LoadInt64(&handled)
		unhog(hs)
		tRel := time.Now()
		// descriptors are available again: every queued client must be accepted and served
		okc := 0
		for i := 0; i < perEp; i++ {
			fd := socks[ep*perEp+i]
			syscall.Write(fd, []byte("ping"))
		}
		dl := time.Now().Add(4 * time.Second)
		for time.Now().Before(dl) && atomic.LoadInt64(&handled)-h0 < perEp {
			time.Sleep(time.Millisecond)
		}
		okc = int(atomic.LoadInt64(&handled) - h0)
		resumeMs := time.Since(tRel) / time.Millisecond
		// let the back-off goroutines re-register and end
		time.Sleep(50 * time.Millisecond)
		gorAfter := runtime.NumGoroutine() - baseG
		// and a fresh client must be accepted by the re-registered listener
		fresh := 0
		if c, err := net.DialTimeout("tcp", ln.Addr().String(), time.Second); err == nil {
			c.Write([]byte("ping"))
			c.SetReadDeadline(time.Now().Add(2 * time.Second))
			b := make([]byte, 4)
			if _, err := io.ReadFull(c, b); err == nil {
				fresh = 1
			}
			c.Close()
		}
		out = append(out, fmt.Sprintf("ep%d_onread=%d ep%d_gor=%d ep%d_served=%d/%d ep%d_resume_ms=%d ep%d_gor_after=%d ep%d_fresh=%d",
			ep+1, calls, ep+1, gor, ep+1, okc, perEp, ep+1, resumeMs, ep+1, gorAfter, ep+1, fresh))
	}
	for _, fd := range socks {
		syscall.Close(fd)
	}
	time.Sleep(20 * time.Millisecond)
	ctx, cancel := context.WithTimeout(context.Background(), 2*time.Second)
	err = evl.Shutdown(ctx)
	cancel()
	sh := "nil"
	if err != nil {
		sh = "ctx"
	}
	line := "emf " + strings.Join(out, " ") + " sh=" + sh
	return writeLines(opsOut, []string{line})
}

// ---------------------------------------------------------------- exhaustion stretches: scripted accept results

// stretchLn is the Listener handed to Serve: its Accept answers the letters of `script` one per call, whoever calls
// (the poller's OnRead or the back-off goroutine) - the pending connection stays in the kernel queue, exactly as
// with a real failing accept(2) - and is the real accept once the script is used up.  Everything else - OnRead,
// the back-off goroutine, its delay table - is the real code.
//
//	E EMFILE   N ENFILE                                  (descriptor exhaustion: isOutOfFdErr)
//	a ECONNABORTED  i EINTR  p EPROTO  d ENETDOWN  b ENOBUFS  m ENOMEM  h EHOSTUNREACH  t ETIMEDOUT
//	                                                      (errors accept(2) may report at any time)
//	K the real accept (descriptors available for one call in the middle of the script)
type stretchLn struct {
	Listener
	mu      sync.Mutex
	script  string
	pos     int
	calls   []time.Time
	results []byte // the script letter answered, or for a real accept: C = connection, A = EAGAIN, X = other error
}

var stretchErrno = map[byte]syscall.Errno{
	'E': syscall.EMFILE, 'N': syscall.ENFILE,
	'a': syscall.ECONNABORTED, 'i': syscall.EINTR, 'p': syscall.EPROTO, 'd': syscall.ENETDOWN, 'b': syscall.ENOBUFS,
	'm': syscall.ENOMEM, 'h': syscall.EHOSTUNREACH, 't': syscall.ETIMEDOUT,
}

func (l *stretchLn) Accept() (net.Conn, error) {
	l.mu.Lock()
	l.calls = append(l.calls, time.Now())
	if l.pos < len(l.script) {
		ch := l.script[l.pos]
		l.pos++
		if e, ok := stretchErrno[ch]; ok {
			l.results = append(l.results, ch)
			l.mu.Unlock()
			return nil, e
		}
	}
	l.mu.Unlock()
	c, err := l.Listener.Accept()
	r := byte('A')
	if err != nil {
		r = 'X'
	} else if c != nil {
		r = 'C'
	}
	l.mu.Lock()
	l.results = append(l.results, r)
	l.mu.Unlock()
	return c, err
}

func pingEcho(addr string, wait time.Duration) (net.Conn, func() bool) {
	c, err := net.DialTimeout("tcp", addr, 2*time.Second)
	if err != nil {
		return nil, func() bool { return false }
	}
	c.Write([]byte("ping"))
	return c, func() bool {
		c.SetReadDeadline(time.Now().Add(wait))
		b := make([]byte, 4)
		_, err := io.ReadFull(c, b)
		return err == nil && string(b) == "ping"
	}
}

// one stretch: accept answers the script; one client connects at its start, one after it
func srvStretchOne(script string, table []int) string {
	k := 0 // scripted failures
	for i := 0; i < len(script); i++ {
		if _, ok := stretchErrno[script[i]]; ok {
			k++
		}
	}
	raw, err := CreateListener("tcp", "127.0.0.1:0")
	if err != nil {
		return fmt.Sprintf("stretch k=%d script=%s harness_error=listen", k, script)
	}
	ln := &stretchLn{Listener: raw, script: script}
	evl, _ := NewEventLoop(func(ctx context.Context, c Connection) error {
		r := c.Reader()
		if n := r.Len(); n > 0 {
			b, _ := r.Next(n)
			c.Writer().WriteBinary(append([]byte(nil), b...))
			c.Writer().Flush()
		}
		return nil
	})
	go evl.Serve(ln)
	for i := 0; i < 50000; i++ { // until the listener is registered
		evl.(*eventLoop).Lock()
		ok := evl.(*eventLoop).svr != nil
		evl.(*eventLoop).Unlock()
		if ok {
			break
		}
		time.Sleep(100 * time.Microsecond)
	}
	// how long the back-off goroutine of the model needs for that many failures in a row (the table is read from the code)
	budget := 0
	for j := 1; j < len(script)+1; j++ {
		i := j
		if i >= len(table) {
			i = len(table) - 1
		}
		if i >= 0 {
			budget += table[i]
		}
	}
	wait := time.Duration(budget)*time.Millisecond*2 + 8*time.Second
	addr := raw.Addr().String()
	c1, echoed := pingEcho(addr, wait) // queued while descriptors are "exhausted"
	served := 0
	if echoed() {
		served = 1
	}
	fresh := 0
	c2, echoed2 := pingEcho(addr, 10*time.Second)
	if echoed2() {
		fresh = 1
	}
	for _, c := range []net.Conn{c1, c2} {
		if c != nil {
			c.Close()
		}
	}
	ln.mu.Lock()
	calls := append([]time.Time(nil), ln.calls...)
	results := string(ln.results)
	left := len(ln.script) - ln.pos
	ln.mu.Unlock()
	idle := 0 // ms since anybody called accept
	if len(calls) > 0 {
		idle = int(time.Since(calls[len(calls)-1]) / time.Millisecond)
	}
	// gaps in front of the accepts that follow the first one (OnRead's), up to the first connection among them
	var gaps []string
	for i := 1; i < len(calls) && i < len(results)+1; i++ {
		gaps = append(gaps, strconv.Itoa(int(calls[i].Sub(calls[i-1])/time.Millisecond)))
		if i < len(results) && results[i] == 'C' {
			break
		}
	}
	fails := len(results) - strings.Count(results, "C") - strings.Count(results, "A")
	ctx, cancel := context.WithTimeout(context.Background(), 2*time.Second)
	sh := "nil"
	if err := evl.Shutdown(ctx); err != nil {
		sh = "ctx"
	}
	cancel()
	ncalls := len(results)
	if len(results) > 24 {
		results = results[:24] + "+"
	}
	return fmt.Sprintf("stretch k=%d script=%s crashed=0 queued=1 served=%d fresh=%d fails=%d left=%d accepts=%d idle_ms=%d results=%s gaps=%s sh=%s",
		k, script, served, fresh, fails, left, ncalls, idle, results, strings.Join(gaps, ","), sh)
}

// srvStretch runs the stretches concurrently (each on its own event loop); one line per stretch as it ends, a
// `begin` line when it starts, so that a process that dies half-way tells which stretches were in progress.
// ks: lengths (k = the script E^k); scripts: comma separated scripts (alphabet: see stretchLn)
func srvStretch(ks, scripts string, factsPath, opsOut string) int {
	var facts struct {
		Retry struct {
			Table []string `json:"table"`
		} `json:"server_retry"`
	}
	if b, err := os.ReadFile(factsPath); err == nil {
		json.Unmarshal(b, &facts)
	}
	var table []int
	for _, t := range facts.Retry.Table {
		v, _ := strconv.Atoi(t)
		table = append(table, v)
	}
	f, err := os.Create(opsOut)
	if err != nil {
		fmt.Fprintln(os.Stderr, err)
		return 2
	}
	var mu sync.Mutex
	emit := func(l string) {
		mu.Lock()
		f.WriteString(l + "\n")
		f.Sync()
		mu.Unlock()
	}
	var all []string
	for _, x := range strings.Split(ks, ",") {
		if k, err := strconv.Atoi(strings.TrimSpace(x)); err == nil && k >= 1 {
			all = append(all, strings.Repeat("E", k))
		}
	}
	for _, x := range strings.Split(scripts, ",") {
		x = strings.TrimSpace(x)
		ok := x != ""
		for i := 0; i < len(x); i++ {
			if _, known := stretchErrno[x[i]]; !known && x[i] != 'K' {
				ok = false
			}
		}
		if ok {
			all = append(all, x)
		}
	}
	var wg sync.WaitGroup
	for _, sc := range all {
		wg.Add(1)
		go func(sc string) {
			defer wg.Done()
			emit("begin script=" + sc)
			emit(srvStretchOne(sc, table))
		}(sc)
	}
	wg.Wait()
	f.Close()
	return 0
}

func writeLines(path string, lines []string) int {
	if err := os.WriteFile(path, []byte(strings.Join(lines, "\n")+"\n"), 0o644); err != nil {
		fmt.Fprintln(os.Stderr, err)
		return 2
	}
	return 0
}

// VerifSrvHMain is the entry point of go/cmd/srvh.
func VerifSrvHMain(args []string) int {
	fs := flag.NewFlagSet("srvh", flag.ContinueOnError)
	mode := fs.String("mode", "sweep", "sweep | real | emfile | stretch")
	ks := fs.String("ks", "", "stretch: comma separated lengths (consecutive failed accepts, all EMFILE)")
	scripts := fs.String("scripts", "", "stretch: comma separated scripts of accept results (E N a i p d b m h t K)")
	facts := fs.String("facts", "", "facts.json (server_steps)")
	plan := fs.String("plan", "", "sweep plan: lines `<kind> <fn> <k>`")
	opsOut := fs.String("ops-out", "", "")
	implOut := fs.String("impl-out", "", "")
	cfg := fs.String("cfg", "111", "code variant bits: fixTrack fixInflight fixRecheck")
	seed := fs.Int64("seed", 1, "")
	n := fs.Int("n", 10, "number of random scenarios")
	probes := fs.String("probes", "", "comma separated probe scenarios (r2,r4)")
	loops := fs.Int("loops", 3, "pollers")
	if err := fs.Parse(args); err != nil {
		return 2
	}
	SetLoggerOutput(io.Discard)
	SetNumLoops(*loops)
	pollmanager.Pick() // start the pollers now (not under descriptor exhaustion, not racing the scenarios)
	switch *mode {
	case "sweep":
		return srvSweep(*facts, *plan, *opsOut, *implOut, *cfg)
	case "real":
		return srvReal(*seed, *n, *probes, *opsOut)
	case "emfile":
		return srvEmfile(*opsOut)
	case "stretch":
		return srvStretch(*ks, *scripts, *facts, *opsOut)
	}
	return 2
}
