//go:build verif
// +build verif

package netpoll

// T-diff harness for the stream adapters (nocopy_readwriter.go): scripted io.Reader / io.Writer behind
// NewReader / NewWriter / NewIOReader / NewIOWriter; op lines + reply lines for the Lean adapter model.

import (
	"bufio"
	"bytes"
	"errors"
	"flag"
	"fmt"
	"io"
	"math/rand"
	"os"
	"strings"

	"github.com/bytedance/gopkg/lang/mcache"
)

var vErrScripted = errors.New("scripted source error")

type vStep struct {
	k int
	e byte // 'n' nil, 'e' io.EOF, 'x' other
}

type vSrc struct {
	pos    int
	script []vStep
}

func (s *vSrc) Read(p []byte) (int, error) {
	if len(s.script) == 0 {
		return 0, io.EOF
	}
	st := s.script[0]
	s.script = s.script[1:]
	var err error
	switch st.e {
	case 'e':
		err = io.EOF
	case 'x':
		err = vErrScripted
	}
	if st.k < 0 {
		return st.k, err
	}
	n := st.k
	if n > len(p) {
		n = len(p)
	}
	for i := 0; i < n; i++ {
		p[i] = vGenByte(5, s.pos+i)
	}
	s.pos += n
	return n, err
}

type vSink struct {
	got    []byte
	script []vStep
}

func (s *vSink) Write(p []byte) (int, error) {
	if len(s.script) == 0 {
		s.got = append(s.got, p...)
		return len(p), nil
	}
	st := s.script[0]
	s.script = s.script[1:]
	n := st.k
	if n > len(p) {
		n = len(p)
	}
	s.got = append(s.got, p[:n]...)
	var err error
	switch st.e {
	case 'e':
		err = io.EOF
	case 'x':
		err = vErrScripted
	}
	return n, err
}

func vParseScript(s string) []vStep {
	var out []vStep
	if s == "-" {
		return out
	}
	for _, p := range strings.Split(s, ",") {
		var k int
		var e byte
		fmt.Sscanf(p, "%d:%c", &k, &e)
		out = append(out, vStep{k, e})
	}
	return out
}

func vClassify(err error) string {
	switch {
	case err == nil:
		return ""
	case errors.Is(err, ErrEOF):
		return "fail eof"
	case err == vErrScripted || err == io.EOF:
		return "fail src"
	case strings.Contains(err.Error(), "negative count"):
		return "fail negative"
	default:
		return "fail buf"
	}
}

// a zero-copy result handed out by a reader adapter and not released yet: it must keep its content until Release
type vHeldRes struct {
	p    []byte
	snap []byte
	what string
}

type vAdapters struct {
	held map[int][]vHeldRes
	zr   map[int]*zcReader
	src  map[int]*vSrc
	zw   map[int]*zcWriter
	sink map[int]*vSink
	lb   map[int]*LinkBuffer
	ior  map[int]io.Reader
	iow  map[int]io.Writer
	// the caller's buffer for io.Writer.Write calls: one scratch slice refilled for every Write, as io.Copy does
	scratch []byte
}

// callerWrite is a caller of an io.Writer: it fills its scratch buffer with the n bytes to write, calls Write, and is
// then free to reuse the buffer ("Write must not modify the slice data ... Implementations must not retain p"):
// it overwrites it at once.  An adapter that kept a reference to p now holds the scribbled bytes.
func (a *vAdapters) callerWrite(w io.Writer, n, seed int) (int, error) {
	if cap(a.scratch) < n {
		a.scratch = make([]byte, n, n+n/4)
	}
	p := a.scratch[:n]
	for i := range p {
		p[i] = vGenByte(seed, i)
	}
	k, err := w.Write(p)
	for i := range p {
		p[i] = 0x5A
	}
	return k, err
}

func (a *vAdapters) exec(toks []string) (reply string) {
	atoi := func(s string) int {
		var n int
		fmt.Sscanf(s, "%d", &n)
		return n
	}
	defer func() {
		if r := recover(); r != nil {
			reply = "panic"
		}
	}()
	kind, id := toks[0], atoi(toks[1])
	op := toks[2]
	res := "ok"
	set := func(err error) {
		if c := vClassify(err); c != "" {
			res = c
		}
	}
	switch kind {
	case "zr":
		if op == "new" {
			s := &vSrc{script: vParseScript(toks[3])}
			a.src[id] = s
			a.zr[id] = NewReader(s).(*zcReader)
			return "ok"
		}
		r, s := a.zr[id], a.src[id]
		hold := func(p []byte, err error) {
			if err == nil && len(p) > 0 {
				if a.held == nil {
					a.held = map[int][]vHeldRes{}
				}
				a.held[id] = append(a.held[id], vHeldRes{p: p, snap: append([]byte(nil), p...), what: fmt.Sprintf("%s(%s)", op, toks[3])})
			}
		}
		changed := func() string {
			for _, h := range a.held[id] {
				if !bytes.Equal(h.p, h.snap) {
					return "HELD-CHANGED result of " + h.what + " changed before Release (after " + strings.Join(toks[2:], " ") + ")"
				}
			}
			return ""
		}
		defer func() {
			// every result handed out earlier and not yet released still reads the same
			if op == "rel" {
				delete(a.held, id) // released memory may be recycled (and is poisoned by the harness allocator)
				return
			}
			if c := changed(); c != "" && reply != "panic" {
				reply = c
			}
		}()
		switch op {
		case "next":
			p, err := r.Next(atoi(toks[3]))
			res = vBytesRes(p)
			set(err)
			hold(p, err)
		case "peek":
			p, err := r.Peek(atoi(toks[3]))
			res = vBytesRes(p)
			set(err)
			hold(p, err)
		case "skip":
			set(r.Skip(atoi(toks[3])))
		case "rbin":
			p, err := r.ReadBinary(atoi(toks[3]))
			res = vBytesRes(p)
			set(err)
		case "rstr":
			p, err := r.ReadString(atoi(toks[3]))
			res = vBytesRes([]byte(p))
			set(err)
		case "rbyte":
			c, err := r.ReadByte()
			res = vBytesRes([]byte{c})
			set(err)
		case "until":
			p, err := r.Until(byte(atoi(toks[3])))
			res = vBytesRes(p)
			set(err)
			hold(p, err)
		case "rel":
			set(r.Release())
		case "len":
			res = fmt.Sprintf("ok n:%d", r.Len())
		default:
			return "bad-op"
		}
		return fmt.Sprintf("%s ## L=%d M=%d pos=%d left=%d", res, r.buf.Len(), r.buf.MallocLen(), s.pos, len(s.script))
	case "zw":
		if op == "new" {
			s := &vSink{script: vParseScript(toks[3])}
			a.sink[id] = s
			a.zw[id] = NewWriter(s).(*zcWriter)
			return "ok"
		}
		w, s := a.zw[id], a.sink[id]
		switch op {
		case "mal":
			p, err := w.Malloc(atoi(toks[3]))
			for i := range p {
				p[i] = vGenByte(atoi(toks[4]), i)
			}
			set(err)
		case "wbin":
			n, err := w.WriteBinary(vGenBytes(atoi(toks[4]), atoi(toks[3]), atoi(toks[5])))
			res = fmt.Sprintf("ok n:%d", n)
			set(err)
		case "wstr":
			n, err := w.WriteString(string(vGenBytes(atoi(toks[4]), atoi(toks[3]), 0)))
			res = fmt.Sprintf("ok n:%d", n)
			set(err)
		case "wbyte":
			set(w.WriteByte(byte(atoi(toks[3]))))
		case "ack":
			set(w.MallocAck(atoi(toks[3])))
		case "flush":
			set(w.Flush())
		case "mlen":
			res = fmt.Sprintf("ok n:%d", w.MallocLen())
		default:
			return "bad-op"
		}
		return fmt.Sprintf("%s ## L=%d M=%d sunk=%d:%d left=%d", res, w.buf.Len(), w.buf.MallocLen(), len(s.got), vFnv(s.got), len(s.script))
	case "ior":
		if op == "new" {
			a.lb[id] = NewLinkBuffer()
			a.ior[id] = NewIOReader(a.lb[id])
			return "ok"
		}
		b := a.lb[id]
		switch op {
		case "feed":
			p, _ := b.Malloc(atoi(toks[3]))
			for i := range p {
				p[i] = vGenByte(atoi(toks[4]), i)
			}
			b.Flush()
		case "read":
			p := make([]byte, atoi(toks[3]))
			n, err := a.ior[id].Read(p)
			res = vBytesRes(p[:n])
			if err == io.EOF {
				res += " eof"
			} else if err != nil {
				res = "fail buf"
			}
		default:
			return "bad-op"
		}
		return fmt.Sprintf("%s ## L=%d M=%d", res, b.Len(), b.MallocLen())
	case "iow":
		if op == "new" {
			a.lb[id] = NewLinkBuffer()
			a.iow[id] = NewIOWriter(a.lb[id])
			return "ok"
		}
		b := a.lb[id]
		switch op {
		case "write":
			n, err := a.callerWrite(a.iow[id], atoi(toks[3]), atoi(toks[4]))
			res = fmt.Sprintf("ok n:%d", n)
			if err != nil {
				res = "fail buf"
			}
		case "drain":
			p, err := b.Next(atoi(toks[3]))
			res = vBytesRes(p)
			if err != nil {
				res = "fail buf"
			}
			b.Release()
		default:
			return "bad-op"
		}
		return fmt.Sprintf("%s ## L=%d M=%d", res, b.Len(), b.MallocLen())
	case "iowz":
		// NewIOWriter over NewWriter over a scripted (short-writing, failing) sink: what a Write could not push
		// through stays in the zcWriter's buffer and goes out with a later Write / Flush
		if op == "new" {
			s := &vSink{script: vParseScript(toks[3])}
			a.sink[id] = s
			a.zw[id] = NewWriter(s).(*zcWriter)
			a.iow[id] = NewIOWriter(a.zw[id])
			return "ok"
		}
		w, s := a.zw[id], a.sink[id]
		switch op {
		case "write":
			n, err := a.callerWrite(a.iow[id], atoi(toks[3]), atoi(toks[4]))
			res = fmt.Sprintf("ok n:%d", n)
			set(err)
		case "flush":
			set(w.Flush())
		default:
			return "bad-op"
		}
		return fmt.Sprintf("%s ## L=%d M=%d sunk=%d:%d left=%d", res, w.buf.Len(), w.buf.MallocLen(), len(s.got), vFnv(s.got), len(s.script))
	}
	return "bad-op"
}

func vGenScript(r *rand.Rand, src bool) string {
	n := r.Intn(12)
	if n == 0 {
		return "-"
	}
	var parts []string
	for i := 0; i < n; i++ {
		ks := []int{0, 0, 1, 2, 7, 100, 1000, 4095, 4096, 4097, 5000, r.Intn(4097)}
		k := ks[r.Intn(len(ks))]
		if src && r.Intn(25) == 0 {
			k = -1 - r.Intn(3)
		}
		e := 'n'
		switch r.Intn(12) {
		case 0:
			e = 'e'
		case 1:
			e = 'x'
		}
		parts = append(parts, fmt.Sprintf("%d:%c", k, e))
	}
	return strings.Join(parts, ",")
}

// vGenScriptLong: a source that keeps delivering (mostly full 4 KiB reads, no error before the end): a long message
// that spans many blocks of the reader's buffer, read piecewise and released only at its end.
func vGenScriptLong(r *rand.Rand) string {
	n := 6 + r.Intn(11)
	var parts []string
	for i := 0; i < n; i++ {
		k := []int{4096, 4096, 4096, 5000, 4095, 2048, 1 + r.Intn(4096)}[r.Intn(7)]
		e := 'n'
		if i == n-1 && r.Intn(3) == 0 {
			e = []rune{'e', 'x'}[r.Intn(2)]
		}
		parts = append(parts, fmt.Sprintf("%d:%c", k, e))
	}
	return strings.Join(parts, ",")
}

// vGenScriptTrickle: a source that delivers its stream in tiny pieces - long runs of 0..3-byte reads, more of them than
// one fill of the reader makes (maxReadCycle source reads, read from the code): a request of a few dozen bytes needs
// several fills, and a burst of zero-byte reads at least as long as one fill may precede any data. The io.Reader
// contract allows all of it (a zero-byte read with a nil error is "nothing happened").
func vGenScriptTrickle(r *rand.Rand) string {
	n := maxReadCycle + 1 + r.Intn(3*maxReadCycle)
	var parts []string
	zeros := 0
	if r.Intn(3) == 0 {
		zeros = maxReadCycle + r.Intn(maxReadCycle+2) // a zero-byte burst of at least one whole fill
	}
	at := 0
	if zeros > 0 {
		at = r.Intn(n)
	}
	for i := 0; i < n; i++ {
		if zeros > 0 && i == at {
			for j := 0; j < zeros; j++ {
				parts = append(parts, "0:n")
			}
		}
		k := []int{0, 1, 1, 1, 1, 2, 3}[r.Intn(7)]
		e := 'n'
		if i == n-1 && r.Intn(3) == 0 {
			e = []rune{'e', 'x'}[r.Intn(2)]
		}
		parts = append(parts, fmt.Sprintf("%d:%c", k, e))
	}
	return strings.Join(parts, ",")
}

// VerifAdapterMain: adapter -seed S -seqs N -ops K -ops-out F -impl-out F [-replay F]
func VerifAdapterMain(args []string) int {
	fs := flag.NewFlagSet("adapter", flag.ContinueOnError)
	seed := fs.Int64("seed", 1, "")
	seqs := fs.Int("seqs", 100, "")
	nops := fs.Int("ops", 40, "")
	opsOut := fs.String("ops-out", "", "")
	implOut := fs.String("impl-out", "", "")
	replay := fs.String("replay", "", "")
	if err := fs.Parse(args); err != nil {
		return 2
	}
	mcache.VerifDoPoison = true // a premature free must show in every held result (HELD-CHANGED) and in what is read later
	io_, err := os.Create(*implOut)
	if err != nil {
		fmt.Fprintln(os.Stderr, err)
		return 2
	}
	defer io_.Close()
	iw := bufio.NewWriter(io_)
	defer iw.Flush()
	saveCap := LinkBufferCap
	defer func() { LinkBufferCap = saveCap }()
	fresh := func() *vAdapters {
		mcache.VerifReset()
		return &vAdapters{zr: map[int]*zcReader{}, src: map[int]*vSrc{}, zw: map[int]*zcWriter{}, sink: map[int]*vSink{},
			lb: map[int]*LinkBuffer{}, ior: map[int]io.Reader{}, iow: map[int]io.Writer{}}
	}
	if *replay != "" {
		f, err := os.Open(*replay)
		if err != nil {
			fmt.Fprintln(os.Stderr, err)
			return 2
		}
		defer f.Close()
		sc := bufio.NewScanner(f)
		sc.Buffer(make([]byte, 1<<20), 1<<20)
		a := fresh()
		dead := false
		for sc.Scan() {
			line := strings.TrimSpace(sc.Text())
			if line == "" || strings.HasPrefix(line, "#") {
				continue
			}
			toks := strings.Fields(line)
			if toks[0] == "seq" {
				var c int
				fmt.Sscanf(toks[2], "%d", &c)
				LinkBufferCap = c
				a = fresh()
				dead = false
				fmt.Fprintln(iw, "seq")
				continue
			}
			if dead {
				fmt.Fprintln(iw, "dead")
				continue
			}
			rep := a.exec(toks)
			if rep == "panic" {
				dead = true
			}
			fmt.Fprintln(iw, rep)
		}
		return 0
	}
	oo, err := os.Create(*opsOut)
	if err != nil {
		fmt.Fprintln(os.Stderr, err)
		return 2
	}
	defer oo.Close()
	ow := bufio.NewWriter(oo)
	defer ow.Flush()
	r := rand.New(rand.NewSource(*seed))
	caps := []int{64, 1024, 4096, 4096, 8192, 16384}
	for s := 0; s < *seqs; s++ {
		c := caps[r.Intn(len(caps))]
		LinkBufferCap = c
		a := fresh()
		fmt.Fprintf(ow, "seq %d %d\n", s, c)
		fmt.Fprintln(iw, "seq")
		kind := []string{"zr", "zr", "zr", "zw", "zw", "ior", "iow", "iowz"}[r.Intn(8)]
		first := fmt.Sprintf("%s 0 new %s", kind, vGenScript(r, kind == "zr"))
		if kind == "ior" || kind == "iow" {
			first = fmt.Sprintf("%s 0 new", kind)
		}
		// one reader sequence in four: long stream, piecewise zero-copy reads, Release rare (results are held
		// across many refills of the reader's buffer)
		long := kind == "zr" && r.Intn(4) == 0
		if long {
			first = fmt.Sprintf("zr 0 new %s", vGenScriptLong(r))
		}
		// one reader sequence in five: a trickling source (more tiny / zero-byte reads than one fill makes) read with
		// requests of up to a few dozen bytes
		trickle := kind == "zr" && !long && r.Intn(4) == 0
		if trickle {
			first = fmt.Sprintf("zr 0 new %s", vGenScriptTrickle(r))
		}
		emit := func(line string) bool {
			fmt.Fprintln(ow, line)
			rep := a.exec(strings.Fields(line))
			fmt.Fprintln(iw, rep)
			return rep != "panic"
		}
		if !emit(first) {
			continue
		}
		sz := func() int {
			if trickle {
				return []int{0, 1, 2, 5, maxReadCycle, maxReadCycle + 1, maxReadCycle + 4, 2*maxReadCycle + 1, 1 + r.Intn(3*maxReadCycle), 1 + r.Intn(3*maxReadCycle), -1}[r.Intn(11)]
			}
			return []int{0, 1, 2, 10, 100, 1000, 4095, 4096, 4097, 8192, 10000, r.Intn(9000), -1}[r.Intn(13)]
		}
		for i := 0; i < *nops; i++ {
			var line string
			switch kind {
			case "zr":
				switch r.Intn(10) {
				case 0, 1, 2:
					line = fmt.Sprintf("zr 0 next %d", sz())
				case 3:
					line = fmt.Sprintf("zr 0 peek %d", sz())
				case 4:
					line = fmt.Sprintf("zr 0 skip %d", sz())
				case 5:
					line = fmt.Sprintf("zr 0 rbin %d", sz())
				case 6:
					line = fmt.Sprintf("zr 0 rstr %d", sz())
				case 7:
					line = "zr 0 rbyte"
				case 8:
					line = []string{"zr 0 rel", "zr 0 len", fmt.Sprintf("zr 0 until %d", r.Intn(251))}[r.Intn(3)]
				default:
					line = "zr 0 rel"
					if long && r.Intn(4) != 0 {
						line = fmt.Sprintf("zr 0 next %d", []int{1, 100, 1000, 4095, 4096, 4097, 6000, r.Intn(9000)}[r.Intn(8)])
					}
				}
				if long && line == "zr 0 rel" && r.Intn(2) == 0 {
					line = "zr 0 len"
				}
			case "zw":
				switch r.Intn(9) {
				case 0, 1:
					line = fmt.Sprintf("zw 0 mal %d %d", sz(), r.Intn(1000))
				case 2:
					n := sz()
					if n < 0 {
						n = 0
					}
					line = fmt.Sprintf("zw 0 wbin %d %d %d", n, r.Intn(1000), n)
				case 3:
					n := sz()
					if n < 0 {
						n = 0
					}
					line = fmt.Sprintf("zw 0 wstr %d %d", n, r.Intn(1000))
				case 4:
					line = fmt.Sprintf("zw 0 wbyte %d", r.Intn(251))
				case 5:
					m := a.zw[0].MallocLen()
					line = fmt.Sprintf("zw 0 ack %d", []int{0, m, m / 2, m}[r.Intn(4)])
				case 6, 7:
					line = "zw 0 flush"
				default:
					line = "zw 0 mlen"
				}
			case "ior":
				if r.Intn(2) == 0 {
					n := sz()
					if n < 0 {
						n = 0
					}
					line = fmt.Sprintf("ior 0 feed %d %d", n, r.Intn(1000))
				} else {
					n := sz()
					if n < 0 {
						n = 0
					}
					line = fmt.Sprintf("ior 0 read %d", n)
				}
			case "iow":
				if r.Intn(2) == 0 {
					n := sz()
					if n < 0 {
						n = 0
					}
					line = fmt.Sprintf("iow 0 write %d %d", n, r.Intn(1000))
				} else {
					l := a.lb[0].Len()
					line = fmt.Sprintf("iow 0 drain %d", []int{0, 1, l / 2, l, l}[r.Intn(5)])
				}
			case "iowz":
				if r.Intn(4) != 0 {
					n := sz()
					if n < 0 {
						n = 0
					}
					line = fmt.Sprintf("iowz 0 write %d %d", n, r.Intn(1000))
				} else {
					line = "iowz 0 flush"
				}
			}
			if !emit(line) {
				break
			}
		}
	}
	return 0
}
