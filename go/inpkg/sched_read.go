//go:build verif && verifsched
// +build verif,verifsched

package netpoll

// C07 scenarios for the controlled scheduler: a blocked reader against the poller's deliveries, closers and the read
// timer, on the REAL code (waitRead / waitReadWithTimeout / inputAck / onClose / onHup).  See /verif/SCHED.md.
//
// Scenario spec:  kind=read,ctor=std|fd,calls=<c1.c2…>,ev=<poller script>,closers=<n>
//
//	call  = <op><n>[u|t|d|x]   op: N Next  P Peek  S Skip  B ReadBinary  G ReadString  Y ReadByte  L Slice  R Read(p[:n])
//	                           Z Release (no n).   u untimed (default), t SetReadTimeout(1h), d SetReadDeadline(now+1h),
//	                           x SetReadDeadline(now-1s) (already expired).  Timers never fire by themselves: expiry is the
//	                           step of actor `rtimer` (a scheduling choice, enabled while the connection's own timer is armed).
//	ev    = d<n> | h | x<n> joined by '.' (as in the lifecycle scenarios: data chunk, peer close, data + peer close)
//	ctor  = fd: connection built like NewFDConnection (no addresses; D8), std: with local/remote address
//
// Actors: reader (the scripted calls, one goroutine), poller (transcription of defaultPoll.handler shared with
// sched_life.go, level-triggered: an event whose operator token is taken is fetched again), hup (onhups' goroutine),
// closer<i> (user Close()), rtimer.  Registered words: waitReadSize, closing, input length; channels: readTrigger, readTimer.C.
//
// Ghost lines of the reader (what the spec oracle judges):
//
//	G reader call <i> <op> n=<n> mode=<m> len=<Len() before>
//	G reader ret <i> res=<ok|eof|closed|rtimeout|…> got=<bytes returned> len=<Len() after> wrs=<waitReadSize> tick=<len(timer.C)> slot=<len(readTrigger)>

import (
	"context"
	"fmt"
	"io/ioutil"
	"log"
	"net"
	"strconv"
	"strings"
	"sync/atomic"
	"syscall"
	"time"
	"unsafe"
)

type vsCall struct {
	op   byte
	n    int
	mode byte
}

type vsRdScn struct {
	ctor    string
	calls   []vsCall
	events  []string
	closers int
}

func vsParseCalls(v string) ([]vsCall, error) {
	var out []vsCall
	if v == "" || v == "-" {
		return nil, nil
	}
	for _, t := range strings.Split(v, ".") {
		if t == "" {
			continue
		}
		c := vsCall{op: t[0], mode: 'u'}
		rest := t[1:]
		if l := len(rest); l > 0 && (rest[l-1] < '0' || rest[l-1] > '9') {
			c.mode = rest[l-1]
			rest = rest[:l-1]
		}
		if rest != "" {
			n, err := strconv.Atoi(rest)
			if err != nil {
				return nil, fmt.Errorf("bad call %q", t)
			}
			c.n = n
		}
		if !strings.ContainsRune("utdx", rune(c.mode)) {
			return nil, fmt.Errorf("bad call mode %q", t)
		}
		out = append(out, c)
	}
	return out, nil
}

func vsParseRdScn(spec string) (vsRdScn, error) {
	sc := vsRdScn{ctor: "std"}
	for _, kv := range strings.Split(spec, ",") {
		if kv == "" {
			continue
		}
		p := strings.SplitN(kv, "=", 2)
		if len(p) != 2 {
			return sc, fmt.Errorf("bad scenario item %q", kv)
		}
		k, v := p[0], p[1]
		switch k {
		case "kind":
		case "ctor":
			sc.ctor = v
		case "calls":
			cs, err := vsParseCalls(v)
			if err != nil {
				return sc, err
			}
			for _, c := range cs {
				if !strings.ContainsRune("NPSBGYLRZ", rune(c.op)) {
					return sc, fmt.Errorf("unknown reader op %q", string(c.op))
				}
			}
			sc.calls = cs
		case "ev":
			if v != "" && v != "-" {
				sc.events = strings.Split(v, ".")
			}
		case "closers":
			sc.closers, _ = strconv.Atoi(v)
		default:
			return sc, fmt.Errorf("unknown scenario key %q", k)
		}
	}
	return sc, nil
}

// vsErrClass maps an error of the connection API to the small enum the Lean side knows.
func vsErrClass(err error) string {
	if err == nil {
		return "ok"
	}
	if ex, ok := err.(*exception); ok {
		switch ex.no {
		case ErrEOF:
			return "eof"
		case ErrConnClosed:
			return "closed"
		case ErrReadTimeout:
			return "rtimeout"
		case ErrWriteTimeout:
			return "wtimeout"
		case ErrConcurrentAccess:
			return "concurrent"
		}
	}
	return "other:" + vsOneLine(err.Error())
}

// ---------------------------------------------------------------------------------------------
// shared set-up of the C07/C08 scenarios: one connection on a socketpair, operator owned by a fake Poll

type vsConnEnv struct {
	*vsLifeRun
	words   map[unsafe.Pointer]string
	restore func()
}

func vsNewConnEnv(ch vsChooser, ctor string, events []string) *vsConnEnv {
	fds, err := syscall.Socketpair(syscall.AF_UNIX, syscall.SOCK_STREAM, 0)
	if err != nil {
		panic(err)
	}
	s := vsNewSched()
	s.chooser = ch
	r := &vsLifeRun{sc: vsLifeScn{events: events}, s: s, cfd: fds[0], pfd: fds[1]}
	r.fp = &vsFakePoll{s: s, opcache: newOperatorCache()}
	r.br = barrier{bs: make([][]byte, barriercap), ivs: make([]syscall.Iovec, barriercap)}
	e := &vsConnEnv{vsLifeRun: r, words: map[unsafe.Pointer]string{}}
	s.wordOf = func(addr unsafe.Pointer) string { return e.words[addr] }
	s.chanOf = r.chanOf
	s.timerOf = nil // expiry is the step of a timer actor, never the scheduler's fallback
	s.timerName = func(t *time.Timer) string {
		if c := r.c; c != nil && t != nil {
			if t == c.readTimer {
				return "rtimer"
			}
			if t == c.writeTimer {
				return "wtimer"
			}
		}
		return ""
	}
	s.newTimerName = func(site string) string {
		switch {
		case strings.HasPrefix(site, "connection.waitReadWithTimeout#"):
			return "rtimer"
		case strings.HasPrefix(site, "connection.waitFlush#"):
			return "wtimer"
		}
		return ""
	}
	s.forceSelect = true
	s.quiet = vsQuiet

	savedPM, savedLogger := pollmanager, logger
	m := &manager{numLoops: 1, status: managerInitialized}
	m.polls = []Poll{r.fp}
	m.balance = newLoadbalance(RoundRobin, m.polls)
	pollmanager = m
	logger = log.New(ioutil.Discard, "", 0)
	SetRunner(func(ctx context.Context, f func()) { s.spawnTask(f) })
	verifHook = s
	e.restore = func() {
		verifHook = nil
		pollmanager, logger = savedPM, savedLogger
	}

	// the connection is built in the set-up goroutine (no actor is running: the hooks pass through)
	c := new(connection)
	r.c = c
	var nfd *netFD
	if ctor == "fd" {
		nfd = &netFD{fd: r.cfd} // exactly what NewFDConnection passes: no network, no addresses
	} else {
		addr := &net.UnixAddr{Name: "verif", Net: "unix"}
		nfd = &netFD{fd: r.cfd, network: "unix", localAddr: addr, remoteAddr: addr}
	}
	if err := c.init(nfd, nil); err != nil {
		s.line("G env init-error %s", vsOneLine(err.Error()))
	}
	r.escaped, r.initDone = true, true
	return e
}

// timer actor: every step makes the (armed) timer expire
func (e *vsConnEnv) spawnTimer(name string, get func() *time.Timer) {
	s := e.s
	guard := func() bool { t := get(); return t != nil && s.armed[t] }
	s.spawn(name, "timer", true, guard, func() {
		for i := 0; i < 12; i++ {
			ok := s.fireTimer(get())
			s.ghost("fire %v", ok)
			s.guardPoint("timer.armed", guard)
		}
	})
}

func (e *vsConnEnv) spawnClosers(n int) {
	for i := 1; i <= n; i++ {
		e.s.spawn("closer"+strconv.Itoa(i), "closer", true, nil, func() {
			e.s.ghost("close-call")
			e.c.Close()
			e.s.ghost("close-ret")
		})
	}
}

// pollerBodyLT: the read side of the poller for the scripted events, level-triggered (an event whose operator token
// was taken - `poller skip` - is fetched again once the token is free).
func (e *vsConnEnv) pollerBodyLT() {
	r := e.vsLifeRun
	event := func(evt uint32, label string, n int) (hup, gone bool) {
		for {
			r.s.guardPoint("poller.fetch", func() bool { return r.fp.registered })
			if r.fp.deleted || r.fp.frees > 0 {
				// A-epoll-del: no event is fetched after EPOLL_CTL_DEL returned, nor for a descriptor that has been closed
				// (a user Close that lost closeBy runs the finalizer without PollDetach; close(2) removes it from the set)
				r.s.ghost("poller gone")
				return false, true
			}
			r.s.ghost(label+" %d", n)
			done := r.handle(r.fp.op, evt)
			r.onhups()
			r.fp.opcache.free()
			if !r.skipped {
				return done, false
			}
			op := r.fp.op
			r.s.guardPoint("poller.refetch", func() bool { return atomic.LoadInt32(&op.state) != 2 || r.fp.frees > 0 })
		}
	}
	for _, ev := range r.sc.events {
		n, _ := strconv.Atoi(ev[1:])
		switch ev[0] {
		case 'd':
			syscall.Write(r.pfd, make([]byte, n))
			if _, gone := event(syscall.EPOLLIN, "deliver", n); gone {
				return
			}
		case 'h', 'x':
			if n > 0 {
				syscall.Write(r.pfd, make([]byte, n))
			}
			syscall.Shutdown(r.pfd, syscall.SHUT_WR)
			r.peerShut = true
			for i := 0; i < 4; i++ {
				hup, gone := event(syscall.EPOLLIN|syscall.EPOLLRDHUP, "deliver-hup", n)
				if hup || gone {
					return
				}
			}
		}
	}
}

func vsTimerTick(t *time.Timer) int {
	if t == nil {
		return 0
	}
	return len(t.C)
}

func (e *vsConnEnv) finish(status string, extra string) string {
	r := e.vsLifeRun
	s := e.s
	fdOpen := 1
	if _, _, en := syscall.Syscall(syscall.SYS_FCNTL, uintptr(r.cfd), syscall.F_GETFD, 0); en != 0 {
		fdOpen = 0
	}
	if s.foreign > 0 {
		s.line("G env foreign-hook-calls %d", s.foreign)
	}
	s.line("end status=%s steps=%d fdopen=%d closing=%d %s parked=%s", status, s.steps, fdOpen, r.c.keychain[closing], extra, s.parked())
	if fdOpen == 1 {
		syscall.Close(r.cfd)
	}
	syscall.Close(r.pfd)
	e.restore()
	return s.trace.String()
}

// ---------------------------------------------------------------------------------------------
// the read scenario

func (e *vsConnEnv) readCall(i int, cl vsCall) {
	c, s := e.c, e.s
	switch cl.mode {
	case 'u':
		c.SetReadTimeout(0) // also clears the deadline
	case 't':
		c.SetReadTimeout(time.Hour)
	case 'd':
		c.SetReadTimeout(0)
		c.SetReadDeadline(time.Now().Add(time.Hour))
	case 'x':
		c.SetReadDeadline(time.Now().Add(-time.Second))
	}
	s.ghost("call %d %c n=%d mode=%c len=%d", i, cl.op, cl.n, cl.mode, e.unread())
	var err error
	got := 0
	switch cl.op {
	case 'N':
		var p []byte
		p, err = c.Next(cl.n)
		got = len(p)
	case 'P':
		var p []byte
		p, err = c.Peek(cl.n)
		got = len(p)
	case 'S':
		err = c.Skip(cl.n)
		if err == nil {
			got = cl.n
		}
	case 'B':
		var p []byte
		p, err = c.ReadBinary(cl.n)
		got = len(p)
	case 'G':
		var x string
		x, err = c.ReadString(cl.n)
		got = len(x)
	case 'Y':
		_, err = c.ReadByte()
		if err == nil {
			got = 1
		}
	case 'L':
		var rd Reader
		rd, err = c.Slice(cl.n)
		if rd != nil {
			got = rd.Len()
		}
	case 'R':
		got, err = c.Read(make([]byte, cl.n))
	case 'Z':
		err = c.Release()
	}
	s.ghost("ret %d res=%s got=%d len=%d wrs=%d tick=%d slot=%d", i, vsErrClass(err), got, e.unread(),
		atomic.LoadInt64(&c.waitReadSize), vsTimerTick(c.readTimer), len(c.readTrigger))
}

func vsReadExec(sc vsRdScn, ch vsChooser) (string, *vsSched) {
	e := vsNewConnEnv(ch, sc.ctor, sc.events)
	s, c := e.s, e.c
	e.words[unsafe.Pointer(&c.waitReadSize)] = "waitReadSize"
	e.words[unsafe.Pointer(&c.keychain[closing])] = "closing"
	e.words[unsafe.Pointer(&c.inputBuffer.length)] = "inLen"
	wr := c.writeTrigger
	s.chanOf = func(x interface{}) string {
		if ce, ok := x.(chan error); ok && ce == wr {
			return ""
		}
		return e.chanOf(x)
	}
	s.spawn("reader", "reader", false, nil, func() {
		for i, cl := range sc.calls {
			s.point("reader.call")
			e.readCall(i, cl)
		}
	})
	s.spawn("poller", "poller", true, func() bool { return e.fp.registered }, e.pollerBodyLT)
	e.spawnClosers(sc.closers)
	e.spawnTimer("rtimer", func() *time.Timer { return c.readTimer })
	status := s.run()
	extra := fmt.Sprintf("unread=%d wrs=%d tick=%d slot=%d", e.unread(), atomic.LoadInt64(&c.waitReadSize), vsTimerTick(c.readTimer), len(c.readTrigger))
	return e.finish(status, extra), s
}
