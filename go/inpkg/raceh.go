//go:build verif
// +build verif

package netpoll

// C19 race workloads (run from a -race build): concurrency shapes of the public API inside its
// contract (one reader, one writer, any number of closers per connection). The race detector's
// reports on stderr are the observations; this file must not contain races of its own.

import (
	"context"
	"fmt"
	"math/rand"
	"os"
	"sync"
	"sync/atomic"
	"syscall"
	"time"
)

func vrPair(ropts *options) (*connection, *connection, error) {
	fds, err := syscall.Socketpair(syscall.AF_UNIX, syscall.SOCK_STREAM, 0)
	if err != nil {
		return nil, nil, err
	}
	a, b := &connection{}, &connection{}
	if ropts == nil {
		ropts = &options{}
	}
	if err := a.init(&netFD{fd: fds[0], network: "unix"}, &options{}); err != nil {
		return nil, nil, err
	}
	if err := b.init(&netFD{fd: fds[1], network: "unix"}, ropts); err != nil {
		return nil, nil, err
	}
	return a, b, nil
}

// close (any number of goroutines) concurrent with a blocked reader
func vrCloseVsRead(r *rand.Rand) {
	a, b, err := vrPair(nil)
	if err != nil {
		return
	}
	timed := r.Intn(2) == 0
	if timed {
		b.SetReadTimeout(time.Duration(1+r.Intn(3)) * time.Millisecond)
	}
	var wg sync.WaitGroup
	wg.Add(1)
	go func() {
		defer wg.Done()
		b.Reader().Next(100)
		b.Reader().Release()
	}()
	d := time.Duration(r.Intn(2000)) * time.Microsecond
	mode := r.Intn(4)
	for i := 0; i < 1+r.Intn(3); i++ {
		wg.Add(1)
		go func(i int) {
			defer wg.Done()
			time.Sleep(d)
			switch mode {
			case 0:
				b.Close()
			case 1:
				a.Close() // peer close
			case 2:
				a.Write([]byte("0123456789"))
				b.Close()
			default:
				a.Close()
				b.Close()
			}
		}(i)
	}
	wg.Wait()
	a.Close()
	b.Close()
}

// close concurrent with a blocked Flush (peer does not read; tiny buffers)
func vrCloseVsFlush(r *rand.Rand) {
	a, b, err := vrPair(nil)
	if err != nil {
		return
	}
	vsSetBuf(a.fd)
	vsSetBuf(b.fd)
	if r.Intn(2) == 0 {
		a.SetWriteTimeout(time.Duration(1+r.Intn(3)) * time.Millisecond)
	}
	var wg sync.WaitGroup
	wg.Add(1)
	go func() {
		defer wg.Done()
		p := make([]byte, 300000)
		a.Writer().WriteBinary(p)
		a.Writer().Flush()
	}()
	delay, mode := time.Duration(r.Intn(3000))*time.Microsecond, r.Intn(3)
	wg.Add(1)
	go func() {
		defer wg.Done()
		time.Sleep(delay)
		switch mode {
		case 0:
			a.Close()
		case 1:
			b.Close()
		default:
			// the peer drains
			for {
				if _, err := b.Reader().Next(1000); err != nil {
					break
				}
				b.Reader().Release()
				if b.Reader().Len() == 0 && !a.IsActive() {
					break
				}
			}
		}
	}()
	done := make(chan struct{})
	go func() { wg.Wait(); close(done) }()
	select {
	case <-done:
	case <-time.After(3 * time.Second):
	}
	a.Close()
	b.Close()
	<-done
}

// Detach racing the peer's close (D14)
func vrDetachVsHup(r *rand.Rand) {
	var hits int32
	a, b, err := vrPair(&options{onRequest: func(ctx context.Context, c Connection) error {
		atomic.AddInt32(&hits, 1)
		c.Reader().Skip(c.Reader().Len())
		return nil
	}})
	if err != nil {
		return
	}
	var wg sync.WaitGroup
	wg.Add(2)
	d1, d2 := time.Duration(r.Intn(200))*time.Microsecond, time.Duration(r.Intn(200))*time.Microsecond
	go func() { defer wg.Done(); time.Sleep(d1); a.Close() }()
	go func() { defer wg.Done(); time.Sleep(d2); b.Detach() }()
	wg.Wait()
	time.Sleep(200 * time.Microsecond)
	syscall.Close(b.fd) // after Detach the descriptor belongs to the caller (EBADF if netpoll closed it first: harmless here)
}

// server under traffic, Shutdown in the middle; concurrent dials
func vrServer(r *rand.Rand, id int) {
	addr := fmt.Sprintf("/tmp/verif-c19-%d-%d.sock", os.Getpid(), id)
	os.Remove(addr)
	defer os.Remove(addr)
	ln, err := CreateListener("unix", addr)
	if err != nil {
		return
	}
	var served int64
	el, err := NewEventLoop(func(ctx context.Context, c Connection) error {
		rd := c.Reader()
		n := rd.Len()
		p, err := rd.Next(n)
		if err != nil {
			return err
		}
		atomic.AddInt64(&served, int64(n))
		c.Writer().WriteBinary(append([]byte(nil), p...))
		rd.Release()
		return c.Writer().Flush()
	}, WithOnConnect(func(ctx context.Context, c Connection) context.Context { return ctx }),
		WithOnDisconnect(func(ctx context.Context, c Connection) {}))
	if err != nil {
		ln.Close()
		return
	}
	go el.Serve(ln)
	var wg sync.WaitGroup
	nc := 4 + r.Intn(12)
	delays := make([]time.Duration, nc)
	for i := range delays {
		delays[i] = time.Duration(r.Intn(1500)) * time.Microsecond
	}
	for i := 0; i < nc; i++ {
		wg.Add(1)
		go func(i int) {
			defer wg.Done()
			c, err := DialConnection("unix", addr, time.Second)
			if err != nil {
				return
			}
			c.SetReadTimeout(200 * time.Millisecond)
			for k := 0; k < 3; k++ {
				c.Writer().WriteBinary([]byte("hello netpoll race"))
				if c.Writer().Flush() != nil {
					break
				}
				if _, err := c.Reader().Next(18); err != nil {
					break
				}
				c.Reader().Release()
				time.Sleep(delays[i] / 3)
			}
			c.Close()
		}(i)
	}
	time.Sleep(time.Duration(r.Intn(2500)) * time.Microsecond)
	ctx, cancel := context.WithTimeout(context.Background(), time.Duration(5+r.Intn(200))*time.Millisecond)
	el.Shutdown(ctx)
	cancel()
	wg.Wait()
}

// pool reconfiguration between phases (no Pick in flight while it changes)
func vrReconfigure(r *rand.Rand) {
	for _, n := range []int{3, 1, 2} {
		SetNumLoops(n)
		var wg sync.WaitGroup
		for i := 0; i < 6; i++ {
			wg.Add(1)
			go func() {
				defer wg.Done()
				a, b, err := vrPair(nil)
				if err != nil {
					return
				}
				a.Write([]byte("x"))
				b.Reader().Next(1)
				a.Close()
				b.Close()
			}()
		}
		wg.Wait()
		time.Sleep(2 * time.Millisecond)
	}
}

// VerifRaceWorkloads runs `n` rounds of every shape, derived from seed.
func VerifRaceWorkloads(seed int64, n int, which string) map[string]int {
	counts := map[string]int{}
	r := rand.New(rand.NewSource(seed))
	SetNumLoops(2)
	run := func(name string, f func()) {
		if which != "" && which != name {
			return
		}
		f()
		counts[name]++
	}
	for i := 0; i < n; i++ {
		run("close-vs-read", func() { vrCloseVsRead(r) })
		run("close-vs-flush", func() { vrCloseVsFlush(r) })
		run("detach-vs-hup", func() { vrDetachVsHup(r) })
		if i%4 == 0 {
			run("server-shutdown", func() { vrServer(r, i) })
		}
		if i%8 == 0 {
			run("stream", func() {
				s := vsScenarioOf(int(seed), i, false)
				if s.total > 200000 {
					s.total = 200000
				}
				vsRun(s)
			})
		}
	}
	run("reconfigure", func() { vrReconfigure(r); SetNumLoops(2) })
	return counts
}
