//go:build verif
// +build verif

package netpoll

// C19 race workloads (run from a -race build): concurrency shapes of the public API inside its
// contract (one reader, one writer, any number of closers per connection). The race detector's
// reports on stderr are the observations; this file must not contain races of its own.

import (
	"context"
	"fmt"
	"math/rand"
	"net"
	"os"
	"sync"
	"sync/atomic"
	"syscall"
	"time"
)

func vrPair(ropts *options) (*connection, *connection, error) {
	fds, err := syscall.Socketpair(syscall.AF_UNIX, syscall.SOCK_STREAM, 0)
	if err != nil {
		return nil, nil, err
	}
	a, b := &connection{}, &connection{}
	if ropts == nil {
		ropts = &options{}
	}
	if err := a.init(&netFD{fd: fds[0], network: "unix"}, &options{}); err != nil {
		return nil, nil, err
	}
	if err := b.init(&netFD{fd: fds[1], network: "unix"}, ropts); err != nil {
		return nil, nil, err
	}
	return a, b, nil
}

// close (any number of goroutines) concurrent with a blocked reader
func vrCloseVsRead(r *rand.Rand) {
	a, b, err := vrPair(nil)
	if err != nil {
		return
	}
	timed := r.Intn(2) == 0
	if timed {
		b.SetReadTimeout(time.Duration(1+r.Intn(3)) * time.Millisecond)
	}
	var wg sync.WaitGroup
	wg.Add(1)
	go func() {
		defer wg.Done()
		b.Reader().Next(100)
		b.Reader().Release()
	}()
	d := time.Duration(r.Intn(2000)) * time.Microsecond
	mode := r.Intn(4)
	for i := 0; i < 1+r.Intn(3); i++ {
		wg.Add(1)
		go func(i int) {
			defer wg.Done()
			time.Sleep(d)
			switch mode {
			case 0:
				b.Close()
			case 1:
				a.Close() // peer close
			case 2:
				a.Write([]byte("0123456789"))
				b.Close()
			default:
				a.Close()
				b.Close()
			}
		}(i)
	}
	wg.Wait()
	a.Close()
	b.Close()
}

// close concurrent with a blocked Flush (peer does not read; tiny buffers)
func vrCloseVsFlush(r *rand.Rand) {
	a, b, err := vrPair(nil)
	if err != nil {
		return
	}
	vsSetBuf(a.fd)
	vsSetBuf(b.fd)
	if r.Intn(2) == 0 {
		a.SetWriteTimeout(time.Duration(1+r.Intn(3)) * time.Millisecond)
	}
	var wg sync.WaitGroup
	wg.Add(1)
	go func() {
		defer wg.Done()
		p := make([]byte, 300000)
		a.Writer().WriteBinary(p)
		a.Writer().Flush()
	}()
	delay, mode := time.Duration(r.Intn(3000))*time.Microsecond, r.Intn(3)
	wg.Add(1)
	go func() {
		defer wg.Done()
		time.Sleep(delay)
		switch mode {
		case 0:
			a.Close()
		case 1:
			b.Close()
		default:
			// the peer drains
			for {
				if _, err := b.Reader().Next(1000); err != nil {
					break
				}
				b.Reader().Release()
				if b.Reader().Len() == 0 && !a.IsActive() {
					break
				}
			}
		}
	}()
	done := make(chan struct{})
	go func() { wg.Wait(); close(done) }()
	select {
	case <-done:
	case <-time.After(3 * time.Second):
	}
	a.Close()
	b.Close()
	<-done
}

// Detach racing the peer's close (D14)
func vrDetachVsHup(r *rand.Rand) {
	var hits int32
	a, b, err := vrPair(&options{onRequest: func(ctx context.Context, c Connection) error {
		atomic.AddInt32(&hits, 1)
		c.Reader().Skip(c.Reader().Len())
		return nil
	}})
	if err != nil {
		return
	}
	var wg sync.WaitGroup
	wg.Add(2)
	d1, d2 := time.Duration(r.Intn(200))*time.Microsecond, time.Duration(r.Intn(200))*time.Microsecond
	go func() { defer wg.Done(); time.Sleep(d1); a.Close() }()
	go func() { defer wg.Done(); time.Sleep(d2); b.Detach() }()
	wg.Wait()
	time.Sleep(200 * time.Microsecond)
	syscall.Close(b.fd) // after Detach the descriptor belongs to the caller (EBADF if netpoll closed it first: harmless here)
}

// server under traffic, Shutdown in the middle; concurrent dials
func vrServer(r *rand.Rand, id int) {
	addr := fmt.Sprintf("/tmp/verif-c19-%d-%d.sock", os.Getpid(), id)
	os.Remove(addr)
	defer os.Remove(addr)
	ln, err := CreateListener("unix", addr)
	if err != nil {
		return
	}
	var served int64
	el, err := NewEventLoop(func(ctx context.Context, c Connection) error {
		rd := c.Reader()
		n := rd.Len()
		p, err := rd.Next(n)
		if err != nil {
			return err
		}
		atomic.AddInt64(&served, int64(n))
		c.Writer().WriteBinary(append([]byte(nil), p...))
		rd.Release()
		return c.Writer().Flush()
	}, WithOnConnect(func(ctx context.Context, c Connection) context.Context { return ctx }),
		WithOnDisconnect(func(ctx context.Context, c Connection) {}))
	if err != nil {
		ln.Close()
		return
	}
	go el.Serve(ln)
	var wg sync.WaitGroup
	nc := 4 + r.Intn(12)
	delays := make([]time.Duration, nc)
	for i := range delays {
		delays[i] = time.Duration(r.Intn(1500)) * time.Microsecond
	}
	for i := 0; i < nc; i++ {
		wg.Add(1)
		go func(i int) {
			defer wg.Done()
			c, err := DialConnection("unix", addr, time.Second)
			if err != nil {
				return
			}
			c.SetReadTimeout(200 * time.Millisecond)
			if i%3 == 2 {
				// connect and leave without a request: the peer close meets a connection whose only task so far was OnConnect
				// (what orders OnConnect's result - the connection's context - before OnDisconnect is the `connecting` key alone)
				time.Sleep(delays[i] / 5)
				c.Close()
				return
			}
			for k := 0; k < 3; k++ {
				c.Writer().WriteBinary([]byte("hello netpoll race"))
				if c.Writer().Flush() != nil {
					break
				}
				if _, err := c.Reader().Next(18); err != nil {
					break
				}
				c.Reader().Release()
				time.Sleep(delays[i] / 3)
			}
			c.Close()
		}(i)
	}
	time.Sleep(time.Duration(r.Intn(2500)) * time.Microsecond)
	ctx, cancel := context.WithTimeout(context.Background(), time.Duration(5+r.Intn(200))*time.Millisecond)
	el.Shutdown(ctx)
	cancel()
	wg.Wait()
}

// pool reconfiguration between phases (no Pick in flight while it changes)
func vrReconfigure(r *rand.Rand) {
	for k, n := range []int{3, 1, 2} {
		SetNumLoops(n)
		if k == 1 {
			SetLoadBalance(Random)
		} else {
			SetLoadBalance(RoundRobin)
		}
		var wg sync.WaitGroup
		for i := 0; i < 6; i++ {
			wg.Add(1)
			go func() {
				defer wg.Done()
				a, b, err := vrPair(nil)
				if err != nil {
					return
				}
				a.Write([]byte("x"))
				b.Reader().Next(1)
				a.Close()
				b.Close()
			}()
		}
		wg.Wait()
		time.Sleep(2 * time.Millisecond)
	}
}

// concurrent dials: a live TCP listener (connect, write, close), a port nobody listens on (refused), and a listener
// whose backlog is full (dial runs into its timeout and detaches its pollDesc while the poller may fire it)
func vrDial(r *rand.Rand) {
	ln, err := net.Listen("tcp", "127.0.0.1:0")
	if err != nil {
		return
	}
	go func() {
		for {
			c, err := ln.Accept()
			if err != nil {
				return
			}
			go func() { buf := make([]byte, 64); c.Read(buf); c.Close() }()
		}
	}()
	dead, err := net.Listen("tcp", "127.0.0.1:0")
	if err != nil {
		ln.Close()
		return
	}
	deadAddr := dead.Addr().String()
	dead.Close()
	fullAddr := ""
	fd, err := syscall.Socket(syscall.AF_INET, syscall.SOCK_STREAM, 0)
	if err == nil {
		if syscall.Bind(fd, &syscall.SockaddrInet4{Addr: [4]byte{127, 0, 0, 1}}) == nil && syscall.Listen(fd, 0) == nil {
			if sa, err := syscall.Getsockname(fd); err == nil {
				fullAddr = fmt.Sprintf("127.0.0.1:%d", sa.(*syscall.SockaddrInet4).Port)
			}
		}
	}
	var wg sync.WaitGroup
	nd := 3 + r.Intn(5)
	kinds := make([]int, nd)
	tmo := make([]time.Duration, nd)
	for i := range kinds {
		kinds[i] = r.Intn(3)
		tmo[i] = time.Duration(2+r.Intn(15)) * time.Millisecond
	}
	for i := 0; i < nd; i++ {
		wg.Add(1)
		go func(i int) {
			defer wg.Done()
			var c Connection
			var err error
			switch {
			case kinds[i] == 1:
				c, err = DialConnection("tcp", deadAddr, 200*time.Millisecond)
			case kinds[i] == 2 && fullAddr != "":
				c, err = DialConnection("tcp", fullAddr, tmo[i])
			default:
				c, err = DialConnection("tcp", ln.Addr().String(), time.Second)
			}
			if err != nil {
				return
			}
			c.Writer().WriteBinary([]byte("dial"))
			c.Writer().Flush()
			c.Close()
		}(i)
	}
	wg.Wait()
	ln.Close()
	if fd >= 0 && err == nil {
		syscall.Close(fd)
	}
}

// all four callbacks set; AddCloseCallback / SetOnRequest / Close from user goroutines while data arrives and the
// peer closes; deadlines are set by the goroutine that reads / writes (inside the contract)
func vrCallbacks(r *rand.Rand) {
	type key struct{}
	var hits int32
	echo := func(ctx context.Context, c Connection) error {
		atomic.AddInt32(&hits, 1)
		_ = ctx.Value(key{})
		c.SetReadDeadline(time.Now().Add(50 * time.Millisecond))
		rd := c.Reader()
		p, err := rd.Next(rd.Len())
		if err != nil {
			return err
		}
		q := append([]byte(nil), p...)
		rd.Release()
		c.SetWriteDeadline(time.Now().Add(50 * time.Millisecond))
		c.Writer().WriteBinary(q)
		return c.Writer().Flush()
	}
	closeInPrepare := r.Intn(8) == 0
	ropts := &options{
		onPrepare: func(c Connection) context.Context {
			if closeInPrepare {
				c.Close()
			}
			return context.WithValue(context.Background(), key{}, 1)
		},
		onConnect: func(ctx context.Context, c Connection) context.Context {
			return context.WithValue(ctx, key{}, 2)
		},
		onDisconnect: func(ctx context.Context, c Connection) { _ = ctx.Value(key{}) },
		onRequest:    echo,
		readTimeout:  20 * time.Millisecond,
	}
	a, b, err := vrPair(ropts)
	if err != nil {
		return
	}
	if b.IsActive() {
		b.onConnect() // what server.onAccept / the dialer do after init
	}
	var wg sync.WaitGroup
	nmsg, gap := 1+r.Intn(4), time.Duration(r.Intn(400))*time.Microsecond
	dClose, doClose, doSet := time.Duration(r.Intn(1500))*time.Microsecond, r.Intn(2) == 0, r.Intn(2) == 0
	wg.Add(4)
	go func() { // peer: writer
		defer wg.Done()
		for i := 0; i < nmsg; i++ {
			a.SetWriteTimeout(10 * time.Millisecond)
			if _, err := a.Write([]byte("callbacks-workload")); err != nil {
				break
			}
			time.Sleep(gap)
		}
		time.Sleep(gap)
		a.Close()
	}()
	go func() { // peer: reader
		defer wg.Done()
		for {
			a.SetReadDeadline(time.Now().Add(5 * time.Millisecond))
			if _, err := a.Reader().Next(1); err != nil {
				return
			}
			a.Reader().Release()
		}
	}()
	go func() {
		defer wg.Done()
		for i := 0; i < 3; i++ {
			b.AddCloseCallback(func(Connection) error { return nil })
			time.Sleep(gap / 2)
		}
		if doSet {
			b.SetOnRequest(echo)
			b.SetOnDisconnect(func(ctx context.Context, c Connection) {})
		}
	}()
	go func() {
		defer wg.Done()
		time.Sleep(dClose)
		if doClose {
			b.Close()
		}
	}()
	wg.Wait()
	time.Sleep(300 * time.Microsecond)
	a.Close()
	b.Close()
}

// VerifRaceWorkloads runs `n` rounds of every shape, derived from seed.
func VerifRaceWorkloads(seed int64, n int, which string) map[string]int {
	counts := map[string]int{}
	r := rand.New(rand.NewSource(seed))
	SetNumLoops(2)
	run := func(name string, f func()) {
		if which != "" && which != name {
			return
		}
		f()
		counts[name]++
	}
	for i := 0; i < n; i++ {
		run("close-vs-read", func() { vrCloseVsRead(r) })
		run("close-vs-flush", func() { vrCloseVsFlush(r) })
		run("detach-vs-hup", func() { vrDetachVsHup(r) })
		run("callbacks", func() { vrCallbacks(r) })
		if i%4 == 0 {
			run("server-shutdown", func() { vrServer(r, i) })
		}
		if i%4 == 1 {
			run("dial", func() { vrDial(r) })
		}
		if i%8 == 0 {
			run("stream", func() {
				s := vsScenarioOf(int(seed), i, false)
				if s.total > 200000 {
					s.total = 200000
				}
				vsRun(s)
			})
		}
	}
	run("reconfigure", func() { vrReconfigure(r); SetNumLoops(2) })
	return counts
}
