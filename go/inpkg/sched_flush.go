//go:build verif && verifsched
// +build verif,verifsched

package netpoll

// C08 scenarios for the controlled scheduler: Flush / Write against the poller's write events, an ADVERSARIAL
// (scripted) kernel, a concurrent second flusher, closers and the write timer, on the REAL code
// (Flush / Write / flush / waitFlush / outputs / outputAck / rw2r / onClose / onHup).  See /verif/SCHED.md.
//
// Scenario spec:  kind=flush,ctor=std|fd,calls=<c1.c2…>,k=<kernel script>,ev=<h|->,closers=<n>,f2=<n>
//
//	call  = <op><n>[u|t|d|x]   op: W c.Write(p[:n])   F Malloc(n) (if n>0) then Flush()   M WriteBinary(n bytes), no flush
//	                           V n x Append(a LinkBuffer holding 7 malloc'ed bytes), no flush: n more NODES in the output buffer (what
//	                             mux.ShardQueue does with a burst of messages); with more than barriercap (32) non-empty nodes one
//	                             GetBytes/sendmsg offers only a prefix of the buffer (K line: vecs=32, offered < output length)
//	                           u no write timeout (default), t SetWriteTimeout(1h), d SetWriteDeadline(now+1h),
//	                           x SetWriteDeadline(now-1s).  Expiry of the write timer is the step of actor `wtimer`.
//	k     = entries joined by '.', consumed one per sendmsg on the connection's descriptor (the flusher's sendmsg in
//	        connection.flush - call site renamed to verifSendmsg by tools/instrument - and the poller's iosend alike):
//	        <m> accept at most m bytes (0 = EAGAIN), a = accept everything; after the script: a.
//	        z (last entry) = from here on the socket buffer is FULL and the peer does not drain it: every sendmsg answers
//	        EAGAIN and no write event is reported any more (epoll does not report EPOLLOUT for a full socket).  Only data,
//	        a close or the write timer can end a Flush then; scenarios with z have a closer.
//	inh   = 1: the flusher's calls are made INSIDE the OnRequest handler: the real connection.onProcess is called (it takes
//	        the `processing` lock), its task - run through the custom runner as actor `flusher` - finds one byte of input and
//	        calls the handler, which consumes the input and runs the script; afterwards the task's own tail runs (status
//	        check, closeCallback or unlock(processing) + double checks).  A Close() from a closer meanwhile cannot take
//	        `processing`: it returns without running the callbacks and relies on the task.
//	        Accepted bytes are really sent on the socketpair (the peer's receive count is checked at the end).
//	ev    = h: the peer closes (hang-up through the poller transcription)
//	after = 0 (default): the flusher stops its script after the first call that returned ErrWriteTimeout - generated
//	        scenarios steer around known findings D9/D9b (known_findings.jsonl), whose pattern is "a Flush/Write issued after an
//	        earlier ErrWriteTimeout"; after=1 (corpus probes only) goes on.
//	f2    = number of calls of the second flusher: `flusher2` calls Flush() while `flusher` is inside flush() (after its
//	        first sendmsg of the call); its call is ONE scheduler step (model action flush2).
//
// Actors: flusher, flusher2, wpoller (write events: transcription of the EPOLLOUT branch of defaultPoll.handler, enabled
// only while the fake Poll has the descriptor in RW interest), poller + hup (peer close), closer<i>, wtimer.
// Registered words: closing, flushing, output length; channels: writeTrigger, writeTimer.C.
//
//	G flusher call <i> <op> n=<n> mode=<m> pend=<MallocLen()> out=<outputBuffer.Len()>
//	G flusher enter add=<bytes the call submits if it gets the lock>
//	G flusher ret <i> res=<ok|closed|wtimeout|concurrent|…> out=<Len()> pend=<MallocLen()> tick=<len(timer.C)> slot=<len(writeTrigger)> rw=<0|1>
//	G flusher2 f2 ret res=<…> same=<1 iff output length, malloc length, interest, trigger slot, flushing, closing unchanged>
//	K <actor> <site> sendmsg <offered> <accepted|-1> <ok|EAGAIN|…>

import (
	"context"
	"fmt"
	"strconv"
	"strings"
	"sync/atomic"
	"syscall"
	"time"
	"unsafe"
)

type vsFlScn struct {
	ctor    string
	calls   []vsCall
	kern    []int // -1 = all
	events  []string
	closers int
	f2      int
	after   bool
	inh     bool
}

func vsParseFlScn(spec string) (vsFlScn, error) {
	sc := vsFlScn{ctor: "std"}
	for _, kv := range strings.Split(spec, ",") {
		if kv == "" {
			continue
		}
		p := strings.SplitN(kv, "=", 2)
		if len(p) != 2 {
			return sc, fmt.Errorf("bad scenario item %q", kv)
		}
		k, v := p[0], p[1]
		switch k {
		case "kind":
		case "ctor":
			sc.ctor = v
		case "calls":
			cs, err := vsParseCalls(v)
			if err != nil {
				return sc, err
			}
			for _, c := range cs {
				if !strings.ContainsRune("WFMV", rune(c.op)) {
					return sc, fmt.Errorf("unknown flusher op %q", string(c.op))
				}
			}
			sc.calls = cs
		case "k":
			if v != "" && v != "-" {
				for _, t := range strings.Split(v, ".") {
					if t == "a" {
						sc.kern = append(sc.kern, -1)
					} else if t == "z" {
						sc.kern = append(sc.kern, -2)
					} else {
						n, err := strconv.Atoi(t)
						if err != nil || n < 0 {
							return sc, fmt.Errorf("bad kernel script entry %q", t)
						}
						sc.kern = append(sc.kern, n)
					}
				}
			}
		case "ev":
			if v != "" && v != "-" {
				sc.events = strings.Split(v, ".")
			}
		case "closers":
			sc.closers, _ = strconv.Atoi(v)
		case "f2":
			sc.f2, _ = strconv.Atoi(v)
		case "after":
			sc.after = v == "1"
		case "inh":
			sc.inh = v == "1"
		default:
			return sc, fmt.Errorf("unknown scenario key %q", k)
		}
	}
	return sc, nil
}

type vsFlRun struct {
	*vsConnEnv
	sc       vsFlScn
	kpos     int
	accepted int
	f1Sent   bool // flusher has done the first sendmsg of its current call (it holds `flushing`) and has not returned yet
	f2left   int
}

// kernel plays sendmsg(2) for the connection's descriptor: the script decides how much is accepted; that much is
// really sent (same wrapper, truncated vector).
func (r *vsFlRun) kernel(a *vsActor, site string, fd int, bs [][]byte, ivs []syscall.Iovec) (n int, err error, offered int, handled bool) {
	if fd != r.cfd {
		return 0, nil, 0, false
	}
	for _, b := range bs {
		offered += len(b)
	}
	limit := -1
	if r.kpos < len(r.sc.kern) {
		limit = r.sc.kern[r.kpos]
	}
	if limit == -2 {
		limit = 0 // full for ever: stay on this entry
	} else {
		r.kpos++
	}
	if a.name == "flusher" {
		r.f1Sent = true
	}
	k := offered
	if limit >= 0 && limit < k {
		k = limit
	}
	if offered == 0 {
		return 0, nil, 0, true
	}
	if k == 0 {
		resetIovecs(bs, nil)
		return -1, syscall.EAGAIN, offered, true // what the real wrapper returns for EAGAIN
	}
	var part [][]byte
	left := k
	for _, b := range bs {
		if left == 0 {
			break
		}
		if len(b) > left {
			b = b[:left]
		}
		if len(b) > 0 {
			part = append(part, b)
			left -= len(b)
		}
	}
	n, err = sendmsg(fd, part, ivs, false)
	resetIovecs(bs, nil)
	if n > 0 {
		r.accepted += n
	}
	return n, err, offered, true
}

// iosend as in net_io.go, on the scripted kernel
func (r *vsFlRun) iosend(fd int, bs [][]byte, ivs []syscall.Iovec) (n int, err error) {
	n, err, handled := r.s.Sendmsg("poller.iosend", fd, bs, ivs, false)
	if !handled {
		n, err = sendmsg(fd, bs, ivs, false)
	}
	if err == syscall.EAGAIN {
		return 0, nil
	}
	return n, err
}

// handleWrite: the EPOLLOUT part of defaultPoll.handler for one event of this operator (keep in step with
// poll_default_linux.go handler: do(); Outputs; iosend; OutputAck; error -> appendHup; done()).
func (r *vsFlRun) handleWrite(op *FDOperator) (hup bool) {
	r.skipped = false
	if !op.do() {
		r.skipped = true
		r.s.ghost("wpoller skip")
		return false
	}
	r.s.ghost("wevent")
	if op.OnWrite != nil {
		op.OnWrite(r.fp)
	} else if op.Outputs != nil {
		bs, _ := op.Outputs(r.br.bs)
		if len(bs) > 0 {
			n, err := r.iosend(op.FD, bs, r.br.ivs)
			op.OutputAck(n)
			if err != nil {
				r.appendHup(op)
				return true
			}
		}
	}
	op.done()
	return false
}

// full: the scripted kernel has reached its `z` entry (socket buffer full for good: no write event is reported)
func (r *vsFlRun) full() bool {
	return r.kpos < len(r.sc.kern) && r.sc.kern[r.kpos] == -2
}

func (r *vsFlRun) outLen() int {
	if r.c.outputBuffer == nil {
		return 0
	}
	return int(atomic.LoadInt64(&r.c.outputBuffer.length))
}

func vsB(b bool) int {
	if b {
		return 1
	}
	return 0
}

func (r *vsFlRun) flushCall(i int, cl vsCall) (res string) {
	c, s := r.c, r.s
	switch cl.mode {
	case 'u':
		c.SetWriteTimeout(0) // also clears the deadline
	case 't':
		c.SetWriteTimeout(time.Hour)
	case 'd':
		c.SetWriteTimeout(0)
		c.SetWriteDeadline(time.Now().Add(time.Hour))
	case 'x':
		c.SetWriteDeadline(time.Now().Add(-time.Second))
	}
	s.ghost("call %d %c n=%d mode=%c pend=%d out=%d", i, cl.op, cl.n, cl.mode, c.outputBuffer.MallocLen(), r.outLen())
	var err error
	switch cl.op {
	case 'W':
		s.ghost("enter add=%d", c.outputBuffer.MallocLen()+cl.n)
		_, err = c.Write(make([]byte, cl.n))
	case 'F':
		if cl.n > 0 {
			if _, e := c.Malloc(cl.n); e != nil {
				s.ghost("malloc res=%s", vsErrClass(e))
			}
		}
		s.ghost("enter add=%d", c.outputBuffer.MallocLen())
		err = c.Flush()
	case 'M':
		_, err = c.WriteBinary(make([]byte, cl.n))
	case 'V':
		for j := 0; j < cl.n && err == nil; j++ {
			lb := NewLinkBuffer(16)
			lb.Malloc(7) // pending (not flushed) in lb: Append adds it to the connection's pending bytes, the next Flush submits it
			err = c.Append(lb)
		}
	}
	r.f1Sent = false
	res = vsErrClass(err)
	s.ghost("ret %d res=%s out=%d pend=%d tick=%d slot=%d rw=%d", i, res, r.outLen(), c.outputBuffer.MallocLen(),
		vsTimerTick(c.writeTimer), len(c.writeTrigger), vsB(r.fp.interestW))
	return res
}

func (r *vsFlRun) snapshot() string {
	c := r.c
	return fmt.Sprintf("out=%d pend=%d rw=%d slot=%d flushing=%d closing=%d", r.outLen(), c.outputBuffer.MallocLen(), vsB(r.fp.interestW),
		len(c.writeTrigger), atomic.LoadInt32(&c.keychain[flushing]), atomic.LoadInt32(&c.keychain[closing]))
}

func vsFlushExec(sc vsFlScn, ch vsChooser) (string, *vsSched) {
	e := vsNewConnEnv(ch, sc.ctor, sc.events)
	r := &vsFlRun{vsConnEnv: e, sc: sc, f2left: sc.f2}
	s, c := e.s, e.c
	e.words[unsafe.Pointer(&c.keychain[closing])] = "closing"
	e.words[unsafe.Pointer(&c.keychain[flushing])] = "flushing"
	e.words[unsafe.Pointer(&c.outputBuffer.length)] = "outLen"
	rd := c.readTrigger
	s.chanOf = func(x interface{}) string {
		if ce, ok := x.(chan error); ok && ce == rd {
			return ""
		}
		return e.chanOf(x)
	}
	s.kernel = r.kernel
	e.fp.ctlPoint = true
	script := func() {
		for i, cl := range sc.calls {
			s.point("flusher.call")
			if r.flushCall(i, cl) == "wtimeout" && !sc.after {
				s.ghost("stop-after-timeout")
				break
			}
		}
	}
	if sc.inh {
		// the REAL onProcess (called from the set-up goroutine: the hooks pass through) takes `processing` and hands its task
		// to the runner, which makes it the actor `flusher`
		SetRunner(func(ctx context.Context, f func()) { s.spawn("flusher", "flusher", false, nil, f) })
		if b := c.inputBuffer.book(1, 1); len(b) > 0 {
			c.inputBuffer.bookAck(1)
		}
		handler := func(ctx context.Context, conn Connection) error {
			rd := conn.Reader()
			rd.Skip(rd.Len())
			rd.Release()
			s.ghost("handler-enter")
			script()
			s.ghost("handler-ret")
			return nil
		}
		if !c.onProcess(nil, handler) {
			s.line("G env onProcess-refused")
		}
	} else {
		s.spawn("flusher", "flusher", false, nil, script)
	}
	if sc.f2 > 0 {
		guard2 := func() bool { return r.f1Sent && r.f2left > 0 }
		a := s.spawn("flusher2", "flusher2", true, guard2, func() {
			for {
				before := r.snapshot()
				s.ghost("f2 call %s", before)
				err := c.Flush()
				after := r.snapshot()
				s.ghost("f2 ret res=%s same=%d", vsErrClass(err), vsB(before == after))
				r.f2left--
				s.guardPoint("flusher2.call", guard2)
			}
		})
		a.atomicMode = true
	}
	guardW := func() bool { return e.fp.registered && e.fp.interestW && !e.fp.deleted && e.fp.frees == 0 && !r.full() }
	s.spawn("wpoller", "wpoller", true, guardW, func() {
		for i := 0; i < 64; i++ {
			// the event was fetched while the descriptor had EPOLLOUT interest (the guard held when this step was chosen)
			hup := r.handleWrite(e.fp.op)
			r.onhups()
			if hup {
				return
			}
			if r.skipped {
				op := e.fp.op
				s.guardPoint("poller.wrefetch", func() bool { return atomic.LoadInt32(&op.state) != 2 || e.fp.frees > 0 })
			}
			s.guardPoint("poller.wfetch", guardW)
		}
	})
	if len(sc.events) > 0 {
		s.spawn("poller", "poller", true, func() bool { return e.fp.registered }, e.pollerBodyLT)
	}
	e.spawnClosers(sc.closers)
	e.spawnTimer("wtimer", func() *time.Timer { return c.writeTimer })
	status := s.run()
	// what the peer received (everything the scripted kernel accepted must be there)
	peer := 0
	syscall.SetNonblock(e.pfd, true)
	buf := make([]byte, 4096)
	for {
		n, err := syscall.Read(e.pfd, buf)
		if n <= 0 || err != nil {
			break
		}
		peer += n
	}
	extra := fmt.Sprintf("out=%d pend=%d accepted=%d peer=%d tick=%d slot=%d rw=%d flushing=%d", r.outLen(), c.outputBuffer.MallocLen(), r.accepted, peer,
		vsTimerTick(c.writeTimer), len(c.writeTrigger), vsB(e.fp.interestW), c.keychain[flushing])
	return e.finish(status, extra), s
}
