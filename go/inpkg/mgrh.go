//go:build verif
// +build verif

package netpoll

// C18 correspondence harness for the poller pool (poll_manager.go, poll_loadbalance.go).
// Every scenario runs on a FRESH `manager` built in-package with newManager; the global
// `pollmanager` is never picked from (an `iphase` points it at the scenario's manager and restores it).  Three kinds of scenario, all derived from one seed:
//
//   seq    – sequential calls (newManager / SetNumLoops / SetLoadBalance / Pick / Reset / Close, the
//            round-robin counter preset in-package), one op line and one reply line (event + canonical
//            dump of the manager, the balancer snapshot, the set of closed pollers and the census of
//            epoll descriptors) per call.  `npdriver mgr` replays the op lines on the Lean model; the
//            reply streams must be identical.
//   sched  – phases of K goroutines inside Pick under a one-actor-at-a-time scheduler.  Needs the
//            schedule points of hooks/manager.patch (vmgrPoint calls, add-only); the check applies the
//            patch to a temporary copy of the two source files and overlays it at build time.  Every
//            atomic step is one op line `step <actor> <site>`; after it the real manager is dumped
//            (all actors parked) and compared with the Lean model's state after the same step (trace
//            conformance against Netpoll.Manager.step), including where every actor is parked.
//            openPoll failures are injected with RLIMIT_NOFILE=0 for the duration of one step.
//   stress – phases of K goroutines calling Pick truly concurrently (no hooks needed); the outcome
//            (multiset of returned pollers, final slice, closed set, census) is compared with the
//            model's and judged by the Lean spec oracle.  One phase of every stress scenario (`iphase`) mixes callers of
//            the package-level netpoll.Initialize() with the first Picks after a SetNumLoops; for its duration the global
//            `pollmanager` IS the scenario's manager (Initialize has no other way in).
//
// `pend I,J,.. <pick|reset|close>` (sequential scenarios): the op runs while the loops of the pollers in slots I,J,.. are parked
// inside a callback (a pipe registered with them) and have an unconsumed Trigger(): the Close() that a shrinking Run / Reset /
// manager.Close writes then ADDS to the pending wake-up on the eventfd counter.  The loops are let go before the reply is taken;
// the model and the spec oracle read the line as the inner op.
//
// After every phase each known poller is probed: Trigger() succeeds and a pipe registered with
// Control(PollReadable) gets its OnRead callback from the poller's loop.

import (
	"bufio"
	"flag"
	"fmt"
	"math/rand"
	"os"
	"runtime"
	"sort"
	"strconv"
	"strings"
	"sync"
	"sync/atomic"
	"syscall"
	"time"
	"unsafe"
)

// ---- schedule points -------------------------------------------------------------------------

const (
	vmgrSiteLoad = iota + 1
	vmgrSiteCas
	vmgrSiteCas2
	vmgrSiteRLoad
	vmgrSiteRClose
	vmgrSiteROpen
	vmgrSiteRGo
	vmgrSiteRStore
	vmgrSiteRRebal
	vmgrSiteMClose
	vmgrSiteMClear
	vmgrSiteRRAdd
	vmgrSiteRndSize
	vmgrSiteLBIdx
	// an atomic operation on the status word in Pick that is neither the load nor one of the two CAS of the code the
	// model was written against (placed by tools/mgrpoints when Pick has been edited; never on the unchanged code)
	vmgrSiteStW
)

var vmgrSiteNames = []string{"?", "load", "cas", "cas2", "rload", "rclose", "ropen", "rgo", "rstore", "rrebal",
	"mclose", "mclear", "rradd", "rndsize", "lbidx", "stw"}

// VmgrHook is called at every schedule point when set (only during a scheduled phase).
var VmgrHook func(site int)

// VmgrHooked reports whether the build contains the vmgrPoint calls (set by a probe at start-up).
var vmgrHookSeen bool

func vmgrPoint(site int) {
	if h := VmgrHook; h != nil {
		h(site)
	}
}

type vmgrActor struct {
	id       int
	site     int
	resume   chan struct{}
	done     chan struct{}
	res      Poll
	panicked bool
	pmsg     string
	finished bool
}

// ---- world -----------------------------------------------------------------------------------

// patience for things that normally take microseconds (a closed poller's loop closing its descriptors,
// a probe's answer, a Pick returning).  Generous and scaled with the machine's load, because an expiry is
// reported as a finding; after three expiries the process gives up (the replies so far show the problem).
var vmgrPatience = 6 * time.Second
var vmgrExpiries int

func vmgrInitPatience() {
	b, err := os.ReadFile("/proc/loadavg")
	if err != nil {
		return
	}
	f := strings.Fields(string(b))
	if len(f) == 0 {
		return
	}
	l, err := strconv.ParseFloat(f[0], 64)
	if err != nil {
		return
	}
	k := l / float64(runtime.NumCPU())
	if k < 1 {
		k = 1
	}
	if k > 8 {
		k = 8
	}
	vmgrPatience = time.Duration(float64(6*time.Second) * k)
}

func vmgrExpired() {
	vmgrExpiries++
}

type vmgrWorld struct {
	m      *manager
	known  []*defaultPoll // id = index, in order of first appearance in m.polls
	closed map[int]bool
	waited map[int]bool
	base   int // epoll descriptors that existed before the scenario
	dead   bool
	holds  []*vmgrHold // loops parked in a callback by a `pend` op; released before the next look at the descriptors
}

// vmgrHold parks a poller's loop inside the OnRead callback of a pipe registered with it (what a slow user callback does
// to the loop), so that whatever is written to the poller's eventfd meanwhile - a Trigger(), then the Close() of a
// shrinking Run / Reset / manager.Close - is still unread when the loop comes back: the eventfd is a counter, one read
// returns the SUM of the writes.  The callback removes the pipe from the epoll set itself before it returns (the loop's
// own goroutine: its epoll descriptor is certainly still open there).
type vmgrHold struct {
	fds     [2]int
	op      *FDOperator
	entered chan struct{}
	release chan struct{}
	done    chan struct{}
}

func vmgrHoldLoop(p *defaultPoll) *vmgrHold {
	if p == nil || p.wop == nil || !vmgrIsEpollFD(p.fd) || !vmgrIsEventFD(p.wop.FD) {
		return nil
	}
	h := &vmgrHold{entered: make(chan struct{}), release: make(chan struct{}), done: make(chan struct{})}
	if err := syscall.Pipe2(h.fds[:], syscall.O_NONBLOCK|syscall.O_CLOEXEC); err != nil {
		return nil
	}
	first := true
	h.op = &FDOperator{FD: h.fds[0], poll: p}
	h.op.OnRead = func(Poll) error {
		var b [8]byte
		syscall.Read(h.fds[0], b[:])
		if !first {
			return nil
		}
		first = false
		close(h.entered)
		<-h.release
		var evt epollevent
		EpollCtl(p.fd, syscall.EPOLL_CTL_DEL, h.fds[0], &evt)
		close(h.done)
		return nil
	}
	if err := p.Control(h.op, PollReadable); err != nil {
		syscall.Close(h.fds[0])
		syscall.Close(h.fds[1])
		return nil
	}
	syscall.Write(h.fds[1], []byte{1})
	select {
	case <-h.entered:
		return h
	case <-time.After(vmgrPatience):
		vmgrExpired()
		// the loop never came: leave the callback armed-but-harmless (it returns at once when released)
		close(h.release)
		return nil
	}
}

func (h *vmgrHold) let() {
	close(h.release)
	select {
	case <-h.done:
	case <-time.After(vmgrPatience):
		vmgrExpired()
	}
	syscall.Close(h.fds[0])
	syscall.Close(h.fds[1])
	runtime.KeepAlive(h.op)
}

// releaseHolds lets every parked loop go on (called before anything looks at descriptors / probes loops)
func (w *vmgrWorld) releaseHolds() {
	hs := w.holds
	w.holds = nil
	for _, h := range hs {
		h.let()
	}
}

func vmgrIsEpollFD(fd int) bool {
	l, err := os.Readlink("/proc/self/fd/" + strconv.Itoa(fd))
	return err == nil && strings.Contains(l, "eventpoll")
}

func vmgrIsEventFD(fd int) bool {
	l, err := os.Readlink("/proc/self/fd/" + strconv.Itoa(fd))
	return err == nil && strings.Contains(l, "eventfd")
}

func vmgrCensus() int {
	ents, err := os.ReadDir("/proc/self/fd")
	if err != nil {
		return -1
	}
	n := 0
	for _, e := range ents {
		if l, err := os.Readlink("/proc/self/fd/" + e.Name()); err == nil && strings.Contains(l, "eventpoll") {
			n++
		}
	}
	return n
}

// the Go runtime owns one epoll descriptor of its own once its netpoller is initialised
func vmgrWarm() {
	r, w, err := os.Pipe()
	if err == nil {
		r.Close()
		w.Close()
	}
	vmgrCensus()
}

func (w *vmgrWorld) idOf(p Poll) int {
	dp, ok := p.(*defaultPoll)
	if !ok || dp == nil {
		return -1
	}
	for i, k := range w.known {
		if k == dp {
			return i
		}
	}
	w.known = append(w.known, dp)
	return len(w.known) - 1
}

func (w *vmgrWorld) ids(ps []Poll) string {
	ss := make([]string, len(ps))
	for i, p := range ps {
		if p == nil {
			ss[i] = "nil"
		} else {
			ss[i] = strconv.Itoa(w.idOf(p))
		}
	}
	return strings.Join(ss, ",")
}

// refresh: give ids to new pollers (slice order), detect closed ones.  A poller that left the slice
// is given up to 2 s (once) for its loop to close its descriptors; newer pollers reusing the same
// descriptor number prove the older one closed.
func (w *vmgrWorld) refresh() {
	w.releaseHolds()
	if w.m == nil {
		return
	}
	in := map[int]bool{}
	for _, p := range w.m.polls {
		if p != nil {
			in[w.idOf(p)] = true
		}
	}
	if b, ok := w.m.balance.(*roundRobinLB); ok && b != nil {
		for _, p := range b.polls {
			if p != nil {
				w.idOf(p)
			}
		}
	}
	if b, ok := w.m.balance.(*randomLB); ok && b != nil {
		for _, p := range b.polls {
			if p != nil {
				w.idOf(p)
			}
		}
	}
	owner := map[int]int{}
	for id := len(w.known) - 1; id >= 0; id-- {
		if w.closed[id] {
			continue
		}
		fd := w.known[id].fd
		if _, taken := owner[fd]; taken {
			w.closed[id] = true // a younger live poller owns this descriptor number
			continue
		}
		owner[fd] = id
	}
	for id, p := range w.known {
		if w.closed[id] {
			continue
		}
		if in[id] {
			if !vmgrIsEpollFD(p.fd) {
				w.closed[id] = true
			}
			continue
		}
		if w.waited[id] {
			if !vmgrIsEpollFD(p.fd) {
				w.closed[id] = true
			}
			continue
		}
		w.waited[id] = true
		dl := time.Now().Add(vmgrPatience)
		for {
			// the loop closes the eventfd first and the epoll descriptor last
			if !vmgrIsEpollFD(p.fd) {
				w.closed[id] = true
				break
			}
			if time.Now().After(dl) {
				vmgrExpired()
				break
			}
			time.Sleep(50 * time.Microsecond)
		}
	}
}

func (w *vmgrWorld) closedList() string {
	var ids []int
	for id := range w.closed {
		ids = append(ids, id)
	}
	sort.Ints(ids)
	ss := make([]string, len(ids))
	for i, id := range ids {
		ss[i] = strconv.Itoa(id)
	}
	return strings.Join(ss, ",")
}

func (w *vmgrWorld) dump() string {
	if w.m == nil {
		return "nomgr"
	}
	w.refresh()
	m := w.m
	bal := "nil"
	switch b := m.balance.(type) {
	case *roundRobinLB:
		bal = fmt.Sprintf("rr:%s:%d:%d", w.ids(b.polls), b.pollSize, uint64(b.accepted))
	case *randomLB:
		bal = fmt.Sprintf("rand:%s:%d:0", w.ids(b.polls), b.pollSize)
	}
	return fmt.Sprintf("st=%d nl=%d polls=%s bal=%s live=%d closed=%s", m.status, m.numLoops, w.ids(m.polls), bal,
		vmgrCensus()-w.base, w.closedList())
}

// probe: is the poller's loop running?  Never touches a descriptor number that is not (any longer)
// an epoll/eventfd descriptor.
func vmgrProbe(p *defaultPoll) bool {
	if p == nil || p.wop == nil || !vmgrIsEpollFD(p.fd) || !vmgrIsEventFD(p.wop.FD) {
		return false
	}
	if err := p.Trigger(); err != nil {
		return false
	}
	var fds [2]int
	if err := syscall.Pipe2(fds[:], syscall.O_NONBLOCK|syscall.O_CLOEXEC); err != nil {
		return false
	}
	defer syscall.Close(fds[0])
	defer syscall.Close(fds[1])
	ch := make(chan struct{}, 1)
	op := &FDOperator{FD: fds[0], poll: p}
	op.OnRead = func(Poll) error {
		var b [8]byte
		syscall.Read(fds[0], b[:])
		select {
		case ch <- struct{}{}:
		default:
		}
		return nil
	}
	if err := p.Control(op, PollReadable); err != nil {
		return false
	}
	syscall.Write(fds[1], []byte{1})
	ok := false
	select {
	case <-ch:
		ok = true
	case <-time.After(vmgrPatience):
		vmgrExpired()
	}
	p.Control(op, PollDetach)
	runtime.KeepAlive(op)
	return ok
}

func (w *vmgrWorld) aliveList() string {
	w.refresh()
	var ss []string
	for id, p := range w.known {
		if !w.closed[id] && vmgrProbe(p) {
			ss = append(ss, strconv.Itoa(id))
		}
	}
	return strings.Join(ss, ",")
}

// one Pick with panic capture.  A Pick that does not return within vmgrPatience is reported as "hang"; the
// spinning goroutine is then released by forcing status=initialized in-package (the scenario is over).
func (w *vmgrWorld) safePick() (p Poll, pmsg string) {
	type res struct {
		p Poll
		m string
	}
	ch := make(chan res, 1)
	m := w.m
	go func() {
		var r res
		defer func() {
			if e := recover(); e != nil {
				r.p, r.m = nil, fmt.Sprint(e)
			}
			ch <- r
		}()
		r.p = m.Pick()
	}()
	select {
	case r := <-ch:
		return r.p, r.m
	case <-time.After(vmgrPatience):
		vmgrExpired()
		w.dead = true
		atomic.StoreInt32(&m.status, managerInitialized)
		select {
		case <-ch:
		case <-time.After(time.Second):
		}
		return nil, "hang"
	}
}

func (w *vmgrWorld) retStr(p Poll) string {
	w.refresh() // ids are given in slice order first
	id := w.idOf(p)
	idx := -1
	for i, q := range w.m.polls {
		if q == p {
			idx = i
		}
	}
	return fmt.Sprintf("%d:%d", id, idx)
}

func (w *vmgrWorld) cleanup() {
	VmgrHook = nil
	w.releaseHolds()
	if w.m != nil {
		// learn every poller still in the slice (a call that panicked left no dump behind), so that
		// the wait below covers all of them
		for _, p := range w.m.polls {
			if p != nil {
				w.idOf(p)
			}
		}
		func() {
			defer func() { recover() }()
			w.m.Close()
		}()
		// wait for the loops to close their descriptors so the next scenario's census base is stable
		dl := time.Now().Add(vmgrPatience)
		for time.Now().Before(dl) {
			all := true
			for id, p := range w.known {
				if !w.closed[id] && vmgrIsEpollFD(p.fd) {
					all = false
				}
			}
			if all {
				break
			}
			time.Sleep(100 * time.Microsecond)
		}
		time.Sleep(200 * time.Microsecond)
	}
	w.m = nil
}

// ---- output ----------------------------------------------------------------------------------

type vmgrOut struct {
	ops, impl *bufio.Writer
}

func (o *vmgrOut) emit(op, reply string) {
	fmt.Fprintln(o.ops, op)
	fmt.Fprintln(o.impl, reply)
	o.ops.Flush()
	o.impl.Flush()
}

// ---- sequential ops (also used by replay) ------------------------------------------------------

// exec executes one non-scheduled op line and returns the (possibly completed) op line and reply.
func (w *vmgrWorld) exec(toks []string, rng *rand.Rand) (opOut string, rep string) {
	op := strings.Join(toks, " ")
	atoi := func(s string) int { v, _ := strconv.ParseInt(s, 10, 64); return int(v) }
	defer func() {
		if r := recover(); r != nil {
			w.dead = true
			opOut, rep = op, "harness-panic "+strings.ReplaceAll(fmt.Sprint(r), "\n", " ")
		}
	}()
	switch toks[0] {
	case "pend":
		// pend I,J,.. <op ...> : the loops of the pollers in slots I,J,.. of the slice are busy in a callback and have an
		// unconsumed Trigger() when <op> (pick / reset / close) runs; they are let go before the op's reply is taken
		// (first refresh).  The model executes <op> alone: a pending wake-up must not change what the pool does.
		if len(toks) < 3 || w.m == nil {
			return op, "badop"
		}
		for _, t := range strings.Split(toks[1], ",") {
			i, err := strconv.Atoi(t)
			if err != nil || i < 0 || i >= len(w.m.polls) {
				continue
			}
			dp, _ := w.m.polls[i].(*defaultPoll)
			if h := vmgrHoldLoop(dp); h != nil {
				w.holds = append(w.holds, h)
				dp.Trigger()
			}
		}
		inner, r := w.exec(toks[2:], rng)
		w.releaseHolds()
		return "pend " + toks[1] + " " + inner, r
	case "scn":
		w.cleanup()
		*w = vmgrWorld{closed: map[int]bool{}, waited: map[int]bool{}}
		w.base = vmgrCensus()
		return op, "scn"
	case "new":
		w.m = newManager(atoi(toks[1]))
		return op, "ok ## " + w.dump()
	case "setn":
		err := w.m.SetNumLoops(atoi(toks[1]))
		r := "ok"
		if err != nil {
			r = "err"
		}
		return op, r + " ## " + w.dump()
	case "setlb":
		w.m.SetLoadBalance(LoadBalance(atoi(toks[1])))
		return op, "ok ## " + w.dump()
	case "setacc":
		v, _ := strconv.ParseUint(toks[1], 10, 64)
		if b, ok := w.m.balance.(*roundRobinLB); ok {
			b.accepted = uintptr(v)
			return op, "ok ## " + w.dump()
		}
		return op, "norr ## " + w.dump()
	case "pick":
		if atomic.LoadInt32(&w.m.status) == managerInitializing {
			// nobody is inside Run (no Pick is in flight): this Pick would spin for ever
			w.dead = true
			return "pick r=0", "hang"
		}
		p, pmsg := w.safePick()
		ev := "panic"
		r := 0
		if pmsg == "hang" {
			return "pick r=0", "hang"
		}
		if pmsg == "" && p != nil {
			ev = "ret " + w.retStr(p)
			if b, ok := w.m.balance.(*randomLB); ok {
				for i, q := range b.polls {
					if q == p {
						r = i
					}
				}
			}
		} else if pmsg == "" {
			ev = "retnil"
		}
		return fmt.Sprintf("pick r=%d", r), ev + " ## " + w.dump()
	case "cphase", "iphase":
		// cphase K SEED     : K truly concurrent picks
		// iphase K NI SEED  : K concurrent callers of which NI go through the package-level netpoll.Initialize() ("safe to
		//   call it multi times"; it works on the global `pollmanager`, which is swapped for this scenario's manager for the
		//   duration of the phase) and K-NI call Pick; everybody is released from the spinning barrier
		k := atoi(toks[1])
		ni := 0
		opName := fmt.Sprintf("cphase %d", k)
		seedTok := toks[2]
		if toks[0] == "iphase" {
			ni = atoi(toks[2])
			if ni > (k+1)/2 {
				ni = (k + 1) / 2
			}
			if ni < 0 {
				ni = 0
			}
			opName = fmt.Sprintf("iphase %d %d", k, ni)
			seedTok = toks[3]
		}
		seed := int64(atoi(seedTok))
		isInit := func(i int) bool { return i%2 == 0 && i/2 < ni }
		if atomic.LoadInt32(&w.m.status) == managerInitializing {
			w.dead = true
			return fmt.Sprintf("%s %d", opName, seed), "hang"
		}
		res := make([]Poll, k)
		msgs := make([]string, k)
		skew := make([]int, k)
		r2 := rand.New(rand.NewSource(seed))
		for i := range skew {
			skew[i] = r2.Intn(4) * r2.Intn(200)
		}
		var wg sync.WaitGroup
		gate := make(chan struct{})
		// every second phase (odd seed) releases some of its pickers from a SPINNING barrier: they busy-wait on one flag
		// and call Pick directly, so that several of them are between two instructions of Pick at the same time (a
		// channel barrier wakes its waiters one after the other, each with a goroutine switch in between)
		nspin := 0
		if seed%2 == 1 || ni > 0 {
			nspin = runtime.GOMAXPROCS(0) / 2
			if nspin < 2 {
				nspin = 2
			}
			if nspin > k {
				nspin = k
			}
		}
		var flag, ready int32
		mgr := w.m
		if ni > 0 {
			global := pollmanager
			pollmanager = mgr
			defer func() { pollmanager = global }()
		}
		for i := 0; i < k; i++ {
			wg.Add(1)
			if i < nspin || isInit(i) {
				spin := i < nspin
				go func(i int) {
					defer wg.Done()
					defer func() {
						if e := recover(); e != nil {
							res[i], msgs[i] = nil, fmt.Sprint(e)
						}
					}()
					if spin {
						atomic.AddInt32(&ready, 1)
						for atomic.LoadInt32(&flag) == 0 {
						}
					} else {
						<-gate
					}
					if isInit(i) {
						Initialize()
					} else {
						res[i] = mgr.Pick()
					}
				}(i)
				continue
			}
			go func(i int) {
				defer wg.Done()
				<-gate
				for j := 0; j < skew[i]; j++ {
					if j%16 == 15 {
						runtime.Gosched()
					}
				}
				res[i], msgs[i] = w.safePick()
			}(i)
		}
		for dl := time.Now().Add(vmgrPatience); atomic.LoadInt32(&ready) < int32(nspin) && time.Now().Before(dl); {
			runtime.Gosched()
		}
		atomic.StoreInt32(&flag, 1)
		close(gate)
		fin := make(chan struct{})
		go func() { wg.Wait(); close(fin) }()
		select {
		case <-fin:
		case <-time.After(4 * vmgrPatience):
			w.dead = true
			atomic.StoreInt32(&mgr.status, managerInitialized) // lets pickers that spin on the status word go
			return fmt.Sprintf("%s %d", opName, seed), "hang"
		}
		for _, m := range msgs {
			if m == "hang" {
				return fmt.Sprintf("%s %d", opName, seed), "hang"
			}
		}
		if ni > 0 {
			// Initialize() returns nothing: only the callers of Pick have a result (a panic inside Initialize counts)
			var pres []Poll
			var pmsgs []string
			for i := 0; i < k; i++ {
				if !isInit(i) || msgs[i] != "" {
					pres = append(pres, res[i])
					pmsgs = append(pmsgs, msgs[i])
				}
			}
			res, msgs = pres, pmsgs
		}
		return fmt.Sprintf("%s %d%s", opName, seed, w.rndSuffix(res)), w.endLine(res, msgs)
	case "reset":
		var err error
		pan := false
		func() {
			defer func() {
				if recover() != nil {
					pan = true
				}
			}()
			err = w.m.Reset()
		}()
		if pan { // Rebalance on a nil balancer (after Close)
			w.dead = true
			return op, "panic"
		}
		r := "ok"
		if err != nil {
			r = "err"
		}
		return op, r + " ## " + w.dump()
	case "close":
		w.m.Close()
		return op, "ok ## " + w.dump()
	}
	return op, "badop"
}

// for the random balancer the indices drawn are an input of the model
func (w *vmgrWorld) rndSuffix(res []Poll) string {
	b, ok := w.m.balance.(*randomLB)
	if !ok {
		return ""
	}
	var ss []string
	for _, p := range res {
		if p == nil {
			continue
		}
		for i, q := range b.polls {
			if q == p {
				ss = append(ss, strconv.Itoa(i))
				break
			}
		}
	}
	sort.Slice(ss, func(i, j int) bool { a, _ := strconv.Atoi(ss[i]); b, _ := strconv.Atoi(ss[j]); return a < b })
	return " r=" + strings.Join(ss, ",")
}

// end-of-phase line: panics, sorted returned (id:idx), probed-alive pollers, dump
func (w *vmgrWorld) endLine(res []Poll, msgs []string) string {
	w.refresh()
	pan := 0
	var rets [][2]int
	for i, p := range res {
		if msgs[i] != "" || p == nil {
			pan++
			continue
		}
		id := w.idOf(p)
		idx := -1
		for j, q := range w.m.polls {
			if q == p {
				idx = j
			}
		}
		rets = append(rets, [2]int{id, idx})
	}
	sort.Slice(rets, func(i, j int) bool {
		if rets[i][0] != rets[j][0] {
			return rets[i][0] < rets[j][0]
		}
		return rets[i][1] < rets[j][1]
	})
	ss := make([]string, len(rets))
	for i, r := range rets {
		ss[i] = fmt.Sprintf("%d:%d", r[0], r[1])
	}
	alive := w.aliveList()
	return fmt.Sprintf("end panics=%d rets=%s alive=%s ## %s", pan, strings.Join(ss, ","), alive, w.dump())
}

// ---- scheduled phase ---------------------------------------------------------------------------

type vmgrSched struct {
	w       *vmgrWorld
	out     *vmgrOut
	actors  []*vmgrActor
	cur     *vmgrActor
	arrive  chan struct{}
	nextID  int
	rng     *rand.Rand
	aborted bool
}

func (s *vmgrSched) hook(site int) {
	a := s.cur
	a.site = site
	s.arrive <- struct{}{}
	<-a.resume
}

// wait until the current actor parks again or finishes
func (s *vmgrSched) await(a *vmgrActor) bool {
	select {
	case <-s.arrive:
		return true
	case <-a.done:
		a.finished = true
		return true
	case <-time.After(3 * vmgrPatience):
		return false
	}
}

func (s *vmgrSched) spawn(k int) bool {
	for i := 0; i < k; i++ {
		a := &vmgrActor{id: s.nextID, resume: make(chan struct{}), done: make(chan struct{})}
		s.nextID++
		s.actors = append(s.actors, a)
		s.cur = a
		go func() {
			defer close(a.done)
			defer func() {
				if r := recover(); r != nil {
					a.panicked = true
					a.pmsg = fmt.Sprint(r)
				}
			}()
			a.res = s.w.m.Pick()
		}()
		if !s.await(a) {
			return false
		}
	}
	return true
}

func (s *vmgrSched) pcs() string {
	cnt := make([]int, len(vmgrSiteNames))
	for _, a := range s.actors {
		if !a.finished {
			cnt[a.site]++
		}
	}
	var ss []string
	for i := 1; i < len(cnt); i++ {
		if cnt[i] > 0 {
			ss = append(ss, fmt.Sprintf("%s=%d", vmgrSiteNames[i], cnt[i]))
		}
	}
	return strings.Join(ss, ",")
}

func vmgrSetNoFile(cur uint64) (old uint64) {
	var rl syscall.Rlimit
	syscall.Getrlimit(syscall.RLIMIT_NOFILE, &rl)
	old = rl.Cur
	rl.Cur = cur
	syscall.Setrlimit(syscall.RLIMIT_NOFILE, &rl)
	return old
}

// one step of actor a; returns false on hang
func (s *vmgrSched) step(a *vmgrActor, fail bool) bool {
	site := a.site
	var old uint64
	c0 := 0
	if site == vmgrSiteRClose || site == vmgrSiteMClose {
		c0 = vmgrCensus()
	}
	if fail {
		old = vmgrSetNoFile(0)
	}
	s.cur = a
	a.resume <- struct{}{}
	ok := s.await(a)
	if fail {
		vmgrSetNoFile(old)
	}
	if ok && (site == vmgrSiteRClose || site == vmgrSiteMClose) {
		// Close() only asks the loop to exit; give the loop (up to 2 s) to close its descriptors so
		// that the dump after this step is deterministic
		dl := time.Now().Add(vmgrPatience)
		for vmgrCensus() >= c0 && time.Now().Before(dl) {
			time.Sleep(20 * time.Microsecond)
		}
		time.Sleep(50 * time.Microsecond) // the eventfd is closed first, the epoll descriptor second
	}
	op := fmt.Sprintf("step %d %s", a.id, vmgrSiteNames[site])
	if fail {
		op += " f"
	}
	if !ok {
		s.out.emit(op, "hang")
		return false
	}
	ev := "-"
	if a.finished {
		if a.panicked || a.res == nil {
			ev = "panic"
		} else {
			ev = "ret " + s.w.retStr(a.res)
			if b, isr := s.w.m.balance.(*randomLB); isr {
				for i, q := range b.polls {
					if q == a.res {
						op += fmt.Sprintf(" r=%d", i)
						break
					}
				}
			}
		}
	}
	s.out.emit(op, fmt.Sprintf("%s pcs=%s ## %s", ev, s.pcs(), s.w.dump()))
	return true
}

// run the phase to completion with a seeded random scheduler.  inject: fail the j-th openPoll (-1: none)
func (s *vmgrSched) runPhase(inject int) (ok bool) {
	VmgrHook = s.hook
	defer func() { VmgrHook = nil }()
	steps := 0
	opens := 0
	for {
		var live []*vmgrActor
		for _, a := range s.actors {
			if !a.finished {
				live = append(live, a)
			}
		}
		if len(live) == 0 {
			return true
		}
		// livelock: only spinners left while status==initializing
		spinOnly := true
		for _, a := range live {
			if a.site != vmgrSiteLoad && a.site != vmgrSiteCas {
				spinOnly = false
			}
		}
		if spinOnly && s.w.m.status == managerInitializing {
			s.out.emit("livelock", "livelock")
			return false
		}
		var a *vmgrActor
		if steps > 300 {
			// bound the run: prefer an actor that is not spinning
			for _, c := range live {
				if c.site != vmgrSiteLoad && c.site != vmgrSiteCas {
					a = c
				}
			}
		}
		if a == nil {
			a = live[s.rng.Intn(len(live))]
			// run a few steps of the same actor in a row now and then (longer windows)
		}
		fail := false
		if a.site == vmgrSiteROpen {
			if opens == inject {
				fail = true
			}
			opens++
		}
		if !s.step(a, fail) {
			return false
		}
		steps++
		if steps > 5000 {
			s.out.emit("toolong", "toolong")
			return false
		}
	}
}

// ---- generators --------------------------------------------------------------------------------

func vmgrGenSeq(w *vmgrWorld, out *vmgrOut, rng *rand.Rand, nops int) {
	do := func(f string, a ...interface{}) {
		if w.dead && !strings.HasPrefix(f, "scn") {
			return
		}
		op, rep := w.exec(strings.Fields(fmt.Sprintf(f, a...)), rng)
		out.emit(op, rep)
	}
	do("scn seq")
	n0 := 1 + rng.Intn(5)
	if rng.Intn(25) == 0 {
		n0 = 0
	}
	do("new %d", n0)
	bigs := []uint64{1<<63 - 1, 1<<63 - 2, 1<<63 - 5, 1 << 63, 1<<64 - 1, 1<<64 - 3, 1 << 62}
	wrapScn := rng.Intn(6) == 0
	closedAt := -1
	for i := 0; i < nops && !w.dead; i++ {
		if closedAt >= 0 && i > closedAt+4 {
			break
		}
		switch x := rng.Intn(100); {
		case x < 45:
			do("pick")
		case x < 60:
			for j, k := 0, 1+rng.Intn(12); j < k; j++ {
				do("pick")
			}
		case x < 75:
			n := 1 + rng.Intn(6)
			if rng.Intn(12) == 0 {
				n = 0
			}
			do("setn %d", n)
			if rng.Intn(3) == 0 && w.m != nil && len(w.m.polls) > 0 {
				// the reconfiguring Pick (or a Reset) arrives while some loops - usually all - are busy in a callback with a
				// Trigger() not yet consumed: the Close of a surplus poller then coalesces with it on the eventfd counter
				var ss []string
				all := rng.Intn(2) == 0
				for j := range w.m.polls {
					if all || rng.Intn(2) == 0 {
						ss = append(ss, strconv.Itoa(j))
					}
				}
				if len(ss) == 0 {
					ss = []string{strconv.Itoa(len(w.m.polls) - 1)}
				}
				if rng.Intn(6) == 0 {
					do("pend %s reset", strings.Join(ss, ","))
				} else {
					do("pend %s pick", strings.Join(ss, ","))
				}
			} else if rng.Intn(3) == 0 && w.m != nil {
				// multi-step reconfiguration without a Pick in between, ending at the size that is running now
				if rng.Intn(2) == 0 {
					do("setn %d", 1+rng.Intn(6))
				}
				if cur := len(w.m.polls); cur >= 1 {
					do("setn %d", cur)
				}
				do("pick")
			}
		case x < 85:
			do("setlb %d", []int{0, 1, 0, 1, 2, 7}[rng.Intn(6)])
		case x < 93:
			if wrapScn && rng.Intn(2) == 0 {
				do("setacc %d", bigs[rng.Intn(len(bigs))])
			} else {
				do("setacc %d", []int64{rng.Int63n(1 << 40), 1<<32 - 2, 1<<31 - 2, rng.Int63n(1 << 61)}[rng.Intn(4)])
			}
		case x < 96:
			do("reset")
		case x < 97:
			if i > nops*2/3 {
				if rng.Intn(2) == 0 && w.m != nil && len(w.m.polls) > 0 {
					do("pend %d close", rng.Intn(len(w.m.polls)))
				} else {
					do("close")
				}
				closedAt = i
			}
		default:
			if closedAt < 0 {
				do("cphase %d %d", 1+rng.Intn(6), rng.Intn(1<<30))
			}
		}
	}
}

func vmgrGenStress(w *vmgrWorld, out *vmgrOut, rng *rand.Rand) {
	do := func(f string, a ...interface{}) {
		if w.dead && !strings.HasPrefix(f, "scn") {
			return
		}
		op, rep := w.exec(strings.Fields(fmt.Sprintf(f, a...)), rng)
		out.emit(op, rep)
	}
	do("scn stress")
	do("new %d", 1+rng.Intn(6))
	if rng.Intn(3) == 0 {
		do("setlb 1")
	}
	phases := 2 + rng.Intn(4)
	iph := rng.Intn(phases) // one phase of every scenario has callers of Initialize()
	for p := 0; p < phases && !w.dead; p++ {
		if p > 0 {
			if rng.Intn(4) > 0 {
				do("setn %d", 1+rng.Intn(8))
			}
			if rng.Intn(3) == 0 {
				do("setlb %d", rng.Intn(2))
			}
			if rng.Intn(4) == 0 {
				do("setacc %d", rng.Int63n(1<<40))
			}
		}
		if p == iph {
			// netpoll.Initialize() racing the first (lazily initialising) Picks after a reconfiguration that leaves a
			// good number of pollers to open (the longer Run takes, the more callers arrive while it is under way)
			do("setn %d", 4+rng.Intn(13))
			k := 2 + rng.Intn(15)
			do("iphase %d %d %d", k, 1+rng.Intn((k+1)/2), rng.Intn(1<<30))
			continue
		}
		do("cphase %d %d", 2+rng.Intn(63), rng.Intn(1<<30))
	}
}

func vmgrGenSched(w *vmgrWorld, out *vmgrOut, rng *rand.Rand) {
	do := func(f string, a ...interface{}) {
		if w.dead && !strings.HasPrefix(f, "scn") {
			return
		}
		op, rep := w.exec(strings.Fields(fmt.Sprintf(f, a...)), rng)
		out.emit(op, rep)
	}
	do("scn sched")
	do("new %d", 1+rng.Intn(4))
	if rng.Intn(4) == 0 {
		do("setlb 1")
	}
	phases := 1 + rng.Intn(3)
	injectPhase := -1
	if rng.Intn(12) == 0 {
		injectPhase = rng.Intn(phases)
	}
	for p := 0; p < phases && !w.dead; p++ {
		if p > 0 {
			if rng.Intn(5) > 0 {
				do("setn %d", 1+rng.Intn(5))
			}
			if rng.Intn(3) == 0 {
				do("setlb %d", []int{0, 1, 2}[rng.Intn(3)])
			}
			if rng.Intn(4) == 0 {
				do("setacc %d", rng.Int63n(1<<20))
			}
		}
		k := 1 + rng.Intn(5)
		s := &vmgrSched{w: w, out: out, arrive: make(chan struct{}), rng: rng}
		VmgrHook = s.hook
		ok := s.spawn(k)
		VmgrHook = nil
		if !ok {
			out.emit(fmt.Sprintf("spawn %d", k), "hang")
			w.dead = true
			return
		}
		out.emit(fmt.Sprintf("spawn %d", k), fmt.Sprintf("spawned pcs=%s ## %s", s.pcs(), w.dump()))
		inject := -1
		if p == injectPhase {
			inject = rng.Intn(3)
		}
		if !s.runPhase(inject) {
			w.dead = true
			return
		}
		res := make([]Poll, len(s.actors))
		msgs := make([]string, len(s.actors))
		for i, a := range s.actors {
			res[i] = a.res
			if a.panicked {
				msgs[i] = "panic: " + a.pmsg
			}
		}
		out.emit("endphase", w.endLine(res, msgs))
		// after an injected openPoll failure the scenario goes on (closed manager, no balancer: the later phases
		// show how it behaves and whether SetLoadBalance / SetNumLoops revive it); every poller the failing Run had
		// opened was in m.polls when its error path closed it, so the harness knows all of them
	}
}

// ---- replay ------------------------------------------------------------------------------------

// replay executes a recorded op file: sequential ops as they are; a scheduled phase is re-run with
// exactly the recorded actor order (`step <actor> <site> [f]`).
func vmgrReplay(path string, out *vmgrOut) int {
	f, err := os.Open(path)
	if err != nil {
		fmt.Fprintln(os.Stderr, err)
		return 2
	}
	defer f.Close()
	sc := bufio.NewScanner(f)
	sc.Buffer(make([]byte, 1<<20), 1<<20)
	w := &vmgrWorld{closed: map[int]bool{}, waited: map[int]bool{}}
	rng := rand.New(rand.NewSource(1))
	var s *vmgrSched
	for sc.Scan() {
		line := strings.TrimSpace(sc.Text())
		if line == "" || strings.HasPrefix(line, "#") {
			continue
		}
		toks := strings.Fields(line)
		if w.dead && toks[0] != "scn" {
			out.emit(line, "dead")
			continue
		}
		if toks[0] != "scn" && toks[0] != "new" && w.m == nil {
			out.emit(line, "nomgr")
			continue
		}
		switch toks[0] {
		case "spawn":
			k, _ := strconv.Atoi(toks[1])
			s = &vmgrSched{w: w, out: out, arrive: make(chan struct{}), rng: rng}
			VmgrHook = s.hook
			ok := s.spawn(k)
			if !ok {
				VmgrHook = nil
				out.emit(line, "hang")
				w.dead = true
				continue
			}
			out.emit(line, fmt.Sprintf("spawned pcs=%s ## %s", s.pcs(), w.dump()))
		case "step":
			if s == nil {
				out.emit(line, "nosched")
				continue
			}
			id, _ := strconv.Atoi(toks[1])
			var a *vmgrActor
			for _, c := range s.actors {
				if c.id == id && !c.finished {
					a = c
				}
			}
			if a == nil {
				out.emit(line, "noactor")
				continue
			}
			fail := len(toks) > 3 && toks[3] == "f"
			if !s.step(a, fail) {
				w.dead = true
			}
		case "endphase":
			VmgrHook = nil
			if s == nil {
				out.emit(line, "nosched")
				continue
			}
			res := make([]Poll, len(s.actors))
			msgs := make([]string, len(s.actors))
			for i, a := range s.actors {
				res[i] = a.res
				if a.panicked {
					msgs[i] = "panic"
				}
				if !a.finished {
					msgs[i] = "unfinished"
				}
			}
			out.emit(line, w.endLine(res, msgs))
			s = nil
		case "livelock", "toolong":
			out.emit(line, line)
		default:
			op, rep := w.exec(toks, rng)
			if toks[0] == "pick" || toks[0] == "cphase" || toks[0] == "iphase" || toks[0] == "pend" {
				// keep the recorded line (the random indices are re-observed)
				out.emit(op, rep)
			} else {
				out.emit(line, rep)
			}
		}
	}
	VmgrHook = nil
	w.cleanup()
	return 0
}

// does this build contain the schedule points?  Run one Pick on a throw-away manager with a
// counting hook.
func vmgrDetectHooks() bool {
	n := 0
	VmgrHook = func(int) { n++ }
	m := newManager(1)
	func() {
		defer func() { recover() }()
		m.Pick()
	}()
	VmgrHook = nil
	ps := append([]Poll(nil), m.polls...)
	m.Close()
	dl := time.Now().Add(vmgrPatience)
	for _, p := range ps {
		for dp, ok := p.(*defaultPoll); ok && vmgrIsEpollFD(dp.fd) && time.Now().Before(dl); {
			time.Sleep(50 * time.Microsecond)
		}
	}
	return n > 0
}

var _ = unsafe.Pointer(nil)

// VerifMgrHMain: mgrh -seed N -mode seq|sched|stress -n scenarios -ops N -ops-out f -impl-out f | -replay f
func VerifMgrHMain(args []string) int {
	fs := flag.NewFlagSet("mgrh", flag.ContinueOnError)
	seed := fs.Int64("seed", 1, "")
	mode := fs.String("mode", "seq", "")
	n := fs.Int("n", 20, "")
	nops := fs.Int("ops", 40, "")
	opsOut := fs.String("ops-out", "", "")
	implOut := fs.String("impl-out", "", "")
	replay := fs.String("replay", "", "")
	deadline := fs.Int("deadline", 0, "stop generating new scenarios after this many seconds (0: never)")
	if err := fs.Parse(args); err != nil {
		return 2
	}
	if *mode == "hooks" {
		if vmgrDetectHooks() {
			fmt.Println("hooks=yes")
		} else {
			fmt.Println("hooks=no")
		}
		return 0
	}
	fo, err := os.Create(*opsOut)
	if err != nil {
		fmt.Fprintln(os.Stderr, err)
		return 2
	}
	defer fo.Close()
	fi, err := os.Create(*implOut)
	if err != nil {
		fmt.Fprintln(os.Stderr, err)
		return 2
	}
	defer fi.Close()
	out := &vmgrOut{ops: bufio.NewWriter(fo), impl: bufio.NewWriter(fi)}
	defer out.ops.Flush()
	defer out.impl.Flush()
	logger.SetOutput(devNull{})
	vmgrInitPatience()
	vmgrWarm()
	if *replay != "" {
		return vmgrReplay(*replay, out)
	}
	if *mode == "sched" && !vmgrDetectHooks() {
		fmt.Fprintln(os.Stderr, "mgrh: this build has no schedule points (hooks/manager.patch not applied)")
		return 3
	}
	rng := rand.New(rand.NewSource(*seed))
	w := &vmgrWorld{closed: map[int]bool{}, waited: map[int]bool{}}
	t0 := time.Now()
	for i := 0; i < *n; i++ {
		if vmgrExpiries >= 3 {
			fmt.Fprintln(os.Stderr, "mgrh: giving up after repeated time-outs (the replies so far already show the problem)")
			break
		}
		if *deadline > 0 && time.Since(t0) > time.Duration(*deadline)*time.Second {
			fmt.Fprintf(os.Stderr, "mgrh: deadline reached after %d of %d scenarios\n", i, *n)
			break
		}
		switch *mode {
		case "seq":
			vmgrGenSeq(w, out, rng, *nops)
		case "sched":
			vmgrGenSched(w, out, rng)
		case "stress":
			vmgrGenStress(w, out, rng)
		}
	}
	w.cleanup()
	return 0
}

type devNull struct{}

func (devNull) Write(p []byte) (int, error) { return len(p), nil }
