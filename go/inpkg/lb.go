//go:build verif && !race
// +build verif,!race

package netpoll

// T-diff harness for the LinkBuffer model: generates operation sequences, executes them on the real
// LinkBuffer and writes (a) the op lines and (b) one reply line per op with a canonical dump of the
// node chain.  The Lean driver replays (a); the two reply streams are compared textually.
// This file is added to package netpoll at build time with `go build -overlay`.

import (
	"bufio"
	"flag"
	"fmt"
	"github.com/bytedance/gopkg/lang/mcache"
	"math/rand"
	"os"
	"runtime"
	"strings"
	"time"
)

func vDumpLB(id int, b *UnsafeLinkBuffer) string {
	var sb strings.Builder
	idx := map[*linkBufferNode]int{}
	n := 0
	for nd := b.head; nd != nil; nd = nd.next {
		idx[nd] = n
		n++
		if n > 100000 {
			break
		}
	}
	pos := func(p *linkBufferNode) int {
		if p == nil {
			return n
		}
		if i, ok := idx[p]; ok {
			return i
		}
		return -1
	}
	pk := "-"
	if b.cachePeek != nil {
		pk = fmt.Sprintf("%d/%d", len(b.cachePeek), cap(b.cachePeek))
	}
	fmt.Fprintf(&sb, "B%d L=%d M=%d r=%d f=%d w=%d c=%d p=%s n=%d :: ", id, b.length, b.mallocSize,
		pos(b.read), pos(b.flush), pos(b.write), len(b.caches), pk, n)
	i := 0
	for nd := b.head; nd != nil && i < n; nd = nd.next {
		if i > 0 {
			sb.WriteByte(';')
		}
		i++
		var hr, hp uint32 = vFnv(nil), vFnv(nil)
		if nd.off <= len(nd.buf) {
			hr = vFnv(nd.buf[nd.off:])
		}
		if nd.malloc > len(nd.buf) && nd.malloc <= cap(nd.buf) {
			hp = vFnv(nd.buf[len(nd.buf):nd.malloc])
		}
		fmt.Fprintf(&sb, "%d,%d,%d,%d,%d,%d,%d", nd.off, len(nd.buf), nd.malloc, cap(nd.buf), nd.mode&3, hr, hp)
	}
	return sb.String()
}

type vBuf struct {
	b     *LinkBuffer
	dead  bool // donor of an Append, or closed
	child bool // Slice reader
	// contract bookkeeping
	needFlush     bool // an Append happened since the last Flush: reads are outside the contract
	binSinceFlush bool // WriteBinary/WriteString since the last Flush
	booked        bool // used through book/bookAck (input-buffer style)
	written       bool // used through the Writer API (Malloc/Write*/Append): never mixed with book (contract clause 9)
}

type vWorld struct {
	bufs   map[int]*vBuf
	order  []int
	nextID int
	rnd    *rand.Rand
	valid  bool
	capv   int
	big    bool
	own    *vOwn // non-nil: ownership oracle (C02/C03) is on
	// directed scenario class "parse a multi-node input, release late" (valid stream, one sequence in four): see plan()
	planned bool
	plan    []string
	planBuf int
}

func (w *vWorld) dump(ids ...int) string {
	var parts []string
	for _, id := range ids {
		if vb, ok := w.bufs[id]; ok {
			parts = append(parts, vDumpLB(id, vb.b))
		}
	}
	return strings.Join(parts, " | ")
}

// exec runs one op line on the implementation and returns the reply line.
func (w *vWorld) exec(toks []string) (reply string) {
	atoi := func(s string) int {
		var n int
		fmt.Sscanf(s, "%d", &n)
		return n
	}
	id := atoi(toks[1])
	vb := w.bufs[id]
	if w.own != nil {
		w.own.cur = toks
	}
	if toks[0] == "new" {
		vb = &vBuf{b: NewLinkBuffer(atoi(toks[2]))}
		w.bufs[id] = vb
		w.order = append(w.order, id)
		return "ok ## " + w.dump(id)
	}
	if vb == nil {
		return "nobuf"
	}
	b := vb.b
	defer func() {
		if r := recover(); r != nil {
			reply = "panic"
			if toks[0] == "slice" {
				// Slice "will automatically execute a Release": a Slice that got as far as panicking has ended the
				// parent's earlier results (what it freed before is not a free under a live result)
				w.own.released(id)
			}
		}
	}()
	res := "ok"
	touched := []int{id}
	errRes := func(err error) {
		if err != nil {
			res = "err"
		}
	}
	switch toks[0] {
	case "mal":
		n, seed := atoi(toks[2]), atoi(toks[3])
		p, err := b.Malloc(n)
		for i := range p {
			p[i] = vGenByte(seed, i)
		}
		errRes(err)
	case "wbin":
		n, seed, pc := atoi(toks[2]), atoi(toks[3]), atoi(toks[4])
		cp := vGenBytes(seed, n, pc)
		k, err := b.WriteBinary(cp)
		w.own.caller(cp)
		res = fmt.Sprintf("ok n:%d", k)
		errRes(err)
	case "wstr":
		n, seed := atoi(toks[2]), atoi(toks[3])
		k, err := b.WriteString(string(vGenBytes(seed, n, n)))
		res = fmt.Sprintf("ok n:%d", k)
		errRes(err)
	case "wbyte":
		errRes(b.WriteByte(byte(atoi(toks[2]))))
	case "wdir":
		n, seed, ec, remain := atoi(toks[2]), atoi(toks[3]), atoi(toks[4]), atoi(toks[5])
		cp := vGenBytes(seed, n, ec)
		errRes(b.WriteDirect(cp, remain))
		w.own.caller(cp)
		if remain > 0 {
			w.own.markSplit(b)
		}
	case "ack":
		errRes(b.MallocAck(atoi(toks[2])))
	case "flush":
		errRes(b.Flush())
	case "next":
		p, err := b.Next(atoi(toks[2]))
		res = vBytesRes(p)
		errRes(err)
		w.own.view(id, p, false)
	case "peek":
		p, err := b.Peek(atoi(toks[2]))
		res = vBytesRes(p)
		errRes(err)
		w.own.view(id, p, false)
	case "skip":
		errRes(b.Skip(atoi(toks[2])))
	case "rbin":
		p, err := b.ReadBinary(atoi(toks[2]))
		res = vBytesRes(p)
		errRes(err)
		w.own.view(id, p, true)
	case "rstr":
		s, err := b.ReadString(atoi(toks[2]))
		res = vBytesRes([]byte(s))
		errRes(err)
		w.own.view(id, unsafeStringToSlice(s), true)
	case "rbyte":
		c, err := b.ReadByte()
		res = vBytesRes([]byte{c})
		errRes(err)
	case "until":
		p, err := b.Until(byte(atoi(toks[2])))
		res = vBytesRes(p)
		errRes(err)
		w.own.view(id, p, false)
	case "read":
		pl := atoi(toks[2])
		if pl < 0 {
			pl = 0
		}
		p := make([]byte, pl)
		n := b.readCopy(p)
		res = vBytesRes(p[:n])
		w.own.view(id, p[:n], true)
	case "rel":
		// the caller gives up its results by calling Release: they end before the call frees anything
		// (also when the call then panics half way)
		w.own.released(id)
		errRes(b.Release())
	case "close":
		w.own.released(id)
		errRes(b.Close())
	case "len":
		res = fmt.Sprintf("ok n:%d", b.Len())
	case "mlen":
		res = fmt.Sprintf("ok n:%d", b.MallocLen())
	case "bytes":
		res = vBytesRes(b.Bytes())
	case "getbytes":
		k := atoi(toks[2])
		var p [][]byte
		if k > 0 {
			p = make([][]byte, k)
		}
		vs := b.GetBytes(p)
		var parts []string
		for _, v := range vs {
			w.own.view(id, v, false)
			parts = append(parts, fmt.Sprintf("%d.%d", len(v), vFnv(v)))
		}
		res = fmt.Sprintf("ok v:%d:%s", len(vs), strings.Join(parts, ","))
	case "idx":
		res = fmt.Sprintf("ok n:%d", b.indexByte(byte(atoi(toks[2])), atoi(toks[3])))
	case "cmax":
		res = fmt.Sprintf("ok n:%d", b.calcMaxSize())
	case "rtail":
		b.resetTail(atoi(toks[2]))
	case "book":
		bs, ms, n, seed := atoi(toks[2]), atoi(toks[3]), atoi(toks[4]), atoi(toks[5])
		p := b.book(bs, ms)
		if n > len(p) {
			n = len(p)
		}
		for i := 0; i < n; i++ {
			p[i] = vGenByte(seed, i)
		}
		length, _ := b.bookAck(n)
		res = fmt.Sprintf("ok k:%d:%d", len(p), length)
	case "slice":
		nid := atoi(toks[3])
		r, err := b.Slice(atoi(toks[2]))
		if err != nil {
			res = "err"
		} else {
			w.bufs[nid] = &vBuf{b: r.(*LinkBuffer), child: atoi(toks[2]) > 0}
			w.order = append(w.order, nid)
			// "Slice will automatically execute a Release": earlier results of the parent end here
			w.own.released(id)

		}
		touched = append(touched, nid)
	case "app":
		did := atoi(toks[2])
		d := w.bufs[did]
		if d == nil {
			return "nobuf"
		}
		errRes(b.WriteBuffer(d.b))
		touched = append(touched, did)
		// the donor "can't be used after calling WriteBuffer": results obtained from it end here
		w.own.released(did)
	default:
		return "bad-op"
	}
	return res + " ## " + w.dump(touched...)
}

// ---------------------------------------------------------------- generator

func (w *vWorld) sizes(rel ...int) int {
	c := w.capv
	cands := []int{0, 1, 2, 3, c - 1, c, c + 1, 2*c - 1, 2 * c, 2*c + 1, 3 * c, w.rnd.Intn(4*c + 2)}
	for _, r := range rel {
		cands = append(cands, r-1, r, r+1, r/2)
	}
	if w.rnd.Intn(12) == 0 {
		th := []int{1023, 1024, 1025, 4095, 4096, 4097, 8191, 8192, 8193}
		cands = append(cands, th[w.rnd.Intn(len(th))])
	}
	if w.big && w.rnd.Intn(300) == 0 {
		cands = append(cands, 8388608-1+w.rnd.Intn(3))
	}
	n := cands[w.rnd.Intn(len(cands))]
	if n < 0 {
		n = 0
	}
	return n
}

func (w *vWorld) live(pred func(*vBuf) bool) (int, *vBuf) {
	var ids []int
	for _, id := range w.order {
		vb := w.bufs[id]
		if vb != nil && pred(vb) {
			ids = append(ids, id)
		}
	}
	if len(ids) == 0 {
		return -1, nil
	}
	id := ids[w.rnd.Intn(len(ids))]
	return id, w.bufs[id]
}

// gen produces the next op line (contract-respecting when w.valid).
func (w *vWorld) gen() string {
	r := w.rnd
	if w.valid && !w.planned {
		w.planned = true
		if r.Intn(4) == 0 {
			w.makePlan()
		}
	}
	if len(w.plan) > 0 {
		k := w.plan[0]
		w.plan = w.plan[1:]
		return w.planStep(k)
	}
	if len(w.order) == 0 || r.Intn(40) == 0 && len(w.order) < 6 {
		id := w.nextID
		w.nextID++
		sz := []int{0, 0, 1, w.capv - 1, w.capv, w.capv + 1, 3 * w.capv, r.Intn(3*w.capv + 1)}
		return fmt.Sprintf("new %d %d", id, sz[r.Intn(len(sz))])
	}
	for tries := 0; tries < 50; tries++ {
		var id int
		var vb *vBuf
		if w.valid {
			id, vb = w.live(func(v *vBuf) bool { return !v.dead })
		} else {
			id, vb = w.live(func(v *vBuf) bool { return true })
		}
		if vb == nil {
			id := w.nextID
			w.nextID++
			return fmt.Sprintf("new %d %d", id, r.Intn(2*w.capv))
		}
		b := vb.b
		L, M := b.Len(), b.MallocLen()
		writable := !vb.child || !w.valid
		readable := !vb.needFlush || !w.valid
		k := r.Intn(100)
		switch {
		case k < 14 && writable && !(vb.booked && w.valid):
			vb.written = true
			return fmt.Sprintf("mal %d %d %d", id, w.sizes(), r.Intn(1000))
		case k < 20 && writable && !(vb.booked && w.valid):
			n := w.sizes()
			if r.Intn(3) == 0 {
				n = 4090 + r.Intn(16)
			}
			pc := n
			if r.Intn(4) == 0 {
				pc = n + r.Intn(9000)
			}
			vb.binSinceFlush = vb.binSinceFlush || n > 0
			vb.written = true
			if r.Intn(2) == 0 {
				return fmt.Sprintf("wstr %d %d %d", id, n, r.Intn(1000))
			}
			return fmt.Sprintf("wbin %d %d %d %d", id, n, r.Intn(1000), pc)
		case k < 23 && writable && !(vb.booked && w.valid):
			vb.written = true
			return fmt.Sprintf("wbyte %d %d", id, r.Intn(251))
		case k < 28 && writable && !(vb.booked && w.valid):
			if w.valid && (vb.binSinceFlush || vb.needFlush) {
				continue
			}
			remain := 0
			if M > 0 {
				remain = []int{0, 1, M - 1, M, r.Intn(M + 1)}[r.Intn(5)]
			}
			if !w.valid && r.Intn(3) == 0 {
				remain = M + 1 + r.Intn(3) - r.Intn(2*M+4)
			}
			n := w.sizes()
			vb.written = true
			return fmt.Sprintf("wdir %d %d %d %d %d", id, n, r.Intn(1000), n+r.Intn(2)*r.Intn(100), remain)
		case k < 34 && writable && !(vb.booked && w.valid):
			if w.valid && vb.needFlush {
				continue
			}
			n := 0
			if M > 0 {
				n = []int{0, 0, 1, M - 1, M, r.Intn(M + 1)}[r.Intn(6)]
			}
			if !w.valid && r.Intn(3) == 0 {
				n = M + 1 + r.Intn(5) - r.Intn(3)*(M+3)
			}
			if w.valid {
				vb.binSinceFlush = vb.binSinceFlush && n > 0
			}
			return fmt.Sprintf("ack %d %d", id, n)
		case k < 46 && writable:
			vb.needFlush, vb.binSinceFlush = false, false
			return fmt.Sprintf("flush %d", id)
		case k < 49 && writable && !(vb.booked && w.valid):
			did, d := w.live(func(v *vBuf) bool { return (!v.dead && !v.child && !v.booked || !w.valid) && v != vb })
			if d == nil {
				continue
			}
			vb.written = true
			if d.b.Len()+d.b.MallocLen() > 0 {
				d.dead = true
				vb.needFlush = true
				vb.binSinceFlush = true
			}
			return fmt.Sprintf("app %d %d", id, did)
		case k < 56 && readable:
			return fmt.Sprintf("next %d %d", id, w.rdSize(L))
		case k < 62 && readable:
			return fmt.Sprintf("peek %d %d", id, w.rdSize(L))
		case k < 66 && readable:
			return fmt.Sprintf("skip %d %d", id, w.rdSize(L))
		case k < 70 && readable:
			if r.Intn(2) == 0 {
				return fmt.Sprintf("rstr %d %d", id, w.rdSize(L))
			}
			return fmt.Sprintf("rbin %d %d", id, w.rdSize(L))
		case k < 72 && readable:
			return fmt.Sprintf("rbyte %d", id)
		case k < 75 && readable:
			return fmt.Sprintf("until %d %d", id, r.Intn(251))
		case k < 78 && readable:
			return fmt.Sprintf("read %d %d", id, w.rdSize(L))
		case k < 82 && readable:
			nid := w.nextID
			w.nextID++
			return fmt.Sprintf("slice %d %d %d", id, w.rdSize(L), nid)
		case k < 88:
			return fmt.Sprintf("rel %d", id)
		case k < 89:
			vb.dead = true
			return fmt.Sprintf("close %d", id)
		case k < 91:
			return fmt.Sprintf("len %d", id)
		case k < 92:
			return fmt.Sprintf("mlen %d", id)
		case k < 94 && readable && (!vb.child || !w.valid):
			if r.Intn(2) == 0 {
				return fmt.Sprintf("bytes %d", id)
			}
			return fmt.Sprintf("getbytes %d %d", id, r.Intn(5))
		case k < 95 && readable:
			sk := w.rdSize(L)
			if sk < 0 {
				sk = 0
			}
			return fmt.Sprintf("idx %d %d %d", id, r.Intn(251), sk)
		case k < 99 && writable:
			// input-buffer style use: only on buffers never written through the Writer API
			// (the connection's input buffer is filled by book/bookAck only)
			if w.valid && (M > 0 || vb.needFlush || vb.written) {
				continue
			}
			vb.booked = true
			ms := []int{w.capv, 2 * w.capv, 4096, 8192, 8193, 16384, r.Intn(4*w.capv) + 1}[r.Intn(7)]
			switch r.Intn(6) {
			case 0:
				return fmt.Sprintf("rtail %d %d", id, ms)
			case 1:
				return fmt.Sprintf("cmax %d", id)
			}
			bs := []int{1, w.capv / 2, w.capv, 2 * w.capv, 4096, r.Intn(4*w.capv) + 1}[r.Intn(6)]
			if bs < 1 {
				bs = 1
			}
			return fmt.Sprintf("book %d %d %d %d %d", id, bs, ms, []int{0, 1, bs / 2, bs, bs}[r.Intn(5)], r.Intn(1000))
		}
	}
	return fmt.Sprintf("len %d", w.order[0])
}

// makePlan: a history the uniform op mix rarely produces although protocol parsers do exactly this - a buffer is
// filled with several nodes, then consumed node by node with no Release in between, each node either by a
// zero-copy read (Next, or Peek+Skip: the node is exposed and must survive until Release) or by a copying read
// (Skip/ReadBinary/ReadString: not exposed), with connection-style Reads (readCopy: recycles the unexposed
// consumed nodes at once and re-links the exposed ones) at random positions.  So every exposure pattern of the
// consumed nodes meets readCopy.  Then new node structs are taken (the recycled ones come back from linkedPool)
// and only then the reader is released.
func (w *vWorld) makePlan() {
	r := w.rnd
	w.plan = []string{"new"}
	for i, k := 0, 4+r.Intn(4); i < k; i++ {
		w.plan = append(w.plan, "fill")
		if r.Intn(4) != 0 || i == k-1 {
			w.plan = append(w.plan, "flush")
		}
	}
	for round, rounds := 0, 1+r.Intn(2); round < rounds; round++ {
		for i, k := 0, 1+r.Intn(4); i < k; i++ {
			w.plan = append(w.plan, "node")
		}
		w.plan = append(w.plan, "read")
	}
	for i, k := 0, []int{0, 1, 1, 2}[r.Intn(4)]; i < k; i++ {
		w.plan = append(w.plan, "alloc")
	}
	w.plan = append(w.plan, "rel")
}

func (w *vWorld) planStep(kind string) string {
	r := w.rnd
	id := w.planBuf
	c := w.capv
	// what is left of the node the next read starts in
	rest := func() (int, int) {
		b := w.bufs[id].b
		L := b.Len()
		nd := b.read
		for nd != nil && nd != b.flush && nd.Len() == 0 {
			nd = nd.next
		}
		n := 0
		if nd != nil {
			n = nd.Len()
		}
		if n > L {
			n = L
		}
		return n, L
	}
	switch kind {
	case "new":
		w.planBuf = w.nextID
		w.nextID++
		return fmt.Sprintf("new %d %d", w.planBuf, []int{0, 1, c, c}[r.Intn(4)])
	case "fill":
		w.bufs[id].written = true
		return fmt.Sprintf("mal %d %d %d", id, []int{c, c, c - 1, c + 1, c / 2, 2 * c, 1 + r.Intn(2*c)}[r.Intn(7)], r.Intn(1000))
	case "flush":
		return fmt.Sprintf("flush %d", id)
	case "node":
		n, L := rest()
		switch r.Intn(6) {
		case 0:
			if n > 1 {
				n = 1 + r.Intn(n) // part of the node only
			}
		case 1:
			n += []int{1, c}[r.Intn(2)] // into / over the next node
			if n > L {
				n = L
			}
		}
		op := []string{"next", "next", "next", "peek", "skip", "skip", "rbin", "rstr"}[r.Intn(8)]
		if op == "peek" {
			// Peek exposes without consuming; the following planned step consumes
			if n > 1 && r.Intn(2) == 0 {
				n = 1 + r.Intn(n)
			}
			w.plan = append([]string{"node-unexposing"}, w.plan...)
		}
		return fmt.Sprintf("%s %d %d", op, id, n)
	case "node-unexposing":
		n, _ := rest()
		return fmt.Sprintf("%s %d %d", []string{"skip", "rbin", "rstr"}[r.Intn(3)], id, n)
	case "read":
		n, L := rest()
		n = []int{n, n, n, n - 1, n + 1, n + c, L, 1, w.rdSize(L)}[r.Intn(9)]
		if n < 0 {
			n = 0
		}
		return fmt.Sprintf("read %d %d", id, n)
	case "alloc":
		if r.Intn(3) == 0 {
			nid := w.nextID
			w.nextID++
			return fmt.Sprintf("new %d %d", nid, []int{0, 1, c, 2 * c}[r.Intn(4)])
		}
		w.bufs[id].written = true
		return fmt.Sprintf("mal %d %d %d", id, []int{1, c, c + 1, 3 * c}[r.Intn(4)], r.Intn(1000))
	}
	return fmt.Sprintf("rel %d", id)
}

func (w *vWorld) rdSize(L int) int {
	r := w.rnd
	if w.valid && r.Intn(8) != 0 {
		if L == 0 {
			return []int{0, 1}[r.Intn(2)]
		}
		return []int{1, 2, L / 2, L - 1, L, r.Intn(L + 1), r.Intn(L + 1), w.capv, w.capv + 1}[r.Intn(9)]
	}
	n := w.sizes(L)
	if r.Intn(20) == 0 {
		n = -n
	}
	return n
}

// vFlushEach (env VERIF_LB_FLUSH=1): write every op line through before the op runs, so that after a fatal error of the process
// (not recoverable: stack overflow, …) the op being executed is the last line on file.  Used for the re-run after a crash.
var vFlushEach = os.Getenv("VERIF_LB_FLUSH") != ""

// vExecGuard runs one op with a watchdog: a call into the buffer that never returns (e.g. a walk over a node
// chain that has become cyclic) is reported as "hang" and ends the process (exit code 3): the spinning
// goroutine cannot be stopped and would disturb everything after it.
func vExecGuard(w *vWorld, toks []string, ow, iw, ownW *bufio.Writer) string {
	ch := make(chan string, 1)
	go func() { ch <- w.exec(toks) }()
	select {
	case r := <-ch:
		return r
	case <-time.After(20 * time.Second):
		fmt.Fprintln(iw, "hang")
		if ownW != nil {
			fmt.Fprintln(ownW, "@@  !! hang: the call never returned")
			ownW.Flush()
		}
		if ow != nil {
			ow.Flush()
		}
		iw.Flush()
		os.Exit(3)
		return "hang"
	}
}

// VerifLBMain: lbdiff -seed S -seqs N -ops K -mode valid|malformed -ops-out F -impl-out F [-replay F]
func VerifLBMain(args []string) int {
	fs := flag.NewFlagSet("lbdiff", flag.ContinueOnError)
	seed := fs.Int64("seed", 1, "")
	seqs := fs.Int("seqs", 100, "")
	nops := fs.Int("ops", 60, "")
	mode := fs.String("mode", "valid", "")
	opsOut := fs.String("ops-out", "", "")
	implOut := fs.String("impl-out", "", "")
	replay := fs.String("replay", "", "")
	big := fs.Bool("big", false, "")
	poison := fs.Bool("poison", false, "poison freed pool blocks")
	ownOut := fs.String("own-out", "", "ownership oracle (C02/C03): one line of allocator events and problems per op")
	if err := fs.Parse(args); err != nil {
		return 2
	}
	mcache.VerifDoPoison = *poison
	io, err := os.Create(*implOut)
	if err != nil {
		fmt.Fprintln(os.Stderr, err)
		return 2
	}
	defer io.Close()
	iw := bufio.NewWriter(io)
	defer iw.Flush()
	saveCap := LinkBufferCap
	defer func() { LinkBufferCap = saveCap }()
	var ownW *bufio.Writer
	if *ownOut != "" {
		// ownership runs: one P, so that linkedPool (a sync.Pool, per-P caches) hands a recycled node struct to
		// the very next newLinkBufferNode, as it does on a busy server.  A node struct released twice then shows
		// at once as a second buffer's block being freed under its data, and replays are reproducible (every op
		// runs in its own goroutine, which could otherwise land on another P and miss the recycled struct).
		runtime.GOMAXPROCS(1)
		of, err := os.Create(*ownOut)
		if err != nil {
			fmt.Fprintln(os.Stderr, err)
			return 2
		}
		defer of.Close()
		ownW = bufio.NewWriter(of)
		defer ownW.Flush()
	}

	if *replay != "" {
		f, err := os.Open(*replay)
		if err != nil {
			fmt.Fprintln(os.Stderr, err)
			return 2
		}
		defer f.Close()
		sc := bufio.NewScanner(f)
		sc.Buffer(make([]byte, 1<<20), 1<<20)
		var w *vWorld
		dead := false
		for sc.Scan() {
			line := strings.TrimSpace(sc.Text())
			if line == "" || strings.HasPrefix(line, "#") {
				continue
			}
			toks := strings.Fields(line)
			if toks[0] == "seq" {
				var c int
				fmt.Sscanf(toks[2], "%d", &c)
				LinkBufferCap = c
				mcache.VerifReset()
				w = &vWorld{bufs: map[int]*vBuf{}, capv: c}
				if ownW != nil {
					w.own = newVOwn()
					w.own.attach(w)
					fmt.Fprintln(ownW, "seq")
				}
				dead = false
				fmt.Fprintln(iw, "seq")
				continue
			}
			if w == nil {
				w = &vWorld{bufs: map[int]*vBuf{}, capv: LinkBufferCap}
			}
			if dead {
				fmt.Fprintln(iw, "dead")
				if ownW != nil {
					fmt.Fprintln(ownW, "dead")
				}
				continue
			}
			rep := vExecGuard(w, toks, nil, iw, ownW)
			if rep == "panic" {
				dead = true
			}
			fmt.Fprintln(iw, rep)
			if ownW != nil {
				fmt.Fprintln(ownW, strings.TrimSpace(w.own.after(w)))
				iw.Flush()
				ownW.Flush()
			}
		}
		return 0
	}

	oo, err := os.Create(*opsOut)
	if err != nil {
		fmt.Fprintln(os.Stderr, err)
		return 2
	}
	defer oo.Close()
	ow := bufio.NewWriter(oo)
	defer ow.Flush()
	rnd := rand.New(rand.NewSource(*seed))
	caps := []int{8, 16, 16, 64, 64, 256, 4096}
	for s := 0; s < *seqs; s++ {
		c := caps[rnd.Intn(len(caps))]
		LinkBufferCap = c
		mcache.VerifReset()
		w := &vWorld{bufs: map[int]*vBuf{}, rnd: rnd, valid: *mode == "valid", capv: c, big: *big}
		fmt.Fprintf(ow, "seq %d %d\n", s, c)
		fmt.Fprintln(iw, "seq")
		if ownW != nil {
			w.own = newVOwn()
			w.own.attach(w)
			fmt.Fprintln(ownW, "seq")
		}
		for i := 0; i < *nops; i++ {
			line := w.gen()
			fmt.Fprintln(ow, line)
			if ownW != nil || vFlushEach {
				ow.Flush()
				iw.Flush()
			}
			rep := vExecGuard(w, strings.Fields(line), ow, iw, ownW)
			fmt.Fprintln(iw, rep)
			if ownW != nil {
				fmt.Fprintln(ownW, strings.TrimSpace(w.own.after(w)))
				// flush per line: after a crash or hang of the code under test the last sequence on file is the failing input
				ow.Flush()
				iw.Flush()
				ownW.Flush()
			}
			if rep == "panic" {
				break
			}
		}
	}
	return 0
}
