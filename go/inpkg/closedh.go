//go:build verif
// +build verif

package netpoll

// C12 harness: puts real connections (socketpair, real poller) into every post-close state of the
// property's table and calls every Reader / Writer / Connection method on them, once or twice, with a
// recover and a watchdog. One `cell …` op line and one reply line per cell; the Lean model
// (Netpoll.Conn.Closed via `npdriver closed`) computes the same cells.

import (
	"bufio"
	"context"
	"errors"
	"flag"
	"fmt"
	"os"
	"strings"
	"sync/atomic"
	"syscall"
	"time"

	"github.com/cloudwego/netpoll/internal/runner"
)

var (
	vcModes   = []string{"user", "peer", "peeruser", "detach"}
	// close modes that go through an OnRequest HANDLER (the handler is started by 10 bytes of input; the cell's `in` column
	// says whether it leaves them unread): huser = the handler calls Close and returns; huserp = it calls Close and then
	// panics; hpeer = the peer closes while the handler runs, the handler consumes the input and returns; hpeerp = the peer
	// closes while the handler runs and the handler then panics; hpanic = the handler panics on the still active connection.
	vcHModes = []string{"huser", "huserp", "hpeer", "hpeerp", "hpanic"}
	vcMethods = []string{"next", "peek", "skip", "rstr", "rbin", "rbyte", "slice", "rel", "len", "until", "read",
		"malloc", "mlen", "flush", "ack", "append", "wstr", "wbin", "wdir", "wbyte", "write", "isactive", "close", "detach"}
)

const vcInBytes = 10

func vcWait(cond func() bool) bool {
	dl := time.Now().Add(2 * time.Second)
	for !cond() {
		if time.Now().After(dl) {
			return false
		}
		time.Sleep(50 * time.Microsecond)
	}
	return true
}

// vcHeadNil reports whether the buffer has been recycled (Close sets head to nil); read under the
// race-build mutex when there is one.
func vcHeadNil(b *LinkBuffer) bool { return b.memorySize() == 0 && b.MallocLen() == 0 && vcNoNodes(b) }

func vcErr(err error) string {
	switch {
	case err == nil:
		return ""
	case errors.Is(err, ErrEOF) && errors.Is(err, ErrConnClosed):
		return "eof"
	case errors.Is(err, ErrConnClosed):
		return "closed"
	default:
		return "other"
	}
}

// vcCall performs one method call and classifies the outcome.
func vcCall(c *connection, meth string, arg int) (out string) {
	done := make(chan string, 1)
	go func() {
		defer func() {
			if r := recover(); r != nil {
				done <- "panic"
			}
		}()
		bytesOut := func(p []byte, err error) string {
			if e := vcErr(err); e != "" {
				if len(p) > 0 {
					return fmt.Sprintf("errwith %d:%d %s", len(p), vFnv(p), e)
				}
				return "err " + e
			}
			return vBytesRes(p)
		}
		plain := func(err error) string {
			if e := vcErr(err); e != "" {
				return "err " + e
			}
			return "ok"
		}
		switch meth {
		case "next":
			done <- bytesOut(c.Next(arg))
		case "peek":
			done <- bytesOut(c.Peek(arg))
		case "skip":
			done <- plain(c.Skip(arg))
		case "rstr":
			s, err := c.ReadString(arg)
			done <- bytesOut([]byte(s), err)
		case "rbin":
			done <- bytesOut(c.ReadBinary(arg))
		case "rbyte":
			b, err := c.ReadByte()
			if err != nil {
				done <- plain(err)
			} else {
				done <- vBytesRes([]byte{b})
			}
		case "slice":
			_, err := c.Slice(arg)
			done <- plain(err)
		case "rel":
			done <- plain(c.Release())
		case "len":
			done <- fmt.Sprintf("ok n:%d", c.Len())
		case "until":
			done <- bytesOut(c.Until(byte(arg)))
		case "read":
			p := make([]byte, arg)
			n, err := c.Read(p)
			if err != nil {
				done <- plain(err)
			} else {
				done <- vBytesRes(p[:n])
			}
		case "malloc":
			_, err := c.Malloc(5)
			done <- plain(err)
		case "mlen":
			done <- fmt.Sprintf("ok n:%d", c.MallocLen())
		case "flush":
			done <- plain(c.Flush())
		case "ack":
			done <- plain(c.MallocAck(0))
		case "append":
			lb := NewLinkBuffer()
			lb.WriteByte(1)
			lb.Flush()
			done <- plain(c.Append(lb))
		case "wstr":
			_, err := c.WriteString("abc")
			done <- plain(err)
		case "wbin":
			_, err := c.WriteBinary([]byte("abc"))
			done <- plain(err)
		case "wdir":
			done <- plain(c.WriteDirect([]byte("abc"), 0))
		case "wbyte":
			done <- plain(c.WriteByte(7))
		case "write":
			_, err := c.Write([]byte("abc"))
			done <- plain(err)
		case "isactive":
			if c.IsActive() {
				done <- "ok n:1"
			} else {
				done <- "ok n:0"
			}
		case "close":
			done <- plain(c.Close())
		case "detach":
			done <- plain(c.Detach())
		default:
			done <- "bad-method"
		}
	}()
	select {
	case s := <-done:
		return s
	case <-time.After(5 * time.Second):
		return "hang"
	}
}

func vcPair() (int, int) {
	fds, err := syscall.Socketpair(syscall.AF_UNIX, syscall.SOCK_STREAM, 0)
	if err != nil {
		panic(err)
	}
	return fds[0], fds[1]
}

// vcCell builds the state of one cell and runs the calls.
func vcCell(mode string, cb, in, outp, reuse, tmo bool, meth string, arg, rep int) string {
	fd, peer := vcPair()
	peerOpen := true
	defer func() {
		if peerOpen {
			syscall.Close(peer)
		}
	}()
	c := &connection{}
	closed := make(chan struct{}, 1)
	connected := make(chan struct{}, 1)
	opts := &options{}
	hmode := strings.HasPrefix(mode, "h")
	entered, proceed, taskOver := make(chan struct{}, 1), make(chan struct{}), make(chan struct{}, 64)
	if hmode {
		calls := 0
		opts.onRequest = func(ctx context.Context, conn Connection) error {
			calls++
			rd := conn.Reader()
			if calls > 1 {
				// called again because input is left on a connection the peer closed: consume it
				rd.Skip(rd.Len())
				rd.Release()
				return nil
			}
			entered <- struct{}{}
			<-proceed
			if !in {
				rd.Skip(rd.Len())
				rd.Release()
			}
			if mode == "huser" || mode == "huserp" {
				conn.Close()
			}
			if mode == "huserp" || mode == "hpeerp" || mode == "hpanic" {
				panic("verif: handler panic")
			}
			return nil
		}
		// learn when the handler task is over, and keep its panic from the pool's logger: the REAL runner still runs the task
		ctxKey := vcTaskKey{}
		opts.onPrepare = func(Connection) context.Context { return context.WithValue(context.Background(), ctxKey, taskOver) }
	}
	if cb {
		opts.onConnect = func(ctx context.Context, conn Connection) context.Context {
			connected <- struct{}{}
			return ctx
		}
	}
	if err := c.init(&netFD{fd: fd}, opts); err != nil {
		return "setup-failed init: " + err.Error()
	}
	c.AddCloseCallback(func(Connection) error {
		closed <- struct{}{}
		return nil
	})
	if cb {
		c.onConnect()
		select {
		case <-connected:
		case <-time.After(2 * time.Second):
			return "setup-failed onconnect"
		}
		if !vcWait(func() bool { return c.isUnlock(processing) && c.isUnlock(connecting) }) {
			return "setup-failed connect-task"
		}
	}
	if in && !hmode {
		if _, err := syscall.Write(peer, vGenBytes(3, vcInBytes, 0)); err != nil {
			return "setup-failed write"
		}
		if !vcWait(func() bool { return c.inputBuffer.Len() == vcInBytes }) {
			return "setup-failed input"
		}
	}
	if outp {
		if _, err := c.Malloc(5); err != nil {
			return "setup-failed malloc"
		}
	}
	if tmo {
		// a read timeout is configured and an earlier read has waited and timed out (the reused timer exists)
		c.SetReadTimeout(2 * time.Millisecond)
		if _, err := c.Next(1000); err == nil || !errors.Is(err, ErrReadTimeout) {
			return fmt.Sprintf("setup-failed timed read: %v", err)
		}
	}
	poll := c.operator.poll
	op := c.operator
	waitClosed := func() bool {
		select {
		case <-closed:
		case <-time.After(2 * time.Second):
			return false
		}
		// our callback was registered last, so it runs first; the finalizer registered by init runs last and
		// ends with closeBuffer, which recycles the (always empty) output buffer after the input buffer:
		// the close has completed when the output buffer's chain is gone.
		return vcWait(func() bool {
			return atomic.LoadUint32(&c.closed) > 0 && c.outputBuffer.Len() == 0 && vcHeadNil(c.outputBuffer)
		})
	}
	if hmode {
		// the input starts the handler; the close happens while it runs
		if _, err := syscall.Write(peer, vGenBytes(3, vcInBytes, 0)); err != nil {
			return "setup-failed write"
		}
		select {
		case <-entered:
		case <-time.After(2 * time.Second):
			return "setup-failed handler"
		}
		if !vcWait(func() bool { return c.inputBuffer.Len() == vcInBytes }) {
			return "setup-failed input"
		}
		if mode == "hpeer" || mode == "hpeerp" {
			syscall.Close(peer)
			peerOpen = false
			if !vcWait(func() bool { return !c.IsActive() }) {
				return "setup-failed hup"
			}
		}
		close(proceed)
		// the task ends (normally or by the panic), and the teardown it ran has completed
		if !waitClosed() {
			return "setup-failed close-callback"
		}
		tdl := time.After(2 * time.Second)
		for over := false; !over; {
			select {
			case <-taskOver:
				over = c.isUnlock(connecting)
			case <-tdl:
				return "setup-failed handler-task"
			}
		}
	}
	switch mode {
	case "user":
		c.Close()
		if !waitClosed() {
			return "setup-failed close-callback"
		}
	case "detach":
		c.Detach()
		if !waitClosed() {
			return "setup-failed close-callback"
		}
		defer syscall.Close(fd)
	case "peer", "peeruser":
		syscall.Close(peer)
		peerOpen = false
		if !vcWait(func() bool { return !c.IsActive() }) {
			return "setup-failed hup"
		}
		if cb && !waitClosed() {
			return "setup-failed close-callback"
		}
		if mode == "peeruser" {
			time.Sleep(200 * time.Microsecond)
			c.Close()
			if !cb && !waitClosed() {
				return "setup-failed close-callback2"
			}
		} else if !cb {
			// nothing tears the connection down until the user closes it: do that at the very end
			defer c.Close()
		}
	}
	bstat := ""
	var b *connection
	var bpeer int
	if reuse {
		bstat = " B=noslot"
		// let the poller finish its batch and splice the freed slot back, then allocate until the slot comes back;
		// on a loaded machine the poller may need several rounds (condition-based: up to ~1 s)
		rounds := 1 // not torn down (peer close without callbacks): the slot is still the connection's, one look is enough
		if atomic.LoadUint32(&c.closed) > 0 {
			rounds = 40
		}
		for round := 0; round < rounds && b == nil; round++ {
			for i := 0; i < 3; i++ {
				poll.Trigger()
				time.Sleep(time.Duration(300*(round+1)) * time.Microsecond)
			}
			var extra []*connection
			var extraPeers []int
			for i := 0; i < 16 && b == nil; i++ {
				f2, p2 := vcPair()
				nb := &connection{}
				if err := nb.init(&netFD{fd: f2}, &options{}); err != nil {
					syscall.Close(p2)
					continue
				}
				if nb.operator == op {
					b, bpeer = nb, p2
				} else {
					extra = append(extra, nb)
					extraPeers = append(extraPeers, p2)
				}
			}
			for i, e := range extra {
				e.Close()
				syscall.Close(extraPeers[i])
			}
		}
	}
	outs := []string{}
	for i := 0; i < rep; i++ {
		outs = append(outs, vcCall(c, meth, arg))
	}
	if b != nil {
		// the bystander must still receive data and close normally
		bstat = " B=ok"
		syscall.Write(bpeer, []byte("ping"))
		b.SetReadTimeout(3 * time.Second)
		func() {
			defer func() {
				if r := recover(); r != nil {
					bstat = " B=panic"
				}
			}()
			if p, err := b.Next(4); err != nil || string(p) != "ping" {
				bstat = " B=stalled"
			}
			b.Close()
		}()
		syscall.Close(bpeer)
	}
	return strings.Join(outs, " | ") + bstat
}

type vcTaskKey struct{}

// vcWrapRunTask wraps (does not replace) the task runner: a task of a connection whose context carries a vcTaskKey channel
// recovers its own panic (what gopool's worker would do, minus the log) and reports its end on that channel.
func vcWrapRunTask() {
	orig := runner.RunTask
	runner.RunTask = func(ctx context.Context, f func()) {
		ch, _ := ctx.Value(vcTaskKey{}).(chan struct{})
		if ch == nil {
			orig(ctx, f)
			return
		}
		orig(ctx, func() {
			defer func() {
				recover()
				select {
				case ch <- struct{}{}:
				default:
				}
			}()
			f()
		})
	}
}

// VerifClosedMain: closedh -ops-out F -impl-out F [-replay F] [-shard i -shards n]
func VerifClosedMain(args []string) int {
	fs := flag.NewFlagSet("closedh", flag.ContinueOnError)
	opsOut := fs.String("ops-out", "", "")
	implOut := fs.String("impl-out", "", "")
	replay := fs.String("replay", "", "")
	shard := fs.Int("shard", 0, "")
	shards := fs.Int("shards", 1, "")
	if err := fs.Parse(args); err != nil {
		return 2
	}
	SetNumLoops(1)
	vcWrapRunTask()
	io_, err := os.Create(*implOut)
	if err != nil {
		fmt.Fprintln(os.Stderr, err)
		return 2
	}
	defer io_.Close()
	iw := bufio.NewWriter(io_)
	defer iw.Flush()
	atob := func(s string) bool { return s == "1" }
	runLine1 := func(line string) string {
		t := strings.Fields(line)
		if len(t) != 10 || t[0] != "cell" {
			return "bad-op"
		}
		var arg, rep int
		fmt.Sscanf(t[8], "%d", &arg)
		fmt.Sscanf(t[9], "%d", &rep)
		// watchdog: a cell that never returns (e.g. a Close spinning on a token that was never given back)
		// is reported as stuck and abandoned; the harness goes on with the next cell
		ch := make(chan string, 1)
		go func() {
			defer func() {
				if r := recover(); r != nil {
					ch <- fmt.Sprintf("panic outside the calls: %v", r)
				}
			}()
			ch <- vcCell(t[1], atob(t[2]), atob(t[3]), atob(t[4]), atob(t[5]), atob(t[6]), t[7], arg, rep)
		}()
		select {
		case r := <-ch:
			return r
		case <-time.After(20 * time.Second):
			return "stuck"
		}
	}
	trouble := 0
	runLine := func(line string) string {
		// a tree on which calls hang or cells get stuck is reported from the first few cells; executing thousands
		// more (each one costs a watchdog period) adds nothing
		if trouble >= 6 {
			return "skipped"
		}
		r := runLine1(line)
		if r == "stuck" || strings.Contains(r, "hang") {
			trouble++
		}
		return r
	}
	if *replay != "" {
		f, err := os.Open(*replay)
		if err != nil {
			fmt.Fprintln(os.Stderr, err)
			return 2
		}
		defer f.Close()
		sc := bufio.NewScanner(f)
		for sc.Scan() {
			line := strings.TrimSpace(sc.Text())
			if line == "" || strings.HasPrefix(line, "#") {
				continue
			}
			fmt.Fprintln(iw, runLine(line))
			iw.Flush()
		}
		return 0
	}
	oo, err := os.Create(*opsOut)
	if err != nil {
		fmt.Fprintln(os.Stderr, err)
		return 2
	}
	defer oo.Close()
	ow := bufio.NewWriter(oo)
	defer ow.Flush()
	b2s := func(b bool) string {
		if b {
			return "1"
		}
		return "0"
	}
	k := 0
	for _, mode := range vcModes {
		for _, cb := range []bool{false, true} {
			for _, in := range []bool{false, true} {
				for _, outp := range []bool{false, true} {
					for _, reuse := range []bool{false, true} {
						for _, tmo := range []bool{false, true} {
							for _, meth := range vcMethods {
								if tmo && reuse {
									continue // the two dimensions are independent; not crossed to keep the table small
								}
								argv := []int{4}
								switch meth {
								case "next", "peek", "skip", "rstr", "rbin", "slice", "read":
									argv = []int{4, 20, 0}
								case "until":
									argv = []int{255, int(vGenByte(3, 6))}
								}
								for _, arg := range argv {
									for _, rep := range []int{1, 2} {
										k++
										if k%*shards != *shard {
											continue
										}
										line := fmt.Sprintf("cell %s %s %s %s %s %s %s %d %d", mode, b2s(cb), b2s(in), b2s(outp), b2s(reuse), b2s(tmo), meth, arg, rep)
										fmt.Fprintln(ow, line)
										fmt.Fprintln(iw, runLine(line))
									}
								}
							}
						}
					}
				}
			}
		}
	}
	// handler modes: OnRequest set (OnConnect not), every method with a short and a long argument, each called twice
	for _, mode := range vcHModes {
		for _, in := range []bool{false, true} {
			if in && mode == "hpeer" {
				continue // a handler that returns is called again until it has consumed the input of a peer-closed connection
			}
			for _, outp := range []bool{false, true} {
				for _, reuse := range []bool{false, true} {
					for _, meth := range vcMethods {
						argv := []int{4}
						switch meth {
						case "next", "peek", "skip", "rstr", "rbin", "slice", "read":
							argv = []int{4, 20}
						case "until":
							argv = []int{255, int(vGenByte(3, 6))}
						}
						for _, arg := range argv {
							k++
							if k%*shards != *shard {
								continue
							}
							line := fmt.Sprintf("cell %s 0 %s %s %s 0 %s %d 2", mode, b2s(in), b2s(outp), b2s(reuse), meth, arg)
							fmt.Fprintln(ow, line)
							fmt.Fprintln(iw, runLine(line))
						}
					}
				}
			}
		}
	}
	return 0
}
