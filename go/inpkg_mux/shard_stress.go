//go:build verif
// +build verif

package mux

// -mode stress of the C17 harness: real goroutines, no controlled scheduler, no dependence on the hooks of the
// instrumented shard_queue.go (with the instrumented build they fire and pass straight through, vCur == nil).
// Every goroutine and every stub call injects seeded random perturbation (Gosched 0-3 times, rarely a short
// sleep).  Events are logged under one mutex in real-time order with the line grammar of the controlled modes.

import (
	"context"
	"fmt"
	"runtime"
	"sort"
	"strconv"
	"strings"
	"sync"
	"sync/atomic"
	"time"

	"github.com/cloudwego/netpoll"
	"github.com/cloudwego/netpoll/internal/runner"
)

// sRng: splitmix64 (rand.NewSource costs ~10 us per goroutine)
type sRng uint64

func (r *sRng) next() uint64 {
	*r += 0x9e3779b97f4a7c15
	z := uint64(*r)
	z = (z ^ (z >> 30)) * 0xbf58476d1ce4e5b9
	z = (z ^ (z >> 27)) * 0x94d049bb133111eb
	return z ^ (z >> 31)
}

type sRun struct {
	cfg    *vCfg
	q      *ShardQueue
	conn   *sConn
	sleepp uint64

	mu      sync.Mutex // log, stub state, stub rng
	out     []byte
	events  int
	alive   bool
	inv, wb []int
	se      []int
	nflush  int
	rng     sRng // perturbation of stub calls (drawn under mu)
	sites   map[string]int

	actors  sync.WaitGroup
	workers sync.WaitGroup
}

func (r *sRun) perturbWith(x uint64) {
	for n := x & 3; n > 0; n-- {
		runtime.Gosched()
	}
	if (x>>8)%1000 < r.sleepp {
		time.Sleep(time.Duration(1+(x>>24)%50) * time.Microsecond)
	}
}

func (r *sRun) perturb(g *sRng) { r.perturbWith(g.next()) }

func (r *sRun) perturbStub() {
	r.mu.Lock()
	x := r.rng.next()
	r.mu.Unlock()
	r.perturbWith(x)
}

// snapshot: non-final lines read the shared words with atomic loads; ll, g, sw are printed as 0 there.
func (r *sRun) snapshot(b []byte, final bool) []byte {
	q := r.q
	kv := func(k string, v int64) {
		b = append(b, k...)
		b = strconv.AppendInt(b, v, 10)
	}
	kv(" | st=", int64(atomic.LoadInt32(&q.state)))
	kv(" idx=", int64(atomic.LoadInt32(&q.idx)))
	kv(" tr=", int64(atomic.LoadInt32(&q.trigger)))
	kv(" rn=", int64(atomic.LoadInt32(&q.runNum)))
	kv(" w=", int64(atomic.LoadInt32(&q.w)))
	kv(" r=", int64(atomic.LoadInt32(&q.r)))
	b = append(b, " list="...)
	for i := range q.list {
		if i > 0 {
			b = append(b, ',')
		}
		b = strconv.AppendInt(b, int64(atomic.LoadInt32(&q.list[i])), 10)
	}
	b = append(b, " ll=0 lk="...)
	for i := range q.locks {
		if i > 0 {
			b = append(b, ',')
		}
		b = strconv.AppendInt(b, int64(atomic.LoadInt32(&q.locks[i])), 10)
	}
	b = append(b, " g="...)
	for i := 0; i < r.cfg.size; i++ {
		if i > 0 {
			b = append(b, ',')
		}
		n := 0
		if final && i < len(q.getters) {
			n = len(q.getters[i])
		}
		b = strconv.AppendInt(b, int64(n), 10)
	}
	sw := 0
	if final {
		sw = len(q.swap)
	}
	kv(" sw=", int64(sw))
	al := 0
	if r.alive {
		al = 1
	}
	kv(" al=", int64(al))
	b = append(b, " inv="...)
	b = vAppendInts(b, r.inv)
	b = append(b, " wb="...)
	b = vAppendInts(b, r.wb)
	b = append(b, " se="...)
	b = vAppendInts(b, r.se)
	return b
}

// logS: one "s <actor> <site>[ extra] | snapshot" line; r.mu must be held.
func (r *sRun) logS(actor, site, extra string, final bool) {
	r.events++
	r.sites[site]++
	if !r.cfg.trace {
		return
	}
	r.out = append(r.out, "s "...)
	r.out = append(r.out, actor...)
	r.out = append(r.out, ' ')
	r.out = append(r.out, site...)
	r.out = append(r.out, extra...)
	r.out = r.snapshot(r.out, final)
	r.out = append(r.out, '\n')
}

func (r *sRun) logRet(actor, ret, pmsg string) {
	r.mu.Lock()
	if r.cfg.trace {
		r.out = append(r.out, "ret "+actor+" "+ret+"\n"...)
		if ret == "panic" {
			r.out = append(r.out, "# panic "+actor+": "+strings.ReplaceAll(pmsg, "\n", " ")+"\n"...)
		}
	}
	r.mu.Unlock()
}

// stub connection of stress mode

type sWriter struct {
	netpoll.Writer
	r *sRun
}

type sConn struct {
	netpoll.Connection
	r *sRun
	w sWriter
}

func (c *sConn) IsActive() bool {
	r := c.r
	r.perturbStub()
	r.mu.Lock()
	a := r.alive
	r.mu.Unlock()
	return a
}
func (c *sConn) Writer() netpoll.Writer { return &c.w }
func (c *sConn) Close() error {
	c.r.mu.Lock()
	c.r.alive = false
	c.r.mu.Unlock()
	return nil
}

func (w *sWriter) Append(x netpoll.Writer) error {
	r := w.r
	id := x.(*vIDWriter).id
	r.perturbStub()
	r.mu.Lock()
	defer r.mu.Unlock()
	if r.cfg.apperr[id] {
		r.logS("W0", "getter", " id="+strconv.Itoa(id)+" nil=0 err=1", false)
		return vErrAppend
	}
	r.wb = append(r.wb, id)
	r.logS("W0", "getter", " id="+strconv.Itoa(id)+" nil=0 err=0", false)
	return nil
}

func (w *sWriter) Flush() error {
	r := w.r
	r.perturbStub()
	r.mu.Lock()
	defer r.mu.Unlock()
	r.nflush++
	if !r.alive || r.nflush == r.cfg.flusherr {
		r.logS("W0", "conn.Flush", " err=1", false)
		return vErrFlush
	}
	r.se = append(r.se, r.wb...)
	r.wb = r.wb[:0]
	r.logS("W0", "conn.Flush", " err=0", false)
	return nil
}

func (r *sRun) getter(id int) WriterGetter {
	isNil := r.cfg.nilids[id]
	return func() (netpoll.Writer, bool) {
		r.perturbStub()
		r.mu.Lock()
		r.inv = append(r.inv, id)
		if isNil { // no Append follows
			r.logS("W0", "getter", " id="+strconv.Itoa(id)+" nil=1 err=0", false)
		}
		r.mu.Unlock()
		return &vIDWriter{id: id}, isNil
	}
}

var sCur *sRun // written between runs only

func sRunTask(ctx context.Context, f func()) {
	r := sCur
	r.workers.Add(1)
	go func() {
		defer r.workers.Done()
		defer func() {
			if e := recover(); e != nil {
				r.logRet("W0", "panic", fmt.Sprint(e))
			}
		}()
		f()
	}()
}

// actor: goroutine behind the start barrier; body returns the ret word ("" = no ret line)
func (r *sRun) actor(name string, seed uint64, start chan struct{}, site string, body func() string) {
	r.actors.Add(1)
	go func() {
		defer r.actors.Done()
		g := sRng(seed)
		<-start
		r.perturb(&g)
		ret, pmsg := "panic", ""
		func() {
			defer func() {
				if e := recover(); e != nil {
					pmsg = fmt.Sprint(e)
				}
			}()
			r.mu.Lock()
			if site == "die" {
				r.alive = false
			}
			r.logS(name, site, "", false)
			r.mu.Unlock()
			ret = body()
		}()
		if ret != "" {
			r.logRet(name, ret, pmsg)
		}
	}()
}

func (r *sRun) execute(k int, seed uint64) string {
	cfg := r.cfg
	master := sRng(seed)
	r.rng = sRng(master.next())
	r.alive = true
	r.conn = &sConn{r: r}
	r.conn.w.r = r
	r.q = NewShardQueue(cfg.size, r.conn)
	r.q.idx = int32(cfg.idx0)
	if cfg.trace {
		r.out = append(r.out, "run "...)
		r.out = strconv.AppendInt(r.out, int64(k), 10)
		r.out = append(r.out, cfg.header...)
	}
	sCur = r
	start := make(chan struct{})
	id := 0
	for i, n := range cfg.adders {
		var gts []WriterGetter
		for j := 0; j < n; j++ {
			gts = append(gts, r.getter(id))
			id++
		}
		r.actor("A"+strconv.Itoa(i), master.next(), start, "begin", func() string { r.q.Add(gts...); return "nil" })
	}
	for i := 0; i < cfg.closers; i++ {
		r.actor("C"+strconv.Itoa(i), master.next(), start, "begin", func() string {
			if err := r.q.Close(); err != nil {
				return "err"
			}
			return "nil"
		})
	}
	if cfg.die {
		r.actor("D", master.next(), start, "die", func() string { return "" })
	}
	close(start)
	done := make(chan struct{})
	go func() {
		r.actors.Wait()
		r.workers.Wait() // a worker that respawns calls Add before its own Done
		close(done)
	}()
	t := time.NewTimer(5 * time.Second)
	res := "quiescent"
	select {
	case <-done:
		t.Stop()
	case <-t.C:
		res = "hang"
	}
	r.mu.Lock()
	r.logS("X", "final", "", res == "quiescent")
	r.mu.Unlock()
	return res
}

func vStressMain(cfg *vCfg, n int, seed int64, sleepp int) int {
	runner.RunTask = sRunTask
	cfg.header = strings.Replace(cfg.header, "\n", "-stress\n", 1)
	sites := map[string]int{}
	runs, printed, hangs, stuck := 0, 0, 0, 0
	t0 := time.Now()
	master := sRng(uint64(seed))
	for k := 0; k < n && hangs == 0; k++ {
		r := &sRun{cfg: cfg, sites: sites, sleepp: uint64(sleepp)}
		res := r.execute(k, master.next())
		r.mu.Lock()
		if res == "hang" {
			hangs++
		} else {
			bad := atomic.LoadInt32(&r.q.trigger) != 0
			for i := range r.q.getters {
				bad = bad || len(r.q.getters[i]) != 0
			}
			if bad {
				stuck++
			}
		}
		runs++
		if cfg.trace {
			r.out = append(r.out, "end "+strconv.Itoa(k)+" "+res+" steps="+strconv.Itoa(r.events)+" preempt=0\n"...)
			printed++
			vWrite(r.out)
		}
		r.mu.Unlock()
	}
	var sl []string
	for s := range sites {
		sl = append(sl, s)
	}
	sort.Strings(sl)
	ss := strings.Join(sl, ",")
	if ss == "" {
		ss = "-"
	}
	fmt.Fprintf(vOut, "summary runs=%d printed=%d maxpreempt=0 sites=%s deadlocks=0 cutoffs=0 hangs=%d exhausted=0 goroutines=%d stuck=%d secs=%.3f\n",
		runs, printed, ss, hangs, runtime.NumGoroutine(), stuck, time.Since(t0).Seconds())
	vOut.Flush()
	if hangs > 0 {
		// goroutines of the hung run are still alive and share runner.RunTask: no further runs in this process
		vFatal(4, fmt.Sprintf("stress run %d: actors or workers did not return within 5 s (hang)", runs-1))
	}
	return 0
}
