//go:build verif
// +build verif

package mux

// Controlled-scheduler harness for mux.ShardQueue (property C17).
//
// It is compiled INTO package mux (go build -overlay) together with the instrumented copy of
// shard_queue.go produced by `tools/extract -instr-shard`: every sync/atomic call of that file goes
// through verif{Load,Store,Add,CompareAndSwap}Int32 and every Mutex Lock/Unlock, RunTask call and run of
// plain shared accesses is preceded by verifPoint.  Each hook parks the calling goroutine (an *actor*)
// until the scheduler grants it one step, then performs the real operation.  Exactly one goroutine runs
// at any time: the scheduler, or the actor that was granted a step (while a freshly spawned worker runs
// to its first schedule point the spawner waits for it).
//
// Trace grammar: see vUsage below.

import (
	"bufio"
	"context"
	"errors"
	"flag"
	"fmt"
	"io"
	"math/rand"
	"os"
	"runtime"
	"sort"
	"strconv"
	"strings"
	"sync/atomic"
	"time"
	"unsafe"

	"github.com/cloudwego/netpoll"
	"github.com/cloudwego/netpoll/internal/runner"
)

const vUsage = `shardh: run the real mux.ShardQueue under a controlled scheduler and print step traces.

  run <k> size=<n> idx0=<v> scen=<word>
  new A<i> add <n> | new C<i> close | new D die
  s <actor> <site> [id=<i> nil=<0|1> err=<0|1>] | st= idx= tr= rn= w= r= list=a,b ll= lk=a,b g=l,l sw= al= inv= wb= se=
  ret <actor> <nil|err|panic|done>
  end <k> <quiescent|deadlock|cutoff|hang|badsched> steps=<n> preempt=<p>
  summary runs= printed= maxpreempt= sites= deadlocks= cutoffs= hangs= exhausted= goroutines= [stuck=] secs=

-mode stress (no controlled scheduler; works without instrumentation): scen=<word>-stress, events in real-time order
  s A<i> begin | snap, ret A<i> nil|panic, s C<i> begin | snap, ret C<i> nil|err, s D die | snap,
  s W0 getter id= nil= err= | snap, s W0 conn.Flush err= | snap, ret W0 panic, s X final | snap,
  end <k> quiescent|hang steps=<s lines> preempt=0      (ll g sw are 0 except in the final line)
`

// ---------------------------------------------------------------------------------------------
// hooks called by the instrumented shard_queue.go

var vCur *vRun // the run in progress (only touched by the one goroutine that is running)

type vAbort struct{}

// vGidCheck: every vGidCheck-th schedule point verifies with the goroutine id (parsed from runtime.Stack, ~4 us)
// that the caller is the actor holding the step; 0 = never, 1 = always.  The actor is known without it
// because only one goroutine runs at a time; the check guards that assumption.
var vGidCheck = 8
var vGidCount int

// vInstrumented: is the shard_queue.go of this build the instrumented copy?  Close on a fresh queue passes
// several hooks when it is (no connection, no RunTask needed); vProbing is only written while nothing else runs.
var vProbing bool
var vProbeHits int

func vInstrumented() bool {
	vProbing, vProbeHits = true, 0
	NewShardQueue(1, nil).Close()
	vProbing = false
	return vProbeHits > 0
}

func vGoid() int64 {
	var buf [64]byte
	n := runtime.Stack(buf[:], false)
	var id int64
	for _, c := range buf[len("goroutine "):n] {
		if c < '0' || c > '9' {
			break
		}
		id = id*10 + int64(c-'0')
	}
	return id
}

// vPark: schedule point.  Returns the actor that was granted the step (nil outside a controlled run).
func vPark(site, kind string, p unsafe.Pointer) *vActor {
	if vProbing {
		vProbeHits++
	}
	r := vCur
	if r == nil || r.cur == nil {
		return nil
	}
	a := r.cur
	if vGidCheck > 0 {
		vGidCount++
	}
	if vGidCheck > 0 && vGidCount%vGidCheck == 0 {
		if g := vGoid(); g != a.gid {
			vFatal(5, fmt.Sprintf("hook %s called from goroutine %d while actor %s (goroutine %d) holds the step", site, g, a.name, a.gid))
		}
	}
	if r.aborted {
		panic(vAbort{})
	}
	a.site, a.kind, a.ptr = site, kind, p
	r.yield(a)
	<-a.wake
	if r.aborted {
		panic(vAbort{})
	}
	return a
}

func verifPoint(site, kind string, p unsafe.Pointer) { vPark(site, kind, p) }

func verifLoadInt32(site string, p *int32) int32 {
	a := vPark(site, "load", unsafe.Pointer(p))
	v := atomic.LoadInt32(p)
	if a != nil {
		a.lastVal = v
	}
	return v
}

func verifStoreInt32(site string, p *int32, v int32) {
	vPark(site, "store", unsafe.Pointer(p))
	atomic.StoreInt32(p, v)
}

func verifAddInt32(site string, p *int32, d int32) int32 {
	vPark(site, "add", unsafe.Pointer(p))
	return atomic.AddInt32(p, d)
}

func verifCompareAndSwapInt32(site string, p *int32, old, new int32) bool {
	vPark(site, "cas", unsafe.Pointer(p))
	return atomic.CompareAndSwapInt32(p, old, new)
}

// ---------------------------------------------------------------------------------------------
// stub connection

type vIDWriter struct {
	netpoll.Writer
	id int
}

type vWriter struct {
	netpoll.Writer
	r *vRun
}

type vConn struct {
	netpoll.Connection
	r     *vRun
	alive bool
	w     vWriter
}

var vErrAppend = errors.New("verif: scripted Append error")
var vErrFlush = errors.New("verif: Flush error")

func (c *vConn) IsActive() bool {
	vPark("conn.IsActive", "conn", nil)
	return c.alive
}
func (c *vConn) Writer() netpoll.Writer { return &c.w }
func (c *vConn) Close() error           { c.alive = false; return nil }

func (w *vWriter) Append(x netpoll.Writer) error {
	r := w.r
	id := x.(*vIDWriter).id
	if r.cfg.apperr[id] {
		if r.cur != nil {
			r.cur.oerr = 1
		}
		return vErrAppend
	}
	r.wb = append(r.wb, id)
	return nil
}

func (w *vWriter) Flush() error {
	r := w.r
	a := vPark("conn.Flush", "flush", nil)
	r.nflush++
	if !r.conn.alive || r.nflush == r.cfg.flusherr {
		if a != nil {
			a.oerr = 1
		}
		return vErrFlush
	}
	r.se = append(r.se, r.wb...)
	r.wb = r.wb[:0]
	return nil
}

func (r *vRun) getter(id int) WriterGetter {
	isNil := r.cfg.nilids[id]
	return func() (netpoll.Writer, bool) {
		a := vPark("getter", "getter", nil)
		r.inv = append(r.inv, id)
		if a != nil {
			a.oid, a.onil, a.oerr = id, 0, 0
			if isNil {
				a.onil = 1
			}
		}
		return &vIDWriter{id: id}, isNil
	}
}

// ---------------------------------------------------------------------------------------------
// actors and runs

const (
	vAdder = iota
	vCloser
	vDie
	vWorker
)

type vActor struct {
	name    string
	role    int
	gid     int64
	wake    chan struct{} // scheduler -> actor: one step granted
	ready   chan struct{} // actor -> creator: parked for the first time (or finished without parking)
	started bool
	done    bool
	ret     string
	pmsg    string
	// where it is parked
	site, kind string
	ptr        unsafe.Pointer
	// outcome of the step in progress
	oid, onil, oerr int
	lastVal         int32
	spins           int // Close: passes of its wait loop that have failed
	lockRounds      int // Close: how often it has parked at the lock of shard 0 (= passes of drained() begun)
	getters         []WriterGetter
}

type vCfg struct {
	size     int
	adders   []int
	closers  int
	die      bool
	idx0     int
	nilids   map[int]bool
	apperr   map[int]bool
	flusherr int
	spin     int
	maxsteps int
	scen     string
	header   string // "new ..." lines
	trace    bool   // build trace text
}

type vRun struct {
	cfg      *vCfg
	q        *ShardQueue
	conn     *vConn
	actors   []*vActor // index = position in the fixed order A0.. C0.. D W0..
	cur      *vActor
	sched    chan struct{} // actor -> scheduler: parked or finished
	aborted  bool
	listHeld bool
	nworkers int
	finished []*vActor
	inv, wb  []int
	se       []int
	nflush   int

	steps   int
	preempt int
	path    []int16
	en      []int
	hash    uint64
	out     []byte
	sink    func(b []byte) // line-flush mode
	sites   map[string]int
	lockLo  uintptr
	lockHi  uintptr
}

func (r *vRun) yield(a *vActor) {
	if !a.started {
		a.started = true
		a.ready <- struct{}{}
	} else {
		r.sched <- struct{}{}
	}
}

func (r *vRun) newActor(role int, name string) *vActor {
	a := &vActor{name: name, role: role, wake: make(chan struct{}, 1), ready: make(chan struct{}, 1)}
	r.actors = append(r.actors, a)
	return a
}

// start runs body in a new goroutine until its first schedule point (or its end); the caller waits.
func (r *vRun) start(a *vActor, body func() string) {
	r.cur = a
	go func() {
		if vGidCheck > 0 {
			a.gid = vGoid()
		}
		defer func() {
			if e := recover(); e != nil {
				if _, ok := e.(vAbort); ok {
					a.ret = "abort"
				} else {
					a.ret = "panic"
					a.pmsg = fmt.Sprint(e)
				}
			}
			a.done = true
			r.finished = append(r.finished, a)
			r.yield(a)
		}()
		a.ret = body()
	}()
	<-a.ready
}

func vRunTask(ctx context.Context, f func()) {
	r := vCur
	if r == nil || r.cur == nil {
		go f()
		return
	}
	parent := r.cur
	w := r.newActor(vWorker, "W"+strconv.Itoa(r.nworkers))
	r.nworkers++
	r.start(w, func() string { f(); return "done" })
	r.cur = parent
}

func (r *vRun) enabled(a *vActor) bool {
	if a.done {
		return false
	}
	switch a.kind {
	case "cas":
		if p := uintptr(a.ptr); p >= r.lockLo && p <= r.lockHi {
			if *(*int32)(a.ptr) != 0 {
				return false
			}
			// a Close call about to start one more pass over the shards after -spin failed ones: the pass cannot
			// succeed while a shard is non-empty or trigger != 0 (it holds no lock here, so nobody waits for it)
			if a.role == vCloser && p == r.lockLo && a.spins >= r.cfg.spin && r.q.state != closed && !r.drainedNow() {
				return false
			}
			return true
		}
	case "mlock":
		return !r.listHeld
	case "load":
		if a.role == vCloser && a.spins >= r.cfg.spin && r.q.trigger != 0 && r.q.state != closed {
			return false
		}
	}
	return true
}

func (r *vRun) drainedNow() bool {
	for i := range r.q.getters {
		if len(r.q.getters[i]) != 0 {
			return false
		}
	}
	return r.q.trigger == 0
}

func vAppendInts(b []byte, l []int) []byte {
	if len(l) == 0 {
		return append(b, '-')
	}
	for i, v := range l {
		if i > 0 {
			b = append(b, ',')
		}
		b = strconv.AppendInt(b, int64(v), 10)
	}
	return b
}

func vAppendInt32s(b []byte, l []int32) []byte {
	if len(l) == 0 {
		return append(b, '-')
	}
	for i, v := range l {
		if i > 0 {
			b = append(b, ',')
		}
		b = strconv.AppendInt(b, int64(v), 10)
	}
	return b
}

func (r *vRun) snapshot(b []byte) []byte {
	q := r.q
	kv := func(k string, v int64) {
		b = append(b, k...)
		b = strconv.AppendInt(b, v, 10)
	}
	kv(" | st=", int64(q.state))
	kv(" idx=", int64(q.idx))
	kv(" tr=", int64(q.trigger))
	kv(" rn=", int64(q.runNum))
	kv(" w=", int64(q.w))
	kv(" r=", int64(q.r))
	b = append(b, " list="...)
	b = vAppendInt32s(b, q.list)
	ll := 0
	if r.listHeld {
		ll = 1
	}
	kv(" ll=", int64(ll))
	b = append(b, " lk="...)
	b = vAppendInt32s(b, q.locks)
	b = append(b, " g="...)
	if len(q.getters) == 0 {
		b = append(b, '-')
	}
	for i := range q.getters {
		if i > 0 {
			b = append(b, ',')
		}
		b = strconv.AppendInt(b, int64(len(q.getters[i])), 10)
	}
	kv(" sw=", int64(len(q.swap)))
	al := 0
	if r.conn.alive {
		al = 1
	}
	kv(" al=", int64(al))
	b = append(b, " inv="...)
	b = vAppendInts(b, r.inv)
	b = append(b, " wb="...)
	b = vAppendInts(b, r.wb)
	b = append(b, " se="...)
	b = vAppendInts(b, r.se)
	return b
}

func (r *vRun) line() {
	r.out = append(r.out, '\n')
	if r.sink != nil {
		r.sink(r.out)
		r.out = r.out[:0]
	}
}

// step grants one step to actor number c and records it.
func (r *vRun) step(c int) {
	a := r.actors[c]
	site, kind, ptr := a.site, a.kind, a.ptr
	switch kind {
	case "mlock":
		r.listHeld = true
	case "munlock":
		r.listHeld = false
	}
	a.oid, a.onil, a.oerr = -1, 0, 0
	r.finished = r.finished[:0]
	r.cur = a
	atomic.AddInt64(&vProgress, 1)
	a.wake <- struct{}{}
	<-r.sched
	r.cur = nil
	r.steps++
	if a.role == vCloser {
		// failed passes of Close's wait loop.  A Close that scans the shards (drained) starts every pass at the lock
		// of shard 0; one that only polls trigger fails a pass when it loads trigger != 0.
		if !a.done && a.kind == "cas" && uintptr(a.ptr) == r.lockLo {
			a.lockRounds++
			a.spins = a.lockRounds - 1
		} else if a.lockRounds == 0 && kind == "load" && ptr == unsafe.Pointer(&r.q.trigger) && a.lastVal != 0 {
			a.spins++
		}
	}
	h := r.hash
	h = (h ^ uint64(c+1)) * 1099511628211
	for i := 0; i < len(site); i++ {
		h = (h ^ uint64(site[i])) * 1099511628211
	}
	r.hash = h
	r.sites[site]++
	if !r.cfg.trace {
		return
	}
	b := r.out
	b = append(b, "s "...)
	b = append(b, a.name...)
	b = append(b, ' ')
	b = append(b, site...)
	switch kind {
	case "getter":
		b = append(b, " id="...)
		b = strconv.AppendInt(b, int64(a.oid), 10)
		b = append(b, " nil="...)
		b = strconv.AppendInt(b, int64(a.onil), 10)
		b = append(b, " err="...)
		b = strconv.AppendInt(b, int64(a.oerr), 10)
	case "flush":
		b = append(b, " err="...)
		b = strconv.AppendInt(b, int64(a.oerr), 10)
	}
	r.out = r.snapshot(b)
	r.line()
	for _, f := range r.finished {
		r.out = append(r.out, "ret "...)
		r.out = append(r.out, f.name...)
		r.out = append(r.out, ' ')
		r.out = append(r.out, f.ret...)
		r.line()
		if f.ret == "panic" {
			r.out = append(r.out, "# panic "...)
			r.out = append(r.out, f.name...)
			r.out = append(r.out, ": "...)
			r.out = append(r.out, strings.ReplaceAll(f.pmsg, "\n", " ")...)
			r.line()
		}
	}
}

// vPolicy picks the actor of the next step among the enabled ones (en, ascending; def = default continuation).
type vPolicy interface {
	pick(r *vRun, en []int, def int, prevEnabled bool) (int, bool)
}

func newRun(cfg *vCfg, k int, sites map[string]int, sink func([]byte)) *vRun {
	r := &vRun{cfg: cfg, sched: make(chan struct{}, 1), sites: sites, sink: sink, hash: 14695981039346656037}
	r.conn = &vConn{r: r, alive: true}
	r.conn.w.r = r
	r.q = NewShardQueue(cfg.size, r.conn)
	r.q.idx = int32(cfg.idx0)
	if n := len(r.q.locks); n > 0 {
		r.lockLo = uintptr(unsafe.Pointer(&r.q.locks[0]))
		r.lockHi = uintptr(unsafe.Pointer(&r.q.locks[n-1]))
	} else {
		r.lockLo, r.lockHi = 1, 0
	}
	if cfg.trace {
		r.out = append(r.out, "run "...)
		r.out = strconv.AppendInt(r.out, int64(k), 10)
		r.out = append(r.out, cfg.header...)
		if sink != nil {
			sink(r.out)
			r.out = r.out[:0]
		}
	}
	return r
}

// execute runs one schedule to its end and tears the goroutines down.
func (r *vRun) execute(pol vPolicy) string {
	vCur = r
	defer func() { vCur = nil }()
	cfg := r.cfg
	id := 0
	for i, n := range cfg.adders {
		a := r.newActor(vAdder, "A"+strconv.Itoa(i))
		for j := 0; j < n; j++ {
			a.getters = append(a.getters, r.getter(id))
			id++
		}
		r.start(a, func() string { r.q.Add(a.getters...); return "nil" })
	}
	for i := 0; i < cfg.closers; i++ {
		a := r.newActor(vCloser, "C"+strconv.Itoa(i))
		r.start(a, func() string {
			if err := r.q.Close(); err != nil {
				return "err"
			}
			return "nil"
		})
	}
	if cfg.die {
		a := r.newActor(vDie, "D")
		r.start(a, func() string {
			vPark("die", "die", nil)
			r.conn.alive = false
			return "done"
		})
	}
	r.cur = nil
	res := ""
	prev := -1
	for res == "" {
		en := r.en[:0]
		alldone := true
		for i, a := range r.actors {
			if !a.done {
				alldone = false
				if r.enabled(a) {
					en = append(en, i)
				}
			}
		}
		r.en = en
		switch {
		case alldone:
			res = "quiescent"
		case len(en) == 0:
			res = "deadlock"
		case r.steps >= cfg.maxsteps:
			res = "cutoff"
		}
		if res != "" {
			break
		}
		prevEn := false
		for _, e := range en {
			if e == prev {
				prevEn = true
			}
		}
		def := en[0]
		if prevEn {
			def = prev
		}
		c, ok := pol.pick(r, en, def, prevEn)
		if !ok {
			res = "badsched"
			break
		}
		if prevEn && c != prev {
			r.preempt++
		}
		r.path = append(r.path, int16(c))
		r.step(c)
		prev = c
	}
	// teardown: every unfinished actor is parked; wake them one by one, they unwind with vAbort
	r.aborted = true
	for _, a := range r.actors {
		if !a.done {
			r.cur = a
			a.wake <- struct{}{}
			<-r.sched
		}
	}
	r.cur = nil
	return res
}

func (r *vRun) end(k int, res string) {
	if !r.cfg.trace {
		return
	}
	r.out = append(r.out, "end "...)
	r.out = strconv.AppendInt(r.out, int64(k), 10)
	r.out = append(r.out, ' ')
	r.out = append(r.out, res...)
	r.out = append(r.out, " steps="...)
	r.out = strconv.AppendInt(r.out, int64(r.steps), 10)
	r.out = append(r.out, " preempt="...)
	r.out = strconv.AppendInt(r.out, int64(r.preempt), 10)
	r.line()
}

// ---------------------------------------------------------------------------------------------
// policies

type vDefaultPolicy struct{}

func (vDefaultPolicy) pick(r *vRun, en []int, def int, prevEnabled bool) (int, bool) {
	return def, true
}

// vDFS: bounded-preemption enumeration by re-execution.  A run follows its choice prefix, continues with the
// default policy and pushes, for every point beyond the prefix, the alternatives that fit the preemption bound.
type vDFS struct {
	stack  [][]int16
	prefix []int16
	pb     int
	// partition
	part, nparts, pdepth int
}

func vOwner(p []int16, depth, n int) int {
	if len(p) > depth {
		p = p[:depth]
	}
	h := uint32(2166136261)
	for _, c := range p {
		h = (h ^ uint32(c+1)) * 16777619
	}
	h ^= h >> 15
	h *= 2246822519
	h ^= h >> 13
	return int(h % uint32(n))
}

func (d *vDFS) mine(p []int16) bool {
	return d.nparts <= 1 || vOwner(p, d.pdepth, d.nparts) == d.part
}

func (d *vDFS) pick(r *vRun, en []int, def int, prevEnabled bool) (int, bool) {
	i := len(r.path)
	if i < len(d.prefix) {
		return int(d.prefix[i]), true
	}
	cost := 0
	if prevEnabled {
		cost = 1
	}
	if r.preempt+cost > d.pb {
		return def, true
	}
	if d.nparts > 1 && i >= d.pdepth && !d.mine(r.path) {
		return def, true
	}
	for j := len(en) - 1; j >= 0; j-- {
		if e := en[j]; e != def {
			np := make([]int16, i+1)
			copy(np, r.path)
			np[i] = int16(e)
			d.stack = append(d.stack, np)
		}
	}
	return def, true
}

// vRand: with probability 0.7 continue with the actor of the previous step (if enabled), else uniform among enabled.
type vRand struct{ rnd *rand.Rand }

func (p *vRand) pick(r *vRun, en []int, def int, prevEnabled bool) (int, bool) {
	if prevEnabled && p.rnd.Float64() < 0.7 {
		return def, true
	}
	return en[p.rnd.Intn(len(en))], true
}

// vReplay: explicit schedule; token "X" = one step of X, "X*" = steps of X while it is enabled.
type vReplay struct {
	toks []string
	pos  int
	cfg  *vCfg
	msg  string
}

func (cfg *vCfg) ord(name string) int {
	if name == "" {
		return -1
	}
	n := -1
	if len(name) > 1 {
		if v, err := strconv.Atoi(name[1:]); err == nil && v >= 0 {
			n = v
		}
	}
	base := len(cfg.adders) + cfg.closers
	switch {
	case name == "D" && cfg.die:
		return base
	case name[0] == 'A' && n >= 0 && n < len(cfg.adders):
		return n
	case name[0] == 'C' && n >= 0 && n < cfg.closers:
		return len(cfg.adders) + n
	case name[0] == 'W' && n >= 0:
		if cfg.die {
			base++
		}
		return base + n
	}
	return -1
}

func (p *vReplay) pick(r *vRun, en []int, def int, prevEnabled bool) (int, bool) {
	for p.pos < len(p.toks) {
		t := p.toks[p.pos]
		star := strings.HasSuffix(t, "*")
		o := p.cfg.ord(strings.TrimSuffix(t, "*"))
		ok := false
		for _, e := range en {
			if e == o {
				ok = true
			}
		}
		if ok {
			if !star {
				p.pos++
			}
			return o, true
		}
		if !star {
			var names []string
			for _, e := range en {
				names = append(names, r.actors[e].name)
			}
			p.msg = fmt.Sprintf("sched token %d (%s): actor not enabled at step %d (enabled: %s)", p.pos, t, r.steps, strings.Join(names, ","))
			return 0, false
		}
		p.pos++
	}
	return def, true
}

// ---------------------------------------------------------------------------------------------
// main

var vProgress int64
var vInIO int32 // the scheduler goroutine is writing output (a slow consumer is not a hang)

func vWrite(b []byte) {
	atomic.StoreInt32(&vInIO, 1)
	vOut.Write(b)
	vOut.Flush()
	atomic.StoreInt32(&vInIO, 0)
	atomic.AddInt64(&vProgress, 1)
}

var vOut *bufio.Writer

func vFatal(code int, msg string) {
	if vOut != nil {
		vOut.Flush()
	}
	fmt.Fprintln(os.Stderr, "shardh: "+msg)
	os.Exit(code)
}

func vInts(s string) ([]int, error) {
	var l []int
	if s == "" {
		return l, nil
	}
	for _, t := range strings.Split(s, ",") {
		v, err := strconv.Atoi(strings.TrimSpace(t))
		if err != nil {
			return nil, err
		}
		l = append(l, v)
	}
	return l, nil
}

func vSet(l []int) map[int]bool {
	m := map[int]bool{}
	for _, v := range l {
		m[v] = true
	}
	return m
}

// VerifShardMain is the entry point of go/cmd/shardh.
func VerifShardMain(args []string) int {
	fs := flag.NewFlagSet("shardh", flag.ContinueOnError)
	fs.Usage = func() { fmt.Fprint(os.Stderr, vUsage); fs.PrintDefaults() }
	size := fs.Int("size", 2, "number of shards")
	addersS := fs.String("adders", "1,1", "getters per Add call, one adder goroutine each")
	closers := fs.Int("closers", 0, "number of Close goroutines")
	die := fs.Bool("die", false, "include actor D whose single step makes the connection inactive")
	idx0 := fs.Int("idx0", 0, "initial value of q.idx")
	nilS := fs.String("nilids", "", "getter ids that return isNil=true")
	appS := fs.String("apperr", "", "getter ids whose Append fails")
	flusherr := fs.Int("flusherr", 0, "the k-th Flush (from 1) fails")
	spin := fs.Int("spin", 1, "a closer whose wait loop has failed this many passes is disabled until every shard is empty and trigger == 0 (or state == closed)")
	maxsteps := fs.Int("maxsteps", 2000, "step cutoff per run")
	mode := fs.String("mode", "dfs", "dfs | rand | replay (controlled scheduler, need the instrumented build) | stress (real goroutines, any build)")
	sleepp := fs.Int("sleepp", 40, "stress: per-mille probability that a perturbation point also sleeps 1-50 us")
	pb := fs.Int("pb", 1, "dfs: preemption bound")
	max := fs.Int("max", 1000000, "dfs: stop after this many runs")
	partS := fs.String("part", "", "dfs: i/n, explore only the i-th of n partitions (hash of the first -partdepth choices)")
	pdepth := fs.Int("partdepth", 20, "dfs: number of leading choices that define the partition")
	n := fs.Int("n", 1000, "rand / stress: number of runs")
	schedS := fs.String("sched", "", "replay: actor per step, e.g. A0,A0,C0,W0 ; X* = run X while enabled ; then default policy")
	seed := fs.Int64("seed", 1, "seed of every random choice")
	dedup := fs.Bool("dedup", false, "print only runs whose sequence of (actor, site) pairs was not printed before")
	quiet := fs.Bool("quiet", false, "print no runs, only the summary")
	outS := fs.String("o", "", "trace file (default stdout)")
	lineflush := fs.Bool("lineflush", false, "flush after every line (default: after every run); ignored with -dedup")
	scen := fs.String("scen", "", "scenario word of the run line (default derived from the flags)")
	procs := fs.Int("procs", 1, "GOMAXPROCS (default 4 with -mode stress)")
	gidcheck := fs.Int("gidcheck", 8, "every N-th schedule point checks by goroutine id that the caller is the actor holding the step (0 never, 1 always)")
	hangSecs := fs.Int("hang", 10, "seconds without a step before the run is reported as hang (exit 4)")
	if err := fs.Parse(args); err != nil {
		return 2
	}
	if *mode == "stress" {
		set := false
		fs.Visit(func(f *flag.Flag) { set = set || f.Name == "procs" })
		if !set {
			*procs = 4
		}
	}
	runtime.GOMAXPROCS(*procs)
	vGidCheck = *gidcheck
	adders, err := vInts(*addersS)
	if err != nil || *size < 1 {
		fmt.Fprintln(os.Stderr, "shardh: bad -adders / -size")
		return 2
	}
	nils, err1 := vInts(*nilS)
	apps, err2 := vInts(*appS)
	if err1 != nil || err2 != nil {
		fmt.Fprintln(os.Stderr, "shardh: bad -nilids / -apperr")
		return 2
	}
	cfg := &vCfg{size: *size, adders: adders, closers: *closers, die: *die, idx0: *idx0, nilids: vSet(nils), apperr: vSet(apps),
		flusherr: *flusherr, spin: *spin, maxsteps: *maxsteps, trace: !*quiet}
	cfg.scen = *scen
	if cfg.scen == "" {
		var p []string
		for _, a := range adders {
			p = append(p, strconv.Itoa(a))
		}
		cfg.scen = "a" + strings.Join(p, ".") + "-c" + strconv.Itoa(*closers)
		if *die {
			cfg.scen += "-d"
		}
		if len(nils) > 0 {
			cfg.scen += "-nil" + strings.ReplaceAll(*nilS, ",", ".")
		}
		if len(apps) > 0 {
			cfg.scen += "-ae" + strings.ReplaceAll(*appS, ",", ".")
		}
		if *flusherr > 0 {
			cfg.scen += "-fe" + strconv.Itoa(*flusherr)
		}
	}
	cfg.header = fmt.Sprintf(" size=%d idx0=%d scen=%s\n", cfg.size, cfg.idx0, cfg.scen)
	for i, a := range adders {
		cfg.header += fmt.Sprintf("new A%d add %d\n", i, a)
	}
	for i := 0; i < *closers; i++ {
		cfg.header += fmt.Sprintf("new C%d close\n", i)
	}
	if *die {
		cfg.header += "new D die\n"
	}

	var w io.Writer = os.Stdout
	if *outS != "" {
		f, err := os.Create(*outS)
		if err != nil {
			fmt.Fprintln(os.Stderr, "shardh:", err)
			return 2
		}
		defer f.Close()
		w = f
	}
	vOut = bufio.NewWriterSize(w, 1<<16)
	defer vOut.Flush()
	var sink func([]byte)
	if *lineflush && !*dedup && !*quiet {
		sink = vWrite
	}

	if *mode == "stress" {
		return vStressMain(cfg, *n, *seed, *sleepp)
	}
	if !vInstrumented() {
		vFatal(6, "harness built without instrumentation: no hook of mux/shard_queue.go fires, -mode "+*mode+
			" needs the build with the instrumented replacement (common.instrument_shard); use -mode stress with this binary")
	}
	runner.RunTask = vRunTask

	sites := map[string]int{}
	seen := map[uint64]struct{}{}
	var runs, printed, maxpre, deadlocks, cutoffs int
	exhausted := 0
	t0 := time.Now()
	summary := func(hangs int) {
		var sl []string
		for s := range sites {
			sl = append(sl, s)
		}
		sort.Strings(sl)
		ss := strings.Join(sl, ",")
		if ss == "" {
			ss = "-"
		}
		fmt.Fprintf(vOut, "summary runs=%d printed=%d maxpreempt=%d sites=%s deadlocks=%d cutoffs=%d hangs=%d exhausted=%d goroutines=%d secs=%.3f\n",
			runs, printed, maxpre, ss, deadlocks, cutoffs, hangs, exhausted, runtime.NumGoroutine(), time.Since(t0).Seconds())
		vOut.Flush()
	}
	// watchdog: no step for -hang seconds => report and exit (the scheduler goroutine is blocked, nothing else runs)
	var curRun atomic.Value
	go func() {
		last, idle := int64(-1), 0
		for {
			time.Sleep(time.Second)
			p := atomic.LoadInt64(&vProgress)
			if p != last || atomic.LoadInt32(&vInIO) != 0 {
				last, idle = p, 0
				continue
			}
			idle++
			if idle >= *hangSecs {
				if r, ok := curRun.Load().(*vRun); ok && r != nil {
					if cfg.trace {
						vOut.Write(r.out)
						fmt.Fprintf(vOut, "end %d hang steps=%d preempt=%d\n", runs, r.steps, r.preempt)
					}
				}
				summary(1)
				vFatal(4, fmt.Sprintf("run %d made no step for %d s (hang)", runs, *hangSecs))
			}
		}
	}()

	// one executes one schedule; returns false when the process should stop
	rc := 0
	one := func(pol vPolicy, owned func(r *vRun) bool) {
		r := newRun(cfg, runs, sites, sink)
		curRun.Store(r)
		atomic.AddInt64(&vProgress, 1)
		res := r.execute(pol)
		atomic.AddInt64(&vProgress, 1)
		if owned != nil && !owned(r) {
			return
		}
		r.end(runs, res)
		runs++
		if r.preempt > maxpre {
			maxpre = r.preempt
		}
		switch res {
		case "deadlock":
			deadlocks++
		case "cutoff":
			cutoffs++
		case "badsched":
			rc = 2
		}
		if cfg.trace && sink == nil {
			show := true
			if *dedup {
				if _, dup := seen[r.hash]; dup {
					show = false
				} else {
					seen[r.hash] = struct{}{}
				}
			}
			if show {
				printed++
				vWrite(r.out)
			}
		} else if sink != nil {
			printed++
		}
	}

	switch *mode {
	case "dfs":
		d := &vDFS{pb: *pb, nparts: 1, pdepth: *pdepth}
		if *partS != "" {
			if _, err := fmt.Sscanf(*partS, "%d/%d", &d.part, &d.nparts); err != nil || d.nparts < 1 || d.part < 0 || d.part >= d.nparts {
				fmt.Fprintln(os.Stderr, "shardh: bad -part")
				return 2
			}
		}
		d.stack = append(d.stack, []int16{})
		// sites of runs that belong to another partition are counted too (they are executed); harmless
		for len(d.stack) > 0 && runs < *max {
			d.prefix = d.stack[len(d.stack)-1]
			d.stack = d.stack[:len(d.stack)-1]
			if d.nparts > 1 && len(d.prefix) >= d.pdepth && !d.mine(d.prefix) {
				continue
			}
			one(d, func(r *vRun) bool { return d.mine(r.path) })
		}
		if len(d.stack) == 0 {
			exhausted = 1
		}
	case "rand":
		p := &vRand{rnd: rand.New(rand.NewSource(*seed))}
		for i := 0; i < *n; i++ {
			one(p, nil)
		}
	case "replay":
		p := &vReplay{cfg: cfg}
		if *schedS != "" {
			for _, t := range strings.Split(*schedS, ",") {
				t = strings.TrimSpace(t)
				if t == "" || cfg.ord(strings.TrimSuffix(t, "*")) < 0 {
					fmt.Fprintln(os.Stderr, "shardh: bad -sched token "+strconv.Quote(t))
					return 2
				}
				p.toks = append(p.toks, t)
			}
		}
		one(p, nil)
		if p.msg != "" {
			fmt.Fprintln(os.Stderr, "shardh: "+p.msg)
		}
	default:
		fmt.Fprintln(os.Stderr, "shardh: bad -mode")
		return 2
	}
	summary(0)
	return rc
}
