// Instrumented replacement for github.com/bytedance/gopkg/lang/mcache, substituted at build time
// with `go build -overlay` by the verification harness (never part of a normal build).
// It never reuses a block, poisons a block when it is freed and keeps an event log, so that a
// premature or repeated Free is observable.  The import set must stay that of the original file.
package mcache

import (
	"sync"
	"unsafe"

	"github.com/bytedance/gopkg/lang/dirtmake"
)

const maxSize = 46

type bytesHeader struct {
	Data *byte
	Len  int
	Cap  int
}

// VerifEvent: Kind 'm' (malloc) or 'f' (free); ID is the allocation sequence number
// (-1: Free of memory this allocator never handed out); Dup counts earlier frees of the same block.
type VerifEvent struct {
	Kind byte
	ID   int
	Cap  int
	Dup  int
	Ptr  uintptr // start address of the slice given to Free
}

var (
	verifMu     sync.Mutex
	verifLog    []VerifEvent
	verifIDs    = map[*byte]int{}
	verifFreed  = map[int]int{}
	verifCaps   = map[int]int{}
	verifNext   int
	verifKeep   [][]byte // keeps freed blocks alive so the address is never reused by the Go allocator
	VerifPoison = byte(0xDD)
	// VerifDoPoison: overwrite a block with VerifPoison when it is freed (C02/C03 runs).  Off for the
	// value-only comparison (C01), where a premature free must not change what is read.
	VerifDoPoison = true
	// VerifOnFree, when set, is called at the start of every Free with the slice being freed, before the block is
	// logged and poisoned: the harness inspects the state netpoll is in at the very moment it gives the block back
	// (e.g. is the block still under data that has not been consumed?).  It may call VerifBlockOf.
	VerifOnFree func(buf []byte)
)

// VerifTake returns and clears the event log.
func VerifTake() []VerifEvent {
	verifMu.Lock()
	defer verifMu.Unlock()
	l := verifLog
	verifLog = nil
	return l
}

// VerifReset forgets all blocks (between independent sequences) so memory can be collected.
func VerifReset() {
	verifMu.Lock()
	defer verifMu.Unlock()
	verifLog = nil
	verifIDs = map[*byte]int{}
	verifFreed = map[int]int{}
	verifCaps = map[int]int{}
	verifNext = 0
	verifKeep = nil
}

// VerifBlockOf reports the allocation id of the pool block the slice's memory lies in (-1 if none),
// whether that block has been freed, and the offset of the slice inside the block.
func VerifBlockOf(buf []byte) (id int, freed bool, off int) {
	if cap(buf) == 0 {
		return -1, false, 0
	}
	h := (*bytesHeader)(unsafe.Pointer(&buf))
	p := uintptr(unsafe.Pointer(h.Data))
	verifMu.Lock()
	defer verifMu.Unlock()
	for base, bid := range verifIDs {
		b := uintptr(unsafe.Pointer(base))
		if p >= b && p < b+uintptr(verifCaps[bid]) {
			return bid, verifFreed[bid] > 0, int(p - b)
		}
	}
	return -1, false, 0
}

func calcIndex(size int) int {
	if size == 0 {
		return 0
	}
	if isPowerOfTwo(size) {
		return bsr(size)
	}
	return bsr(size) + 1
}

// Malloc: same contract as the original (len == size, cap == 1<<calcIndex(max(size, capacity))).
func Malloc(size int, capacity ...int) []byte {
	if len(capacity) > 1 {
		panic("too many arguments to Malloc")
	}
	c := size
	if len(capacity) > 0 && capacity[0] > size {
		c = capacity[0]
	}
	i := calcIndex(c)
	ret := dirtmake.Bytes(size, 1<<i)
	full := ret[:cap(ret)]
	for k := range full {
		full[k] = 0xAA
	}
	h := (*bytesHeader)(unsafe.Pointer(&ret))
	verifMu.Lock()
	id := verifNext
	verifNext++
	verifIDs[h.Data] = id
	verifCaps[id] = 1 << i
	verifLog = append(verifLog, VerifEvent{Kind: 'm', ID: id, Cap: 1 << i})
	verifMu.Unlock()
	return ret
}

// Free logs the event and poisons the block; the block is never handed out again.
func Free(buf []byte) {
	size := cap(buf)
	if !isPowerOfTwo(size) {
		return
	}
	h := (*bytesHeader)(unsafe.Pointer(&buf))
	if f := VerifOnFree; f != nil {
		f(buf)
	}
	verifMu.Lock()
	id, ok := verifIDs[h.Data]
	if !ok {
		id = -1
	}
	dup := 0
	if ok {
		dup = verifFreed[id]
		verifFreed[id] = dup + 1
	}
	verifLog = append(verifLog, VerifEvent{Kind: 'f', ID: id, Cap: size, Dup: dup, Ptr: uintptr(unsafe.Pointer(h.Data))})
	if ok && dup == 0 {
		full := buf[:size]
		if VerifDoPoison {
			for k := range full {
				full[k] = VerifPoison
			}
		}
		verifKeep = append(verifKeep, full)
	}
	verifMu.Unlock()
}
