module verifharness

go 1.15

require (
	github.com/bytedance/gopkg v0.1.1
	github.com/cloudwego/netpoll v0.0.0
)

replace github.com/cloudwego/netpoll => /repo
