//go:build verif && verifsched
// +build verif,verifsched

package main

import (
	"os"

	"github.com/cloudwego/netpoll"
)

func main() { os.Exit(netpoll.VerifSchedMain(os.Args[1:])) }
