// raceh: C19 race workloads; build with -race. Race reports go to stderr (GORACE=halt_on_error=0).
package main

import (
	"flag"
	"fmt"
	"net"
	"sync"
	"time"

	"github.com/cloudwego/netpoll"
	"github.com/cloudwego/netpoll/mux"
)

// ShardQueue under load: many goroutines Add concurrently, Close in the middle.
func shardQueue(rounds int) int {
	done := 0
	for k := 0; k < rounds; k++ {
		ln, err := net.Listen("tcp", "127.0.0.1:0")
		if err != nil {
			return done
		}
		go func() {
			c, err := ln.Accept()
			if err != nil {
				return
			}
			buf := make([]byte, 65536)
			for {
				if _, err := c.Read(buf); err != nil {
					c.Close()
					return
				}
			}
		}()
		conn, err := netpoll.DialConnection("tcp", ln.Addr().String(), time.Second)
		if err != nil {
			ln.Close()
			return done
		}
		q := mux.NewShardQueue(4, conn)
		var wg sync.WaitGroup
		for g := 0; g < 8; g++ {
			wg.Add(1)
			go func() {
				defer wg.Done()
				for i := 0; i < 50; i++ {
					q.Add(func() (netpoll.Writer, bool) {
						b := netpoll.NewLinkBuffer(16)
						b.Malloc(11)
						return b, false
					})
				}
			}()
		}
		wg.Wait()
		q.Close()
		conn.Close()
		ln.Close()
		done++
	}
	return done
}

func main() {
	seed := flag.Int64("seed", 1, "")
	n := flag.Int("n", 40, "")
	which := flag.String("which", "", "")
	flag.Parse()
	counts := netpoll.VerifRaceWorkloads(*seed, *n, *which)
	if *which == "" || *which == "shardqueue" {
		counts["shardqueue"] = shardQueue(*n/8 + 1)
	}
	fmt.Println("workloads", counts)
}
