// raceh: C19 race workloads; build with -race. Race reports go to stderr (GORACE=halt_on_error=0).
package main

import (
	"flag"
	"fmt"
	"net"
	"runtime"
	"sync"
	"sync/atomic"
	"time"

	"github.com/cloudwego/netpoll"
	"github.com/cloudwego/netpoll/mux"
)

// ShardQueue under load: many goroutines Add concurrently, Close in the middle.
func shardQueue(rounds int) int {
	done := 0
	for k := 0; k < rounds; k++ {
		ln, err := net.Listen("tcp", "127.0.0.1:0")
		if err != nil {
			return done
		}
		go func() {
			c, err := ln.Accept()
			if err != nil {
				return
			}
			buf := make([]byte, 65536)
			for {
				if _, err := c.Read(buf); err != nil {
					c.Close()
					return
				}
			}
		}()
		conn, err := netpoll.DialConnection("tcp", ln.Addr().String(), time.Second)
		if err != nil {
			ln.Close()
			return done
		}
		q := mux.NewShardQueue(4, conn)
		var wg sync.WaitGroup
		for g := 0; g < 8; g++ {
			wg.Add(1)
			go func() {
				defer wg.Done()
				for i := 0; i < 50; i++ {
					q.Add(func() (netpoll.Writer, bool) {
						b := netpoll.NewLinkBuffer(16)
						b.Malloc(11)
						return b, false
					})
				}
			}()
		}
		wg.Wait()
		q.Close()
		conn.Close()
		ln.Close()
		done++
	}
	return done
}

// mockConn is the minimum of a netpoll.Connection that ShardQueue uses: the queue's own words (shards, trigger ring,
// counters) are exercised at full speed, without the cost of a socket per flush.
type mockConn struct {
	netpoll.Connection
	w mockWriter
}

func (c *mockConn) IsActive() bool         { return true }
func (c *mockConn) Writer() netpoll.Writer { return &c.w }
func (c *mockConn) Close() error           { return nil }

type mockWriter struct {
	netpoll.Writer
	flushed int32
}

func (w *mockWriter) Append(netpoll.Writer) error { return nil }
func (w *mockWriter) Flush() error                { atomic.AddInt32(&w.flushed, 1); return nil }

// ShardQueue, concurrent Adds in its contract ("any number of goroutines Add"): many adders on many shards, yielding now and
// then so that shards keep draining to empty - every Add that finds its shard empty goes through triggering() (the trigger
// ring under listLock, the trigger counter) while the worker task consumes the ring; Close at the end.
func shardQueueBurst(rounds int, seed int64) int {
	done := 0
	for k := 0; k < rounds; k++ {
		shards := []int{2, 4, 8, 8}[(int(seed)+k)%4]
		adders := 4 + (int(seed)+k)%5
		yieldEvery := 2 + (int(seed)+k)%5
		q := mux.NewShardQueue(shards, &mockConn{})
		var getter mux.WriterGetter = func() (netpoll.Writer, bool) { return nil, true }
		start := make(chan struct{})
		var wg sync.WaitGroup
		for g := 0; g < adders; g++ {
			wg.Add(1)
			go func() {
				defer wg.Done()
				<-start
				for i := 0; i < 4000; i++ {
					q.Add(getter)
					if i%yieldEvery == 0 {
						runtime.Gosched()
					}
				}
			}()
		}
		close(start)
		wg.Wait()
		closed := make(chan struct{})
		go func() { q.Close(); close(closed) }()
		select {
		case <-closed:
		case <-time.After(20 * time.Second):
			// lost getters (C17) keep Close spinning; the race workload only records that the round did not finish
			return done
		}
		done++
	}
	return done
}

func main() {
	seed := flag.Int64("seed", 1, "")
	n := flag.Int("n", 40, "")
	which := flag.String("which", "", "")
	flag.Parse()
	counts := netpoll.VerifRaceWorkloads(*seed, *n, *which)
	if *which == "" || *which == "shardqueue" {
		counts["shardqueue"] = shardQueue(*n/8+1) + shardQueueBurst(*n/8+1, *seed)
	}
	fmt.Println("workloads", counts)
}
