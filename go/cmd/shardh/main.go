package main

import (
	"os"

	"github.com/cloudwego/netpoll/mux"
)

// shardh: controlled-scheduler harness for mux.ShardQueue (property C17); see go/inpkg_mux/shard.go.
// Build: common.instrument_shard() then common.build_harness('shardh', replacements={'mux/shard_queue.go': path}).
func main() { os.Exit(mux.VerifShardMain(os.Args[1:])) }
