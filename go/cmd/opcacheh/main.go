package main

import (
	"os"

	"github.com/cloudwego/netpoll"
)

func main() { os.Exit(netpoll.VerifOpCacheMain(os.Args[1:])) }
