package main

import (
	"os"

	"github.com/cloudwego/netpoll"
)

func main() { os.Exit(netpoll.VerifDialHMain(os.Args[1:])) }
