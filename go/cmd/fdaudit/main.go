package main

import (
	"os"

	"github.com/cloudwego/netpoll"
)

func main() { os.Exit(netpoll.VerifFdAuditMain(os.Args[1:])) }
