package main

import (
	"os"

	"github.com/cloudwego/netpoll"
)

func main() { os.Exit(netpoll.VerifLBMain(os.Args[1:])) }
