package main

import (
	"os"

	"github.com/cloudwego/netpoll"
)

func main() { os.Exit(netpoll.VerifMgrHMain(os.Args[1:])) }
