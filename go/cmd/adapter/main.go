package main

import (
	"os"

	"github.com/cloudwego/netpoll"
)

func main() { os.Exit(netpoll.VerifAdapterMain(os.Args[1:])) }
