package main

import (
	"os"

	"github.com/cloudwego/netpoll"
)

func main() { os.Exit(netpoll.VerifStreamScriptMain(os.Args[1:])) }
