package main

import (
	"os"

	"github.com/cloudwego/netpoll"
)

func main() { os.Exit(netpoll.VerifSrvHMain(os.Args[1:])) }
