package main

import (
	"os"

	"github.com/cloudwego/netpoll"
)

func main() { os.Exit(netpoll.VerifPollHMain(os.Args[1:])) }
