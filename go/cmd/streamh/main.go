package main

import (
	"os"

	"github.com/cloudwego/netpoll"
)

func main() { os.Exit(netpoll.VerifStreamMain(os.Args[1:])) }
