package main

import (
	"os"

	"github.com/cloudwego/netpoll"
)

func main() { os.Exit(netpoll.VerifClosedMain(os.Args[1:])) }
