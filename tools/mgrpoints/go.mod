module verifmgrpoints

go 1.22.0

toolchain go1.23.5
