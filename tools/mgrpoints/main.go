// mgrpoints: places the schedule points of manager.Pick by what the statements DO, not by where they stood when
// hooks/manager.patch was written.
//
// hooks/manager.patch (add-only `vmgrPoint(site)` lines) is applied to a temporary copy of poll_manager.go with
// `patch -F 3`; when Pick has been edited, a hunk can land in the wrong place (or not at all) and the
// one-actor-at-a-time scheduler then cannot preempt a picker between two of its accesses to the status word -
// exactly the windows the lazy initialisation is about.  This tool rewrites the copy: every vmgrPoint call inside
// manager.Pick is dropped and a point is inserted in front of every statement whose header (not its nested blocks)
// performs a sync/atomic operation on m.status:
//
//	atomic.LoadInt32(&m.status)                                          -> vmgrSiteLoad
//	atomic.CompareAndSwapInt32(&m.status, managerUninitialized, ...)     -> vmgrSiteCas
//	atomic.CompareAndSwapInt32(&m.status, managerInitializing, ...)      -> vmgrSiteCas2
//	any other atomic operation on m.status (Store, Swap, Add, ...)       -> vmgrSiteStW
//
// On the unchanged Pick this is exactly the placement of the patch.  A labelled statement keeps its label in front
// of the point (`START: vmgrPoint(..); if ...`), so a `goto` passes the point again.
//
// usage: mgrpoints <poll_manager.go copy>   (rewritten in place; prints the sites placed)
package main

import (
	"bytes"
	"fmt"
	"go/ast"
	"go/format"
	"go/parser"
	"go/token"
	"os"
	"strings"
)

func isPointCall(s ast.Stmt) bool {
	es, ok := s.(*ast.ExprStmt)
	if !ok {
		return false
	}
	c, ok := es.X.(*ast.CallExpr)
	if !ok {
		return false
	}
	id, ok := c.Fun.(*ast.Ident)
	return ok && id.Name == "vmgrPoint"
}

func exprText(fset *token.FileSet, e ast.Expr) string {
	var b bytes.Buffer
	format.Node(&b, fset, e)
	return b.String()
}

// siteOf: the site of the first atomic operation on the status word in the header of st ("" = none)
func siteOf(fset *token.FileSet, recv string, st ast.Stmt) string {
	var hdr []ast.Node
	switch s := st.(type) {
	case *ast.IfStmt:
		for cur := s; cur != nil; {
			if cur.Init != nil {
				hdr = append(hdr, cur.Init)
			}
			hdr = append(hdr, cur.Cond)
			next, _ := cur.Else.(*ast.IfStmt)
			cur = next
		}
	case *ast.SwitchStmt:
		if s.Init != nil {
			hdr = append(hdr, s.Init)
		}
		if s.Tag != nil {
			hdr = append(hdr, s.Tag)
		}
		for _, c := range s.Body.List { // case expressions are evaluated by the switch itself
			for _, e := range c.(*ast.CaseClause).List {
				hdr = append(hdr, e)
			}
		}
	case *ast.ForStmt:
		if s.Init != nil {
			hdr = append(hdr, s.Init)
		}
		if s.Cond != nil {
			hdr = append(hdr, s.Cond)
		}
	case *ast.BlockStmt, *ast.LabeledStmt, *ast.SelectStmt, *ast.TypeSwitchStmt, *ast.RangeStmt:
		return ""
	default:
		hdr = append(hdr, st)
	}
	site := ""
	for _, h := range hdr {
		ast.Inspect(h, func(n ast.Node) bool {
			if site != "" {
				return false
			}
			switch c := n.(type) {
			case *ast.FuncLit, *ast.BlockStmt:
				return false
			case *ast.CallExpr:
				sel, ok := c.Fun.(*ast.SelectorExpr)
				if !ok || len(c.Args) == 0 {
					return true
				}
				pkg, ok := sel.X.(*ast.Ident)
				if !ok || pkg.Name != "atomic" {
					return true
				}
				if strings.ReplaceAll(exprText(fset, c.Args[0]), " ", "") != "&"+recv+".status" {
					return true
				}
				switch {
				case strings.HasPrefix(sel.Sel.Name, "Load"):
					site = "vmgrSiteLoad"
				case strings.HasPrefix(sel.Sel.Name, "CompareAndSwap") && len(c.Args) >= 2 && exprText(fset, c.Args[1]) == "managerUninitialized":
					site = "vmgrSiteCas"
				case strings.HasPrefix(sel.Sel.Name, "CompareAndSwap") && len(c.Args) >= 2 && exprText(fset, c.Args[1]) == "managerInitializing":
					site = "vmgrSiteCas2"
				default:
					site = "vmgrSiteStW"
				}
				return false
			}
			return true
		})
	}
	return site
}

func point(site string) ast.Stmt {
	return &ast.ExprStmt{X: &ast.CallExpr{Fun: ast.NewIdent("vmgrPoint"), Args: []ast.Expr{ast.NewIdent(site)}}}
}

type placer struct {
	fset   *token.FileSet
	recv   string
	placed []string
}

func (p *placer) list(in []ast.Stmt) []ast.Stmt {
	var out []ast.Stmt
	for _, st := range in {
		if isPointCall(st) {
			continue
		}
		if ls, ok := st.(*ast.LabeledStmt); ok {
			if isPointCall(ls.Stmt) { // label in front of an old point: the label moves on to the next statement
				ls.Stmt = &ast.EmptyStmt{Implicit: true}
				out = append(out, ls)
				continue
			}
		}
		// a label left without its statement by the line above takes the next statement
		if n := len(out); n > 0 {
			if ls, ok := out[n-1].(*ast.LabeledStmt); ok {
				if _, empty := ls.Stmt.(*ast.EmptyStmt); empty {
					p.nested(st)
					if site := siteOf(p.fset, p.recv, st); site != "" {
						ls.Stmt = point(site)
						p.placed = append(p.placed, site)
						out = append(out, st)
					} else {
						ls.Stmt = st
					}
					continue
				}
			}
		}
		if ls, ok := st.(*ast.LabeledStmt); ok {
			p.nested(ls.Stmt)
			if site := siteOf(p.fset, p.recv, ls.Stmt); site != "" {
				inner := ls.Stmt
				ls.Stmt = point(site)
				p.placed = append(p.placed, site)
				out = append(out, ls, inner)
				continue
			}
			out = append(out, st)
			continue
		}
		p.nested(st)
		if site := siteOf(p.fset, p.recv, st); site != "" {
			out = append(out, point(site))
			p.placed = append(p.placed, site)
		}
		out = append(out, st)
	}
	return out
}

func (p *placer) nested(st ast.Stmt) {
	switch s := st.(type) {
	case *ast.BlockStmt:
		s.List = p.list(s.List)
	case *ast.IfStmt:
		s.Body.List = p.list(s.Body.List)
		if s.Else != nil {
			p.nested(s.Else)
		}
	case *ast.ForStmt:
		s.Body.List = p.list(s.Body.List)
	case *ast.RangeStmt:
		s.Body.List = p.list(s.Body.List)
	case *ast.SwitchStmt:
		for _, c := range s.Body.List {
			cc := c.(*ast.CaseClause)
			cc.Body = p.list(cc.Body)
		}
	case *ast.TypeSwitchStmt:
		for _, c := range s.Body.List {
			cc := c.(*ast.CaseClause)
			cc.Body = p.list(cc.Body)
		}
	case *ast.SelectStmt:
		for _, c := range s.Body.List {
			cc := c.(*ast.CommClause)
			cc.Body = p.list(cc.Body)
		}
	case *ast.LabeledStmt:
		p.nested(s.Stmt)
	}
}

func main() {
	if len(os.Args) != 2 {
		fmt.Fprintln(os.Stderr, "usage: mgrpoints <poll_manager.go>")
		os.Exit(2)
	}
	path := os.Args[1]
	fset := token.NewFileSet()
	// comments are dropped: they lose their positions when statements are inserted
	f, err := parser.ParseFile(fset, path, nil, 0)
	if err != nil {
		fmt.Fprintln(os.Stderr, err)
		os.Exit(2)
	}
	src, _ := os.ReadFile(path)
	var head []string
	for _, l := range strings.Split(string(src), "\n") {
		if strings.HasPrefix(l, "package ") {
			break
		}
		if strings.HasPrefix(l, "//go:build") || strings.HasPrefix(l, "// +build") {
			head = append(head, l)
		}
	}
	found := false
	for _, d := range f.Decls {
		fd, ok := d.(*ast.FuncDecl)
		if !ok || fd.Body == nil || fd.Name.Name != "Pick" || fd.Recv == nil || len(fd.Recv.List) != 1 {
			continue
		}
		if !strings.HasSuffix(exprText(fset, fd.Recv.List[0].Type), "manager") || len(fd.Recv.List[0].Names) != 1 {
			continue
		}
		p := &placer{fset: fset, recv: fd.Recv.List[0].Names[0].Name}
		fd.Body.List = p.list(fd.Body.List)
		found = true
		fmt.Println("manager.Pick:", strings.Join(p.placed, " "))
	}
	if !found {
		fmt.Fprintln(os.Stderr, "mgrpoints: manager.Pick not found")
		os.Exit(3)
	}
	var b bytes.Buffer
	if len(head) > 0 {
		b.WriteString(strings.Join(head, "\n") + "\n\n")
	}
	if err := format.Node(&b, token.NewFileSet(), f); err != nil {
		fmt.Fprintln(os.Stderr, err)
		os.Exit(2)
	}
	if err := os.WriteFile(path, b.Bytes(), 0o644); err != nil {
		fmt.Fprintln(os.Stderr, err)
		os.Exit(2)
	}
}
