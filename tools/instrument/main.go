// instrument: regenerates, from the CURRENT source of the repo, instrumented copies of the files that
// contain the lock-free protocols, for use as build-overlay REPLACEMENTS (no source hooks in /repo).
//
// The rewriting is mechanical (text splices at positions found with go/ast + go/types):
//
//	atomic.F(args…)                         ->  verifAtomicF("<site>", args…)
//	x.Load()/x.Store(v) on sync/atomic.Value ->  verifValueLoad("<site>", &x) / verifValueStore("<site>", &x, v)
//	select { … }                            ->  verifSel("<site>", hasDefault, "<dirs>", ch…); select { … }
//	… <-ch … (not a select case)            ->  verifSel("<site>", false, "r", ch); <stmt containing it>
//	ch <- v   (not a select case)           ->  verifSel("<site>", false, "s", ch); ch <- v
//	runtime.Gosched()                       ->  verifYield("<site>"); runtime.Gosched()
//	syscall.Close(fd)                       ->  verifSysClose("<site>", fd); <stmt containing it>
//	cb(args…)  (cb of a user callback type) ->  verifCb("<site>", true, "<callee>"); <stmt>; verifCb("<site>", false, "<callee>")
//	time.NewTimer(d) / t.Reset(d) / t.Stop() ->  verifNewTimer("<site>", d) / verifTimerReset("<site>", t, d) / verifTimerStop("<site>", t)
//	sendmsg(fd, bs, ivs, zc)                ->  verifSendmsg("<site>", fd, bs, ivs, zc)   (the scheduler scripts the kernel's answer)
//
// <site> = "<receiver.func>#<k>", k = ordinal of the operation in package syncops' list for that function:
// the same list tools/extract writes to facts.json / Gen/Life.lean.
//
// Output directory: the instrumented files (same base names), zz_verif_hooks.go (the helpers: with no hook
// installed they just perform the operation), and sites.json (every site: kind, text, position, whether it
// was instrumented; constructs the tool cannot instrument are listed there and on stderr, never dropped silently).
package main

import (
	"encoding/json"
	"flag"
	"fmt"
	"go/ast"
	"go/token"
	"go/types"
	"os"
	"path/filepath"
	"sort"
	"strings"

	"golang.org/x/tools/go/packages"

	"verifextract/syncops"
)

type Site struct {
	ID           string `json:"id"`
	Kind         string `json:"kind"`
	Text         string `json:"text"`
	File         string `json:"file"`
	Line         int    `json:"line"`
	Instrumented bool   `json:"instrumented"`
	Note         string `json:"note,omitempty"`
}

type edit struct {
	off  int // byte offset in the original file
	end  int // replace [off,end) (end==off: pure insertion)
	text string
	seq  int
}

type fileCtx struct {
	fset  *token.FileSet
	info  *types.Info
	file  *ast.File
	edits []edit
	sites []Site
	name  string
	atoms map[string]*types.Func // atomic functions used -> signature
	extra map[string]bool        // optional helper groups used: "timer", "sendmsg"
}

func (fc *fileCtx) off(p token.Pos) int { return fc.fset.Position(p).Offset }

func (fc *fileCtx) ins(p token.Pos, text string) {
	fc.edits = append(fc.edits, edit{off: fc.off(p), end: fc.off(p), text: text, seq: len(fc.edits)})
}

func (fc *fileCtx) repl(from, to token.Pos, text string) {
	fc.edits = append(fc.edits, edit{off: fc.off(from), end: fc.off(to), text: text, seq: len(fc.edits)})
}

// listStmt finds, for a node given by its ancestor path (outermost first, the node itself last), the innermost
// enclosing statement that is a direct element of a statement list, and reports whether inserting a statement
// before it is semantically "just before the node executes" (false e.g. for a receive in a for-condition).
func listStmt(path []ast.Node) (ast.Stmt, bool) {
	for i := len(path) - 1; i >= 1; i-- {
		st, ok := path[i].(ast.Stmt)
		if !ok {
			continue
		}
		inList := false
		switch p := path[i-1].(type) {
		case *ast.BlockStmt:
			inList = true
		case *ast.CaseClause:
			for _, b := range p.Body {
				if b == st {
					inList = true
				}
			}
		case *ast.CommClause:
			for _, b := range p.Body {
				if b == st {
					inList = true
				}
			}
		case *ast.LabeledStmt:
			// `L: stmt` – a statement inserted between label and stmt would steal the label
			return st, false
		}
		if !inList {
			continue
		}
		// the node must not sit in a loop/branch header of st, nor behind a short-circuit / deferred evaluation
		switch s := st.(type) {
		case *ast.ExprStmt, *ast.AssignStmt, *ast.ReturnStmt, *ast.IncDecStmt, *ast.SendStmt, *ast.DeclStmt:
			return st, true
		case *ast.SelectStmt:
			return st, path[len(path)-1] == ast.Node(s)
		case *ast.IfStmt:
			// allowed only if the node is the (whole) Init or inside Cond without an Init – evaluated once, first
			if i+1 < len(path) && (path[i+1] == ast.Node(s.Init) || (s.Init == nil && path[i+1] == ast.Node(s.Cond))) {
				return st, true
			}
			return st, false
		case *ast.SwitchStmt:
			if i+1 < len(path) && (path[i+1] == ast.Node(s.Init) || (s.Init == nil && path[i+1] == ast.Node(s.Tag))) {
				return st, true
			}
			return st, false
		default:
			return st, false
		}
	}
	return nil, false
}

func lit(s string) string {
	b, _ := json.Marshal(s)
	return string(b)
}

func (fc *fileCtx) src(n ast.Node, srcBytes []byte) string {
	return string(srcBytes[fc.off(n.Pos()):fc.off(n.End())])
}

func instrumentFile(fc *fileCtx, srcBytes []byte) {
	atomicName := "" // local name of the sync/atomic import
	for _, im := range fc.file.Imports {
		if im.Path.Value == `"sync/atomic"` {
			atomicName = "atomic"
			if im.Name != nil {
				atomicName = im.Name.Name
			}
		}
	}
	for _, d := range fc.file.Decls {
		fd, ok := d.(*ast.FuncDecl)
		if !ok || fd.Body == nil {
			continue
		}
		fname := syncops.FuncName(fd)
		ops := syncops.Ops(fc.fset, fc.info, fd.Body)
		byNode := map[ast.Node]syncops.Op{}
		for _, o := range ops {
			byNode[o.Node] = o
		}
		var path []ast.Node
		ast.Inspect(fd.Body, func(n ast.Node) bool {
			if n == nil {
				path = path[:len(path)-1]
				return true
			}
			path = append(path, n)
			o, ok := byNode[n]
			if !ok {
				return true
			}
			pos := fc.fset.Position(n.Pos())
			site := Site{ID: fmt.Sprintf("%s#%d", fname, o.Index), Kind: o.Kind, Text: o.Text, File: fc.name, Line: pos.Line}
			sid := lit(site.ID)
			before := func(hook string) bool {
				st, ok := listStmt(path)
				if !ok || st == nil {
					site.Note = "cannot insert a statement before this construct (loop/branch header or labelled statement)"
					return false
				}
				fc.ins(st.Pos(), hook+"; ")
				return true
			}
			switch o.Kind {
			case syncops.KAtomic:
				call := n.(*ast.CallExpr)
				sel := call.Fun.(*ast.SelectorExpr)
				if fn, ok := fc.info.Uses[sel.Sel].(*types.Func); ok && len(call.Args) > 0 && call.Ellipsis == token.NoPos {
					fc.atoms[o.Fn] = fn
					fc.repl(call.Pos(), call.Lparen+1, "verifAtomic"+o.Fn+"("+sid+", ")
					site.Instrumented = true
				} else {
					site.Note = "unsupported atomic call form"
				}
			case syncops.KAValue:
				call := n.(*ast.CallExpr)
				sel := call.Fun.(*ast.SelectorExpr)
				recv := fc.src(sel.X, srcBytes)
				_, isPtr := fc.info.TypeOf(sel.X).(*types.Pointer)
				if !isPtr {
					recv = "&" + recv
				}
				switch {
				case o.Fn == "Load" && len(call.Args) == 0:
					fc.repl(call.Pos(), call.End(), "verifValueLoad("+sid+", "+recv+")")
					site.Instrumented = true
				case o.Fn == "Store" && len(call.Args) == 1:
					fc.repl(call.Pos(), call.Lparen+1, "verifValueStore("+sid+", "+recv+", ")
					site.Instrumented = true
				default:
					site.Note = "atomic.Value method not wrapped"
				}
			case syncops.KSelect:
				sel := n.(*ast.SelectStmt)
				hasDefault := false
				dirs := ""
				var chans []string
				okAll := true
				for _, c := range sel.Body.List {
					cc := c.(*ast.CommClause)
					switch s := cc.Comm.(type) {
					case nil:
						hasDefault = true
					case *ast.SendStmt:
						dirs += "s"
						chans = append(chans, fc.src(s.Chan, srcBytes))
					case *ast.ExprStmt:
						if u, ok := s.X.(*ast.UnaryExpr); ok && u.Op == token.ARROW {
							dirs += "r"
							chans = append(chans, fc.src(u.X, srcBytes))
						} else {
							okAll = false
						}
					case *ast.AssignStmt:
						if u, ok := s.Rhs[0].(*ast.UnaryExpr); ok && len(s.Rhs) == 1 && u.Op == token.ARROW {
							dirs += "r"
							chans = append(chans, fc.src(u.X, srcBytes))
						} else {
							okAll = false
						}
					}
				}
				if !okAll {
					site.Note = "select with an unrecognised communication clause"
					break
				}
				hook := fmt.Sprintf("verifSel(%s, %v, %s", sid, hasDefault, lit(dirs))
				for _, c := range chans {
					hook += ", " + c
				}
				site.Instrumented = before(hook + ")")
			case syncops.KRecv:
				if o.InSel {
					site.Note = "communication of a select case (covered by the select's site)"
					break
				}
				u := n.(*ast.UnaryExpr)
				site.Instrumented = before(fmt.Sprintf("verifSel(%s, false, \"r\", %s)", sid, fc.src(u.X, srcBytes)))
			case syncops.KSend:
				if o.InSel {
					site.Note = "communication of a select case (covered by the select's site)"
					break
				}
				s := n.(*ast.SendStmt)
				site.Instrumented = before(fmt.Sprintf("verifSel(%s, false, \"s\", %s)", sid, fc.src(s.Chan, srcBytes)))
			case syncops.KGosched:
				site.Instrumented = before("verifYield(" + sid + ")")
			case syncops.KSysClose:
				call := n.(*ast.CallExpr)
				site.Instrumented = before("verifSysClose(" + sid + ", " + fc.src(call.Args[0], srcBytes) + ")")
			case syncops.KCallback:
				st, ok := listStmt(path)
				if !ok || st == nil {
					site.Note = "callback call in a position where no statement can be inserted"
					break
				}
				fc.ins(st.Pos(), "verifCb("+sid+", true, "+lit(o.Fn)+"); ")
				if _, isRet := st.(*ast.ReturnStmt); isRet {
					site.Note = "callback called in a return statement: exit point not instrumented"
				} else if _, isIf := st.(*ast.IfStmt); isIf {
					site.Note = "callback called in an if header: exit point not instrumented"
				} else {
					fc.ins(st.End(), "; verifCb("+sid+", false, "+lit(o.Fn)+")")
				}
				site.Instrumented = true
			case syncops.KTimer:
				call := n.(*ast.CallExpr)
				sel := call.Fun.(*ast.SelectorExpr)
				switch o.Fn {
				case "NewTimer":
					fc.repl(call.Pos(), call.Lparen+1, "verifNewTimer("+sid+", ")
				case "Reset":
					fc.repl(call.Pos(), call.Lparen+1, "verifTimerReset("+sid+", "+fc.src(sel.X, srcBytes)+", ")
				case "Stop":
					fc.repl(call.Pos(), call.End(), "verifTimerStop("+sid+", "+fc.src(sel.X, srcBytes)+")")
				}
				fc.extra["timer"] = true
				site.Instrumented = true
			case syncops.KKernel:
				call := n.(*ast.CallExpr)
				fc.repl(call.Pos(), call.Lparen+1, "verifSendmsg("+sid+", ")
				fc.extra["sendmsg"] = true
				site.Instrumented = true
			default:
				site.Note = "not a schedule point (listed for the fingerprint only)"
			}
			fc.sites = append(fc.sites, site)
			return true
		})
	}
	if atomicName != "" {
		// keep the import used even if every call was rewritten
		fc.edits = append(fc.edits, edit{off: len(srcBytes), end: len(srcBytes), text: "\nvar _ = " + atomicName + ".LoadInt32\n", seq: len(fc.edits)})
	}
}

func apply(src []byte, edits []edit) []byte {
	sort.SliceStable(edits, func(i, j int) bool {
		if edits[i].off != edits[j].off {
			return edits[i].off < edits[j].off
		}
		return edits[i].seq < edits[j].seq
	})
	var out []byte
	cur := 0
	for _, e := range edits {
		if e.off < cur {
			fmt.Fprintf(os.Stderr, "instrument: overlapping edits at offset %d (skipped %q)\n", e.off, e.text)
			continue
		}
		out = append(out, src[cur:e.off]...)
		out = append(out, e.text...)
		cur = e.end
	}
	out = append(out, src[cur:]...)
	return out
}

func typeStr(t types.Type) string {
	return types.TypeString(t, func(p *types.Package) string { return p.Name() })
}

// helper source: hook interface + one wrapper per atomic function used
func hooksFile(pkgName string, atoms map[string]*types.Func, extra map[string]bool) string {
	var b strings.Builder
	b.WriteString("// GENERATED by /verif/tools/instrument. Overlaid into the package at build time; not part of /repo.\n\n")
	b.WriteString("package " + pkgName + "\n\nimport (\n\t\"sync/atomic\"\n\t\"syscall\"\n\t\"time\"\n\t\"unsafe\"\n)\n\n")
	b.WriteString(`// verifHooks is implemented by the controlled scheduler (go/inpkg/sched.go). With verifHook == nil every
// helper below just performs the operation.
type verifHooks interface {
	// Pre is the schedule point before an atomic operation on *addr.
	Pre(site, fn string, addr unsafe.Pointer)
	// Post reports the operation just performed and what it observed (a, b = operands; r = result).
	Post(site, fn string, addr unsafe.Pointer, a, b, r int64)
	// Sel is the schedule / wait point before a select, a blocking receive or a blocking send.
	// dirs[i] is 'r' or 's' for chans[i]; hasDefault = non-blocking.
	Sel(site string, hasDefault bool, dirs string, chans []interface{})
	// Yield is the point inside a spin loop (before runtime.Gosched()).
	Yield(site string)
	// Cb is the point at entry (enter=true) / normal exit of a user callback call.
	Cb(site string, enter bool, callee string)
	// SysClose is the point before close(2).
	SysClose(site string, fd int)
	// TimerPre is the schedule point before time.NewTimer (t == nil) / t.Reset / t.Stop; TimerPost reports the operation
	// just done (op = "new" | "reset" | "stop"; res = what Reset/Stop returned).
	TimerPre(site, op string, t *time.Timer)
	TimerPost(site, op string, t *time.Timer, res bool)
	// Sendmsg is the schedule point before the package's sendmsg wrapper; handled=true means the hook has played the
	// kernel (scripted acceptance) and (n, err) is the answer.
	Sendmsg(site string, fd int, bs [][]byte, ivs []syscall.Iovec, zerocopy bool) (n int, err error, handled bool)
}

var verifHook verifHooks

func verifB(b bool) int64 {
	if b {
		return 1
	}
	return 0
}

func verifSel(site string, hasDefault bool, dirs string, chans ...interface{}) {
	if h := verifHook; h != nil {
		h.Sel(site, hasDefault, dirs, chans)
	}
}

func verifYield(site string) {
	if h := verifHook; h != nil {
		h.Yield(site)
	}
}

func verifCb(site string, enter bool, callee string) {
	if h := verifHook; h != nil {
		h.Cb(site, enter, callee)
	}
}

func verifSysClose(site string, fd int) {
	if h := verifHook; h != nil {
		h.SysClose(site, fd)
	}
}

func verifNewTimer(site string, d time.Duration) *time.Timer {
	if h := verifHook; h != nil {
		h.TimerPre(site, "new", nil)
	}
	t := time.NewTimer(d)
	if h := verifHook; h != nil {
		h.TimerPost(site, "new", t, true)
	}
	return t
}

func verifTimerReset(site string, t *time.Timer, d time.Duration) bool {
	if h := verifHook; h != nil {
		h.TimerPre(site, "reset", t)
	}
	r := t.Reset(d)
	if h := verifHook; h != nil {
		h.TimerPost(site, "reset", t, r)
	}
	return r
}

func verifTimerStop(site string, t *time.Timer) bool {
	if h := verifHook; h != nil {
		h.TimerPre(site, "stop", t)
	}
	r := t.Stop()
	if h := verifHook; h != nil {
		h.TimerPost(site, "stop", t, r)
	}
	return r
}

func verifValueLoad(site string, v *atomic.Value) interface{} {
	if h := verifHook; h != nil {
		h.Pre(site, "Value.Load", unsafe.Pointer(v))
	}
	r := v.Load()
	if h := verifHook; h != nil {
		h.Post(site, "Value.Load", unsafe.Pointer(v), 0, 0, verifB(r != nil))
	}
	return r
}

func verifValueStore(site string, v *atomic.Value, x interface{}) {
	if h := verifHook; h != nil {
		h.Pre(site, "Value.Store", unsafe.Pointer(v))
	}
	v.Store(x)
	if h := verifHook; h != nil {
		h.Post(site, "Value.Store", unsafe.Pointer(v), 0, 0, 0)
	}
}

`)
	names := make([]string, 0, len(atoms))
	for n := range atoms {
		names = append(names, n)
	}
	sort.Strings(names)
	for _, n := range names {
		sig := atoms[n].Type().(*types.Signature)
		ps := sig.Params()
		var decl, call []string
		conv := func(i int) string {
			name := fmt.Sprintf("a%d", i)
			if typeStr(ps.At(i).Type()) == "unsafe.Pointer" {
				return "int64(uintptr(" + name + "))"
			}
			return "int64(" + name + ")"
		}
		for i := 0; i < ps.Len(); i++ {
			decl = append(decl, fmt.Sprintf("a%d %s", i, typeStr(ps.At(i).Type())))
			call = append(call, fmt.Sprintf("a%d", i))
		}
		ret := ""
		if sig.Results().Len() == 1 {
			ret = typeStr(sig.Results().At(0).Type())
		}
		a, bb := "0", "0"
		if ps.Len() >= 2 {
			a = conv(1)
		}
		if ps.Len() >= 3 {
			bb = conv(2)
		}
		fmt.Fprintf(&b, "func verifAtomic%s(site string, %s) %s {\n", n, strings.Join(decl, ", "), ret)
		fmt.Fprintf(&b, "\tif h := verifHook; h != nil {\n\t\th.Pre(site, %q, unsafe.Pointer(a0))\n\t}\n", n)
		switch {
		case ret == "":
			fmt.Fprintf(&b, "\tatomic.%s(%s)\n\tif h := verifHook; h != nil {\n\t\th.Post(site, %q, unsafe.Pointer(a0), %s, %s, 0)\n\t}\n}\n\n", n, strings.Join(call, ", "), n, a, bb)
		case ret == "bool":
			fmt.Fprintf(&b, "\tr := atomic.%s(%s)\n\tif h := verifHook; h != nil {\n\t\th.Post(site, %q, unsafe.Pointer(a0), %s, %s, verifB(r))\n\t}\n\treturn r\n}\n\n", n, strings.Join(call, ", "), n, a, bb)
		case ret == "unsafe.Pointer":
			fmt.Fprintf(&b, "\tr := atomic.%s(%s)\n\tif h := verifHook; h != nil {\n\t\th.Post(site, %q, unsafe.Pointer(a0), %s, %s, int64(uintptr(r)))\n\t}\n\treturn r\n}\n\n", n, strings.Join(call, ", "), n, a, bb)
		default:
			fmt.Fprintf(&b, "\tr := atomic.%s(%s)\n\tif h := verifHook; h != nil {\n\t\th.Post(site, %q, unsafe.Pointer(a0), %s, %s, int64(r))\n\t}\n\treturn r\n}\n\n", n, strings.Join(call, ", "), n, a, bb)
		}
	}
	if extra["sendmsg"] {
		b.WriteString(`func verifSendmsg(site string, fd int, bs [][]byte, ivs []syscall.Iovec, zerocopy bool) (int, error) {
	if h := verifHook; h != nil {
		if n, err, ok := h.Sendmsg(site, fd, bs, ivs, zerocopy); ok {
			return n, err
		}
	}
	return sendmsg(fd, bs, ivs, zerocopy)
}
`)
	}
	return b.String()
}

func main() {
	repo := flag.String("repo", "/repo", "repository root")
	out := flag.String("out", "", "output directory (work/instr)")
	files := flag.String("files", "connection_lock.go,connection_onevent.go,connection_reactor.go,connection_impl.go,fd_operator.go,fd_operator_cache.go,net_netfd_conn.go,nocopy_linkbuffer.go", "comma separated base names of the files to instrument (package netpoll)")
	pkgPat := flag.String("pkg", ".", "package pattern relative to -repo")
	flag.Parse()
	if *out == "" {
		fmt.Fprintln(os.Stderr, "instrument: -out required")
		os.Exit(2)
	}
	cfg := &packages.Config{
		Mode: packages.NeedName | packages.NeedFiles | packages.NeedSyntax | packages.NeedTypes | packages.NeedTypesInfo | packages.NeedImports | packages.NeedDeps,
		Dir:  *repo,
		Env:  append(os.Environ(), "GOOS=linux", "GOARCH=amd64", "GOFLAGS=-mod=mod"),
	}
	pkgs, err := packages.Load(cfg, *pkgPat)
	if err != nil || len(pkgs) != 1 {
		fmt.Fprintln(os.Stderr, "instrument: load:", err, len(pkgs))
		os.Exit(2)
	}
	p := pkgs[0]
	if len(p.Errors) > 0 {
		for _, e := range p.Errors {
			fmt.Fprintln(os.Stderr, "instrument: pkg error:", e)
		}
		os.Exit(2)
	}
	want := map[string]bool{}
	for _, f := range strings.Split(*files, ",") {
		if f = strings.TrimSpace(f); f != "" {
			want[f] = true
		}
	}
	if err := os.MkdirAll(*out, 0o755); err != nil {
		fmt.Fprintln(os.Stderr, err)
		os.Exit(2)
	}
	old, _ := filepath.Glob(filepath.Join(*out, "*"))
	for _, f := range old {
		os.Remove(f)
	}
	atoms := map[string]*types.Func{}
	extra := map[string]bool{}
	var sites []Site
	done := map[string]bool{}
	for _, f := range p.Syntax {
		path := p.Fset.Position(f.Pos()).Filename
		base := filepath.Base(path)
		if !want[base] {
			continue
		}
		src, err := os.ReadFile(path)
		if err != nil {
			fmt.Fprintln(os.Stderr, err)
			os.Exit(2)
		}
		fc := &fileCtx{fset: p.Fset, info: p.TypesInfo, file: f, name: base, atoms: atoms, extra: extra}
		instrumentFile(fc, src)
		res := apply(src, fc.edits)
		if err := os.WriteFile(filepath.Join(*out, base), res, 0o644); err != nil {
			fmt.Fprintln(os.Stderr, err)
			os.Exit(2)
		}
		sites = append(sites, fc.sites...)
		done[base] = true
	}
	for f := range want {
		if !done[f] {
			fmt.Fprintf(os.Stderr, "instrument: %s is not a file of the package under linux/amd64 (skipped)\n", f)
		}
	}
	if err := os.WriteFile(filepath.Join(*out, "zz_verif_hooks.go"), []byte(hooksFile(p.Name, atoms, extra)), 0o644); err != nil {
		fmt.Fprintln(os.Stderr, err)
		os.Exit(2)
	}
	for _, s := range sites {
		if !s.Instrumented && !strings.HasPrefix(s.Note, "not a schedule point") && !strings.HasPrefix(s.Note, "communication of a select") {
			fmt.Fprintf(os.Stderr, "instrument: NOT instrumented: %s %s:%d %s (%s)\n", s.ID, s.File, s.Line, s.Text, s.Note)
		}
	}
	j, _ := json.MarshalIndent(map[string]interface{}{"files": keys(done), "sites": sites}, "", " ")
	os.WriteFile(filepath.Join(*out, "sites.json"), j, 0o644)
}

func keys(m map[string]bool) []string {
	var k []string
	for x := range m {
		k = append(k, x)
	}
	sort.Strings(k)
	return k
}
