module verifinstrument

go 1.22.0

toolchain go1.23.5

require (
	golang.org/x/tools v0.29.0
	verifextract v0.0.0
)

require (
	golang.org/x/mod v0.22.0 // indirect
	golang.org/x/sync v0.10.0 // indirect
)

replace verifextract => ../extract
