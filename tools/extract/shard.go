// shard.go: site analysis of /repo/mux/shard_queue.go for property C17 (mux.ShardQueue).
//
// For every function declared in mux/shard_queue.go an ordered list of *entries* is computed
// (source order = ast.Inspect order; the closure passed to runner.RunTask belongs to the enclosing
// function).  SITE entries (label "<Func>#<k>") are the schedule points of the interleaving model:
//   - atomic.{Load,Store,Add,CompareAndSwap}Int32 calls      load X | store X v | add X d | cas X old new
//   - X.Lock() / X.Unlock() statements on a sync.Mutex           mlock X | munlock X
//   - runner.RunTask(...) statements                             spawn runner.RunTask
//   - maximal runs of consecutive simple statements that access a mutable plain field of the
//     receiver struct                                            plain r:<fields> w:<fields>
//
// Non-site entries (label "") record the calls between the sites: call <method>, conn <chain>,
// <local> <Method>, callvar <name>, gosched.
//
// The same numbering drives (a) lean/Netpoll/Gen/Shard.lean + facts.json "shard_steps" and
// (b) the instrumented copy of shard_queue.go written by -instr-shard.
package main

import (
	"bytes"
	"fmt"
	"go/ast"
	"go/format"
	"go/parser"
	"go/token"
	"go/types"
	"os"
	"path/filepath"
	"sort"
	"strconv"
	"strings"

	"golang.org/x/tools/go/packages"
)

const shardFile = "shard_queue.go"
const shardRecvType = "ShardQueue"

var shardModelled = []string{"Add", "Close", "drained", "triggering", "foreach", "deal", "flush", "lock", "unlock"}

// functions in which the queue is not yet shared: plain accesses there are not schedule points
var shardPrePublication = map[string]bool{"NewShardQueue": true, "init": true}

var shardAtomicHooked = map[string]string{"LoadInt32": "load", "StoreInt32": "store", "AddInt32": "add", "CompareAndSwapInt32": "cas"}

type shardAtomicEdit struct {
	call  *ast.CallExpr
	label string
	fname string
}

type shardInsertEdit struct {
	list   *[]ast.Stmt
	before ast.Stmt
	label  string
	kind   string
}

type shardResult struct {
	found       bool
	Funcs       []string
	Steps       map[string][][2]string
	Unsupported []string
	AddGuard    string // condition of the leading `if … { return }` of Add when it touches nothing shared, else ""
	AddShard    string // right-hand side of the definition of `shard` in Add, else ""

	fset    *token.FileSet
	file    *ast.File
	atomics []shardAtomicEdit
	inserts []shardInsertEdit
}

type shardAn struct {
	fset    *token.FileSet
	info    *types.Info
	pkg     *types.Package
	res     *shardResult
	fields  map[*types.Var]bool // fields of the receiver struct (incl. embedded structs of the package)
	structs map[*types.Named]bool
	mutable map[string]bool // mutable plain fields, by name
	atomicF map[string]bool // fields that are the operand of a sync/atomic call

	fn      string
	plainOn bool
	entries [][2]string
	nsite   int
	inner   map[*ast.CallExpr]bool // calls already reported as part of a conn chain
}

func (a *shardAn) unsupported(pos token.Pos, format string, args ...interface{}) {
	p := a.fset.Position(pos)
	a.res.Unsupported = append(a.res.Unsupported, fmt.Sprintf("%s:%d: %s: %s", filepath.Base(p.Filename), p.Line, a.fn, fmt.Sprintf(format, args...)))
}

func (a *shardAn) text(n ast.Node) string {
	return strings.ReplaceAll(exprStr(a.fset, n), " ", "")
}

func (a *shardAn) site(desc string) string {
	label := a.fn + "#" + strconv.Itoa(a.nsite)
	a.nsite++
	a.entries = append(a.entries, [2]string{label, desc})
	return label
}

func (a *shardAn) note(desc string) { a.entries = append(a.entries, [2]string{"", desc}) }

func unparen(e ast.Expr) ast.Expr {
	for {
		p, ok := e.(*ast.ParenExpr)
		if !ok {
			return e
		}
		e = p.X
	}
}

// rootSel strips parens, index, slice and star expressions: q.locks[shard] -> q.locks
func rootSel(e ast.Expr) *ast.SelectorExpr {
	for {
		switch x := e.(type) {
		case *ast.ParenExpr:
			e = x.X
		case *ast.IndexExpr:
			e = x.X
		case *ast.SliceExpr:
			e = x.X
		case *ast.StarExpr:
			e = x.X
		case *ast.SelectorExpr:
			return x
		default:
			return nil
		}
	}
}

// recvField: sel selects a field of the receiver struct; returns its name
func (a *shardAn) recvField(sel *ast.SelectorExpr) (string, bool) {
	if sel == nil {
		return "", false
	}
	s := a.info.Selections[sel]
	if s == nil || s.Kind() != types.FieldVal {
		return "", false
	}
	v, ok := s.Obj().(*types.Var)
	if !ok || !a.fields[v] {
		return "", false
	}
	return v.Name(), true
}

func (a *shardAn) callee(c *ast.CallExpr) types.Object {
	switch f := unparen(c.Fun).(type) {
	case *ast.Ident:
		return a.info.Uses[f]
	case *ast.SelectorExpr:
		return a.info.Uses[f.Sel]
	}
	return nil
}

func recvNamed(f *types.Func) *types.Named {
	sig, ok := f.Type().(*types.Signature)
	if !ok || sig.Recv() == nil {
		return nil
	}
	t := sig.Recv().Type()
	if p, ok := t.(*types.Pointer); ok {
		t = p.Elem()
	}
	n, _ := t.(*types.Named)
	return n
}

type shardCallKind int

const (
	ckOther shardCallKind = iota
	ckAtomicFunc
	ckAtomicOther
	ckMutexLock
	ckMutexUnlock
	ckSyncOther
	ckRunTask
	ckRecvMethod
	ckGosched
	ckCallVar
)

func (a *shardAn) classify(c *ast.CallExpr) (shardCallKind, string) {
	obj := a.callee(c)
	switch o := obj.(type) {
	case *types.Func:
		path := ""
		if o.Pkg() != nil {
			path = o.Pkg().Path()
		}
		rn := recvNamed(o)
		switch {
		case path == "sync/atomic" && rn == nil:
			return ckAtomicFunc, o.Name()
		case path == "sync/atomic":
			return ckAtomicOther, rn.Obj().Name() + "." + o.Name()
		case path == "sync" && rn != nil && rn.Obj().Name() == "Mutex" && o.Name() == "Lock":
			return ckMutexLock, ""
		case path == "sync" && rn != nil && rn.Obj().Name() == "Mutex" && o.Name() == "Unlock":
			return ckMutexUnlock, ""
		case path == "sync" && rn != nil:
			return ckSyncOther, rn.Obj().Name() + "." + o.Name()
		case path == "sync":
			return ckSyncOther, o.Name()
		case path == "runtime" && o.Name() == "Gosched":
			return ckGosched, ""
		case o.Pkg() == a.pkg && rn != nil && a.structs[rn]:
			return ckRecvMethod, o.Name()
		}
	case *types.Var:
		if o.Pkg() != nil && strings.HasSuffix(o.Pkg().Path(), "/internal/runner") && o.Name() == "RunTask" && !o.IsField() {
			return ckRunTask, ""
		}
		if _, ok := o.Type().Underlying().(*types.Signature); ok {
			if _, isSel := unparen(c.Fun).(*ast.SelectorExpr); !isSel {
				return ckCallVar, o.Name()
			}
		}
	case nil:
		// call of a func-typed expression that is not a named object: q.getters[i][j]()
		if tv, ok := a.info.Types[c.Fun]; ok && !tv.IsType() {
			if _, ok := tv.Type.Underlying().(*types.Signature); ok {
				if _, isLit := unparen(c.Fun).(*ast.FuncLit); !isLit {
					return ckCallVar, a.text(c.Fun)
				}
			}
		}
	}
	return ckOther, ""
}

// connChain: q.conn.Writer().Flush() -> ("conn", "Writer.Flush"); marks the inner calls
func (a *shardAn) connChain(c *ast.CallExpr) (string, string, bool) {
	var names []string
	var inner []*ast.CallExpr
	cur := c
	for {
		sel, ok := unparen(cur.Fun).(*ast.SelectorExpr)
		if !ok {
			return "", "", false
		}
		names = append([]string{sel.Sel.Name}, names...)
		switch x := unparen(sel.X).(type) {
		case *ast.CallExpr:
			inner = append(inner, x)
			cur = x
			continue
		case *ast.SelectorExpr:
			if f, ok := a.recvField(x); ok && !a.mutable[f] {
				if _, isIface := a.info.TypeOf(x).Underlying().(*types.Interface); isIface {
					for _, i := range inner {
						a.inner[i] = true
					}
					return f, strings.Join(names, "."), true
				}
			}
		}
		return "", "", false
	}
}

type shardAccess struct {
	reads, writes map[string]bool
	sync          bool // contains an atomic call, a Mutex Lock/Unlock, RunTask, or another sync primitive
	call          bool // contains a call that is reported as an entry (the run must end after it)
	funcLit       bool
}

func (x *shardAccess) plain() bool { return len(x.reads)+len(x.writes) > 0 }

func (x *shardAccess) merge(y shardAccess) {
	for k := range y.reads {
		x.reads[k] = true
	}
	for k := range y.writes {
		x.writes[k] = true
	}
}

func newAccess() shardAccess { return shardAccess{reads: map[string]bool{}, writes: map[string]bool{}} }

// access computes the mutable plain fields read / written by a statement or expression (closures excluded).
func (a *shardAn) access(n ast.Node) shardAccess {
	acc := newAccess()
	if n == nil {
		return acc
	}
	wr := map[*ast.SelectorExpr]bool{}   // write targets
	rdwr := map[*ast.SelectorExpr]bool{} // write targets that are also read (op-assign, inc/dec)
	atomOp := map[*ast.SelectorExpr]bool{}
	ast.Inspect(n, func(m ast.Node) bool {
		switch s := m.(type) {
		case *ast.FuncLit:
			acc.funcLit = true
			return false
		case *ast.AssignStmt:
			for _, l := range s.Lhs {
				if r := rootSel(l); r != nil {
					wr[r] = true
					if s.Tok != token.ASSIGN && s.Tok != token.DEFINE {
						rdwr[r] = true
					}
				}
			}
		case *ast.IncDecStmt:
			if r := rootSel(s.X); r != nil {
				wr[r] = true
				rdwr[r] = true
			}
		case *ast.RangeStmt:
			if s.Tok == token.ASSIGN {
				for _, l := range []ast.Expr{s.Key, s.Value} {
					if l != nil {
						if r := rootSel(l); r != nil {
							wr[r] = true
						}
					}
				}
			}
		case *ast.UnaryExpr:
			if s.Op == token.AND {
				if r := rootSel(s.X); r != nil {
					if f, ok := a.recvField(r); ok && a.mutable[f] {
						a.unsupported(s.Pos(), "address of mutable plain field %s taken", f)
					}
				}
			}
			if s.Op == token.ARROW {
				acc.sync = true
			}
		case *ast.SendStmt, *ast.SelectStmt, *ast.GoStmt:
			acc.sync = true
		case *ast.CallExpr:
			k, _ := a.classify(s)
			switch k {
			case ckAtomicFunc, ckAtomicOther:
				acc.sync = true
				if len(s.Args) > 0 {
					if u, ok := unparen(s.Args[0]).(*ast.UnaryExpr); ok && u.Op == token.AND {
						if r := rootSel(u.X); r != nil {
							atomOp[r] = true
						}
					}
				}
				if k == ckAtomicOther {
					if sel, ok := unparen(s.Fun).(*ast.SelectorExpr); ok {
						if r := rootSel(sel.X); r != nil {
							atomOp[r] = true
						}
					}
				}
			case ckMutexLock, ckMutexUnlock, ckSyncOther, ckRunTask:
				acc.sync = true
			case ckRecvMethod, ckCallVar:
				acc.call = true
			default:
				if _, _, ok := a.connChain(s); ok {
					acc.call = true
				}
			}
		}
		return true
	})
	ast.Inspect(n, func(m ast.Node) bool {
		switch s := m.(type) {
		case *ast.FuncLit:
			return false
		case *ast.SelectorExpr:
			f, ok := a.recvField(s)
			if !ok {
				return true
			}
			if a.atomicF[f] && !atomOp[s] && a.plainOn {
				a.unsupported(s.Pos(), "plain access to field %s that is also accessed with sync/atomic", f)
			}
			if !a.mutable[f] {
				return true
			}
			if wr[s] {
				acc.writes[f] = true
				if rdwr[s] {
					acc.reads[f] = true
				}
			} else {
				acc.reads[f] = true
			}
		}
		return true
	})
	if !a.plainOn {
		acc.reads, acc.writes = map[string]bool{}, map[string]bool{}
	}
	return acc
}

func setList(m map[string]bool) string {
	if len(m) == 0 {
		return "-"
	}
	var l []string
	for k := range m {
		l = append(l, k)
	}
	sort.Strings(l)
	return strings.Join(l, ",")
}

func (a *shardAn) plainSite(list *[]ast.Stmt, before ast.Stmt, acc shardAccess) {
	label := a.site("plain r:" + setList(acc.reads) + " w:" + setList(acc.writes))
	if list == nil {
		a.unsupported(before.Pos(), "unsupported shape: plain access where no statement can be inserted")
		return
	}
	a.res.inserts = append(a.res.inserts, shardInsertEdit{list, before, label, "plain"})
}

func (a *shardAn) args(c *ast.CallExpr) string {
	s := make([]string, len(c.Args))
	for i, x := range c.Args {
		s[i] = a.text(x)
	}
	return strings.Join(s, ",")
}

// callEntry reports one call expression (not its arguments); stmtLevel: the call is the whole expression
// statement s in *list, so a statement can be inserted before it.
func (a *shardAn) callEntry(c *ast.CallExpr, list *[]ast.Stmt, s ast.Stmt) {
	if a.inner[c] {
		return
	}
	k, name := a.classify(c)
	switch k {
	case ckAtomicFunc:
		if kind, ok := shardAtomicHooked[name]; ok && len(c.Args) >= 1 {
			x := a.text(c.Args[0])
			if u, ok := unparen(c.Args[0]).(*ast.UnaryExpr); ok && u.Op == token.AND {
				x = a.text(u.X)
			} else {
				x = "*" + x
			}
			desc := kind + " " + x
			for _, r := range c.Args[1:] {
				desc += " " + a.text(r)
			}
			label := a.site(desc)
			a.res.atomics = append(a.res.atomics, shardAtomicEdit{c, label, name})
		} else {
			a.site("atomic." + name + "(" + a.args(c) + ")")
			a.unsupported(c.Pos(), "unsupported sync/atomic function %s", name)
		}
	case ckAtomicOther:
		a.site("atomic." + name + "(" + a.args(c) + ")")
		a.unsupported(c.Pos(), "unsupported sync/atomic method %s", name)
	case ckMutexLock, ckMutexUnlock:
		kind := "mlock"
		if k == ckMutexUnlock {
			kind = "munlock"
		}
		x := "?"
		if sel, ok := unparen(c.Fun).(*ast.SelectorExpr); ok {
			x = a.text(sel.X)
		}
		label := a.site(kind + " " + x)
		if s != nil && list != nil {
			a.res.inserts = append(a.res.inserts, shardInsertEdit{list, s, label, kind})
		} else {
			a.unsupported(c.Pos(), "unsupported shape: Mutex %s that is not an expression statement of a block", kind)
		}
	case ckSyncOther:
		a.site("sync." + name + "(" + a.args(c) + ")")
		a.unsupported(c.Pos(), "unsupported sync primitive %s", name)
	case ckRunTask:
		label := a.site("spawn " + a.text(c.Fun))
		if s != nil && list != nil {
			a.res.inserts = append(a.res.inserts, shardInsertEdit{list, s, label, "spawn"})
		} else {
			a.unsupported(c.Pos(), "unsupported shape: RunTask call that is not an expression statement of a block")
		}
	case ckRecvMethod:
		a.note("call " + name)
	case ckGosched:
		a.note("gosched")
	case ckCallVar:
		a.note("callvar " + name)
	default:
		if f, chain, ok := a.connChain(c); ok {
			a.note(f + " " + chain)
			return
		}
		// method of package netpoll called on a local variable: writer.Append(buf)
		if sel, ok := unparen(c.Fun).(*ast.SelectorExpr); ok {
			if id, ok := unparen(sel.X).(*ast.Ident); ok {
				if fn, ok := a.info.Uses[sel.Sel].(*types.Func); ok && fn.Pkg() != nil &&
					fn.Pkg().Path() == "github.com/cloudwego/netpoll" && fn.Type().(*types.Signature).Recv() != nil {
					if v, ok := a.info.Uses[id].(*types.Var); ok && !v.IsField() {
						a.note(id.Name + " " + sel.Sel.Name)
					}
				}
			}
		}
	}
}

// walk reports the entries of an expression or non-block statement in ast.Inspect order.
func (a *shardAn) walk(n ast.Node) {
	if n == nil {
		return
	}
	ast.Inspect(n, func(m ast.Node) bool {
		switch x := m.(type) {
		case *ast.FuncLit:
			a.block(&x.Body.List)
			return false
		case *ast.CallExpr:
			a.callEntry(x, nil, nil)
		case *ast.UnaryExpr:
			if x.Op == token.ARROW {
				a.note("chan recv")
				a.unsupported(x.Pos(), "channel operation")
			}
		case *ast.SendStmt:
			a.note("chan send")
			a.unsupported(x.Pos(), "channel operation")
		case *ast.SelectStmt:
			a.note("select")
			a.unsupported(x.Pos(), "select statement")
		case *ast.GoStmt:
			a.note("go")
			a.unsupported(x.Pos(), "go statement")
		}
		return true
	})
}

func (a *shardAn) header(pos token.Pos, what string, nodes ...ast.Node) {
	for _, n := range nodes {
		if n == nil {
			continue
		}
		if acc := a.access(n); acc.plain() {
			a.unsupported(pos, "unsupported shape: mutable plain field (%s) accessed in the header of a %s statement",
				setList(mergeSets(acc.reads, acc.writes)), what)
		}
	}
}

func mergeSets(x, y map[string]bool) map[string]bool {
	m := map[string]bool{}
	for k := range x {
		m[k] = true
	}
	for k := range y {
		m[k] = true
	}
	return m
}

func (a *shardAn) ifStmt(list *[]ast.Stmt, s *ast.IfStmt) {
	acc := newAccess()
	if s.Init != nil {
		i := a.access(s.Init)
		acc.merge(i)
		acc.sync = acc.sync || i.sync
	}
	c := a.access(s.Cond)
	acc.merge(c)
	acc.sync = acc.sync || c.sync
	if acc.plain() {
		if acc.sync {
			a.unsupported(s.Pos(), "unsupported shape: plain access and sync operation in the same if header")
		}
		a.plainSite(list, s, acc)
	}
	if s.Init != nil {
		a.walk(s.Init)
	}
	a.walk(s.Cond)
	a.block(&s.Body.List)
	switch e := s.Else.(type) {
	case *ast.BlockStmt:
		a.block(&e.List)
	case *ast.IfStmt:
		a.ifStmt(nil, e)
	}
}

// block processes one statement list; runs of plain-access statements become one site each.
func (a *shardAn) block(list *[]ast.Stmt) {
	var runFirst ast.Stmt
	var runAcc shardAccess
	var runStmts []ast.Stmt
	flush := func() {
		if runFirst == nil {
			return
		}
		a.plainSite(list, runFirst, runAcc)
		for _, s := range runStmts {
			a.walk(s)
		}
		runFirst, runStmts = nil, nil
	}
	for _, st := range *list {
		switch s := st.(type) {
		case *ast.AssignStmt, *ast.ExprStmt, *ast.IncDecStmt:
			acc := a.access(s)
			switch {
			case acc.sync:
				flush()
				if acc.plain() {
					a.unsupported(s.Pos(), "unsupported shape: plain access (%s) and sync operation in the same statement",
						setList(mergeSets(acc.reads, acc.writes)))
				}
				if es, ok := s.(*ast.ExprStmt); ok {
					if c, ok := unparen(es.X).(*ast.CallExpr); ok {
						if k, _ := a.classify(c); k == ckMutexLock || k == ckMutexUnlock || k == ckRunTask {
							a.callEntry(c, list, s)
							for _, arg := range c.Args {
								a.walk(arg)
							}
							continue
						}
					}
				}
				a.walk(s)
			case acc.plain():
				if acc.funcLit {
					a.unsupported(s.Pos(), "unsupported shape: closure inside a plain-access statement")
				}
				if runFirst == nil {
					runFirst, runAcc = s, newAccess()
				}
				runAcc.merge(acc)
				runStmts = append(runStmts, s)
				if acc.call {
					flush()
				}
			default:
				flush()
				a.walk(s)
			}
		case *ast.IfStmt:
			flush()
			a.ifStmt(list, s)
		case *ast.ForStmt:
			flush()
			a.header(s.Pos(), "for", s.Init, s.Cond, s.Post)
			a.walk(s.Init)
			a.walk(s.Cond)
			a.walk(s.Post)
			a.block(&s.Body.List)
		case *ast.RangeStmt:
			flush()
			a.header(s.Pos(), "range", s.X)
			if s.Tok == token.ASSIGN {
				a.header(s.Pos(), "range", s.Key, s.Value)
			}
			a.walk(s.X)
			a.block(&s.Body.List)
		case *ast.SwitchStmt:
			flush()
			a.header(s.Pos(), "switch", s.Init, s.Tag)
			a.walk(s.Init)
			a.walk(s.Tag)
			a.clauses(s.Body)
		case *ast.TypeSwitchStmt:
			flush()
			a.header(s.Pos(), "switch", s.Init, s.Assign)
			a.walk(s.Init)
			a.walk(s.Assign)
			a.clauses(s.Body)
		case *ast.SelectStmt:
			flush()
			a.note("select")
			a.unsupported(s.Pos(), "select statement")
			a.clauses(s.Body)
		case *ast.BlockStmt:
			flush()
			a.block(&s.List)
		case *ast.LabeledStmt:
			flush()
			tmp := []ast.Stmt{s.Stmt}
			n := len(a.res.inserts)
			a.block(&tmp)
			if len(a.res.inserts) != n {
				a.unsupported(s.Pos(), "unsupported shape: schedule point directly under a label")
			}
		default: // return, go, defer, send, decl, branch, empty
			flush()
			if acc := a.access(s); acc.plain() {
				a.unsupported(s.Pos(), "unsupported shape: mutable plain field (%s) accessed in a %T",
					setList(mergeSets(acc.reads, acc.writes)), s)
			}
			a.walk(s)
		}
	}
	flush()
}

func (a *shardAn) clauses(body *ast.BlockStmt) {
	for _, c := range body.List {
		switch cc := c.(type) {
		case *ast.CaseClause:
			for _, e := range cc.List {
				a.header(cc.Pos(), "case", e)
				a.walk(e)
			}
			a.block(&cc.Body)
		case *ast.CommClause:
			if cc.Comm != nil {
				a.header(cc.Pos(), "select case", cc.Comm)
				a.walk(cc.Comm)
			}
			a.block(&cc.Body)
		}
	}
}

// analyseShard computes the entries of every function of mux/shard_queue.go.
func analyseShard(pkgs []*packages.Package) *shardResult {
	res := &shardResult{Steps: map[string][][2]string{}}
	for _, p := range pkgs {
		if p.Name != "mux" {
			continue
		}
		for _, f := range p.Syntax {
			if filepath.Base(p.Fset.Position(f.Pos()).Filename) != shardFile {
				continue
			}
			res.found, res.fset, res.file = true, p.Fset, f
			a := &shardAn{fset: p.Fset, info: p.TypesInfo, pkg: p.Types, res: res,
				fields: map[*types.Var]bool{}, structs: map[*types.Named]bool{},
				mutable: map[string]bool{}, atomicF: map[string]bool{}, inner: map[*ast.CallExpr]bool{}}
			a.collectFields()
			a.collectMutable(f)
			for _, d := range f.Decls {
				fd, ok := d.(*ast.FuncDecl)
				if !ok || fd.Body == nil {
					continue
				}
				name := fd.Name.Name
				a.fn, a.entries, a.nsite = name, nil, 0
				a.plainOn = !shardPrePublication[name]
				if _, dup := res.Steps[name]; dup {
					a.unsupported(fd.Pos(), "two functions named %s", name)
					continue
				}
				res.Funcs = append(res.Funcs, name)
				if name == "Add" {
					a.addLocals(fd)
				}
				a.block(&fd.Body.List)
				if a.entries == nil {
					a.entries = [][2]string{}
				}
				res.Steps[name] = a.entries
			}
		}
	}
	return res
}

// addLocals records the two local computations of Add that the model mirrors without a schedule point:
// a leading `if <cond> { return }` whose condition has no selector and no call but len (so it reads only
// the arguments), and the expression that defines the local `shard`.
func (a *shardAn) addLocals(fd *ast.FuncDecl) {
	if len(fd.Body.List) > 0 {
		if is, ok := fd.Body.List[0].(*ast.IfStmt); ok && is.Init == nil && is.Else == nil && len(is.Body.List) == 1 {
			if r, ok := is.Body.List[0].(*ast.ReturnStmt); ok && len(r.Results) == 0 {
				local := true
				ast.Inspect(is.Cond, func(n ast.Node) bool {
					switch x := n.(type) {
					case *ast.SelectorExpr:
						local = false
					case *ast.CallExpr:
						if id, ok := unparen(x.Fun).(*ast.Ident); !ok || id.Name != "len" {
							local = false
						}
					}
					return true
				})
				if local {
					a.res.AddGuard = a.text(is.Cond)
				}
			}
		}
	}
	ast.Inspect(fd.Body, func(n ast.Node) bool {
		if as, ok := n.(*ast.AssignStmt); ok && as.Tok == token.DEFINE && len(as.Lhs) == 1 && len(as.Rhs) == 1 && a.res.AddShard == "" {
			if id, ok := as.Lhs[0].(*ast.Ident); ok && id.Name == "shard" {
				a.res.AddShard = a.text(as.Rhs[0])
			}
		}
		return true
	})
}

func (a *shardAn) collectFields() {
	obj, _ := a.pkg.Scope().Lookup(shardRecvType).(*types.TypeName)
	if obj == nil {
		a.res.Unsupported = append(a.res.Unsupported, "type "+shardRecvType+" not found")
		return
	}
	var add func(n *types.Named)
	add = func(n *types.Named) {
		if a.structs[n] {
			return
		}
		st, ok := n.Underlying().(*types.Struct)
		if !ok {
			return
		}
		a.structs[n] = true
		for i := 0; i < st.NumFields(); i++ {
			f := st.Field(i)
			a.fields[f] = true
			if f.Embedded() {
				t := f.Type()
				if p, ok := t.(*types.Pointer); ok {
					t = p.Elem()
				}
				if en, ok := t.(*types.Named); ok && en.Obj().Pkg() == a.pkg {
					add(en)
				}
			}
		}
	}
	if n, ok := obj.Type().(*types.Named); ok {
		add(n)
	}
}

// collectMutable: fields assigned outside the pre-publication functions and never used as a sync/atomic operand
func (a *shardAn) collectMutable(f *ast.File) {
	assigned := map[string]bool{}
	mark := func(e ast.Expr, m map[string]bool) {
		if e == nil {
			return
		}
		if name, ok := a.recvField(rootSel(e)); ok {
			m[name] = true
		}
	}
	for _, d := range f.Decls {
		fd, ok := d.(*ast.FuncDecl)
		if !ok || fd.Body == nil {
			continue
		}
		pre := shardPrePublication[fd.Name.Name]
		ast.Inspect(fd.Body, func(n ast.Node) bool {
			switch s := n.(type) {
			case *ast.AssignStmt:
				if !pre {
					for _, l := range s.Lhs {
						mark(l, assigned)
					}
				}
			case *ast.IncDecStmt:
				if !pre {
					mark(s.X, assigned)
				}
			case *ast.RangeStmt:
				if !pre && s.Tok == token.ASSIGN {
					mark(s.Key, assigned)
					mark(s.Value, assigned)
				}
			case *ast.CallExpr:
				switch k, _ := a.classify(s); k {
				case ckAtomicFunc:
					if len(s.Args) > 0 {
						if u, ok := unparen(s.Args[0]).(*ast.UnaryExpr); ok && u.Op == token.AND {
							mark(u.X, a.atomicF)
						}
					}
				case ckAtomicOther:
					if sel, ok := unparen(s.Fun).(*ast.SelectorExpr); ok {
						mark(sel.X, a.atomicF)
					}
				}
			}
			return true
		})
	}
	for k := range assigned {
		if !a.atomicF[k] {
			a.mutable[k] = true
		}
	}
}

func leanStr(s string) string {
	s = strings.ReplaceAll(s, "\\", "\\\\")
	s = strings.ReplaceAll(s, "\"", "\\\"")
	return "\"" + s + "\""
}

func (r *shardResult) lean() string {
	var b strings.Builder
	b.WriteString("/- GENERATED by /verif/tools/extract from /repo on every check run.  Do not edit. -/\nnamespace Netpoll.Gen.Shard\n\n")
	q := func(l []string) string {
		s := make([]string, len(l))
		for i, x := range l {
			s[i] = leanStr(x)
		}
		return "[" + strings.Join(s, ", ") + "]"
	}
	fmt.Fprintf(&b, "def funcs : List String := %s\n\n", q(r.Funcs))
	for _, fn := range shardModelled {
		var parts []string
		for _, e := range r.Steps[fn] {
			parts = append(parts, "("+leanStr(e[0])+", "+leanStr(e[1])+")")
		}
		fmt.Fprintf(&b, "def steps_%s : List (String × String) := [%s]\n\n", fn, strings.Join(parts, ", "))
	}
	fmt.Fprintf(&b, "/-- condition of the leading `if … { return }` of Add (reads only the arguments), \"\" when there is none -/\ndef add_guard : String := %s\n\n", leanStr(r.AddGuard))
	fmt.Fprintf(&b, "/-- the expression that defines the local `shard` in Add -/\ndef add_shard : String := %s\n\n", leanStr(r.AddShard))
	fmt.Fprintf(&b, "/-- shapes the instrumenter cannot hook (empty for a supported source) -/\ndef unsupported : List String := %s\n\n", q(r.Unsupported))
	b.WriteString("end Netpoll.Gen.Shard\n")
	return b.String()
}

// instrument applies the edits to the AST and returns the instrumented source.
func (r *shardResult) instrument() ([]byte, error) {
	for _, e := range r.atomics {
		e.call.Fun = ast.NewIdent("verif" + e.fname)
		e.call.Args = append([]ast.Expr{&ast.BasicLit{Kind: token.STRING, Value: strconv.Quote(e.label)}}, e.call.Args...)
	}
	byList := map[*[]ast.Stmt][]shardInsertEdit{}
	var order []*[]ast.Stmt
	for _, e := range r.inserts {
		if _, ok := byList[e.list]; !ok {
			order = append(order, e.list)
		}
		byList[e.list] = append(byList[e.list], e)
	}
	for _, l := range order {
		var out []ast.Stmt
		for _, s := range *l {
			for _, e := range byList[l] {
				if e.before == s {
					out = append(out, &ast.ExprStmt{X: &ast.CallExpr{Fun: ast.NewIdent("verifPoint"), Args: []ast.Expr{
						&ast.BasicLit{Kind: token.STRING, Value: strconv.Quote(e.label)},
						&ast.BasicLit{Kind: token.STRING, Value: strconv.Quote(e.kind)},
						ast.NewIdent("nil")}}})
				}
			}
			out = append(out, s)
		}
		*l = out
	}
	// comments carry positions that no longer fit; drop them
	r.file.Comments, r.file.Doc = nil, nil
	for _, d := range r.file.Decls {
		switch x := d.(type) {
		case *ast.FuncDecl:
			x.Doc = nil
		case *ast.GenDecl:
			x.Doc = nil
		}
	}
	ast.Inspect(r.file, func(n ast.Node) bool {
		switch x := n.(type) {
		case *ast.Field:
			x.Doc, x.Comment = nil, nil
		case *ast.ValueSpec:
			x.Doc, x.Comment = nil, nil
		case *ast.TypeSpec:
			x.Doc, x.Comment = nil, nil
		case *ast.ImportSpec:
			x.Doc, x.Comment = nil, nil
		}
		return true
	})
	var b bytes.Buffer
	b.WriteString("// Code generated by /verif/tools/extract -instr-shard from mux/shard_queue.go. DO NOT EDIT.\n\n")
	if err := format.Node(&b, r.fset, r.file); err != nil {
		return nil, err
	}
	for _, im := range r.file.Imports {
		if im.Path.Value == `"sync/atomic"` && (im.Name == nil || im.Name.Name == "atomic") {
			b.WriteString("\nvar _ = atomic.LoadInt32\n")
		}
	}
	if _, err := parser.ParseFile(token.NewFileSet(), shardFile, b.Bytes(), 0); err != nil {
		return nil, fmt.Errorf("instrumented source does not parse: %v", err)
	}
	return b.Bytes(), nil
}

// emit writes <out>/Shard.lean and, with -instr-shard, the instrumented copy (exit 3 when a shape is unsupported).
func (r *shardResult) emit(out, instr string) {
	if out != "" {
		if err := os.WriteFile(filepath.Join(out, "Shard.lean"), []byte(r.lean()), 0o644); err != nil {
			fmt.Fprintln(os.Stderr, err)
			os.Exit(2)
		}
	}
	if instr == "" {
		return
	}
	if !r.found {
		fmt.Fprintln(os.Stderr, "instr-shard: mux/"+shardFile+" not found")
		os.Exit(3)
	}
	if len(r.Unsupported) > 0 {
		for _, u := range r.Unsupported {
			fmt.Fprintln(os.Stderr, "instr-shard: unsupported:", u)
		}
		os.Exit(3)
	}
	src, err := r.instrument()
	if err != nil {
		fmt.Fprintln(os.Stderr, "instr-shard:", err)
		os.Exit(2)
	}
	if err := os.WriteFile(instr, src, 0o644); err != nil {
		fmt.Fprintln(os.Stderr, err)
		os.Exit(2)
	}
}
