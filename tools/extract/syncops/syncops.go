// Package syncops enumerates the synchronisation operations of a function body in source order.
// It is the ONE definition of "the k-th sync operation of function f" shared by
//   - tools/extract   (facts.json `sync` lists, lean/Netpoll/Gen/Life.lean) and
//   - tools/instrument (schedule-point site ids "<recv.func>#<k>"),
// so the two numberings cannot drift apart.
package syncops

import (
	"bytes"
	"go/ast"
	"go/printer"
	"go/token"
	"go/types"
	"strings"
)

// Kinds of operations.
const (
	KAtomic   = "atomic"   // sync/atomic package function call: atomic.F(args)
	KAValue   = "avalue"   // method call on a sync/atomic.Value (Load/Store/...)
	KGo       = "go"       // go statement
	KSend     = "send"     // channel send (possibly a select case)
	KRecv     = "recv"     // channel receive (possibly a select case)
	KSelect   = "select"   // select statement
	KCall     = "call"     // call of one of the listed protocol methods (lock, unlock, Control, ...)
	KClose    = "close"    // builtin close(ch)
	KGosched  = "gosched"  // runtime.Gosched()
	KCallback = "callback" // call of a user callback value (OnConnect/OnRequest/OnDisconnect/OnPrepare/CloseCallback)
	KSysClose = "sysclose" // syscall.Close(fd)
	KTimer    = "timer"    // time.NewTimer(d) / (*time.Timer).Reset(d) / (*time.Timer).Stop()
	KKernel   = "kernel"   // call of the package's own sendmsg wrapper (the kernel's answer is scripted under the scheduler)
)

// Op is one synchronisation operation.
type Op struct {
	Index int      // ordinal inside the function (site id = "<func>#<Index>")
	Kind  string   // one of the K* constants
	Text  string   // canonical text (this is what facts.json / Gen/Life.lean contain)
	Node  ast.Node // the syntax node
	Fn    string   // KAtomic: function name (CompareAndSwapInt32, ...); KAValue: method; KCallback: callee text
	InSel bool     // KSend/KRecv: this is the communication of a select case (not instrumented separately)
}

var protocolMethods = map[string]bool{}

func init() {
	for _, n := range []string{"lock", "unlock", "stop", "isUnlock", "closeBy", "isCloseBy", "status", "force",
		"do", "done", "inuse", "unused", "isUnused", "Control", "Free", "Trigger", "Close",
		"triggerRead", "triggerWrite", "changeState", "setState", "getState", "Lock", "Unlock",
		"Store", "Load", "Delete", "Range", "Add", "Wait", "Done", "CompareAndSwap",
		// calls of other functions of the lifecycle protocol (so a removed/added call shows in the list)
		"onDisconnect", "onConnect", "onRequest", "onProcess", "closeCallback", "onClose", "IsActive",
		"RunTask", "Len", "IsEmpty", "bookAck", "freeable", "reset", "register", "onPrepare", "closeBuffer",
		// read / flush protocols (C07, C08)
		"waitReadWithTimeout", "flush", "waitFlush", "rw2r", "Skip", "Release", "GetBytes", "Flush", "Malloc"} {
		protocolMethods[n] = true
	}
}

var callbackTypes = map[string]bool{"OnConnect": true, "OnRequest": true, "OnDisconnect": true, "OnPrepare": true, "CloseCallback": true}

// ExprStr prints a node on one line with single spaces.
func ExprStr(fset *token.FileSet, e ast.Node) string {
	var b bytes.Buffer
	printer.Fprint(&b, fset, e)
	return strings.Join(strings.Fields(b.String()), " ")
}

func argList(fset *token.FileSet, args []ast.Expr) string {
	s := make([]string, len(args))
	for i, a := range args {
		s[i] = ExprStr(fset, a)
	}
	return strings.Join(s, ",")
}

func pkgPathOf(info *types.Info, x ast.Expr) string {
	if id, ok := x.(*ast.Ident); ok {
		if pn, ok := info.Uses[id].(*types.PkgName); ok {
			return pn.Imported().Path()
		}
	}
	return ""
}

func isTimer(t types.Type) bool {
	if t == nil {
		return false
	}
	if p, ok := t.(*types.Pointer); ok {
		t = p.Elem()
	}
	if n, ok := t.(*types.Named); ok && n.Obj().Pkg() != nil {
		return n.Obj().Pkg().Path() == "time" && n.Obj().Name() == "Timer"
	}
	return false
}

func isAtomicValue(t types.Type) bool {
	if t == nil {
		return false
	}
	if p, ok := t.(*types.Pointer); ok {
		t = p.Elem()
	}
	if n, ok := t.(*types.Named); ok && n.Obj().Pkg() != nil {
		return n.Obj().Pkg().Path() == "sync/atomic" && n.Obj().Name() == "Value"
	}
	return false
}

// Ops lists the synchronisation operations of body in ast.Inspect (source) order.
func Ops(fset *token.FileSet, info *types.Info, body *ast.BlockStmt) []Op {
	var ops []Op
	comm := map[ast.Node]bool{} // send/recv nodes that are select communications
	add := func(kind, text string, n ast.Node, fn string) {
		ops = append(ops, Op{Index: len(ops), Kind: kind, Text: text, Node: n, Fn: fn, InSel: comm[n]})
	}
	ast.Inspect(body, func(n ast.Node) bool {
		switch x := n.(type) {
		case *ast.GoStmt:
			add(KGo, "go "+ExprStr(fset, x.Call.Fun), x, "")
		case *ast.SendStmt:
			add(KSend, "send "+ExprStr(fset, x.Chan), x, "")
		case *ast.UnaryExpr:
			if x.Op == token.ARROW {
				add(KRecv, "recv "+ExprStr(fset, x.X), x, "")
			}
		case *ast.SelectStmt:
			for _, c := range x.Body.List {
				cc := c.(*ast.CommClause)
				switch s := cc.Comm.(type) {
				case *ast.SendStmt:
					comm[s] = true
				case *ast.ExprStmt:
					if u, ok := s.X.(*ast.UnaryExpr); ok {
						comm[u] = true
					}
				case *ast.AssignStmt:
					if len(s.Rhs) == 1 {
						if u, ok := s.Rhs[0].(*ast.UnaryExpr); ok {
							comm[u] = true
						}
					}
				}
			}
			add(KSelect, "select", x, "")
		case *ast.CallExpr:
			if info != nil {
				if nt, ok := info.TypeOf(x.Fun).(*types.Named); ok && callbackTypes[nt.Obj().Name()] {
					add(KCallback, "callback "+nt.Obj().Name()+" "+ExprStr(fset, x.Fun), x, ExprStr(fset, x.Fun))
					return true
				}
			}
			if sel, ok := x.Fun.(*ast.SelectorExpr); ok {
				switch pkgPathOf(info, sel.X) {
				case "sync/atomic":
					add(KAtomic, "atomic."+sel.Sel.Name+"("+argList(fset, x.Args)+")", x, sel.Sel.Name)
					return true
				case "runtime":
					if sel.Sel.Name == "Gosched" {
						add(KGosched, "runtime.Gosched()", x, "")
						return true
					}
				case "syscall":
					if sel.Sel.Name == "Close" {
						add(KSysClose, "syscall.Close("+argList(fset, x.Args)+")", x, "")
						return true
					}
				case "time":
					if sel.Sel.Name == "NewTimer" && len(x.Args) == 1 {
						add(KTimer, "time.NewTimer("+argList(fset, x.Args)+")", x, "NewTimer")
						return true
					}
				}
				if info != nil && (sel.Sel.Name == "Reset" || sel.Sel.Name == "Stop") && isTimer(info.TypeOf(sel.X)) {
					add(KTimer, ExprStr(fset, sel)+"("+argList(fset, x.Args)+")", x, sel.Sel.Name)
					return true
				}
				if protocolMethods[sel.Sel.Name] {
					kind := KCall
					if info != nil && isAtomicValue(info.TypeOf(sel.X)) {
						kind = KAValue
					}
					add(kind, ExprStr(fset, sel)+"("+argList(fset, x.Args)+")", x, sel.Sel.Name)
					return true
				}
			}
			if id, ok := x.Fun.(*ast.Ident); ok && id.Name == "sendmsg" && len(x.Args) == 4 {
				add(KKernel, "sendmsg("+argList(fset, x.Args)+")", x, "sendmsg")
				return true
			}
			if id, ok := x.Fun.(*ast.Ident); ok && id.Name == "iosend" {
				add(KCall, "iosend("+argList(fset, x.Args)+")", x, "iosend")
				return true
			}
			if id, ok := x.Fun.(*ast.Ident); ok && id.Name == "close" && len(x.Args) == 1 {
				add(KClose, "close "+ExprStr(fset, x.Args[0]), x, "")
				return true
			}
		}
		return true
	})
	return ops
}

// Texts returns the canonical texts only (what facts.json stores).
func Texts(ops []Op) []string {
	out := make([]string, len(ops))
	for i, o := range ops {
		out[i] = o.Text
	}
	return out
}

// RecvName is the receiver type name of a method declaration ("" for a function).
func RecvName(fd *ast.FuncDecl) string {
	if fd.Recv == nil || len(fd.Recv.List) == 0 {
		return ""
	}
	t := fd.Recv.List[0].Type
	if st, ok := t.(*ast.StarExpr); ok {
		t = st.X
	}
	if id, ok := t.(*ast.Ident); ok {
		return id.Name
	}
	return "?"
}

// FuncName is "<recv>.<name>" or "<name>".
func FuncName(fd *ast.FuncDecl) string {
	if r := RecvName(fd); r != "" {
		return r + "." + fd.Name.Name
	}
	return fd.Name.Name
}
