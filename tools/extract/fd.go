// fd.go: facts about the close-once guard of (*netFD).Close for property C15 (Gen/Fd.lean, second half).
//
// The ledger model (lean/Netpoll/Fd.lean, `NetFD.close`) executes "increment `closed`, compare with 1" as ONE step, and
// argues from that that concurrent Close calls on the same netFD serialise: exactly one of them goes on to
// syscall.Close.  That is a fact about the source: the decision must be taken by a single atomic read-modify-write
// on the field.  A check-then-act (atomic load, then atomic store) is data-race free but lets two callers through.
//
//   netFDClosedAccesses : every syntactic access to the field `closed` of netFD in package netpoll, in source order,
//                         as (function, access); access = the sync/atomic call that takes its address
//                         ("atomic.AddUint32(&c.closed, 1)") or "plain <expr>" for anything else;
//   netFDCloseFirstStmt : the first statement of (*netFD).Close (whitespace-normalised).
package main

import (
	"fmt"
	"go/ast"
	"go/token"
	"go/types"
	"path/filepath"
	"sort"
	"strings"

	"golang.org/x/tools/go/packages"

	"verifextract/syncops"
)

type fdAccess struct {
	fn, text string
	file     string
	pos      token.Pos
}

// netFDField: the field object `name` of the package's struct type netFD (nil if there is none)
func netFDField(p *packages.Package, name string) *types.Var {
	o := p.Types.Scope().Lookup("netFD")
	if o == nil {
		return nil
	}
	st, ok := o.Type().Underlying().(*types.Struct)
	if !ok {
		return nil
	}
	for i := 0; i < st.NumFields(); i++ {
		if st.Field(i).Name() == name {
			return st.Field(i)
		}
	}
	return nil
}

// isField: sel selects exactly the field object v (directly or through embedding, e.g. connection embeds netFD)
func isField(info *types.Info, sel *ast.SelectorExpr, v *types.Var) bool {
	if v == nil || sel.Sel.Name != v.Name() {
		return false
	}
	s, ok := info.Selections[sel]
	return ok && s.Kind() == types.FieldVal && s.Obj() == v
}

func fdOnceFacts(p *packages.Package) (accs []fdAccess, first string) {
	info := p.TypesInfo
	closed := netFDField(p, "closed")
	for _, f := range p.Syntax {
		for _, d := range f.Decls {
			fd, ok := d.(*ast.FuncDecl)
			if !ok || fd.Body == nil {
				continue
			}
			name := syncops.FuncName(fd)
			handled := map[*ast.SelectorExpr]bool{}
			file := filepath.Base(p.Fset.Position(fd.Pos()).Filename)
			ast.Inspect(fd.Body, func(n ast.Node) bool {
				call, ok := n.(*ast.CallExpr)
				if !ok {
					return true
				}
				sel, ok := call.Fun.(*ast.SelectorExpr)
				if !ok {
					return true
				}
				id, ok := sel.X.(*ast.Ident)
				if !ok {
					return true
				}
				pn, ok := info.Uses[id].(*types.PkgName)
				if !ok || pn.Imported().Path() != "sync/atomic" {
					return true
				}
				for _, a := range call.Args {
					if u, ok := a.(*ast.UnaryExpr); ok && u.Op == token.AND {
						if fs, ok := u.X.(*ast.SelectorExpr); ok && isField(info, fs, closed) {
							handled[fs] = true
							accs = append(accs, fdAccess{name, exprStr(p.Fset, call), file, call.Pos()})
						}
					}
				}
				return true
			})
			ast.Inspect(fd.Body, func(n ast.Node) bool {
				if fs, ok := n.(*ast.SelectorExpr); ok && !handled[fs] && isField(info, fs, closed) {
					accs = append(accs, fdAccess{name, "plain " + exprStr(p.Fset, fs), file, fs.Pos()})
				}
				return true
			})
		}
	}
	sort.SliceStable(accs, func(i, j int) bool {
		if accs[i].file != accs[j].file {
			return accs[i].file < accs[j].file
		}
		return accs[i].pos < accs[j].pos
	})
	first = "<function not found>"
	if fd := findFunc(p, "netFD", "Close"); fd != nil && len(fd.Body.List) > 0 {
		first = exprStr(p.Fset, fd.Body.List[0])
	}
	return
}

func fdOnceLean(p *packages.Package) string {
	accs, first := fdOnceFacts(p)
	var b strings.Builder
	b.WriteString("/-- every access to the field `closed` of `netFD` in package netpoll, in source order: (function, access);\n" +
		"    access = the sync/atomic call taking the field's address, or \"plain <expr>\" -/\n")
	b.WriteString("def netFDClosedAccesses : List (String × String) := [")
	for i, a := range accs {
		if i > 0 {
			b.WriteString(",")
		}
		fmt.Fprintf(&b, "\n  (%s, %s)", fdLeanStr(a.fn), fdLeanStr(a.text))
	}
	b.WriteString("]\n\n/-- the first statement of `(*netFD).Close` -/\n")
	fmt.Fprintf(&b, "def netFDCloseFirstStmt : String := %s\n\n", fdLeanStr(first))
	return b.String()
}
