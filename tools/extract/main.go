// extract: T-gen fact extractor.  Parses and type-checks /repo (package netpoll and netpoll/mux, linux,
// non-race, no tests) and emits
//   - <out>/Consts.lean : every package-level integer/bool constant and the initial value of every
//     package-level variable with a constant initialiser (LinkBufferCap, ...), as Lean definitions;
//   - <facts>           : JSON with the same constants plus, per function, a fingerprint of its body
//     (sha256 of the comment-free, gofmt-normalised source) and the ordered list of synchronisation
//     operations in it (sync/atomic calls, channel ops, go statements, calls to locker methods).
package main

import (
	"bytes"
	"crypto/sha256"
	"encoding/json"
	"flag"
	"fmt"
	"go/ast"
	"go/constant"
	"go/printer"
	"go/token"
	"go/types"
	"os"
	"path/filepath"
	"sort"
	"strings"

	"golang.org/x/tools/go/packages"
)

type FuncFact struct {
	Hash string   `json:"hash"`
	Sync []string `json:"sync"`
	File string   `json:"file"`
}

type Facts struct {
	Consts      map[string]string   `json:"consts"`
	Funcs       map[string]FuncFact `json:"funcs"`
	ServerSteps map[string][]string `json:"server_steps,omitempty"`
}

func leanName(s string) string {
	return strings.ReplaceAll(s, ".", "_")
}

func recvName(fd *ast.FuncDecl) string {
	if fd.Recv == nil || len(fd.Recv.List) == 0 {
		return ""
	}
	t := fd.Recv.List[0].Type
	if st, ok := t.(*ast.StarExpr); ok {
		t = st.X
	}
	if id, ok := t.(*ast.Ident); ok {
		return id.Name
	}
	return "?"
}

func exprStr(fset *token.FileSet, e ast.Node) string {
	var b bytes.Buffer
	printer.Fprint(&b, fset, e)
	return strings.Join(strings.Fields(b.String()), " ")
}

func syncOps(fset *token.FileSet, info *types.Info, body *ast.BlockStmt) []string {
	var ops []string
	ast.Inspect(body, func(n ast.Node) bool {
		switch x := n.(type) {
		case *ast.GoStmt:
			ops = append(ops, "go "+exprStr(fset, x.Call.Fun))
		case *ast.SendStmt:
			ops = append(ops, "send "+exprStr(fset, x.Chan))
		case *ast.UnaryExpr:
			if x.Op == token.ARROW {
				ops = append(ops, "recv "+exprStr(fset, x.X))
			}
		case *ast.SelectStmt:
			ops = append(ops, "select")
		case *ast.CallExpr:
			if sel, ok := x.Fun.(*ast.SelectorExpr); ok {
				if id, ok := sel.X.(*ast.Ident); ok {
					if pn, ok := info.Uses[id].(*types.PkgName); ok && pn.Imported().Path() == "sync/atomic" {
						args := make([]string, len(x.Args))
						for i, a := range x.Args {
							args[i] = exprStr(fset, a)
						}
						ops = append(ops, "atomic."+sel.Sel.Name+"("+strings.Join(args, ",")+")")
						return true
					}
				}
				switch sel.Sel.Name {
				case "lock", "unlock", "stop", "isUnlock", "closeBy", "isCloseBy", "status", "force",
					"do", "done", "inuse", "unused", "isUnused", "Control", "Free", "Trigger", "Close",
					"triggerRead", "triggerWrite", "changeState", "setState", "getState", "Lock", "Unlock",
					"Store", "Load", "Delete", "Range", "Add", "Wait", "Done", "CompareAndSwap":
					args := make([]string, len(x.Args))
					for i, a := range x.Args {
						args[i] = exprStr(fset, a)
					}
					ops = append(ops, exprStr(fset, sel)+"("+strings.Join(args, ",")+")")
				}
			}
			if id, ok := x.Fun.(*ast.Ident); ok && id.Name == "close" {
				ops = append(ops, "close "+exprStr(fset, x.Args[0]))
			}
		}
		return true
	})
	return ops
}

func main() {
	repo := flag.String("repo", "/repo", "")
	out := flag.String("out", "", "directory for generated Lean files")
	factsPath := flag.String("facts", "", "facts.json path")
	instrDir := flag.String("instr", "", "directory for instrumented copies of the server files (C13 harness overlay)")
	flag.Parse()

	cfg := &packages.Config{
		Mode: packages.NeedName | packages.NeedFiles | packages.NeedSyntax | packages.NeedTypes | packages.NeedTypesInfo | packages.NeedImports | packages.NeedDeps,
		Dir:  *repo,
		Env:  append(os.Environ(), "GOOS=linux", "GOARCH=amd64", "GOFLAGS=-mod=mod"),
	}
	pkgs, err := packages.Load(cfg, ".", "./mux")
	if err != nil {
		fmt.Fprintln(os.Stderr, "load:", err)
		os.Exit(2)
	}
	facts := Facts{Consts: map[string]string{}, Funcs: map[string]FuncFact{}}
	for _, p := range pkgs {
		if len(p.Errors) > 0 {
			for _, e := range p.Errors {
				fmt.Fprintln(os.Stderr, "pkg error:", e)
			}
			os.Exit(2)
		}
		prefix := ""
		if p.Name != "netpoll" {
			prefix = p.Name + "."
		}
		// constants and constant-initialised variables
		scope := p.Types.Scope()
		for _, name := range scope.Names() {
			switch o := scope.Lookup(name).(type) {
			case *types.Const:
				v := o.Val()
				if v.Kind() == constant.Int || v.Kind() == constant.Bool {
					facts.Consts[prefix+name] = v.ExactString()
				}
			}
		}
		for _, f := range p.Syntax {
			for _, d := range f.Decls {
				switch d := d.(type) {
				case *ast.GenDecl:
					if d.Tok != token.VAR {
						continue
					}
					for _, s := range d.Specs {
						vs := s.(*ast.ValueSpec)
						for i, n := range vs.Names {
							if i < len(vs.Values) {
								if tv, ok := p.TypesInfo.Types[vs.Values[i]]; ok && tv.Value != nil &&
									(tv.Value.Kind() == constant.Int || tv.Value.Kind() == constant.Bool) {
									facts.Consts[prefix+"var."+n.Name] = tv.Value.ExactString()
								}
							}
						}
					}
				case *ast.FuncDecl:
					if d.Body == nil {
						continue
					}
					name := d.Name.Name
					if r := recvName(d); r != "" {
						name = r + "." + name
					}
					// comment-free normalised source of the whole declaration
					var b bytes.Buffer
					cp := *d
					cp.Doc = nil
					(&printer.Config{Mode: printer.RawFormat}).Fprint(&b, token.NewFileSet(), &cp)
					norm := strings.Join(strings.Fields(b.String()), " ")
					h := sha256.Sum256([]byte(norm))
					facts.Funcs[prefix+name] = FuncFact{
						Hash: fmt.Sprintf("%x", h[:8]),
						Sync: syncOps(p.Fset, p.TypesInfo, d.Body),
						File: filepath.Base(p.Fset.Position(d.Pos()).Filename),
					}
				}
			}
		}
	}
	// server / event-loop step lists (C13); must run after the fingerprints: -instr rewrites the AST
	for _, p := range pkgs {
		if p.Name == "netpoll" {
			steps, err := serverFacts(p, *instrDir)
			if err != nil {
				fmt.Fprintln(os.Stderr, "server facts:", err)
				os.Exit(2)
			}
			facts.ServerSteps = steps
			if *out != "" {
				if err := writeServerLean(*out, steps); err != nil {
					fmt.Fprintln(os.Stderr, err)
					os.Exit(2)
				}
			}
		}
	}
	if *factsPath != "" {
		j, _ := json.MarshalIndent(facts, "", " ")
		if err := os.WriteFile(*factsPath, j, 0o644); err != nil {
			fmt.Fprintln(os.Stderr, err)
			os.Exit(2)
		}
	}
	if *out != "" {
		var b strings.Builder
		b.WriteString("/- GENERATED by /verif/tools/extract from /repo on every check run.  Do not edit. -/\nnamespace Netpoll.Gen\n\n")
		names := make([]string, 0, len(facts.Consts))
		for n := range facts.Consts {
			names = append(names, n)
		}
		sort.Strings(names)
		for _, n := range names {
			v := facts.Consts[n]
			ln := leanName(n)
			switch v {
			case "true", "false":
				fmt.Fprintf(&b, "def c_%s : Bool := %s\n", ln, v)
			default:
				if strings.HasPrefix(v, "-") {
					fmt.Fprintf(&b, "def c_%s : Int := %s\n", ln, v)
				} else {
					fmt.Fprintf(&b, "def c_%s : Nat := %s\n", ln, v)
				}
			}
		}
		b.WriteString("\nend Netpoll.Gen\n")
		if err := os.WriteFile(filepath.Join(*out, "Consts.lean"), []byte(b.String()), 0o644); err != nil {
			fmt.Fprintln(os.Stderr, err)
			os.Exit(2)
		}
	}
}
