// extract: T-gen fact extractor.  Parses and type-checks /repo (package netpoll and netpoll/mux, linux,
// non-race, no tests) and emits
//   - <out>/Consts.lean : every package-level integer/bool constant and the initial value of every
//     package-level variable with a constant initialiser (LinkBufferCap, ...), as Lean definitions;
//   - <facts>           : JSON with the same constants plus, per function, a fingerprint of its body
//     (sha256 of the comment-free, gofmt-normalised source) and the ordered list of synchronisation
//     operations in it (sync/atomic calls, channel ops, go statements, calls to locker methods, user
//     callback calls, runtime.Gosched, syscall.Close) - enumerated by package syncops, which
//     tools/instrument uses for its site ids, so "the k-th sync op of f" means the same in both;
//   - <out>/Life.lean   : the sync lists of the functions the lifecycle model (Netpoll.Conn.Life) mirrors.
package main

import (
	"bytes"
	"crypto/sha256"
	"encoding/json"
	"flag"
	"fmt"
	"go/ast"
	"go/constant"
	"go/printer"
	"go/token"
	"go/types"
	"os"
	"path/filepath"
	"sort"
	"strings"

	"golang.org/x/tools/go/packages"

	"verifextract/syncops"
)

type FuncFact struct {
	Hash string   `json:"hash"`
	Sync []string `json:"sync"`
	File string   `json:"file"`
}

type Facts struct {
	Consts map[string]string   `json:"consts"`
	Funcs  map[string]FuncFact `json:"funcs"`
}

func leanName(s string) string {
	return strings.ReplaceAll(s, ".", "_")
}

// functions mirrored by lean/Netpoll/Conn/Life.lean (their sync lists go to Gen/Life.lean)
var lifeFuncs = []string{
	"locker.closeBy", "locker.isCloseBy", "locker.status", "locker.force", "locker.lock", "locker.unlock", "locker.stop",
	"connection.onHup", "connection.onClose", "connection.closeCallback", "connection.onConnect", "connection.onDisconnect",
	"connection.onRequest", "connection.onProcess", "connection.inputAck", "connection.triggerRead", "connection.triggerWrite",
	"connection.Close", "connection.Detach", "connection.IsActive", "connection.initFinalizer", "connection.onPrepare",
	"connection.register", "connection.SetOnRequest", "connection.AddCloseCallback",
	"connection.getState", "connection.setState", "connection.changeState",
	"FDOperator.Control", "FDOperator.Free", "FDOperator.do", "FDOperator.done", "FDOperator.inuse", "FDOperator.unused",
	"operatorCache.freeable", "netFD.Close", "UnsafeLinkBuffer.Len", "UnsafeLinkBuffer.recalLen", "server.onAccept",
}

func leanStr(s string) string {
	return "\"" + strings.ReplaceAll(strings.ReplaceAll(s, "\\", "\\\\"), "\"", "\\\"") + "\""
}

func main() {
	repo := flag.String("repo", "/repo", "")
	out := flag.String("out", "", "directory for generated Lean files")
	factsPath := flag.String("facts", "", "facts.json path")
	flag.Parse()

	cfg := &packages.Config{
		Mode: packages.NeedName | packages.NeedFiles | packages.NeedSyntax | packages.NeedTypes | packages.NeedTypesInfo | packages.NeedImports | packages.NeedDeps,
		Dir:  *repo,
		Env:  append(os.Environ(), "GOOS=linux", "GOARCH=amd64", "GOFLAGS=-mod=mod"),
	}
	pkgs, err := packages.Load(cfg, ".", "./mux")
	if err != nil {
		fmt.Fprintln(os.Stderr, "load:", err)
		os.Exit(2)
	}
	facts := Facts{Consts: map[string]string{}, Funcs: map[string]FuncFact{}}
	for _, p := range pkgs {
		if len(p.Errors) > 0 {
			for _, e := range p.Errors {
				fmt.Fprintln(os.Stderr, "pkg error:", e)
			}
			os.Exit(2)
		}
		prefix := ""
		if p.Name != "netpoll" {
			prefix = p.Name + "."
		}
		// constants and constant-initialised variables
		scope := p.Types.Scope()
		for _, name := range scope.Names() {
			switch o := scope.Lookup(name).(type) {
			case *types.Const:
				v := o.Val()
				if v.Kind() == constant.Int || v.Kind() == constant.Bool {
					facts.Consts[prefix+name] = v.ExactString()
				}
			}
		}
		for _, f := range p.Syntax {
			for _, d := range f.Decls {
				switch d := d.(type) {
				case *ast.GenDecl:
					if d.Tok != token.VAR {
						continue
					}
					for _, s := range d.Specs {
						vs := s.(*ast.ValueSpec)
						for i, n := range vs.Names {
							if i < len(vs.Values) {
								if tv, ok := p.TypesInfo.Types[vs.Values[i]]; ok && tv.Value != nil &&
									(tv.Value.Kind() == constant.Int || tv.Value.Kind() == constant.Bool) {
									facts.Consts[prefix+"var."+n.Name] = tv.Value.ExactString()
								}
							}
						}
					}
				case *ast.FuncDecl:
					if d.Body == nil {
						continue
					}
					name := syncops.FuncName(d)
					// comment-free normalised source of the whole declaration
					var b bytes.Buffer
					cp := *d
					cp.Doc = nil
					(&printer.Config{Mode: printer.RawFormat}).Fprint(&b, token.NewFileSet(), &cp)
					norm := strings.Join(strings.Fields(b.String()), " ")
					h := sha256.Sum256([]byte(norm))
					facts.Funcs[prefix+name] = FuncFact{
						Hash: fmt.Sprintf("%x", h[:8]),
						Sync: syncops.Texts(syncops.Ops(p.Fset, p.TypesInfo, d.Body)),
						File: filepath.Base(p.Fset.Position(d.Pos()).Filename),
					}
				}
			}
		}
	}
	if *factsPath != "" {
		j, _ := json.MarshalIndent(facts, "", " ")
		if err := os.WriteFile(*factsPath, j, 0o644); err != nil {
			fmt.Fprintln(os.Stderr, err)
			os.Exit(2)
		}
	}
	if *out != "" {
		var b strings.Builder
		b.WriteString("/- GENERATED by /verif/tools/extract from /repo on every check run.  Do not edit. -/\nnamespace Netpoll.Gen\n\n")
		names := make([]string, 0, len(facts.Consts))
		for n := range facts.Consts {
			names = append(names, n)
		}
		sort.Strings(names)
		for _, n := range names {
			v := facts.Consts[n]
			ln := leanName(n)
			switch v {
			case "true", "false":
				fmt.Fprintf(&b, "def c_%s : Bool := %s\n", ln, v)
			default:
				if strings.HasPrefix(v, "-") {
					fmt.Fprintf(&b, "def c_%s : Int := %s\n", ln, v)
				} else {
					fmt.Fprintf(&b, "def c_%s : Nat := %s\n", ln, v)
				}
			}
		}
		b.WriteString("\nend Netpoll.Gen\n")
		if err := os.WriteFile(filepath.Join(*out, "Consts.lean"), []byte(b.String()), 0o644); err != nil {
			fmt.Fprintln(os.Stderr, err)
			os.Exit(2)
		}
		// sync-operation lists of the functions the lifecycle model mirrors (T-gen tie of Netpoll.Conn.Life)
		var lb strings.Builder
		lb.WriteString("/- GENERATED by /verif/tools/extract from /repo on every check run.  Do not edit.\n   Ordered synchronisation operations (package syncops) of the functions Netpoll.Conn.Life mirrors;\n   the k-th entry of sync_<f> is the schedule point with site id \"<f>#k\" of tools/instrument. -/\nnamespace Netpoll.Gen.Life\n\n")
		for _, n := range lifeFuncs {
			f, ok := facts.Funcs[n]
			fmt.Fprintf(&lb, "def sync_%s : List String := [", leanName(n))
			if ok {
				for i, t := range f.Sync {
					if i > 0 {
						lb.WriteString(",")
					}
					fmt.Fprintf(&lb, "\n  %s", leanStr(t))
				}
			} else {
				lb.WriteString("\"<function not found>\"")
			}
			lb.WriteString("]\n\n")
		}
		lb.WriteString("end Netpoll.Gen.Life\n")
		if err := os.WriteFile(filepath.Join(*out, "Life.lean"), []byte(lb.String()), 0o644); err != nil {
			fmt.Fprintln(os.Stderr, err)
			os.Exit(2)
		}
	}
}
