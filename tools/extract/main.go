// extract: T-gen fact extractor.  Parses and type-checks /repo (package netpoll and netpoll/mux, linux,
// non-race, no tests) and emits
//   - <out>/Consts.lean : every package-level integer/bool constant and the initial value of every
//     package-level variable with a constant initialiser (LinkBufferCap, ...), as Lean definitions;
//   - <facts>           : JSON with the same constants plus, per function, a fingerprint of its body
//     (sha256 of the comment-free, gofmt-normalised source) and the ordered list of synchronisation
//     operations in it (sync/atomic calls, channel ops, go statements, calls to locker methods, user
//     callback calls, runtime.Gosched, syscall.Close) - enumerated by package syncops, which
//     tools/instrument uses for its site ids, so "the k-th sync op of f" means the same in both;
//   - <out>/Life.lean   : the sync lists of the functions the lifecycle model (Netpoll.Conn.Life) mirrors;
//   - <out>/Fd.lean     : every call site in package netpoll that closes a descriptor or an object wrapping one
//     (syscall.Close, unix.Close, (*os.File).Close, Close of a package-net object such as net.Listener /
//     net.Conn, (*netFD).Close), as (file, function, kind, call expression) in source order (property C15).
package main

import (
	"bytes"
	"crypto/sha256"
	"encoding/json"
	"flag"
	"fmt"
	"go/ast"
	"go/constant"
	"go/printer"
	"go/token"
	"go/types"
	"os"
	"path/filepath"
	"sort"
	"strings"

	"golang.org/x/tools/go/packages"

	"verifextract/syncops"
)

type FuncFact struct {
	Hash string   `json:"hash"`
	Sync []string `json:"sync"`
	File string   `json:"file"`
}

type CloseSite struct {
	File string `json:"file"`
	Func string `json:"func"`
	Kind string `json:"kind"`
	Call string `json:"call"`
	Line int    `json:"line"`
	pos  token.Pos
}

type Facts struct {
	Consts     map[string]string      `json:"consts"`
	Funcs      map[string]FuncFact    `json:"funcs"`
	Shard      map[string][][2]string `json:"shard_steps,omitempty"` // C17, see shard.go
	CloseSites []CloseSite            `json:"closeSites"`
	// Mgr: step fingerprints of the poller-pool functions (C18), see mgrOps
	Mgr         map[string][]string `json:"mgr,omitempty"`
	ServerSteps map[string][]string `json:"server_steps,omitempty"` // C13, see server.go
	ServerRetry RetryFact           `json:"server_retry"`           // C13, EMFILE back-off loop, see server.go
}

// closeKind classifies a call expression; "" = not a descriptor-closing call.
func closeKind(info *types.Info, x *ast.CallExpr) string {
	sel, ok := x.Fun.(*ast.SelectorExpr)
	if !ok || sel.Sel.Name != "Close" {
		return ""
	}
	if id, ok := sel.X.(*ast.Ident); ok {
		if pn, ok := info.Uses[id].(*types.PkgName); ok {
			switch pn.Imported().Path() {
			case "syscall":
				return "syscall"
			case "golang.org/x/sys/unix":
				return "unix"
			}
			return ""
		}
	}
	s, ok := info.Selections[sel]
	if !ok {
		return ""
	}
	fn, ok := s.Obj().(*types.Func)
	if !ok || fn.Pkg() == nil {
		return ""
	}
	sig, _ := fn.Type().(*types.Signature)
	recv := ""
	if sig != nil && sig.Recv() != nil {
		t := sig.Recv().Type()
		if p, ok := t.(*types.Pointer); ok {
			t = p.Elem()
		}
		if n, ok := t.(*types.Named); ok {
			recv = n.Obj().Name()
		}
	}
	switch fn.Pkg().Path() {
	case "os":
		if recv == "File" {
			return "osfile"
		}
	case "net":
		switch recv {
		case "Listener":
			return "netlistener"
		case "Conn":
			return "netconn"
		default:
			return "net"
		}
	case "github.com/cloudwego/netpoll":
		if recv == "netFD" {
			return "netfd"
		}
	}
	return ""
}

// functions whose step fingerprint is emitted into Gen/Manager.lean (C18)
var mgrFuncs = []string{"newManager", "manager.SetNumLoops", "manager.SetLoadBalance", "manager.Close", "manager.Run",
	"manager.Reset", "manager.Pick", "roundRobinLB.Pick", "roundRobinLB.Rebalance", "randomLB.Pick", "randomLB.Rebalance",
	"newLoadbalance"}

// mgrOps: the ordered list of steps of a poller-pool function that the interleaving model of C18 has a
// program counter for: sync/atomic calls (with operands), go statements, defer statements, loops, calls of
// the pool's own methods / the poller interface / openPoll / Gosched / Intn, plain stores to fields of the
// manager and the balancers, index reads of a `polls` field, integer remainder, returns.
func mgrOps(fset *token.FileSet, info *types.Info, body *ast.BlockStmt) []string {
	var ops []string
	isField := func(e ast.Expr) (string, bool) {
		if sel, ok := e.(*ast.SelectorExpr); ok {
			if s, ok := info.Selections[sel]; ok && s.Kind() == types.FieldVal {
				return exprStr(fset, sel), true
			}
		}
		return "", false
	}
	ast.Inspect(body, func(n ast.Node) bool {
		switch x := n.(type) {
		case *ast.GoStmt:
			ops = append(ops, "go "+exprStr(fset, x.Call.Fun))
			return false
		case *ast.DeferStmt:
			ops = append(ops, "defer")
		case *ast.ForStmt:
			ops = append(ops, "for")
		case *ast.RangeStmt:
			ops = append(ops, "range "+exprStr(fset, x.X))
		case *ast.BranchStmt:
			if x.Tok == token.GOTO {
				ops = append(ops, "goto "+x.Label.Name)
			}
		case *ast.ReturnStmt:
			ops = append(ops, "return")
		case *ast.AssignStmt:
			for _, l := range x.Lhs {
				if f, ok := isField(l); ok {
					ops = append(ops, "store "+f)
				}
			}
		case *ast.IndexExpr:
			if f, ok := isField(x.X); ok {
				ops = append(ops, "index "+f)
			}
		case *ast.BinaryExpr:
			if x.Op == token.REM {
				ops = append(ops, "rem "+exprStr(fset, x.Y))
			}
		case *ast.CallExpr:
			if sel, ok := x.Fun.(*ast.SelectorExpr); ok {
				if id, ok := sel.X.(*ast.Ident); ok {
					if pn, ok := info.Uses[id].(*types.PkgName); ok {
						switch pn.Imported().Path() {
						case "sync/atomic":
							args := make([]string, len(x.Args))
							for i, a := range x.Args {
								args[i] = exprStr(fset, a)
							}
							ops = append(ops, "atomic."+sel.Sel.Name+"("+strings.Join(args, ",")+")")
						case "runtime", "github.com/bytedance/gopkg/lang/fastrand":
							args := make([]string, len(x.Args))
							for i, a := range x.Args {
								args[i] = exprStr(fset, a)
							}
							ops = append(ops, "call "+exprStr(fset, sel)+"("+strings.Join(args, ",")+")")
						}
						return true
					}
				}
				switch sel.Sel.Name {
				case "Pick", "Run", "Close", "Reset", "Rebalance", "LoadBalance", "Wait", "SetNumLoops", "SetLoadBalance", "Trigger":
					args := make([]string, len(x.Args))
					for i, a := range x.Args {
						args[i] = exprStr(fset, a)
					}
					ops = append(ops, "call "+exprStr(fset, sel)+"("+strings.Join(args, ",")+")")
				}
			}
			if id, ok := x.Fun.(*ast.Ident); ok {
				switch id.Name {
				case "openPoll", "newLoadbalance", "newRoundRobinLB", "newRandomLB":
					args := make([]string, len(x.Args))
					for i, a := range x.Args {
						args[i] = exprStr(fset, a)
					}
					ops = append(ops, "call "+id.Name+"("+strings.Join(args, ",")+")")
				}
			}
		}
		return true
	})
	return ops
}

func fdLeanStr(s string) string {
	return "\"" + strings.ReplaceAll(strings.ReplaceAll(s, "\\", "\\\\"), "\"", "\\\"") + "\""
}

func leanName(s string) string {
	return strings.ReplaceAll(s, ".", "_")
}

// functions mirrored by lean/Netpoll/Conn/Life.lean (their sync lists go to Gen/Life.lean)
var lifeFuncs = []string{
	"locker.closeBy", "locker.isCloseBy", "locker.status", "locker.force", "locker.lock", "locker.unlock", "locker.stop",
	"connection.onHup", "connection.onClose", "connection.closeCallback", "connection.onConnect", "connection.onDisconnect",
	"connection.onRequest", "connection.onProcess", "connection.inputAck", "connection.triggerRead", "connection.triggerWrite",
	"connection.Close", "connection.Detach", "connection.IsActive", "connection.initFinalizer", "connection.onPrepare",
	"connection.register", "connection.SetOnRequest", "connection.AddCloseCallback",
	"connection.getState", "connection.setState", "connection.changeState",
	"FDOperator.Control", "FDOperator.Free", "FDOperator.do", "FDOperator.done", "FDOperator.inuse", "FDOperator.unused",
	"operatorCache.freeable", "netFD.Close", "UnsafeLinkBuffer.Len", "UnsafeLinkBuffer.recalLen", "server.onAccept",
}

// functions mirrored by lean/Netpoll/Conn/Read.lean and Flush.lean (C07, C08; their sync lists go to Gen/ReadFlush.lean)
var readFlushFuncs = []string{
	"connection.waitRead", "connection.waitReadWithTimeout", "connection.inputAck", "connection.triggerRead",
	"connection.Flush", "connection.Write", "connection.flush", "connection.waitFlush",
	"connection.outputs", "connection.outputAck", "connection.rw2r", "connection.triggerWrite",
	// helpers whose step order the trace drivers rely on
	"connection.Release", "connection.closeBuffer", "UnsafeLinkBuffer.Skip", "UnsafeLinkBuffer.Flush", "UnsafeLinkBuffer.bookAck",
	"UnsafeLinkBuffer.Close", "UnsafeLinkBuffer.IsEmpty", "iosend",
}

func recvName(fd *ast.FuncDecl) string { return syncops.RecvName(fd) }

func exprStr(fset *token.FileSet, e ast.Node) string { return syncops.ExprStr(fset, e) }

func main() {
	repo := flag.String("repo", "/repo", "")
	out := flag.String("out", "", "directory for generated Lean files")
	factsPath := flag.String("facts", "", "facts.json path")
	instrShard := flag.String("instr-shard", "", "write the instrumented copy of mux/shard_queue.go here (C17, shard.go)")
	instrDir := flag.String("instr", "", "directory for instrumented copies of the server files (C13 harness overlay)")
	flag.Parse()

	cfg := &packages.Config{
		Mode: packages.NeedName | packages.NeedFiles | packages.NeedSyntax | packages.NeedTypes | packages.NeedTypesInfo | packages.NeedImports | packages.NeedDeps,
		Dir:  *repo,
		Env:  append(os.Environ(), "GOOS=linux", "GOARCH=amd64", "GOFLAGS=-mod=mod"),
	}
	pkgs, err := packages.Load(cfg, ".", "./mux")
	if err != nil {
		fmt.Fprintln(os.Stderr, "load:", err)
		os.Exit(2)
	}
	facts := Facts{Consts: map[string]string{}, Funcs: map[string]FuncFact{}, Mgr: map[string][]string{}}
	var dialLean string
	var pollLean string
	var fdOnce string
	var mgrCalls string
	for _, p := range pkgs {
		if p.Name == "netpoll" {
			mgrCalls = mgrCallLean(p)
			dialLean = dialFacts(p)
			pollLean = pollFacts(p)
			fdOnce = fdOnceLean(p)
		}
		if len(p.Errors) > 0 {
			for _, e := range p.Errors {
				fmt.Fprintln(os.Stderr, "pkg error:", e)
			}
			os.Exit(2)
		}
		prefix := ""
		if p.Name != "netpoll" {
			prefix = p.Name + "."
		}
		// constants and constant-initialised variables
		scope := p.Types.Scope()
		for _, name := range scope.Names() {
			switch o := scope.Lookup(name).(type) {
			case *types.Const:
				v := o.Val()
				if v.Kind() == constant.Int || v.Kind() == constant.Bool {
					facts.Consts[prefix+name] = v.ExactString()
				}
			}
		}
		for _, f := range p.Syntax {
			for _, d := range f.Decls {
				switch d := d.(type) {
				case *ast.GenDecl:
					if d.Tok != token.VAR {
						continue
					}
					for _, s := range d.Specs {
						vs := s.(*ast.ValueSpec)
						for i, n := range vs.Names {
							if i < len(vs.Values) {
								if tv, ok := p.TypesInfo.Types[vs.Values[i]]; ok && tv.Value != nil &&
									(tv.Value.Kind() == constant.Int || tv.Value.Kind() == constant.Bool) {
									facts.Consts[prefix+"var."+n.Name] = tv.Value.ExactString()
								}
							}
						}
					}
				case *ast.FuncDecl:
					if d.Body == nil {
						continue
					}
					name := syncops.FuncName(d)
					// comment-free normalised source of the whole declaration
					var b bytes.Buffer
					cp := *d
					cp.Doc = nil
					(&printer.Config{Mode: printer.RawFormat}).Fprint(&b, token.NewFileSet(), &cp)
					norm := strings.Join(strings.Fields(b.String()), " ")
					h := sha256.Sum256([]byte(norm))
					for _, mf := range mgrFuncs {
						if prefix+name == mf {
							facts.Mgr[mf] = mgrOps(p.Fset, p.TypesInfo, d.Body)
						}
					}
					facts.Funcs[prefix+name] = FuncFact{
						Hash: fmt.Sprintf("%x", h[:8]),
						Sync: syncops.Texts(syncops.Ops(p.Fset, p.TypesInfo, d.Body)),
						File: filepath.Base(p.Fset.Position(d.Pos()).Filename),
					}
					if p.Name == "netpoll" {
						ast.Inspect(d.Body, func(n ast.Node) bool {
							if x, ok := n.(*ast.CallExpr); ok {
								if k := closeKind(p.TypesInfo, x); k != "" {
									pos := p.Fset.Position(x.Pos())
									facts.CloseSites = append(facts.CloseSites, CloseSite{
										File: filepath.Base(pos.Filename), Func: name, Kind: k,
										Call: exprStr(p.Fset, x), Line: pos.Line, pos: x.Pos(),
									})
								}
							}
							return true
						})
					}
				}
			}
		}
	}
	sort.SliceStable(facts.CloseSites, func(i, j int) bool {
		a, b := facts.CloseSites[i], facts.CloseSites[j]
		if a.File != b.File {
			return a.File < b.File
		}
		return a.pos < b.pos
	})
	if *out != "" {
		// C19 access table: union of the non-race and the race build of the packages
		var rpkgs []*packages.Package
		for _, p := range pkgs {
			rp, err := raceVariant(p)
			if err != nil {
				fmt.Fprintln(os.Stderr, "race variant of", p.Name, ":", err)
				os.Exit(2)
			}
			if rp != nil {
				rpkgs = append(rpkgs, rp)
			}
		}
		if err := emitAccess([][]*packages.Package{pkgs, rpkgs}, *out); err != nil {
			fmt.Fprintln(os.Stderr, err)
			os.Exit(2)
		}
	}
	shard := analyseShard(pkgs)
	facts.Shard = shard.Steps
	defer shard.emit(*out, *instrShard)
	// server / event-loop step lists (C13); must run after the fingerprints: -instr rewrites the AST
	for _, p := range pkgs {
		if p.Name == "netpoll" {
			facts.ServerRetry = retryFacts(p) // before serverFacts: -instr rewrites the AST
			steps, err := serverFacts(p, *instrDir)
			if err != nil {
				fmt.Fprintln(os.Stderr, "server facts:", err)
				os.Exit(2)
			}
			facts.ServerSteps = steps
			if *out != "" {
				if err := writeServerLean(*out, steps, facts.ServerRetry); err != nil {
					fmt.Fprintln(os.Stderr, err)
					os.Exit(2)
				}
			}
		}
	}
	if *factsPath != "" {
		j, _ := json.MarshalIndent(facts, "", " ")
		if err := os.WriteFile(*factsPath, j, 0o644); err != nil {
			fmt.Fprintln(os.Stderr, err)
			os.Exit(2)
		}
	}
	if *out != "" {
		var b strings.Builder
		b.WriteString("/- GENERATED by /verif/tools/extract from /repo on every check run.  Do not edit. -/\nnamespace Netpoll.Gen\n\n")
		names := make([]string, 0, len(facts.Consts))
		for n := range facts.Consts {
			names = append(names, n)
		}
		sort.Strings(names)
		for _, n := range names {
			v := facts.Consts[n]
			ln := leanName(n)
			switch v {
			case "true", "false":
				fmt.Fprintf(&b, "def c_%s : Bool := %s\n", ln, v)
			default:
				if strings.HasPrefix(v, "-") {
					fmt.Fprintf(&b, "def c_%s : Int := %s\n", ln, v)
				} else {
					fmt.Fprintf(&b, "def c_%s : Nat := %s\n", ln, v)
				}
			}
		}
		b.WriteString("\nend Netpoll.Gen\n")
		if err := os.WriteFile(filepath.Join(*out, "Consts.lean"), []byte(b.String()), 0o644); err != nil {
			fmt.Fprintln(os.Stderr, err)
			os.Exit(2)
		}
		// sync-operation lists of the functions the lifecycle model mirrors (T-gen tie of Netpoll.Conn.Life)
		var lb strings.Builder
		lb.WriteString("/- GENERATED by /verif/tools/extract from /repo on every check run.  Do not edit.\n   Ordered synchronisation operations (package syncops) of the functions Netpoll.Conn.Life mirrors;\n   the k-th entry of sync_<f> is the schedule point with site id \"<f>#k\" of tools/instrument. -/\nnamespace Netpoll.Gen.Life\n\n")
		for _, n := range lifeFuncs {
			f, ok := facts.Funcs[n]
			fmt.Fprintf(&lb, "def sync_%s : List String := [", leanName(n))
			if ok {
				for i, t := range f.Sync {
					if i > 0 {
						lb.WriteString(",")
					}
					fmt.Fprintf(&lb, "\n  %s", leanStr(t))
				}
			} else {
				lb.WriteString("\"<function not found>\"")
			}
			lb.WriteString("]\n\n")
		}
		lb.WriteString("end Netpoll.Gen.Life\n")
		if err := os.WriteFile(filepath.Join(*out, "Life.lean"), []byte(lb.String()), 0o644); err != nil {
			fmt.Fprintln(os.Stderr, err)
			os.Exit(2)
		}
		var rb strings.Builder
		rb.WriteString("/- GENERATED by /verif/tools/extract from /repo on every check run.  Do not edit.\n   Ordered synchronisation operations (package syncops) of the functions Netpoll.Conn.Read / Netpoll.Conn.Flush mirror;\n   the k-th entry of sync_<f> is the schedule point with site id \"<f>#k\" of tools/instrument. -/\nnamespace Netpoll.Gen.ReadFlush\n\n")
		for _, n := range readFlushFuncs {
			f, ok := facts.Funcs[n]
			fmt.Fprintf(&rb, "def sync_%s : List String := [", leanName(n))
			if ok {
				for i, t := range f.Sync {
					if i > 0 {
						rb.WriteString(",")
					}
					fmt.Fprintf(&rb, "\n  %s", leanStr(t))
				}
			} else {
				rb.WriteString("\"<function not found>\"")
			}
			rb.WriteString("]\n\n")
		}
		rb.WriteString("end Netpoll.Gen.ReadFlush\n")
		if err := os.WriteFile(filepath.Join(*out, "ReadFlush.lean"), []byte(rb.String()), 0o644); err != nil {
			fmt.Fprintln(os.Stderr, err)
			os.Exit(2)
		}
		// Gen/Manager.lean: step fingerprints of the poller-pool functions (a missing function gives [])
		var mb strings.Builder
		mb.WriteString("/- GENERATED by /verif/tools/extract from /repo on every check run.  Do not edit.\n" +
			"   Ordered step fingerprints of the poller-pool functions (poll_manager.go, poll_loadbalance.go). -/\nnamespace Netpoll.Gen\n\n")
		for _, mf := range mgrFuncs {
			fmt.Fprintf(&mb, "def mgr_%s : List String := [", leanName(mf))
			for i, o := range facts.Mgr[mf] {
				if i > 0 {
					mb.WriteString(",")
				}
				mb.WriteString("\n  " + fdLeanStr(o))
			}
			mb.WriteString("]\n\n")
		}
		// who calls the pool's methods, and whether Run is entered under the status CAS (manager.go)
		mb.WriteString(mgrCalls)
		mb.WriteString("end Netpoll.Gen\n")
		if err := os.WriteFile(filepath.Join(*out, "Manager.lean"), []byte(mb.String()), 0o644); err != nil {
			fmt.Fprintln(os.Stderr, err)
			os.Exit(2)
		}
		if err := os.WriteFile(filepath.Join(*out, "Dial.lean"), []byte(dialLean), 0o644); err != nil {
			fmt.Fprintln(os.Stderr, err)
			os.Exit(2)
		}
		if err := os.WriteFile(filepath.Join(*out, "Poll.lean"), []byte(pollLean), 0o644); err != nil {
			fmt.Fprintln(os.Stderr, err)
			os.Exit(2)
		}
		var f strings.Builder
		f.WriteString("/- GENERATED by /verif/tools/extract from /repo on every check run.  Do not edit. -/\nnamespace Netpoll.Gen\n\n")
		f.WriteString("/-- every call in package netpoll (linux build) that closes a descriptor or an object wrapping one:\n    (file, function, kind, call expression), in source order -/\n")
		f.WriteString("def closeSites : List (String × String × String × String) := [")
		for i, c := range facts.CloseSites {
			if i > 0 {
				f.WriteString(",")
			}
			fmt.Fprintf(&f, "\n  (%s, %s, %s, %s)", fdLeanStr(c.File), fdLeanStr(c.Func), fdLeanStr(c.Kind), fdLeanStr(c.Call))
		}
		f.WriteString("]\n\n" + fdOnce + "end Netpoll.Gen\n")
		if err := os.WriteFile(filepath.Join(*out, "Fd.lean"), []byte(f.String()), 0o644); err != nil {
			fmt.Fprintln(os.Stderr, err)
			os.Exit(2)
		}
	}
}
