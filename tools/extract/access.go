package main

// Access-set extraction for C19: every access to a field of the structs shared between goroutines,
// classified as plain read (r), plain write (w), atomic (a: inside a sync/atomic call - directly or through
// a package helper that forwards the pointer only to sync/atomic calls, like lock(&c.locked) - or the field
// itself is a sync/atomic type) or synchronisation object (s: sync.Mutex, sync.Map, channel operations ...).
// LinkBuffer internals are the documented exemption and are not listed.
//
// Attribution rules (what "function" means in the table):
//   - a function literal is its own function `outer$k` (k-th literal of `outer`, nested `outer$k$j`): the
//     task closure of onProcess, the finalizer callback, the onhups goroutine, deferred closures run in other
//     goroutines / at other times than the enclosing function;
//   - x.f.g and x.f.m() where f is an embedded or by-value struct field only ADDRESS f: no access to f itself;
//   - assigning or copying a whole struct (c.netFD = *nfd, s.operator = FDOperator{...}, x := *op) is a write /
//     read of every field of that struct (recursively for by-value struct fields);
//   - a keyed composite literal of a shared struct is a write of the keyed fields in the constructing function
//     (initialisation of a fresh object);
//   - a promoted method of an embedded sync type (evl.Lock()) is an "s" access to the embedded field;
//   - the package is loaded twice, without and with the `race` build tag, and the union is emitted, so the
//     race-build substitutes (poll_default_linux_race.go) are covered as well.

import (
	"fmt"
	"go/ast"
	"go/build"
	"go/parser"
	"go/token"
	"go/types"
	"math/big"
	"os"
	"path/filepath"
	"sort"
	"strings"

	"golang.org/x/tools/go/packages"
)

var sharedStructs = map[string]bool{
	"connection": true, "netFD": true, "onEvent": true, "locker": true, "FDOperator": true, "operatorCache": true,
	"defaultPoll": true, "pollArgs": true, "manager": true, "server": true, "eventLoop": true, "pollDesc": true, "listener": true,
	"roundRobinLB": true, "randomLB": true, "baseLoadBalance": true,
	"mux.ShardQueue": true, "mux.queueTrigger": true,
}

type accessRec struct{ fn, field, kind string }

// one occurrence of an access together with the lock objects lexically held there (lexHeld table)
type heldRec struct {
	accessRec
	held []string
}

// a lock / unlock call inside one function body
type lockEv struct {
	pos   token.Pos
	key   string
	taken bool
}

type accWalker struct {
	p      *packages.Package
	prefix string
	owner  map[*types.Var]string        // field object -> declaring struct name
	fields map[string][]*types.Var      // shared struct name -> its fields
	fwd    map[*types.Func]map[int]bool // package function -> indices of pointer params only forwarded to sync/atomic
	recs   *[]accessRec
	hrecs  *[]heldRec
	curPos token.Pos // position of the access being recorded
	evs    []lockEv  // lock events of the function body being walked
}

// lockEvents lists the lock / unlock calls of one function body (nested function literals excluded) in source order:
//   lock(&x.f) / unlock(&x.f)           package spin-lock helpers on a field of a shared struct   -> key "<struct>.<f>"
//   x.lock(..) / x.unlock(..)           lock methods of a shared struct (ShardQueue.lock(shard))   -> key "<struct>.lock"
//   x.f.Lock() / x.f.Unlock(), x.Lock() sync.Mutex field, or promoted from an embedded sync.Mutex  -> key "<struct>.<f>"
// A deferred unlock releases at function exit: it is not an event.  The scan is lexical (source order), not path sensitive.
func (w *accWalker) lockEvents(body ast.Node, parent map[ast.Node]ast.Node) []lockEv {
	var evs []lockEv
	fieldKey := func(e ast.Expr) string {
		if u, ok := e.(*ast.UnaryExpr); ok && u.Op == token.AND {
			e = u.X
		}
		sel, ok := e.(*ast.SelectorExpr)
		if !ok {
			return ""
		}
		s := w.p.TypesInfo.Selections[sel]
		if s == nil || s.Kind() != types.FieldVal {
			return ""
		}
		fv, _ := s.Obj().(*types.Var)
		if own, ok := w.owner[fv]; ok && sharedStructs[own] {
			return own + "." + fv.Name()
		}
		return ""
	}
	ast.Inspect(body, func(n ast.Node) bool {
		if fl, ok := n.(*ast.FuncLit); ok && ast.Node(fl) != body {
			return false
		}
		call, ok := n.(*ast.CallExpr)
		if !ok {
			return true
		}
		key, name := "", ""
		switch f := call.Fun.(type) {
		case *ast.Ident:
			if fobj, ok := w.p.TypesInfo.Uses[f].(*types.Func); ok && fobj.Pkg() == w.p.Types && (f.Name == "lock" || f.Name == "unlock") && len(call.Args) == 1 {
				key, name = fieldKey(call.Args[0]), f.Name
			}
		case *ast.SelectorExpr:
			fobj, ok := w.p.TypesInfo.Uses[f.Sel].(*types.Func)
			if !ok {
				return true
			}
			sig, _ := fobj.Type().(*types.Signature)
			if sig == nil || sig.Recv() == nil {
				return true
			}
			switch f.Sel.Name {
			case "lock", "unlock":
				rt := sig.Recv().Type()
				if pt, ok := rt.(*types.Pointer); ok {
					rt = pt.Elem()
				}
				if sn := w.sharedName(rt); sn != "" {
					key, name = sn+".lock", f.Sel.Name
				}
			case "Lock", "Unlock", "RLock", "RUnlock":
				if !typeFrom(sig.Recv().Type(), "sync") {
					return true
				}
				name = strings.ToLower(strings.TrimPrefix(f.Sel.Name, "R"))
				if k := fieldKey(f.X); k != "" {
					key = k
				} else if s := w.p.TypesInfo.Selections[f]; s != nil && len(s.Index()) > 1 {
					// promoted through an embedded field
					recv := s.Recv()
					if pt, ok := recv.Underlying().(*types.Pointer); ok {
						recv = pt.Elem()
					}
					if st, ok := recv.Underlying().(*types.Struct); ok {
						ef := st.Field(s.Index()[0])
						if own, ok := w.owner[ef]; ok && sharedStructs[own] {
							key = own + "." + ef.Name()
						}
					}
				}
			}
		}
		if key == "" {
			return true
		}
		if name == "lock" {
			evs = append(evs, lockEv{call.End(), key, true})
		} else if _, deferred := parent[call].(*ast.DeferStmt); !deferred {
			evs = append(evs, lockEv{call.Pos(), key, false})
		}
		return true
	})
	sort.Slice(evs, func(i, j int) bool { return evs[i].pos < evs[j].pos })
	return evs
}

// heldAt: the lock keys whose latest event before pos (in source order) is a lock
func heldAt(evs []lockEv, pos token.Pos) []string {
	last := map[string]bool{}
	for _, e := range evs {
		if e.pos <= pos {
			last[e.key] = e.taken
		}
	}
	var out []string
	for k, t := range last {
		if t {
			out = append(out, k)
		}
	}
	sort.Strings(out)
	return out
}

func (w *accWalker) sharedName(t types.Type) string {
	nt, ok := t.(*types.Named)
	if !ok || nt.Obj().Pkg() == nil || nt.Obj().Pkg() != w.p.Types {
		return ""
	}
	if _, ok := nt.Underlying().(*types.Struct); !ok {
		return ""
	}
	n := w.prefix + nt.Obj().Name()
	if sharedStructs[n] {
		return n
	}
	return ""
}

func (w *accWalker) add(fn, own string, fv *types.Var, kind string) {
	r := accessRec{fn, own + "." + fv.Name(), kind}
	*w.recs = append(*w.recs, r)
	if w.hrecs != nil {
		*w.hrecs = append(*w.hrecs, heldRec{r, heldAt(w.evs, w.curPos)})
	}
}

// whole-struct access: every field, recursively through by-value shared struct fields
func (w *accWalker) addAll(fn, structName, kind string) {
	for _, fv := range w.fields[structName] {
		w.add(fn, structName, fv, kind)
		if sub := w.sharedName(fv.Type()); sub != "" {
			w.addAll(fn, sub, kind)
		}
	}
}

func parentMap(root ast.Node) map[ast.Node]ast.Node {
	parent := map[ast.Node]ast.Node{}
	var stack []ast.Node
	ast.Inspect(root, func(n ast.Node) bool {
		if n == nil {
			stack = stack[:len(stack)-1]
			return true
		}
		if len(stack) > 0 {
			parent[n] = stack[len(stack)-1]
		}
		stack = append(stack, n)
		return true
	})
	return parent
}

// pointer parameters of package functions that are used only as direct arguments of sync/atomic calls
func (w *accWalker) computeForwarders() {
	w.fwd = map[*types.Func]map[int]bool{}
	for _, f := range w.p.Syntax {
		for _, d := range f.Decls {
			fd, ok := d.(*ast.FuncDecl)
			if !ok || fd.Body == nil || fd.Type.Params == nil {
				continue
			}
			fobj, _ := w.p.TypesInfo.Defs[fd.Name].(*types.Func)
			if fobj == nil {
				continue
			}
			parent := parentMap(fd.Body)
			idx := 0
			for _, fl := range fd.Type.Params.List {
				for _, nm := range fl.Names {
					pobj := w.p.TypesInfo.Defs[nm]
					if _, isPtr := pobj.Type().(*types.Pointer); isPtr {
						uses, okAll := 0, true
						ast.Inspect(fd.Body, func(n ast.Node) bool {
							id, ok := n.(*ast.Ident)
							if !ok || w.p.TypesInfo.Uses[id] != pobj {
								return true
							}
							uses++
							call, ok := parent[id].(*ast.CallExpr)
							if !ok || !isAtomicPkgCall(w.p, call) {
								okAll = false
							}
							return true
						})
						if uses > 0 && okAll {
							if w.fwd[fobj] == nil {
								w.fwd[fobj] = map[int]bool{}
							}
							w.fwd[fobj][idx] = true
						}
					}
					idx++
				}
				if len(fl.Names) == 0 {
					idx++
				}
			}
		}
	}
}

func (w *accWalker) calleeForwards(call *ast.CallExpr, arg ast.Expr) bool {
	var id *ast.Ident
	switch f := call.Fun.(type) {
	case *ast.Ident:
		id = f
	case *ast.SelectorExpr:
		id = f.Sel
	}
	if id == nil {
		return false
	}
	fobj, _ := w.p.TypesInfo.Uses[id].(*types.Func)
	if fobj == nil {
		return false
	}
	for i, a := range call.Args {
		if a == arg {
			return w.fwd[fobj][i]
		}
	}
	return false
}

func isLHS(parent map[ast.Node]ast.Node, n ast.Node) bool {
	switch x := parent[n].(type) {
	case *ast.AssignStmt:
		for _, l := range x.Lhs {
			if l == n {
				return true
			}
		}
	case *ast.IncDecStmt:
		return x.X == n
	case *ast.RangeStmt:
		return x.Key == n || x.Value == n
	}
	return false
}

func (w *accWalker) walkFunc(body ast.Node, fn string) {
	parent := parentMap(body)
	lits := 0
	w.evs = w.lockEvents(body, parent)
	ast.Inspect(body, func(n ast.Node) bool {
		if n != nil {
			w.curPos = n.Pos()
		}
		switch x := n.(type) {
		case *ast.FuncLit:
			if ast.Node(x) == body {
				return true
			}
			lits++
			saved := w.evs
			w.walkFunc(x, fmt.Sprintf("%s$%d", fn, lits))
			w.evs = saved
			return false
		case *ast.SelectorExpr:
			w.selector(x, fn, parent)
		case *ast.Ident:
			// package-level variable of this package ("var.<name>")
			v, ok := w.p.TypesInfo.Uses[x].(*types.Var)
			if !ok || v.IsField() || v.Pkg() != w.p.Types || v.Parent() != w.p.Types.Scope() {
				return true
			}
			if ps, ok := parent[x].(*ast.SelectorExpr); ok && ps.Sel == x {
				return true
			}
			kind := w.classify(x, v, parent)
			if _, isStruct := v.Type().Underlying().(*types.Struct); isStruct && kind == "r" {
				if ps, ok := parent[x].(*ast.SelectorExpr); ok && ps.X == ast.Expr(x) {
					return true // v.f / v.m(): addressing a struct-valued variable
				}
			}
			*w.recs = append(*w.recs, accessRec{fn, w.prefix + "var." + v.Name(), kind})
		case *ast.StarExpr:
			// *p where p points to a shared struct, used as a whole value
			tv, ok := w.p.TypesInfo.Types[x]
			if !ok || !tv.IsValue() {
				return true
			}
			sn := w.sharedName(tv.Type)
			if sn == "" {
				return true
			}
			if ps, ok := parent[x].(*ast.SelectorExpr); ok && ps.X == ast.Expr(x) {
				return true // (*p).f : addressing
			}
			if pp, ok := parent[x].(*ast.ParenExpr); ok {
				if ps, ok := parent[pp].(*ast.SelectorExpr); ok && ps.X == ast.Expr(pp) {
					return true
				}
			}
			if u, ok := parent[x].(*ast.UnaryExpr); ok && u.Op == token.AND {
				return true
			}
			if isLHS(parent, x) {
				w.addAll(fn, sn, "w")
			} else {
				w.addAll(fn, sn, "r")
			}
		case *ast.CompositeLit:
			tv, ok := w.p.TypesInfo.Types[x]
			if !ok {
				return true
			}
			sn := w.sharedName(tv.Type)
			if sn == "" {
				return true
			}
			for _, el := range x.Elts {
				kv, ok := el.(*ast.KeyValueExpr)
				if !ok {
					continue
				}
				if id, ok := kv.Key.(*ast.Ident); ok {
					if fv, ok := w.p.TypesInfo.Uses[id].(*types.Var); ok && fv.IsField() {
						if own, ok := w.owner[fv]; ok {
							w.add(fn, own, fv, "w")
						}
					}
				}
			}
		}
		return true
	})
}

func (w *accWalker) selector(sel *ast.SelectorExpr, fn string, parent map[ast.Node]ast.Node) {
	s := w.p.TypesInfo.Selections[sel]
	if s == nil {
		return
	}
	// implicit (embedded) fields on the path
	recv := s.Recv()
	path := s.Index()
	for i := 0; i+1 < len(path); i++ {
		if pt, ok := recv.Underlying().(*types.Pointer); ok {
			recv = pt.Elem()
		}
		st, ok := recv.Underlying().(*types.Struct)
		if !ok {
			break
		}
		ef := st.Field(path[i])
		if own, ok := w.owner[ef]; ok && sharedStructs[own] {
			switch {
			case typeFrom(ef.Type(), "sync"):
				w.add(fn, own, ef, "s") // evl.Lock()
			case typeFrom(ef.Type(), "sync/atomic"):
				w.add(fn, own, ef, "a")
			default:
				if _, isPtr := ef.Type().(*types.Pointer); isPtr {
					w.add(fn, own, ef, "r") // embedded by pointer: the pointer is read
				}
			}
		}
		recv = ef.Type()
	}
	if s.Kind() != types.FieldVal {
		return
	}
	fv, ok := s.Obj().(*types.Var)
	if !ok {
		return
	}
	own, ok := w.owner[fv]
	if !ok || !sharedStructs[own] {
		return
	}
	if sn := w.sharedName(fv.Type()); sn != "" {
		// by-value struct field
		if ps, ok := parent[sel].(*ast.SelectorExpr); ok && ps.X == ast.Expr(sel) {
			return // x.f.g / x.f.m(): addressing only
		}
		if u, ok := parent[sel].(*ast.UnaryExpr); ok && u.Op == token.AND {
			return // &x.f: addressing only (the pointee's fields are recorded where they are used)
		}
		if isLHS(parent, sel) {
			w.add(fn, own, fv, "w")
			w.addAll(fn, sn, "w")
		} else {
			w.add(fn, own, fv, "r")
			w.addAll(fn, sn, "r")
		}
		return
	}
	w.add(fn, own, fv, w.classify(sel, fv, parent))
}

func emitAccess(loads [][]*packages.Package, out string) error {
	var recs []accessRec
	var hrecs []heldRec
	for _, pkgs := range loads {
		for _, p := range pkgs {
			w := &accWalker{p: p, owner: map[*types.Var]string{}, fields: map[string][]*types.Var{}, recs: &recs, hrecs: &hrecs}
			if p.Name != "netpoll" {
				w.prefix = p.Name + "."
			}
			scope := p.Types.Scope()
			for _, name := range scope.Names() {
				tn, ok := scope.Lookup(name).(*types.TypeName)
				if !ok {
					continue
				}
				st, ok := tn.Type().Underlying().(*types.Struct)
				if !ok {
					continue
				}
				for i := 0; i < st.NumFields(); i++ {
					w.owner[st.Field(i)] = w.prefix + name
					w.fields[w.prefix+name] = append(w.fields[w.prefix+name], st.Field(i))
				}
			}
			w.computeForwarders()
			for _, f := range p.Syntax {
				fname := filepath.Base(p.Fset.Position(f.Pos()).Filename)
				if strings.HasSuffix(fname, "_test.go") || strings.HasPrefix(fname, "zz_verif") {
					continue
				}
				for _, d := range f.Decls {
					fd, ok := d.(*ast.FuncDecl)
					if !ok || fd.Body == nil {
						continue
					}
					fn := fd.Name.Name
					if r := recvName(fd); r != "" {
						fn = r + "." + fn
					}
					w.walkFunc(fd.Body, w.prefix+fn)
				}
			}
		}
	}
	// canonical: sorted, duplicates removed
	sort.Slice(recs, func(i, j int) bool {
		a, b := recs[i], recs[j]
		if a.field != b.field {
			return a.field < b.field
		}
		if a.fn != b.fn {
			return a.fn < b.fn
		}
		return a.kind < b.kind
	})
	var b strings.Builder
	b.WriteString("/- GENERATED by /verif/tools/extract from /repo on every check run.  Do not edit.\n" +
		"   (field, function, kind): r plain read, w plain write, a atomic, s synchronisation object.\n" +
		"   A name is the pair ⟨text, code⟩, code = base-256 value of \"\\x01\" ++ text (injective on ASCII): the kernel\n" +
		"   compares names by code (string equality is too slow for `decide` in the kernel); the #guard below\n" +
		"   re-computes every code from its text. -/\nimport Netpoll.RaceName\nnamespace Netpoll.Gen\nopen Netpoll.Race (Nm Kind)\n\n")
	// grouped by field, so that the kernel looks the policy of a field up once
	b.WriteString("def accessGroups : List (Nm × List (Nm × Kind)) := [\n")
	var last accessRec
	n := 0
	for _, r := range recs {
		if r == last {
			continue
		}
		if r.field != last.field {
			if n > 0 {
				b.WriteString("]),\n")
			}
			fmt.Fprintf(&b, "  (%s, [\n", leanNm(r.field))
		} else {
			b.WriteString(",\n")
		}
		last = r
		n++
		fmt.Fprintf(&b, "     (%s, .%s)", leanNm(r.fn), r.kind)
	}
	if n > 0 {
		b.WriteString("])\n")
	}
	b.WriteString("]\n\n/-- the flat table: (field, function, kind) -/\n" +
		"def accesses : List (Nm × Nm × Kind) := accessGroups.flatMap fun g => g.2.map fun a => (g.1, a.1, a.2)\n\n" +
		"#guard accessGroups.all fun g => g.1.wf && g.2.all fun a => a.1.wf\n\n")
	// lexical lock coverage: per (field, function, kind) the lock objects held at EVERY occurrence (intersection), non-empty only
	type hk struct{ field, fn, kind string }
	inter := map[hk]map[string]bool{}
	for _, h := range hrecs {
		k := hk{h.field, h.fn, h.kind}
		cur := map[string]bool{}
		for _, l := range h.held {
			cur[l] = true
		}
		if prev, ok := inter[k]; ok {
			for l := range prev {
				if !cur[l] {
					delete(prev, l)
				}
			}
		} else {
			inter[k] = cur
		}
	}
	var hks []hk
	for k, v := range inter {
		if len(v) > 0 && (k.kind == "r" || k.kind == "w") {
			hks = append(hks, k)
		}
	}
	sort.Slice(hks, func(i, j int) bool {
		a, c := hks[i], hks[j]
		if a.field != c.field {
			return a.field < c.field
		}
		if a.fn != c.fn {
			return a.fn < c.fn
		}
		return a.kind < c.kind
	})
	b.WriteString("/-- lexical lock coverage of the plain accesses: (field, function, kind, locks) - the lock objects (spin-lock word, mutex\n" +
		"    field, or lock method `T.lock`) lexically held at EVERY occurrence of that access in the function: a `lock(..)` / `.Lock()`\n" +
		"    call precedes it in the function body and no matching non-deferred unlock lies in between (source order, not path\n" +
		"    sensitive).  Accesses outside every critical section are not listed. -/\n" +
		"def lexHeld : List (Nm × Nm × Kind × List Nm) := [\n")
	for i, k := range hks {
		var ls []string
		for l := range inter[k] {
			ls = append(ls, l)
		}
		sort.Strings(ls)
		for j := range ls {
			ls[j] = leanNm(ls[j])
		}
		sep := ","
		if i == len(hks)-1 {
			sep = ""
		}
		fmt.Fprintf(&b, "  (%s, %s, .%s, [%s])%s\n", leanNm(k.field), leanNm(k.fn), k.kind, strings.Join(ls, ", "), sep)
	}
	b.WriteString("]\n\n#guard lexHeld.all fun a => a.1.wf && a.2.1.wf && a.2.2.2.all (·.wf)\n\nend Netpoll.Gen\n")
	return os.WriteFile(filepath.Join(out, "Access.lean"), []byte(b.String()), 0o644)
}

// ⟨"text", 0x01<bytes of text>⟩ ; panics on non-ASCII (the code would no longer be injective)
func leanNm(s string) string {
	code := big.NewInt(1)
	for i := 0; i < len(s); i++ {
		if s[i] >= 128 {
			panic("non-ASCII identifier in access table: " + s)
		}
		code.Lsh(code, 8)
		code.Or(code, big.NewInt(int64(s[i])))
	}
	return fmt.Sprintf("⟨%q, 0x%s⟩", s, code.Text(16))
}

func isAtomicPkgCall(p *packages.Package, call *ast.CallExpr) bool {
	sel, ok := call.Fun.(*ast.SelectorExpr)
	if !ok {
		return false
	}
	id, ok := sel.X.(*ast.Ident)
	if !ok {
		return false
	}
	pn, ok := p.TypesInfo.Uses[id].(*types.PkgName)
	return ok && pn.Imported().Path() == "sync/atomic"
}

func typeFrom(t types.Type, pkgPath string) bool {
	if pt, ok := t.(*types.Pointer); ok {
		t = pt.Elem()
	}
	if nt, ok := t.(*types.Named); ok && nt.Obj().Pkg() != nil {
		return nt.Obj().Pkg().Path() == pkgPath
	}
	return false
}

func (w *accWalker) classify(sel ast.Expr, fv *types.Var, parent map[ast.Node]ast.Node) string {
	t := fv.Type()
	if typeFrom(t, "sync/atomic") {
		return "a"
	}
	if typeFrom(t, "sync") {
		return "s"
	}
	if _, ok := t.Underlying().(*types.Chan); ok {
		// a channel value: sends/receives synchronise; assigning the field itself is a plain write
		if isLHS(parent, sel) {
			return "w"
		}
		return "s"
	}
	// strip index / slice / paren chains upwards: c.keychain[k], q.getters[i], x.f[:0]
	var n ast.Node = sel
	for {
		pn := parent[n]
		switch x := pn.(type) {
		case *ast.IndexExpr:
			if x.X == n {
				n = pn
				continue
			}
		case *ast.ParenExpr:
			n = pn
			continue
		}
		break
	}
	if u, ok := parent[n].(*ast.UnaryExpr); ok && u.Op == token.AND {
		if call, ok := parent[u].(*ast.CallExpr); ok {
			if isAtomicPkgCall(w.p, call) || w.calleeForwards(call, u) {
				return "a"
			}
		}
		return "w" // address escapes: treat as a write
	}
	if isLHS(parent, n) {
		return "w"
	}
	return "r"
}

type mapImporter map[string]*packages.Package

func (m mapImporter) Import(path string) (*types.Package, error) {
	if path == "unsafe" {
		return types.Unsafe, nil
	}
	if p, ok := m[path]; ok && p.Types != nil {
		return p.Types, nil
	}
	return nil, fmt.Errorf("package %s not loaded", path)
}

// raceVariant re-type-checks package p with the file set the `race` build tag selects (linux/amd64): the
// files of p that still match plus the ignored files that now match. nil if the tag changes nothing.
func raceVariant(p *packages.Package) (*packages.Package, error) {
	ctx := build.Default
	ctx.GOOS, ctx.GOARCH, ctx.CgoEnabled = "linux", "amd64", true
	ctx.BuildTags = []string{"race"}
	var files []*ast.File
	changed := false
	for _, f := range p.Syntax {
		name := p.Fset.Position(f.Pos()).Filename
		if strings.HasSuffix(name, "_test.go") {
			continue
		}
		ok, err := ctx.MatchFile(filepath.Dir(name), filepath.Base(name))
		if err != nil {
			return nil, err
		}
		if ok {
			files = append(files, f)
		} else {
			changed = true
		}
	}
	for _, name := range p.IgnoredFiles {
		if !strings.HasSuffix(name, ".go") || strings.HasSuffix(name, "_test.go") {
			continue
		}
		ok, err := ctx.MatchFile(filepath.Dir(name), filepath.Base(name))
		if err != nil {
			return nil, err
		}
		if !ok {
			continue
		}
		f, err := parser.ParseFile(p.Fset, name, nil, parser.ParseComments)
		if err != nil {
			return nil, err
		}
		files = append(files, f)
		changed = true
	}
	if !changed {
		return nil, nil
	}
	info := &types.Info{
		Types: map[ast.Expr]types.TypeAndValue{}, Defs: map[*ast.Ident]types.Object{}, Uses: map[*ast.Ident]types.Object{},
		Selections: map[*ast.SelectorExpr]*types.Selection{}, Implicits: map[ast.Node]types.Object{},
	}
	conf := types.Config{Importer: mapImporter(p.Imports)}
	tp, err := conf.Check(p.PkgPath, p.Fset, files, info)
	if err != nil {
		return nil, err
	}
	return &packages.Package{Name: p.Name, PkgPath: p.PkgPath, Fset: p.Fset, Syntax: files, Types: tp, TypesInfo: info}, nil
}
