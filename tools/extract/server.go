// server.go: T-gen facts for the server / event-loop functions (property C13).
//
// For every method of `server` and `eventLoop` the ordered list of statements ("steps") is emitted,
// each canonicalised to "<depth> <kind>:<callee>,<callee>..." (nested blocks and function literals
// raise the depth; a few callees keep their literal operands).  The list goes to
// Gen/Server.lean (tie lemmas in Tie/Server.lean compare it with what the model's program counters
// assume) and to facts.json ("server_steps").
//
// With -instr <dir> the same walk also writes instrumented copies of the files that define those
// methods: `verifSrvPoint("<recv.func>", k, "<label>")` is inserted before statement k (k = index in
// the emitted list).  The copies are overlaid over the originals when the srvh harness is built, so
// the harness can pause the REAL code between any two statements without any change in /repo.
package main

import (
	"bytes"
	"fmt"
	"go/ast"
	"go/printer"
	"go/token"
	"go/types"
	"os"
	"path/filepath"
	"sort"
	"strconv"
	"strings"

	"golang.org/x/tools/go/packages"
)

// receivers whose methods are walked, and the names that are always emitted (empty when absent)
var srvRecv = map[string]bool{"server": true, "eventLoop": true}
var srvAlways = []string{"server.OnRead", "server.onAccept", "server.Close", "server.Run", "server.accept",
	"eventLoop.Serve", "eventLoop.Shutdown", "eventLoop.quit", "eventLoop.waitQuit"}

type srvWalker struct {
	fset  *token.FileSet
	info  *types.Info
	fn    string
	steps []string
	instr bool
}

// callee names in the "header" of a statement: not descending into nested blocks or function literals
func (w *srvWalker) callees(nodes ...ast.Node) []string {
	var out []string
	for _, n := range nodes {
		if n == nil {
			continue
		}
		ast.Inspect(n, func(x ast.Node) bool {
			switch c := x.(type) {
			case *ast.FuncLit, *ast.BlockStmt:
				return false
			case *ast.UnaryExpr:
				if c.Op == token.ARROW {
					out = append(out, "recv")
				}
			case *ast.CallExpr:
				if tv, ok := w.info.Types[c.Fun]; ok && tv.IsType() {
					return true // conversion
				}
				name := ""
				switch f := c.Fun.(type) {
				case *ast.SelectorExpr:
					name = f.Sel.Name
					if id, ok := f.X.(*ast.Ident); ok {
						if pn, ok := w.info.Uses[id].(*types.PkgName); ok {
							name = pn.Imported().Name() + "." + name
						}
					}
				case *ast.Ident:
					name = f.Name
				case *ast.FuncLit:
					name = "func"
				default:
					name = "?"
				}
				switch {
				case name == "Control" || strings.HasPrefix(name, "atomic."):
					args := make([]string, len(c.Args))
					for i, a := range c.Args {
						args[i] = strings.TrimPrefix(exprStr(w.fset, a), "&")
					}
					name += "(" + strings.Join(args, ",") + ")"
				case name == "Store" || name == "Delete" || name == "Range" || name == "Load" || name == "Lock" || name == "Unlock":
					if f, ok := c.Fun.(*ast.SelectorExpr); ok {
						name = exprStr(w.fset, f.X) + "." + name
					}
				}
				out = append(out, name)
			}
			return true
		})
	}
	return out
}

func (w *srvWalker) emit(depth int, kind string, nodes ...ast.Node) (int, string) {
	label := strconv.Itoa(depth) + " " + kind + ":" + strings.Join(w.callees(nodes...), ",")
	w.steps = append(w.steps, label)
	return len(w.steps) - 1, label
}

func (w *srvWalker) point(k int, label string) ast.Stmt {
	return &ast.ExprStmt{X: &ast.CallExpr{
		Fun: ast.NewIdent("verifSrvPoint"),
		Args: []ast.Expr{
			&ast.BasicLit{Kind: token.STRING, Value: strconv.Quote(w.fn)},
			&ast.BasicLit{Kind: token.INT, Value: strconv.Itoa(k)},
			&ast.BasicLit{Kind: token.STRING, Value: strconv.Quote(label)},
		}}}
}

func nodesOf(xs ...interface{}) []ast.Node {
	var out []ast.Node
	for _, x := range xs {
		switch v := x.(type) {
		case ast.Stmt:
			if v != nil {
				out = append(out, v)
			}
		case ast.Expr:
			if v != nil {
				out = append(out, v)
			}
		case []ast.Expr:
			for _, e := range v {
				out = append(out, e)
			}
		}
	}
	return out
}

// funcLits in the header of a statement, in source order
func headerFuncLits(nodes ...ast.Node) []*ast.FuncLit {
	var out []*ast.FuncLit
	for _, n := range nodes {
		if n == nil {
			continue
		}
		ast.Inspect(n, func(x ast.Node) bool {
			switch c := x.(type) {
			case *ast.BlockStmt:
				return false
			case *ast.FuncLit:
				out = append(out, c)
				return false
			}
			return true
		})
	}
	return out
}

func (w *srvWalker) block(depth int, list []ast.Stmt) []ast.Stmt {
	var out []ast.Stmt
	for _, st := range list {
		k, label, ok := w.stmt(depth, st)
		if ok && w.instr {
			out = append(out, w.point(k, label))
		}
		out = append(out, st)
	}
	return out
}

// stmt emits the step(s) of one statement and walks into its nested blocks; returns the step index
// and label of the statement itself (ok=false when nothing can be inserted in front of it)
func (w *srvWalker) stmt(depth int, st ast.Stmt) (k int, label string, ok bool) {
	ok = true
	lits := func(nodes ...ast.Node) {
		for _, fl := range headerFuncLits(nodes...) {
			fl.Body.List = w.block(depth+1, fl.Body.List)
		}
	}
	switch s := st.(type) {
	case *ast.AssignStmt:
		ns := nodesOf(s.Rhs)
		k, label = w.emit(depth, "assign", ns...)
		lits(ns...)
	case *ast.ExprStmt:
		k, label = w.emit(depth, "expr", s.X)
		lits(s.X)
	case *ast.DeclStmt:
		k, label = w.emit(depth, "decl", s.Decl)
		lits(s.Decl)
	case *ast.IncDecStmt:
		k, label = w.emit(depth, "incdec")
	case *ast.SendStmt:
		k, label = w.emit(depth, "send", s.Value)
	case *ast.ReturnStmt:
		ns := nodesOf(s.Results)
		k, label = w.emit(depth, "return", ns...)
		lits(ns...)
	case *ast.BranchStmt:
		k, label = w.emit(depth, strings.ToLower(s.Tok.String()))
	case *ast.GoStmt:
		k, label = w.emit(depth, "go", s.Call)
		lits(s.Call)
	case *ast.DeferStmt:
		k, label = w.emit(depth, "defer", s.Call)
		lits(s.Call)
	case *ast.IfStmt:
		var ns []ast.Node
		if s.Init != nil {
			ns = append(ns, s.Init)
		}
		ns = append(ns, s.Cond)
		k, label = w.emit(depth, "if", ns...)
		lits(ns...)
		s.Body.List = w.block(depth+1, s.Body.List)
		switch e := s.Else.(type) {
		case *ast.BlockStmt:
			w.emit(depth, "else")
			e.List = w.block(depth+1, e.List)
		case *ast.IfStmt:
			w.emit(depth, "else")
			w.stmt(depth, e)
		}
	case *ast.ForStmt:
		var ns []ast.Node
		if s.Init != nil {
			ns = append(ns, s.Init)
		}
		if s.Cond != nil {
			ns = append(ns, s.Cond)
		}
		if s.Post != nil {
			ns = append(ns, s.Post)
		}
		k, label = w.emit(depth, "for", ns...)
		s.Body.List = w.block(depth+1, s.Body.List)
	case *ast.RangeStmt:
		k, label = w.emit(depth, "range", s.X)
		s.Body.List = w.block(depth+1, s.Body.List)
	case *ast.SelectStmt:
		k, label = w.emit(depth, "select")
		for _, c := range s.Body.List {
			cc := c.(*ast.CommClause)
			if cc.Comm != nil {
				w.emit(depth, "case", cc.Comm)
			} else {
				w.emit(depth, "default")
			}
			cc.Body = w.block(depth+1, cc.Body)
		}
	case *ast.SwitchStmt:
		var ns []ast.Node
		if s.Init != nil {
			ns = append(ns, s.Init)
		}
		if s.Tag != nil {
			ns = append(ns, s.Tag)
		}
		k, label = w.emit(depth, "switch", ns...)
		for _, c := range s.Body.List {
			cc := c.(*ast.CaseClause)
			w.emit(depth, "case", nodesOf(cc.List)...)
			cc.Body = w.block(depth+1, cc.Body)
		}
	case *ast.TypeSwitchStmt:
		k, label = w.emit(depth, "typeswitch")
		for _, c := range s.Body.List {
			cc := c.(*ast.CaseClause)
			w.emit(depth, "case")
			cc.Body = w.block(depth+1, cc.Body)
		}
	case *ast.LabeledStmt:
		k, label = w.emit(depth, "label")
		w.stmt(depth, s.Stmt)
	case *ast.BlockStmt:
		k, label = w.emit(depth, "block")
		s.List = w.block(depth+1, s.List)
	case *ast.EmptyStmt:
		ok = false
	default:
		k, label = w.emit(depth, "other")
	}
	return
}


// serverFacts walks package netpoll; returns name -> steps. When instrDir != "" instrumented copies
// of the defining files are written there (same base names).
func serverFacts(p *packages.Package, instrDir string) (map[string][]string, error) {
	res := map[string][]string{}
	for _, f := range p.Syntax {
		touched := false
		for _, d := range f.Decls {
			fd, ok := d.(*ast.FuncDecl)
			if !ok || fd.Body == nil || !srvRecv[recvName(fd)] {
				continue
			}
			name := recvName(fd) + "." + fd.Name.Name
			w := &srvWalker{fset: p.Fset, info: p.TypesInfo, fn: name, instr: instrDir != ""}
			fd.Body.List = w.block(0, fd.Body.List)
			res[name] = w.steps
			touched = true
		}
		if touched && instrDir != "" {
			fname := p.Fset.Position(f.Pos()).Filename
			src, err := os.ReadFile(fname)
			if err != nil {
				return nil, err
			}
			var head []string
			for _, l := range strings.Split(string(src), "\n") {
				if strings.HasPrefix(l, "package ") {
					break
				}
				if strings.HasPrefix(l, "//go:build") || strings.HasPrefix(l, "// +build") {
					head = append(head, l)
				}
			}
			f.Comments = nil
			f.Doc = nil
			ast.Inspect(f, func(n ast.Node) bool { // comments lose their positions in the rewritten tree: drop them all
				switch x := n.(type) {
				case *ast.GenDecl:
					x.Doc = nil
				case *ast.FuncDecl:
					x.Doc = nil
				case *ast.Field:
					x.Doc, x.Comment = nil, nil
				case *ast.ValueSpec:
					x.Doc, x.Comment = nil, nil
				case *ast.TypeSpec:
					x.Doc, x.Comment = nil, nil
				case *ast.ImportSpec:
					x.Doc, x.Comment = nil, nil
				}
				return true
			})
			var b bytes.Buffer
			b.WriteString("// GENERATED instrumented copy of " + filepath.Base(fname) + " (tools/extract -instr); overlaid at harness build time only.\n")
			if len(head) > 0 {
				b.WriteString(strings.Join(head, "\n") + "\n\n")
			}
			if err := (&printer.Config{Mode: printer.UseSpaces | printer.TabIndent, Tabwidth: 8}).Fprint(&b, token.NewFileSet(), f); err != nil {
				return nil, err
			}
			if err := os.WriteFile(filepath.Join(instrDir, filepath.Base(fname)), b.Bytes(), 0o644); err != nil {
				return nil, err
			}
		}
	}
	for _, n := range srvAlways {
		if _, ok := res[n]; !ok {
			res[n] = []string{}
		}
	}
	return res, nil
}


// RetryFact: the EMFILE back-off loop of server.OnRead (model: lean/Netpoll/ServerRetry.lean) - the delay
// table (constant elements of the slice literal), the guard in front of the index increment, and every index
// expression into the table, as source text.  Empty when the function has no such loop.
type RetryFact struct {
	Table   []string `json:"table"`
	Guard   string   `json:"guard"`
	Indexed []string `json:"indexed"`
	// every way out of the back-off goroutine's loop, in source order: "for <cond>" (the loop header; empty cond =
	// `for {`), then one entry per return / break / goto / panic inside the goroutine's function literal:
	// "<kind> if <enclosing conditions joined by &&> after <statement in front of it in the same block>"
	Exits []string `json:"exits"`
}

// retryExits lists the ways out of the goroutine started by OnRead (the first `go func() {…}()` of the function):
// the model (Netpoll.Server.Retry.iter) lets the goroutine end only after accept returned (nil, nil) and the
// listener was registered again; any other return / break / goto / panic, or a loop condition, is a path on which
// the listener stays detached with nobody retrying.
func retryExits(p *packages.Package, body *ast.BlockStmt) []string {
	var lit *ast.FuncLit
	ast.Inspect(body, func(n ast.Node) bool {
		if g, ok := n.(*ast.GoStmt); ok && lit == nil {
			if fl, ok := g.Call.Fun.(*ast.FuncLit); ok {
				lit = fl
			}
		}
		return lit == nil
	})
	if lit == nil {
		return nil
	}
	var out []string
	caseText := func(l []ast.Expr) string {
		if len(l) == 0 {
			return "default"
		}
		xs := make([]string, len(l))
		for i, e := range l {
			xs[i] = exprStr(p.Fset, e)
		}
		return strings.Join(xs, ",")
	}
	var walk func(list []ast.Stmt, conds []string, loops int)
	var stmt func(s ast.Stmt, prev ast.Stmt, conds []string, loops int)
	add := func(kind string, prev ast.Stmt, conds []string) {
		c := strings.Join(conds, " && ")
		before := "-"
		if prev != nil {
			before = exprStr(p.Fset, prev)
		}
		out = append(out, kind+" if "+c+" after "+before)
	}
	stmt = func(s ast.Stmt, prev ast.Stmt, conds []string, loops int) {
		switch x := s.(type) {
		case *ast.ReturnStmt:
			add("return", prev, conds)
		case *ast.BranchStmt:
			// a break that leaves the retry loop itself (unlabelled directly inside it, or labelled), or a goto
			if x.Tok == token.GOTO || (x.Tok == token.BREAK && (loops <= 1 || x.Label != nil)) {
				add(x.Tok.String(), prev, conds)
			}
		case *ast.ExprStmt:
			if c, ok := x.X.(*ast.CallExpr); ok {
				if id, ok := c.Fun.(*ast.Ident); ok && id.Name == "panic" {
					add("panic", prev, conds)
				}
			}
		case *ast.BlockStmt:
			walk(x.List, conds, loops)
		case *ast.LabeledStmt:
			stmt(x.Stmt, prev, conds, loops)
		case *ast.IfStmt:
			c := exprStr(p.Fset, x.Cond)
			walk(x.Body.List, append(append([]string(nil), conds...), c), loops)
			if x.Else != nil {
				stmt(x.Else, nil, append(append([]string(nil), conds...), "!("+c+")"), loops)
			}
		case *ast.ForStmt:
			c := ""
			if x.Cond != nil {
				c = exprStr(p.Fset, x.Cond)
			}
			out = append(out, strings.TrimSpace("for "+c))
			walk(x.Body.List, conds, loops+1)
		case *ast.RangeStmt:
			out = append(out, "for range "+exprStr(p.Fset, x.X))
			walk(x.Body.List, conds, loops+1)
		case *ast.SwitchStmt:
			for _, cc := range x.Body.List {
				cl := cc.(*ast.CaseClause)
				walk(cl.Body, append(append([]string(nil), conds...), "case "+caseText(cl.List)), loops+1)
			}
		case *ast.TypeSwitchStmt:
			for _, cc := range x.Body.List {
				cl := cc.(*ast.CaseClause)
				walk(cl.Body, append(append([]string(nil), conds...), "case "+caseText(cl.List)), loops+1)
			}
		case *ast.SelectStmt:
			for _, cc := range x.Body.List {
				cl := cc.(*ast.CommClause)
				walk(cl.Body, append(append([]string(nil), conds...), "select-case"), loops+1)
			}
		}
	}
	walk = func(list []ast.Stmt, conds []string, loops int) {
		var prev ast.Stmt
		for _, s := range list {
			stmt(s, prev, conds, loops)
			prev = s
		}
	}
	walk(lit.Body.List, nil, 0)
	return out
}

func retryFacts(p *packages.Package) RetryFact {
	var rf RetryFact
	for _, f := range p.Syntax {
		for _, d := range f.Decls {
			fd, ok := d.(*ast.FuncDecl)
			if !ok || fd.Body == nil || recvName(fd) != "server" || fd.Name.Name != "OnRead" {
				continue
			}
			rf.Exits = retryExits(p, fd.Body)
			var table types.Object
			ast.Inspect(fd.Body, func(n ast.Node) bool {
				switch x := n.(type) {
				case *ast.AssignStmt:
					// <table> := []T{c0, c1, ...} with constant elements
					if table != nil || len(x.Lhs) != 1 || len(x.Rhs) != 1 {
						return true
					}
					cl, ok := x.Rhs[0].(*ast.CompositeLit)
					id, ok2 := x.Lhs[0].(*ast.Ident)
					if !ok || !ok2 || len(cl.Elts) == 0 {
						return true
					}
					if _, isSlice := p.TypesInfo.TypeOf(cl).Underlying().(*types.Slice); !isSlice {
						return true
					}
					var vals []string
					for _, e := range cl.Elts {
						tv, ok := p.TypesInfo.Types[e]
						if !ok || tv.Value == nil {
							return true
						}
						vals = append(vals, tv.Value.ExactString())
					}
					rf.Table = vals
					table = p.TypesInfo.ObjectOf(id)
				case *ast.IfStmt:
					// if <guard> { <index>++ }
					if len(x.Body.List) == 1 && x.Else == nil && x.Init == nil {
						if inc, ok := x.Body.List[0].(*ast.IncDecStmt); ok && inc.Tok == token.INC && rf.Guard == "" {
							rf.Guard = exprStr(p.Fset, x.Cond)
						}
					}
				case *ast.IndexExpr:
					if id, ok := x.X.(*ast.Ident); ok && table != nil && p.TypesInfo.ObjectOf(id) == table {
						rf.Indexed = append(rf.Indexed, exprStr(p.Fset, x))
					}
				}
				return true
			})
		}
	}
	return rf
}

func writeServerLean(out string, steps map[string][]string, rf RetryFact) error {
	var b strings.Builder
	b.WriteString("/- GENERATED by /verif/tools/extract from /repo on every check run.  Do not edit.\n")
	b.WriteString("   Ordered statement lists (\"<depth> <kind>:<callees>\") of the server / event-loop methods. -/\n")
	b.WriteString("namespace Netpoll.Gen.Server\n\n")
	names := make([]string, 0, len(steps))
	for n := range steps {
		names = append(names, n)
	}
	sort.Strings(names)
	for _, n := range names {
		fmt.Fprintf(&b, "def %s : List String := [", leanName(n))
		for i, s := range steps[n] {
			if i > 0 {
				b.WriteString(",")
			}
			b.WriteString("\n  " + leanStr(s))
		}
		b.WriteString("]\n\n")
	}
	b.WriteString("/-- EMFILE back-off loop of server.OnRead: delay table, guard of the index increment, index expressions -/\n")
	fmt.Fprintf(&b, "def server_OnRead_retryTable : List Nat := [%s]\n", strings.Join(natOnly(rf.Table), ", "))
	fmt.Fprintf(&b, "def server_OnRead_retryGuard : String := %s\n", leanStr(rf.Guard))
	qs := make([]string, len(rf.Indexed))
	for i, x := range rf.Indexed {
		qs[i] = leanStr(x)
	}
	fmt.Fprintf(&b, "def server_OnRead_retryIndexed : List String := [%s]\n", strings.Join(qs, ", "))
	es := make([]string, len(rf.Exits))
	for i, x := range rf.Exits {
		es[i] = leanStr(x)
	}
	b.WriteString("/-- every way out of the back-off goroutine: loop header, then return / break / goto / panic with the enclosing conditions -/\n")
	fmt.Fprintf(&b, "def server_OnRead_retryExits : List String := [%s]\n\n", strings.Join(es, ",\n  "))
	b.WriteString("end Netpoll.Gen.Server\n")
	return os.WriteFile(filepath.Join(out, "Server.lean"), []byte(b.String()), 0o644)
}

// natOnly keeps the entries that are natural-number literals (anything else would not be a `Nat` in Lean; a table
// with such an entry then differs in length from the expected one and the tie lemma fails)
func natOnly(xs []string) []string {
	var out []string
	for _, x := range xs {
		if _, err := strconv.ParseUint(x, 10, 64); err == nil {
			out = append(out, x)
		}
	}
	return out
}
