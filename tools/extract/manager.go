// manager.go: who enters the poller pool, and from where (property C18; second half of Gen/Manager.lean).
//
// The interleaving model (lean/Netpoll/Manager.lean) creates a goroutine inside `manager.Run` in exactly two places: the
// step `Act.cas` (Pick won `CompareAndSwapInt32(&m.status, managerUninitialized, managerInitializing)`, so at most one
// goroutine is inside Run at a time) and the sequential `resetSeq` (manager.Reset on a quiescent manager).  Its
// environment alphabet is spawn (= a call of Pick), SetNumLoops, SetLoadBalance.  Both are facts about the source:
//
//   mgr_method_uses : every selection of a method of type manager in package netpoll (linux build, no tests), in source
//                     order: (file, enclosing function, method, form); form = call | go | defer | value (method value
//                     that is not called on the spot);
//   mgr_run_sites   : the `.Run` selections among them: (enclosing function, form, guarded); guarded = the site is
//                     dominated by a successful CAS(&X.status, managerUninitialized, managerInitializing) on the same
//                     receiver expression X inside the enclosing function: in the then-branch of `if CAS`, in the
//                     else-branch of `if !CAS`, or behind an `if !CAS { ...; goto/return/continue/break/panic }` of the
//                     same block with no label in between (a function literal, go and defer leave the guarded region);
//   mgr_global_uses : every use of a package-level variable of type *manager / manager (the global `pollmanager`):
//                     (file, enclosing function, use); use = "call <Method>" when a method is called on it on the spot,
//                     "init <expr>" for the initialiser of its declaration, else "other <enclosing expression>".
package main

import (
	"fmt"
	"go/ast"
	"go/token"
	"go/types"
	"path/filepath"
	"sort"
	"strings"

	"golang.org/x/tools/go/packages"

	"verifextract/syncops"
)

type mgrUse struct {
	file, fn, method, form string
	guarded                bool
	pos                    token.Pos
}

type mgrGlobalUse struct {
	file, fn, use string
	pos           token.Pos
}

// isManagerType: t is `manager` or `*manager` of the package under analysis
func isManagerType(t types.Type) bool {
	if p, ok := t.(*types.Pointer); ok {
		t = p.Elem()
	}
	n, ok := t.(*types.Named)
	return ok && n.Obj().Name() == "manager" && n.Obj().Pkg() != nil && n.Obj().Pkg().Name() == "netpoll"
}

// managerMethod: sel selects a method whose receiver is (a pointer to) manager; returns its name
func managerMethod(info *types.Info, sel *ast.SelectorExpr) (string, bool) {
	s, ok := info.Selections[sel]
	if !ok || (s.Kind() != types.MethodVal && s.Kind() != types.MethodExpr) {
		return "", false
	}
	fn, ok := s.Obj().(*types.Func)
	if !ok {
		return "", false
	}
	sig, _ := fn.Type().(*types.Signature)
	if sig == nil || sig.Recv() == nil || !isManagerType(sig.Recv().Type()) {
		return "", false
	}
	return fn.Name(), true
}

func nodeChildren(n ast.Node) []ast.Node {
	var out []ast.Node
	first := true
	ast.Inspect(n, func(c ast.Node) bool {
		if c == nil {
			return false
		}
		if first {
			first = false
			return true
		}
		out = append(out, c)
		return false
	})
	return out
}

// initCAS: e is atomic.CompareAndSwapInt32(&X.status, managerUninitialized, managerInitializing); returns X as text
func initCAS(fset *token.FileSet, info *types.Info, e ast.Expr) (string, bool) {
	for {
		p, ok := e.(*ast.ParenExpr)
		if !ok {
			break
		}
		e = p.X
	}
	call, ok := e.(*ast.CallExpr)
	if !ok || len(call.Args) != 3 {
		return "", false
	}
	sel, ok := call.Fun.(*ast.SelectorExpr)
	if !ok || sel.Sel.Name != "CompareAndSwapInt32" {
		return "", false
	}
	id, ok := sel.X.(*ast.Ident)
	if !ok {
		return "", false
	}
	if pn, ok := info.Uses[id].(*types.PkgName); !ok || pn.Imported().Path() != "sync/atomic" {
		return "", false
	}
	u, ok := call.Args[0].(*ast.UnaryExpr)
	if !ok || u.Op != token.AND {
		return "", false
	}
	fs, ok := u.X.(*ast.SelectorExpr)
	if !ok || fs.Sel.Name != "status" {
		return "", false
	}
	if s, ok := info.Selections[fs]; !ok || s.Kind() != types.FieldVal || !isManagerType(s.Recv()) {
		return "", false
	}
	if exprStr(fset, call.Args[1]) != "managerUninitialized" || exprStr(fset, call.Args[2]) != "managerInitializing" {
		return "", false
	}
	return exprStr(fset, fs.X), true
}

// casCond classifies an if-condition: (+1, X) for CAS, (-1, X) for !CAS, (0, "") otherwise
func casCond(fset *token.FileSet, info *types.Info, e ast.Expr) (int, string) {
	for {
		p, ok := e.(*ast.ParenExpr)
		if !ok {
			break
		}
		e = p.X
	}
	if u, ok := e.(*ast.UnaryExpr); ok && u.Op == token.NOT {
		if x, ok := initCAS(fset, info, u.X); ok {
			return -1, x
		}
		return 0, ""
	}
	if x, ok := initCAS(fset, info, e); ok {
		return 1, x
	}
	return 0, ""
}

// leaves: the block never falls through to the statement after it (last statement transfers control elsewhere)
func leaves(b *ast.BlockStmt) bool {
	if b == nil || len(b.List) == 0 {
		return false
	}
	switch x := b.List[len(b.List)-1].(type) {
	case *ast.ReturnStmt:
		return true
	case *ast.BranchStmt:
		return x.Tok == token.GOTO || x.Tok == token.CONTINUE || x.Tok == token.BREAK
	case *ast.ExprStmt:
		if c, ok := x.X.(*ast.CallExpr); ok {
			if id, ok := c.Fun.(*ast.Ident); ok && id.Name == "panic" {
				return true
			}
		}
	}
	return false
}

type mgrWalker struct {
	p      *packages.Package
	file   string
	fn     string
	uses   []mgrUse
	called map[*ast.SelectorExpr]string // selector that is the Fun of a call -> call | go | defer
}

// visit n; guards = receiver expressions X for which a successful init-CAS dominates n
func (w *mgrWalker) visit(n ast.Node, guards map[string]bool) {
	switch x := n.(type) {
	case *ast.BlockStmt:
		w.stmts(x.List, guards)
		return
	case *ast.CaseClause:
		for _, e := range x.List {
			w.visit(e, guards)
		}
		w.stmts(x.Body, guards)
		return
	case *ast.CommClause:
		if x.Comm != nil {
			w.visit(x.Comm, guards)
		}
		w.stmts(x.Body, guards)
		return
	case *ast.FuncLit:
		w.visit(x.Body, map[string]bool{})
		return
	case *ast.GoStmt:
		w.visit(x.Call, map[string]bool{})
		return
	case *ast.DeferStmt:
		w.visit(x.Call, map[string]bool{})
		return
	case *ast.IfStmt:
		if x.Init != nil {
			w.visit(x.Init, guards)
		}
		w.visit(x.Cond, guards)
		k, recv := casCond(w.p.Fset, w.p.TypesInfo, x.Cond)
		with := func(on bool) map[string]bool {
			if !on {
				return guards
			}
			g := map[string]bool{recv: true}
			for r := range guards {
				g[r] = true
			}
			return g
		}
		w.visit(x.Body, with(k > 0))
		if x.Else != nil {
			w.visit(x.Else, with(k < 0))
		}
		return
	case *ast.SelectorExpr:
		if m, ok := managerMethod(w.p.TypesInfo, x); ok {
			form := w.called[x]
			if form == "" {
				form = "value"
			}
			w.uses = append(w.uses, mgrUse{file: w.file, fn: w.fn, method: m, form: form,
				guarded: form == "call" && guards[exprStr(w.p.Fset, x.X)], pos: x.Pos()})
		}
	}
	for _, c := range nodeChildren(n) {
		w.visit(c, guards)
	}
}

func (w *mgrWalker) stmts(list []ast.Stmt, guards map[string]bool) {
	cur := guards
	for _, s := range list {
		if _, ok := s.(*ast.LabeledStmt); ok {
			cur = guards // a goto may arrive here without having passed the guard
		}
		w.visit(s, cur)
		if ifs, ok := s.(*ast.IfStmt); ok && ifs.Else == nil {
			if k, recv := casCond(w.p.Fset, w.p.TypesInfo, ifs.Cond); k < 0 && leaves(ifs.Body) {
				g := map[string]bool{recv: true}
				for r := range cur {
					g[r] = true
				}
				cur = g
			}
		}
	}
}

func mgrCallFacts(p *packages.Package) (uses []mgrUse, globals []mgrGlobalUse) {
	info := p.TypesInfo
	isGlobal := func(o types.Object) bool {
		v, ok := o.(*types.Var)
		return ok && !v.IsField() && v.Parent() == p.Types.Scope() && isManagerType(v.Type())
	}
	for _, f := range p.Syntax {
		file := filepath.Base(p.Fset.Position(f.Pos()).Filename)
		for _, d := range f.Decls {
			switch d := d.(type) {
			case *ast.GenDecl:
				if d.Tok != token.VAR {
					continue
				}
				for _, s := range d.Specs {
					vs := s.(*ast.ValueSpec)
					for i, n := range vs.Names {
						if !isGlobal(info.Defs[n]) {
							continue
						}
						use := "init <zero value>"
						if i < len(vs.Values) {
							use = "init " + exprStr(p.Fset, vs.Values[i])
						} else if len(vs.Values) > 0 {
							use = "init " + exprStr(p.Fset, vs.Values[0])
						}
						globals = append(globals, mgrGlobalUse{file, "<package>", n.Name + " " + use, n.Pos()})
					}
					// a package-level initialiser may itself call methods of a manager
					for _, v := range vs.Values {
						w := &mgrWalker{p: p, file: file, fn: "<package>", called: map[*ast.SelectorExpr]string{}}
						markCalls(v, w.called)
						w.visit(v, map[string]bool{})
						uses = append(uses, w.uses...)
						globals = append(globals, globalUsesIn(p, v, file, "<package>", isGlobal)...)
					}
				}
			case *ast.FuncDecl:
				if d.Body == nil {
					continue
				}
				w := &mgrWalker{p: p, file: file, fn: syncops.FuncName(d), called: map[*ast.SelectorExpr]string{}}
				markCalls(d.Body, w.called)
				w.visit(d.Body, map[string]bool{})
				uses = append(uses, w.uses...)
				globals = append(globals, globalUsesIn(p, d.Body, file, w.fn, isGlobal)...)
			}
		}
	}
	sort.SliceStable(uses, func(i, j int) bool {
		if uses[i].file != uses[j].file {
			return uses[i].file < uses[j].file
		}
		return uses[i].pos < uses[j].pos
	})
	sort.SliceStable(globals, func(i, j int) bool {
		if globals[i].file != globals[j].file {
			return globals[i].file < globals[j].file
		}
		return globals[i].pos < globals[j].pos
	})
	return
}

// markCalls: for every call whose Fun is a selector, how it is called (call | go | defer)
func markCalls(root ast.Node, called map[*ast.SelectorExpr]string) {
	ast.Inspect(root, func(n ast.Node) bool {
		mark := func(c *ast.CallExpr, form string) {
			fun := c.Fun
			for {
				p, ok := fun.(*ast.ParenExpr)
				if !ok {
					break
				}
				fun = p.X
			}
			if sel, ok := fun.(*ast.SelectorExpr); ok {
				if form != "call" || called[sel] == "" {
					called[sel] = form
				}
			}
		}
		switch x := n.(type) {
		case *ast.GoStmt:
			mark(x.Call, "go")
		case *ast.DeferStmt:
			mark(x.Call, "defer")
		case *ast.CallExpr:
			mark(x, "call")
		}
		return true
	})
}

// globalUsesIn: uses of a package-level manager variable below root, with what is done to it
func globalUsesIn(p *packages.Package, root ast.Node, file, fn string, isGlobal func(types.Object) bool) (out []mgrGlobalUse) {
	info := p.TypesInfo
	var stack []ast.Node
	ast.Inspect(root, func(n ast.Node) bool {
		if n == nil {
			stack = stack[:len(stack)-1]
			return false
		}
		stack = append(stack, n)
		id, ok := n.(*ast.Ident)
		if !ok || !isGlobal(info.Uses[id]) {
			return true
		}
		use := ""
		if len(stack) >= 3 {
			if sel, ok := stack[len(stack)-2].(*ast.SelectorExpr); ok && sel.X == id {
				if m, ok := managerMethod(info, sel); ok {
					if c, ok := stack[len(stack)-3].(*ast.CallExpr); ok && c.Fun == sel {
						use = "call " + m
						if len(stack) >= 4 {
							switch stack[len(stack)-4].(type) {
							case *ast.GoStmt:
								use = "go " + m
							case *ast.DeferStmt:
								use = "defer " + m
							}
						}
					}
				}
			}
		}
		if use == "" {
			// the innermost enclosing statement (or the largest expression if there is none) says what happens to it
			var ctx ast.Node = id
			for i := len(stack) - 2; i >= 0; i-- {
				ctx = stack[i]
				if _, ok := stack[i].(ast.Stmt); ok {
					break
				}
			}
			if _, ok := ctx.(*ast.BlockStmt); ok {
				ctx = id
			}
			use = "other " + exprStr(p.Fset, ctx)
		}
		out = append(out, mgrGlobalUse{file, fn, id.Name + " " + use, id.Pos()})
		return true
	})
	return
}

func mgrCallLean(p *packages.Package) string {
	uses, globals := mgrCallFacts(p)
	var b strings.Builder
	b.WriteString("/-- every selection of a method of `manager` in package netpoll (linux build, no tests), in source order:\n" +
		"    (file, enclosing function, method, form); form = call | go | defer | value -/\n")
	b.WriteString("def mgr_method_uses : List (String × String × String × String) := [")
	for i, u := range uses {
		if i > 0 {
			b.WriteString(",")
		}
		fmt.Fprintf(&b, "\n  (%s, %s, %s, %s)", fdLeanStr(u.file), fdLeanStr(u.fn), fdLeanStr(u.method), fdLeanStr(u.form))
	}
	b.WriteString("]\n\n/-- the `.Run` selections among them: (enclosing function, form, guarded); guarded = dominated, inside the enclosing\n" +
		"    function, by a successful `atomic.CompareAndSwapInt32(&X.status, managerUninitialized, managerInitializing)` on the\n" +
		"    same receiver expression X (then-branch of `if CAS`, else-branch of `if !CAS`, or behind an `if !CAS {…; exit}`) -/\n")
	b.WriteString("def mgr_run_sites : List (String × String × Bool) := [")
	first := true
	for _, u := range uses {
		if u.method != "Run" {
			continue
		}
		if !first {
			b.WriteString(",")
		}
		first = false
		fmt.Fprintf(&b, "\n  (%s, %s, %v)", fdLeanStr(u.fn), fdLeanStr(u.form), u.guarded)
	}
	b.WriteString("]\n\n/-- every use of a package-level variable of type `*manager`: (file, enclosing function, variable and use);\n" +
		"    use = \"call <Method>\" | \"go <Method>\" | \"defer <Method>\" | \"init <expr>\" | \"other <enclosing statement>\" -/\n")
	b.WriteString("def mgr_global_uses : List (String × String × String) := [")
	for i, g := range globals {
		if i > 0 {
			b.WriteString(",")
		}
		fmt.Fprintf(&b, "\n  (%s, %s, %s)", fdLeanStr(g.file), fdLeanStr(g.fn), fdLeanStr(g.use))
	}
	b.WriteString("]\n\n")
	return b.String()
}
