"""Record the fingerprints of the functions Netpoll.Conn.Read / Netpoll.Conn.Flush, their drivers and the harness transcription
mirror (run by hand after the models have been re-validated against a changed function; never run by a check).
A changed fingerprint only escalates the search."""
import json, os, sys
sys.path.insert(0, os.path.dirname(os.path.abspath(__file__)))
import common, rfrun
ok, o = common.regen()
assert ok, o
f = common.facts()['funcs']
missing = [n for n in rfrun.MIRRORED if n not in f]
json.dump({n: f[n]['hash'] for n in rfrun.MIRRORED if n in f}, open(os.path.join(common.VERIF, 'lib/expected_fp_rf.json'), 'w'), indent=0, sort_keys=True)
print('recorded', len(rfrun.MIRRORED) - len(missing), 'missing:', missing)
