"""merge helper: resolve conflict hunks keeping ours / theirs / both."""
import re, sys
def resolve(path, mode):
    s = open(path).read()
    pat = re.compile(r'<<<<<<< [^\n]*\n(.*?)=======\n(.*?)>>>>>>> [^\n]*\n', re.S)
    def rep(m):
        a, b = m.group(1), m.group(2)
        return {'ours': a, 'theirs': b, 'both': a + b}[mode]
    open(path, 'w').write(pat.sub(rep, s))
for arg in sys.argv[1:]:
    path, mode = arg.split(':')
    resolve(path, mode)
