"""Record the fingerprints of the functions the hand-written models mirror (run by hand after the
model has been re-validated against a changed function; never run by a check)."""
import json, os, sys
sys.path.insert(0, os.path.dirname(os.path.abspath(__file__)))
import common
ok, o = common.regen()
assert ok, o
f = common.facts()['funcs']
json.dump({k: v['hash'] for k, v in sorted(f.items())}, open(os.path.join(common.VERIF, 'lib/expected_fp.json'), 'w'), indent=0, sort_keys=True)
print(len(f), 'fingerprints recorded')
