"""C17 runner: instrumented ShardQueue under the controlled scheduler (go/cmd/shardh) -> trace ->
`npdriver shard` (trace conformance against the Lean model + spec oracle). See checks/c17.py."""
import os, re, subprocess, time
from concurrent.futures import ThreadPoolExecutor
import common

def build():
    """(binary or None, mode, message). mode 'hooks': shard_queue.go replaced by its instrumented copy (schedule
    points at the sites of Gen/Shard.lean); mode 'stress': the source has a shape the instrumenter refuses,
    harness built against the original file (hook-free stress + outcome oracle only)."""
    path, msg = common.instrument_shard()
    if path:
        b, o = common.build_harness('shardh', replacements={'mux/shard_queue.go': path})
        if b:
            return b, 'hooks', ''
        # instrumented copy does not compile: fall through to the plain build, keep the message
        msg = 'instrumented copy does not compile:\n' + o[-1500:]
    b, o = common.build_harness('shardh')
    if b:
        return b, 'stress', msg
    return None, 'none', (msg + '\n' + o[-2000:]).strip()

SUMMARY_RE = re.compile(r'(\w+)=(\S*)')

def run_one(binary, wd, name, flags, nomodel=False, timeout=1500, keep=True, keep_sample=False):
    """one shardh process + one driver process. Returns a dict."""
    os.makedirs(wd, exist_ok=True)
    trace = os.path.join(wd, name + '.trace'); out = os.path.join(wd, name + '.out')
    t0 = time.time()
    cmd = [binary] + flags + ['-o', trace]
    p = subprocess.run(cmd, stdout=subprocess.PIPE, stderr=subprocess.STDOUT, text=True, timeout=timeout)
    res = {'name': name, 'flags': flags, 'trace': trace, 'out': out, 'rc': p.returncode, 'harness_out': p.stdout[-2000:],
           'hsum': {}, 'dsum': {}, 'conf_fail': [], 'spec_fail': [], 'sites': {}}
    for l in p.stdout.split('\n'):
        if l.startswith('summary '):
            res['hsum'] = dict(SUMMARY_RE.findall(l))
    res['t_harness'] = round(time.time() - t0, 2)
    if not os.path.exists(trace):
        return res
    with open(trace, 'rb') as f:     # with -o the harness writes its summary line at the end of the trace
        f.seek(0, 2); f.seek(max(0, f.tell() - 4096))
        for l in f.read().decode('utf-8', 'replace').split('\n'):
            if l.startswith('summary '):
                res['hsum'] = dict(SUMMARY_RE.findall(l))
    t1 = time.time()
    with open(out, 'w') as o:
        d = subprocess.run([common.DRIVER, 'shard', trace] + (['nomodel'] if nomodel else []), stdout=o, stderr=subprocess.PIPE, text=True, timeout=timeout)
    res['drc'] = d.returncode
    res['t_driver'] = round(time.time() - t1, 2)
    for l in open(out):
        if l.startswith('R '):
            if ' conf=ok ' in l and l.rstrip().endswith('spec=ok'):
                continue
            k = int(l.split()[1])
            a, b, c = l.rstrip('\n').split(' ## ')
            if not a.endswith('conf=ok') and not nomodel:
                res['conf_fail'].append((k, a.split('conf=', 1)[1]))
            if not c.endswith('spec=ok'):
                res['spec_fail'].append((k, c.split('spec=', 1)[1]))
        elif l.startswith('SUMMARY '):
            res['dsum'] = dict(SUMMARY_RE.findall(l))
            for kv in res['dsum'].get('sites', '').split(','):
                if ':' in kv:
                    s, n = kv.rsplit(':', 1); res['sites'][s] = int(n)
    res['sample'] = run_lines(trace, 0)[:12] if keep_sample else []
    if not keep and not res['conf_fail'] and not res['spec_fail'] and res['rc'] == 0 and res['dsum']:
        os.remove(trace)      # conforming traces are large (about 6 KB per schedule); failing ones stay for the replay file
    return res

def run_many(binary, wd, jobs, nomodel=False, workers=16):
    """jobs: list of (name, flags)."""
    with ThreadPoolExecutor(max_workers=workers) as ex:
        futs = [ex.submit(run_one, binary, wd, n, f, nomodel, 1500, False, i < 2) for i, (n, f) in enumerate(jobs)]
        return [f.result() for f in futs]

def run_lines(trace, k):
    """the lines of run k of a trace file"""
    out = []; on = False
    for l in open(trace):
        if l.startswith('run '):
            on = l.split()[1] == str(k)
        if on:
            out.append(l.rstrip('\n'))
            if l.startswith('end '):
                break
    return out

def schedule_of(lines):
    return [l.split()[1] for l in lines if l.startswith('s ')]

SCEN_FLAGS = ('-size', '-adders', '-closers', '-idx0', '-nilids', '-apperr', '-flusherr', '-spin')

def scenario_flags(flags):
    """only the flags that define the scenario (not the exploration mode)"""
    out = []; i = 0
    while i < len(flags):
        if flags[i] in SCEN_FLAGS:
            out += flags[i:i + 2]; i += 2
        elif flags[i] == '-die':
            out.append('-die'); i += 1
        else:
            i += 1
    return out

def replay_lines(res, k, why):
    """replay file body for run k of a result: scenario flags + explicit schedule + the trace as comments"""
    lines = run_lines(res['trace'], k)
    sched = schedule_of(lines)
    body = ['flags: ' + ' '.join(scenario_flags(res['flags'])), 'sched: ' + ','.join(sched), '# ' + why, '# trace of the failing run:']
    body += ['# ' + l[:400] for l in lines[:400]]
    return body

def parse_replay(path):
    flags = sched = None
    for l in open(path):
        if l.startswith('flags: '): flags = l[len('flags: '):].split()
        if l.startswith('sched: '): sched = l[len('sched: '):].strip()
    return flags, sched
