"""C02 / C03 runner: lbdiff with the poisoning allocator and the ownership oracle (go/inpkg/lbown.go),
value comparison against the Lean LinkBuffer model and (when available) allocator-event comparison
against the Lean ownership ledger model (`npdriver own`)."""
import os, subprocess, collections
from concurrent.futures import ThreadPoolExecutor
import common, lbtool, owntool

C02_KINDS = ('view-corrupt', 'free-while-view-live', 'content-not-intact', 'impl-crash')
C03_KINDS = ('hang:', 'double-free', 'free-of-unconsumed-data', 'free-while-view-live', 'foreign-free', 'caller-memory-freed', 'caller-memory-written', 'freed-block-in-chain', 'private-copy-in-pool-block', 'impl-crash')
KNOWN_TAG = 'D4-split-block'
HARNESS_TIMEOUT = int(os.environ.get('VERIF_HARNESS_TIMEOUT', '900'))
MODEL_VISIBLE = ('double-free', 'free-while-view-live', 'freed-block-in-chain', 'foreign-free', 'caller-memory-freed')

def have_own_driver():
    p = subprocess.run([common.DRIVER, 'own'], stdin=subprocess.DEVNULL, stdout=subprocess.PIPE, stderr=subprocess.PIPE)
    return p.returncode == 0

def read(p): return open(p).read().split('\n')[:-1]

def run_one(binary, wd, gen_args, timeout=None):
    timeout = timeout or HARNESS_TIMEOUT
    os.makedirs(wd, exist_ok=True)
    f = {n: os.path.join(wd, n) for n in ('ops', 'impl', 'own', 'model', 'spec', 'ledger')}
    # the code under test may crash the process (stack overflow, fatal error) or hang: both are findings, the last
    # sequence on file (the harness flushes per line) is the failing input
    crash = None
    try:
        p = subprocess.run([binary, *gen_args, '-impl-out', f['impl'], '-poison', '-own-out', f['own']], timeout=timeout,
                           stdout=subprocess.DEVNULL, stderr=subprocess.PIPE)
        if p.returncode != 0:
            crash = 'harness process died (exit %d): %s' % (p.returncode, p.stderr.decode(errors='replace')[:300].replace('\n', ' | '))
    except subprocess.TimeoutExpired:
        crash = 'harness process hung (> %d s): the code under test does not return' % timeout
    ops = f['ops'] if '-ops-out' in gen_args else gen_args[gen_args.index('-replay') + 1]
    if crash is not None:
        for n in ('impl', 'own'):
            if not os.path.exists(f[n]): open(f[n], 'w').close()
        lines = read(ops)
        n = min(len(lines), len(read(f['impl'])) + 1)       # the op that did not return is the last one
        lines = lines[:n]
        start = max([i for i, l in enumerate(lines) if l.startswith('seq ')] or [0])
        # judge what completed, then add the crash as a problem of its own
        open(ops + '.done', 'w').write('\n'.join(lines[:max(n - 1, 0)]) + '\n')
        try:
            res = finish_one(ops + '.done', f)
        except Exception:
            res = analyse([], [], [], [], [], None)
        res['problems'].append((lines[start:], n - 1 - start, 'impl-crash', crash))
        return res
    return finish_one(ops, f)

def finish_one(ops, f):
    with open(ops) as i, open(f['model'], 'w') as o:
        subprocess.run([common.DRIVER, 'lb'], stdin=i, stdout=o, check=True, timeout=3600)
    # the valid stream stays inside Contract (./check C01 measures ops_out_of_contract = 0 for it), so the
    # slow spec pass is not repeated here
    open(f['spec'], 'w').write('\n'.join('-' for _ in read(ops)) + '\n')
    ledger = None
    if have_own_driver():
        with open(ops) as i, open(f['ledger'], 'w') as o:
            subprocess.run([common.DRIVER, 'own'], stdin=i, stdout=o, check=True, timeout=3600)
        ledger = read(f['ledger'])
    return analyse(read(ops), read(f['impl']), read(f['own']), read(f['model']), read(f['spec']), ledger)

def analyse(ops, impl, own, model, spec, ledger):
    res = {'seqs': 0, 'lines': len(ops), 'problems': [], 'known': collections.Counter(), 'tainted': 0, 'hist': collections.Counter(),
           'views': 0, 'events': 0, 'finals': set(), 'samples': [], 'ledger_compared': 0}
    cur = None; start = 0; stop = False; nomodel = False; seq_out = False
    n = min(len(ops), len(impl), len(own), len(model), len(spec))
    for i in range(n):
        o = ops[i]
        if o.startswith('seq '):
            cur = [o]; start = i; stop = False; nomodel = False; seq_out = False; res['seqs'] += 1
            continue
        if cur is None: continue
        cur.append(o)
        if stop: continue
        res['hist'][o.split()[0]] += 1
        if spec[i].startswith('X'):      # left the contract (should not happen in the valid stream): nothing is claimed after that
            stop = True; continue
        own_i, _, node_dump = own[i].partition('%%')       # third section: per-node ownership fields (refer, block, origin)
        own[i] = own_i
        ev = own[i].split('!!')[0]
        res['events'] += ev.count(' m') + ev.count(' f')
        probs = [p.strip() for p in own[i].split('!!', 1)[1].split(';')] if '!!' in own[i] else []
        known = [p for p in probs if KNOWN_TAG in p]
        fresh = [p for p in probs if KNOWN_TAG not in p and p]
        for p in fresh:
            res['problems'].append((list(cur), i - start, p.split()[0], 'op=%s | %s' % (o, p)))
        if fresh:
            # the sibling property's check must see this too: the allocator events of this op no longer match the ledger model
            if ledger is not None and i < len(ledger) and not nomodel and not impl[i].startswith('panic'):
                led = ledger[i].partition('%%')[0]
                if led.split('!!')[0].strip() != ev.strip():
                    res['problems'].append((list(cur), i - start, 'ledger-differs', 'op=%s | impl-events=%s | model-events=%s' % (o, ev.strip(), led[:300])))
            stop = True; continue
        if known:
            for p in known: res['known'][p.split()[0]] += 1
            res['tainted'] += 1; stop = True     # memory of this sequence is corrupted by the known finding from here on
            # the ledger model must exhibit the known finding at the same op, with the same events and the same problems
            # (as far as a model without contents can see them)
            if ledger is not None and i < len(ledger) and not impl[i].startswith('panic'):
                led = ledger[i].partition('%%')[0]
                res['cov'] = res.get('cov', collections.Counter()); res['cov'][ledger[i].partition('??')[2].strip() or 'inside-CovV'] += 1
                lp = [p.strip() for p in led.split('!!', 1)[1].split(';')] if '!!' in led else []
                a = [p for p in probs if p.split()[0] in MODEL_VISIBLE]; b = [p for p in lp if p.split()[0] in MODEL_VISIBLE]
                res['ledger_compared'] += 1
                if led.split('!!')[0].strip() != ev.strip() or (a != b and a):
                    res['problems'].append((list(cur), i - start, 'ledger-differs', 'op=%s | impl=%s | model=%s' % (o, own[i][:300], led[:300])))
                else:
                    res['known_on_model'] = res.get('known_on_model', 0) + (1 if a else 0)
            continue
        # content of what a reader returns / of the readable bytes must equal the model's (poisoned frees make a premature free visible)
        # (after a disagreement with a model the implementation-side oracle above keeps judging the rest of the sequence)
        if nomodel: continue
        if impl[i] != model[i]:
            res['problems'].append((list(cur), i - start, 'content-not-intact', 'op=%s | impl=%s | model=%s' % (o, impl[i][:300], model[i][:300])))
            nomodel = True; continue
        if ledger is not None and i < len(ledger) and not impl[i].startswith('panic'):
            res['ledger_compared'] += 1
            led, _, led_dump = ledger[i].partition('%%')
            led_dump, _, cov = led_dump.partition('??')       # is the call inside the hypotheses of the theorems?
            res['cov'] = res.get('cov', collections.Counter()); res['cov'][cov.strip() or 'inside-CovV'] += 1
            if cov.strip() and not seq_out:
                seq_out = True; res['cov']['histories-leaving-CovV'] += 1
            if led.split('!!')[0].strip() != ev.strip() or '!!' in led:
                res['problems'].append((list(cur), i - start, 'ledger-differs', 'op=%s | impl-events=%s | model-events=%s' % (o, ev.strip(), led[:300])))
                nomodel = True; continue
            if led_dump.strip() != node_dump.strip():
                res['problems'].append((list(cur), i - start, 'ledger-differs', 'op=%s | impl-nodes=%s | model-nodes=%s' % (o, node_dump.strip()[:300], led_dump.strip()[:300])))
                nomodel = True; continue
            res['ledger_nodes'] = res.get('ledger_nodes', 0) + led_dump.count('/') // 2
        res['finals'].add(ev.strip() + '|' + impl[i].split(' ## ')[-1][:200])
    for s in lbtool.split_seqs(ops)[:2]:
        res['samples'].append(' ; '.join(s[:25]))
    return res

def run_many(binary, base_wd, seed, shards, seqs, nops, extra=()):
    with ThreadPoolExecutor(max_workers=min(16, shards)) as ex:
        futs = [ex.submit(run_one, binary, os.path.join(base_wd, 'own%d' % i),
                          ['-seed', str(seed * 1000 + i), '-seqs', str(seqs), '-ops', str(nops), '-mode', 'valid',
                           '-ops-out', os.path.join(base_wd, 'own%d' % i, 'ops'), *extra]) for i in range(shards)]
        return [f.result() for f in futs]

def replay_ops(binary, lines, wd):
    os.makedirs(wd, exist_ok=True)
    p = os.path.join(wd, 'replay.ops'); open(p, 'w').write('\n'.join(lines) + '\n')
    return run_one(binary, wd, ['-replay', p], timeout=min(HARNESS_TIMEOUT, 30))     # a single sequence takes milliseconds

def shrink(binary, seq, kind, wd):
    def differs(lines):
        r = replay_ops(binary, lines, wd)
        return any(p[2] == kind for p in r['problems'])
    try:
        if not differs(seq): return seq
        return lbtool.shrink(binary, seq, wd, differs)
    except Exception:
        return seq

def adapter_held_changed(abin, lines, wd):
    """run NewReader-adapter op lines (go/cmd/adapter -replay); first HELD-CHANGED reply or None"""
    os.makedirs(wd, exist_ok=True)
    p = os.path.join(wd, 'replay.ops'); out = os.path.join(wd, 'replay.impl')
    open(p, 'w').write('\n'.join(lines) + '\n')
    subprocess.run([abin, '-replay', p, '-impl-out', out], timeout=120)
    for r in read(out):
        if r.startswith('HELD-CHANGED'): return r
    return None

def check(rep, prop, kinds, modules):
    """shared body of checks/c02.py and checks/c03.py"""
    import glob, shutil, json
    wd = os.path.join(common.WORK, prop); shutil.rmtree(wd, ignore_errors=True); os.makedirs(wd)
    ok, detail = common.proof_stage(rep, modules, ['npdriver'])
    proof_broken = None if ok else detail
    binary, out = common.build_harness('lbdiff')
    if binary is None:
        rep.violation('harness does not build against /repo:\n' + out[-2000:], ['# go build failed'], no_input=True); return
    import checks.c01 as c01
    changed = c01.fingerprint_changes()
    escalate = bool(changed) or proof_broken is not None
    if changed: rep.notes.append('mirrored functions changed (budget escalated): ' + ', '.join(changed[:12]))
    shards, seqs, nops = (16, 5000, 80) if rep.tier == 'thorough' else (8, 500, 60)
    if escalate: seqs *= 3
    problems = []; results = []
    for f in sorted(glob.glob(os.path.join(common.VERIF, 'corpus', prop, '*.ops'))):
        r = replay_ops(binary, [l for l in open(f).read().split('\n') if l and not l.startswith('#')], os.path.join(wd, 'corpus'))
        results.append(r)
    results += run_many(binary, wd, rep.seed, shards, seqs, nops, ['-big'] if rep.tier == 'thorough' else [])
    known = collections.Counter(); hist = collections.Counter(); finals = set(); n = 0; tainted = 0; events = 0; ledger = 0; lnodes = 0; kmodel = 0; covc = collections.Counter()
    for r in results:
        problems += r['problems']; known.update(r['known']); hist.update(r['hist']); finals |= r['finals']
        n += r['seqs']; tainted += r['tainted']; events += r['events']; ledger += r['ledger_compared']; lnodes += r.get('ledger_nodes', 0); kmodel += r.get('known_on_model', 0); covc.update(r.get('cov', {}))
    rep.cov.update(evaluations=n, distinct_nontrivial=len(finals), op_histogram=dict(hist), allocator_events=events,
                   sequences_cut_at_known_finding=tainted, ledger_events_compared=ledger, ledger_node_records_compared=lnodes, known_finding_reproduced_on_model=kmodel, calls_vs_theorem_hypotheses=dict(covc), traces_validated_against_impl=n,
                   samples=results[-1]['samples'],
                   rule='contract-respecting LinkBuffer op sequences (generator of C01) executed on the real code with an allocator that never reuses and poisons freed blocks; '
                        'every zero-copy result is re-compared with its snapshot after every later op until its reader is released; every pool Free is checked (once, pool block, no live view, no chained node, no unconsumed data of a live buffer on it at the moment of the Free); '
                        'caller slices are checksummed; results and node contents are compared with the Lean model. distinct_nontrivial = distinct (event list, final dump) pairs')
    rep.assumptions += ['A-atomic-refer: operations on buffers sharing a refcount interleave as whole operations (single goroutine in the harness)',
                        'contract clause 9: book/bookAck only on buffers never written through the Writer API (the connection input buffer)']
    if prop == 'C02':
        # the same property seen through a connection: zero-copy results of Next/Peek held across later
        # Reader calls (including net.Conn Read) on real sockets must keep their content until Release
        import re
        rbin, o2 = common.build_harness('streamh')
        if rbin:
            nreal = 400 if rep.tier == 'thorough' else 40
            pr = subprocess.run([rbin, '-seed', str(rep.seed), '-n', str(nreal), '-par', '8'], stdout=subprocess.PIPE, stderr=subprocess.STDOUT, text=True, timeout=3600)
            lines = [l for l in pr.stdout.split('\n') if l.startswith('scn ')]
            held = [re.sub(r'ops=map\[[^]]*\]', '', l) for l in lines if 'changed before Release' in l]
            rep.cov['connection_scenarios'] = len(lines)
            for l in held:
                problems.append((['# re-run: go/bin/streamh -seed %d -n %d -only <id>' % (rep.seed, nreal), l], 0, 'view-corrupt', 'on a real connection: ' + l[:400]))
    if prop == 'C02':
        # ... and through the io.Reader adapter (NewReader): its Next/Peek/Until results are zero-copy views of its internal LinkBuffer
        abin, o3 = common.build_harness('adapter')
        if abin:
            awd = os.path.join(wd, 'adapter'); os.makedirs(awd, exist_ok=True)
            aops, aimpl = os.path.join(awd, 'ops'), os.path.join(awd, 'impl')
            nseq = 3000 if rep.tier == 'thorough' else 400
            subprocess.run([abin, '-seed', str(rep.seed), '-seqs', str(nseq), '-ops', '40', '-ops-out', aops, '-impl-out', aimpl], timeout=1800)
            ol, il = open(aops).read().split('\n'), open(aimpl).read().split('\n')
            start = 0; nz = 0
            for i, (o, r) in enumerate(zip(ol, il)):
                if o.startswith('seq '): start = i
                if o.startswith('zr ') and ' new ' in o: nz += 1
                if r.startswith('HELD-CHANGED'):
                    seq = ol[start:i + 1]; hdr = seq[0]
                    try:
                        seq = [hdr] + lbtool.shrink(abin, seq[1:], awd, lambda ls: adapter_held_changed(abin, [hdr] + ls, awd) is not None)
                    except Exception:
                        pass
                    problems.append((['# NewReader adapter sequence (go/cmd/adapter; ./check C02 --replay runs it): every result of Next/Peek/Until is re-compared after every later op until "rel"'] + seq,
                                     0, 'view-corrupt', 'through the NewReader adapter: ' + r[:300]))
                    break
            rep.cov['adapter_reader_sequences'] = nz
    mine = [p for p in problems if p[2] in kinds]
    corr = [p for p in problems if p[2] in ('ledger-differs',)]
    other = [p for p in problems if p[2] not in kinds and p[2] != 'ledger-differs']
    if other: rep.notes.append('%d problem(s) belonging to the sibling property (reported by its own check): %s' % (len(other), other[0][3][:200]))
    if mine:
        seq, idx, kind, detail = mine[0]
        small = seq if seq and seq[0].startswith('#') else shrink(binary, seq[:idx + 1], kind, os.path.join(wd, 'shrink'))
        rep.violation('%s: %d sequences; first (shrunk) is the replay: %s' % (kind, len(mine), detail), small)
    elif corr:
        seq, idx, kind, detail = corr[0]
        rep.violation('correspondence Netpoll.Buf.Owner <-> nocopy_linkbuffer.go (allocator events) no longer checks and the ownership oracle found no failing input in %d sequences: %s' % (n, detail),
                      shrink(binary, seq[:idx + 1], kind, os.path.join(wd, 'shrink')), no_input=True)
    elif proof_broken:
        rep.violation('proof obligation broken, no failing input found in %d sequences: %s' % (n, proof_broken), ['# ' + l for l in proof_broken.split('\n')], no_input=True)
    kf = [k for k in common.known_findings(prop) if k.get('status') == 'finding']
    for k in kf:
        print('KNOWN-FINDING: property=%s %s (seen in %d sequences of this run)' % (prop, k['what'], tainted))

def replay(rep, prop, kinds, path):
    lines = [l for l in open(path).read().split('\n') if l and not l.startswith('#')]
    if any(l.startswith('zr ') for l in lines):
        # a sequence on the NewReader adapter (C02 through the io.Reader adapter)
        abin, out = common.build_harness('adapter')
        r = adapter_held_changed(abin, lines, os.path.join(common.WORK, 'replay_' + prop))
        rep.cov['evaluations'] = 1
        if r:
            print('REPLAY: view-corrupt: ' + r)
            if 'view-corrupt' in kinds: rep.violation('replay reproduces: through the NewReader adapter: ' + r, lines)
        return rep.finish('proof')
    binary, out = common.build_harness('lbdiff'); common.lake_build(['npdriver'])
    r = replay_ops(binary, lines, os.path.join(common.WORK, 'replay_' + prop))
    rep.cov['evaluations'] = r['seqs']
    for p in r['problems']: print('REPLAY: %s: %s' % (p[2], p[3]))
    for k, v in r['known'].items(): print('REPLAY: known finding pattern %s x%d' % (k, v))
    mine = [p for p in r['problems'] if p[2] in kinds]
    if mine: rep.violation('replay reproduces: ' + mine[0][3], lines)
    return rep.finish('proof')
