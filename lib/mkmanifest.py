"""Writes MANIFEST.json from the MANIFEST dict each checks/cNN.py declares (kept valid at all times)."""
import importlib, json, os, sys
V = os.path.dirname(os.path.dirname(os.path.abspath(__file__)))
sys.path.insert(0, V); sys.path.insert(0, os.path.join(V, 'lib'))
ids = [json.loads(l)['id'] for l in open(os.path.join(V, 'properties.jsonl'))]
CLAIMED = {}
for i in ids:
    if os.path.exists(os.path.join(V, 'checks', i.lower() + '.py')):
        mod = importlib.import_module('checks.' + i.lower())
        if getattr(mod, 'MANIFEST', None):
            CLAIMED[i] = mod.MANIFEST
checks = []
for i in ids:
    if i in CLAIMED:
        c = CLAIMED[i]
        checks.append({
            'property_id': i, 'quick_cmd': './check %s --tier quick' % i, 'thorough_cmd': './check %s --tier thorough' % i,
            'evidence_file': '/verif/evidence/%s.json' % i, 'replay_cmd_template': './check %s --replay {path}' % i,
            'engine': c.get('engine', 'lean4+tdiff'),
            'level_claimed': {'category': c.get('category', 'proof'), 'text': c['text'], 'design_ref': c['design']},
            'level_note': c['note'], 'technique': c['technique']})
NA = {}
na_path = os.path.join(V, 'lib', 'not_applicable.json')
if os.path.exists(na_path):
    NA = json.load(open(na_path))
hooks_path = os.path.join(V, 'lib', 'hook_commits.json')
hook_commits = json.load(open(hooks_path)) if os.path.exists(hooks_path) else []
m = {'version': 1, 'setup_cmd': './setup.sh',
     'hooks': {'guard': 'verif', 'enable': 'go build -tags verif -overlay /verif/work/overlay.json (harness files from /verif/go/inpkg are added to package netpoll; the pool allocator is replaced by /verif/go/pool/mcache.go)',
               'baseline_off_cmd': 'cd /repo && go test -vet=off -count=1 -timeout 25m ./...', 'source_commits': hook_commits, 'add_only': True},
     'engines': [{'name': 'lean4+tdiff', 'path': '/verif/lean', 'serves_properties': sorted(CLAIMED), 'kind_free_text': 'Lean 4 models + theorems (lake project); Go correspondence harnesses (go/); Lean spec oracles driven through the npdriver line protocol'}],
     'checks': checks,
     'notes': 'fix: commits in /repo and known findings are listed in /verif/known_findings.jsonl; see DESIGN.md',
     'not_applicable': [{'property_id': i, 'reason': NA.get(i, 'check not built yet (framework under construction; DESIGN.md §6 has the plan) - not a claim that the technique cannot apply')} for i in ids if i not in CLAIMED]}
json.dump(m, open(os.path.join(V, 'MANIFEST.json'), 'w'), indent=1)
print('claimed', sorted(CLAIMED))
