"""Writes MANIFEST.json from the table below (kept valid at all times)."""
import json, os
V = os.path.dirname(os.path.dirname(os.path.abspath(__file__)))
ids = [json.loads(l)['id'] for l in open(os.path.join(V, 'properties.jsonl'))]
CLAIMED = {
 'C01': dict(
   text='Lean 4 theorems over a function-by-function model of LinkBuffer (Netpoll.Buf.Model) refine a FIFO byte-queue spec (Netpoll.Buf.Spec) for all operation sequences and sizes; '
        'the model is tied to /repo on every run by regenerated constants (T-gen) and a differential run that compares results and the full node-chain state after every operation, '
        'while the Lean spec judges the implementation\'s replies directly.',
   note='Trusted: Lean kernel; axioms propext/Classical.choice/Quot.sound; extractor; harness and line protocol. Correspondence is sampling (evidence lists op histogram). '
        'Go int overflow and concurrent use are outside the model. See DESIGN.md §6 C01 and §8.',
   technique='Lean 4 refinement proof (model -> FIFO spec) + differential correspondence of model and code', design='§6 C01'),
}
checks = []
for i in ids:
    if i in CLAIMED:
        c = CLAIMED[i]
        checks.append({
            'property_id': i, 'quick_cmd': './check %s --tier quick' % i, 'thorough_cmd': './check %s --tier thorough' % i,
            'evidence_file': '/verif/evidence/%s.json' % i, 'replay_cmd_template': './check %s --replay {path}' % i,
            'engine': 'lean4+tdiff',
            'level_claimed': {'category': 'proof', 'text': c['text'], 'design_ref': c['design']},
            'level_note': c['note'], 'technique': c['technique']})
m = {'version': 1, 'setup_cmd': './setup.sh',
     'hooks': {'guard': 'verif', 'enable': 'go build -tags verif -overlay /verif/work/overlay.json (harness files are added to package netpoll; the pool allocator is replaced by go/pool/mcache.go)',
               'baseline_off_cmd': 'cd /repo && go test -vet=off -count=1 -timeout 25m ./...', 'source_commits': [], 'add_only': True},
     'engines': [{'name': 'lean4+tdiff', 'path': '/verif/lean', 'serves_properties': sorted(CLAIMED), 'kind_free_text': 'Lean 4 model + theorems; Go differential harness; Lean spec oracle'}],
     'checks': checks,
     'notes': 'fix: commits in /repo and known findings are listed in /verif/known_findings.jsonl; see DESIGN.md',
     'not_applicable': [{'property_id': i, 'reason': 'check not built yet (framework under construction; DESIGN.md §6 has the plan) - not a claim that the technique cannot apply'} for i in ids if i not in CLAIMED]}
json.dump(m, open(os.path.join(V, 'MANIFEST.json'), 'w'), indent=1)
print('claimed', sorted(CLAIMED))
