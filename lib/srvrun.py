"""C13 helpers: build the srvh harness with the instrumented server files overlaid, run sweeps / real
scenarios / the EMFILE child, replay op lines on the Lean model (npdriver srv) and judge the
implementation's replies with the Lean spec (npdriver srvspec)."""
import json, os, subprocess
import common

INSTR = os.path.join(common.WORK, 'srv_instr')

def instrument():
    """instrumented copies of the files defining server / eventLoop methods (tools/extract -instr);
    redone only when those files (or the extractor) changed"""
    import hashlib
    os.makedirs(INSTR, exist_ok=True)
    exe = os.path.join(common.BIN, 'extract')
    h = hashlib.sha1()
    for f in ('netpoll_server.go', 'netpoll_unix.go'):
        h.update(open(os.path.join(common.REPO, f), 'rb').read())
    h.update(open(exe, 'rb').read()); h.update(common.REPO.encode())
    stamp = os.path.join(INSTR, 'stamp')
    files = [f for f in os.listdir(INSTR) if f.endswith('.go')]
    if not (files and os.path.exists(stamp) and open(stamp).read() == h.hexdigest()):
        for f in os.listdir(INSTR): os.remove(os.path.join(INSTR, f))
        rc, o = common.sh([exe, '-repo', common.REPO, '-instr', INSTR], env=common.go_env(), timeout=300)
        if rc != 0:
            return None, o
        open(stamp, 'w').write(h.hexdigest())
    return {os.path.join(common.REPO, f): os.path.join(INSTR, f) for f in os.listdir(INSTR) if f.endswith('.go')}, ''

def build():
    """srvh against REPO's working tree: inpkg files + instrumented server files"""
    rep, o = instrument()
    if rep is None:
        return None, 'instrumentation failed:\n' + o
    with common.Lock('go'):
        os.makedirs(common.BIN, exist_ok=True)
        sum_src = os.path.join(common.REPO, 'go.sum')
        if os.path.exists(sum_src):
            open(os.path.join(common.GO, 'go.sum'), 'w').write(open(sum_src).read())
        ov = common.write_overlay(common.inpkg_files())
        d = json.load(open(ov)); d['Replace'].update(rep)
        ov2 = os.path.join(common.WORK, 'overlay_srvh.json')
        json.dump(d, open(ov2, 'w'), indent=1)
        out = os.path.join(common.BIN, 'srvh')
        if os.path.exists(out): os.remove(out)
        cmd = ['go', 'build', '-tags', 'verif', '-overlay', ov2, '-o', out]
        if common.REPO != '/repo':
            mf = os.path.join(common.WORK, 'go.scratch.mod')
            open(mf, 'w').write(open(os.path.join(common.GO, 'go.mod')).read().replace('=> /repo', '=> ' + common.REPO))
            open(os.path.join(common.WORK, 'go.scratch.sum'), 'w').write(open(os.path.join(common.GO, 'go.sum')).read())
            cmd += ['-modfile', mf]
        cmd.append('./cmd/srvh')
        rc, o = common.sh(cmd, cwd=common.GO, env=common.go_env(), timeout=600)
        return (out if rc == 0 else None), o

# ---------------------------------------------------------------- plans and runs

def steps():
    return common.facts().get('server_steps', {})

def detect_cfg(st):
    oa, cl = st.get('server.onAccept', []), st.get('server.Close', [])
    return ''.join('1' if b else '0' for b in (
        '0 expr:mu.Lock' in oa,
        any('atomic.LoadInt32(s.accepting)' in l for l in cl),
        '3 if:s.connections.Load' in cl))

def closure_range(oa):
    lo = hi = -1
    for i, l in enumerate(oa):
        if l == '0 expr:AddCloseCallback':
            lo, hi = i, len(oa)
            for j in range(i + 1, len(oa)):
                if oa[j].startswith('0 '):
                    hi = j; break
    return lo, hi

def sweep_plan(st, tier):
    """every window of the real onAccept / Close: (kind, fn, k) lines"""
    oa, cl = st.get('server.onAccept', []), st.get('server.Close', [])
    lo, hi = closure_range(oa)
    thread = [k for k in range(len(oa)) if not (lo < k < hi)]
    locked, held = set(), False
    for k in thread:
        if held: locked.add(k)
        if oa[k] == '0 expr:mu.Lock': held = True
        if oa[k] == '0 expr:mu.Unlock': held = False
    plan = [('plain', 'server.onAccept', -1)]
    plan += [('acc-close', 'server.onAccept', k) for k in thread]
    plan += [('acc-busy', 'server.onAccept', k) for k in thread]
    plan += [('acc-shutdown', 'server.onAccept', k) for k in thread if k not in locked]
    plan += [('cb-accept', 'server.onAccept', k) for k in range(lo + 1, hi)]
    plan += [('sh-close', 'server.Close', k) for k in range(len(cl))]
    plan += [('sh-busy', 'server.Close', k) for k in range(len(cl))]
    return plan

def finding_probes(st):
    """known finding R7: data + FIN inside the accept window with a slow handler (never tracked)"""
    oa = st.get('server.onAccept', [])
    return [('acc-datafin', 'server.onAccept', k) for k, l in enumerate(oa) if l == '0 if:IsActive']

def run_sweep(binary, wd, plan, cfg):
    os.makedirs(wd, exist_ok=True)
    pf, ops, impl, model, spec = (os.path.join(wd, n) for n in ('plan', 'ops', 'impl', 'model', 'spec'))
    open(pf, 'w').write(''.join('%s %s %d\n' % p for p in plan))
    p = subprocess.run([binary, '-mode', 'sweep', '-facts', os.path.join(common.WORK, 'facts.json'), '-plan', pf,
                        '-ops-out', ops, '-impl-out', impl, '-cfg', cfg], stdout=subprocess.PIPE, stderr=subprocess.STDOUT, text=True, timeout=900)
    if p.returncode != 0:
        raise RuntimeError('srvh sweep failed: ' + p.stdout[-2000:])
    with open(ops) as i, open(model, 'w') as o:
        subprocess.run([common.DRIVER, 'srv'], stdin=i, stdout=o, check=True, timeout=600)
    with open(spec, 'w') as o:
        subprocess.run([common.DRIVER, 'srvspec', ops, impl], stdout=o, check=True, timeout=600)
    return analyse_sweep(wd, plan, p.stdout)

def read(p):
    return open(p).read().split('\n')[:-1]

def analyse_sweep(wd, plan, harness_out):
    ops, impl, model, spec = (read(os.path.join(wd, n)) for n in ('ops', 'impl', 'model', 'spec'))
    res = {'scenarios': 0, 'lines': len(ops), 'problems': [], 'finals': set(), 'hist': {}, 'injected': 0, 'samples': [],
           'harness_problems': [l for l in harness_out.split('\n') if l.startswith('PROBLEM')]}
    if not (len(ops) == len(impl) == len(model) == len(spec)):
        res['problems'].append((None, 'stream-length', 'ops=%d impl=%d model=%d spec=%d' % (len(ops), len(impl), len(model), len(spec)), []))
    cur = None; trace = []; bad = False; badspec = False; fired = False
    def close():
        nonlocal cur, trace, fired
        if cur is not None:
            res['finals'].add((cur, fired, tuple(l for l in trace if l.startswith(('settle', 'shret', 'final')))))
            if fired: res['injected'] += 1
            if len(res['samples']) < 3 and fired:
                res['samples'].append(' ; '.join(trace)[:600])
    for i in range(min(len(ops), len(impl), len(model), len(spec))):
        o = ops[i]
        if o.startswith('scn '):
            close()
            f = o.split()
            cur = (f[2], f[3], int(f[4])); trace = []; bad = False; badspec = False; fired = False
            res['scenarios'] += 1
            res['hist'][f[2]] = res['hist'].get(f[2], 0) + 1
            continue
        trace.append(o + ' => ' + impl[i])
        if o.split()[0] in ('inject', 'busy', 'injectbusy', 'injectcb', 'shret') or (o.startswith('accept 1')):
            fired = True
        if spec[i].startswith('IMPL-SPEC-FAIL') and not badspec:
            badspec = True
            res['problems'].append((cur, 'impl-violates-spec', 'op=%s | impl=%s | model=%s | spec=%s' % (o, impl[i], model[i], spec[i]), list(trace)))
        elif impl[i] != model[i] and not bad:
            bad = True
            res['problems'].append((cur, 'impl-model-differ', 'op=%s | impl=%s | model=%s | spec=%s' % (o, impl[i], model[i], spec[i]), list(trace)))
    close()
    return res


# ---------------------------------------------------------------- corpus, real event loops, EMFILE child

def corpus_plan(st, path):
    """corpus file: lines `<kind> <fn> <k>|*` ('*' = every point of that function)"""
    plan = []
    for l in open(path):
        f = l.split()
        if len(f) != 3 or l.startswith('#'): continue
        ks = range(len(st.get(f[1], []))) if f[2] == '*' else [int(f[2])]
        plan += [(f[0], f[1], k) for k in ks]
    return plan

def spec_lines(wd, ops_path):
    out = os.path.join(wd, os.path.basename(ops_path) + '.spec')
    with open(out, 'w') as o:
        subprocess.run([common.DRIVER, 'srvspec', ops_path, ops_path], stdout=o, check=True, timeout=600)
    return read(out)

def run_real(binary, wd, seed, n, probes=''):
    os.makedirs(wd, exist_ok=True)
    ops = os.path.join(wd, 'real_%d' % seed)
    p = subprocess.run([binary, '-mode', 'real', '-seed', str(seed), '-n', str(n), '-probes', probes, '-ops-out', ops],
                       stdout=subprocess.PIPE, stderr=subprocess.STDOUT, text=True, timeout=900)
    if p.returncode != 0:
        raise RuntimeError('srvh real failed: ' + p.stdout[-2000:])
    lines = read(ops); spec = spec_lines(wd, ops)
    return [(seed, l, v) for l, v in zip(lines, spec)]

def run_emfile(binary, wd, idx):
    os.makedirs(wd, exist_ok=True)
    ops = os.path.join(wd, 'emf_%d' % idx)
    p = subprocess.run([binary, '-mode', 'emfile', '-ops-out', ops], stdout=subprocess.PIPE, stderr=subprocess.STDOUT, text=True, timeout=300)
    if p.returncode != 0:
        raise RuntimeError('srvh emfile failed: ' + p.stdout[-2000:])
    lines = read(ops); spec = spec_lines(wd, ops)
    return [(idx, l, v) for l, v in zip(lines, spec)]

OUT_OF_FD = 'EN'                 # EMFILE ENFILE (isOutOfFdErr)
TRANSIENT = 'aipdbmht'           # ECONNABORTED EINTR EPROTO ENETDOWN ENOBUFS ENOMEM EHOSTUNREACH ETIMEDOUT (go/inpkg/srvh.go stretchErrno)

def stretch_lengths(tier):
    """lengths (consecutive failed accepts) of the exhaustion stretches: short ones and the ones around the end of
    the back-off goroutine's delay table, whose length is read from the code (T-gen fact server_retry)"""
    n = len(common.facts().get('server_retry', {}).get('table') or []) or 7
    ks = {1, 2, 3, n - 1, n, n + 1, n + 2}
    if tier == 'thorough': ks |= {4, 5, n + 3, n + 5}
    return sorted(k for k in ks if k >= 1)

def stretch_scripts(tier, seed):
    """scripts of accept results (alphabet: go/inpkg/srvh.go stretchLn) for the exhaustion stretches: E^k for the lengths
    above, and fault SEQUENCES - descriptor exhaustion followed by / mixed with the other errors accept(2) may report
    at any time, as the first error the poller sees, as the goroutine's first retry, deep in the delay table, with a
    successful accept in between - plus seeded random ones.  Every script contains an out-of-descriptor error (the
    clause is about descriptor exhaustion) and its goroutine delays stay below those of the longest E^k."""
    import random
    n = len(common.facts().get('server_retry', {}).get('table') or []) or 7
    out = ['E' * k for k in stretch_lengths(tier)]
    out += ['N', 'Ea', 'Ei', 'Ep', 'EEa', 'EEEi', 'ENpd', 'EaE', 'EiiE', 'aE', 'pEa', 'Nb', 'EKa', 'EaKE', 'E' * (n - 1) + 'b', 'E' * (n - 2) + 'ai']
    rnd = random.Random(seed * 7919 + 13)
    for i in range(4 if tier != 'thorough' else 24):
        ln = rnd.randint(2, n if tier != 'thorough' else n + 2)
        sc = ''.join(rnd.choice(OUT_OF_FD[0] * 3 + OUT_OF_FD[1] + TRANSIENT + ('K' if j else '')) for j in range(ln))
        if not set(sc) & set(OUT_OF_FD):
            sc = 'E' + sc[1:]
        out.append(sc)
    seen = set()
    return [x for x in out if not (x in seen or seen.add(x))]

def _stretch_proc(binary, wd, scripts, tag):
    ops = os.path.join(wd, 'stretch_%s' % tag)
    if os.path.exists(ops): os.remove(ops)
    p = subprocess.run([binary, '-mode', 'stretch', '-scripts', ','.join(scripts), '-facts', os.path.join(common.WORK, 'facts.json'),
                        '-ops-out', ops], stdout=subprocess.PIPE, stderr=subprocess.STDOUT, text=True, timeout=600)
    lines = read(ops) if os.path.exists(ops) else []
    done = {kvs(l)['script']: l for l in lines if l.startswith('stretch ')}
    begun = [kvs(l)['script'] for l in lines if l.startswith('begin ')]
    return p.returncode, p.stdout, done, begun

def script_key(sc):
    return (len(sc), sc)

def run_stretch(binary, wd, scripts):
    """descriptor-exhaustion stretches with the given scripts of accept results, all in one child process
    (concurrently, one event loop each).  A panic in a library goroutine kills the child: every stretch that was in
    progress is then re-run in a child of its own, shortest first, to find out which script kills it.
    Returns [(script, line, verdict)], shortest script first."""
    os.makedirs(wd, exist_ok=True)
    scripts = sorted(set(scripts), key=script_key)
    rc, out, done, begun = _stretch_proc(binary, wd, scripts, 'all')
    if rc != 0:
        for n, sc in enumerate(sorted(set(scripts) - set(done), key=script_key)):
            rc1, out1, done1, _ = _stretch_proc(binary, wd, [sc], 'one%d' % n)
            if sc in done1:
                done[sc] = done1[sc]
            else:
                why = next((l for l in out1.split('\n') if l.startswith(('panic:', 'fatal error:'))), 'exit status %d' % rc1)
                done[sc] = 'stretch k=%d script=%s crashed=1 queued=1 served=0 fresh=0 died=%s' % (len(sc) - sc.count('K'), sc, why.replace(' ', '_').replace('=', ':')[:160])
    def judge(done):
        keys = sorted(done, key=script_key)
        lines = [done[k] for k in keys]
        ops = os.path.join(wd, 'stretch_lines')
        open(ops, 'w').write(''.join(l + '\n' for l in lines))
        return [(sc, l, v) for sc, l, v in zip(keys, lines, spec_lines(wd, ops))]
    res = judge(done)
    # a real-time observation that fails without a crash (a client not served within its wait) is re-run before it
    # is reported: the machine may be heavily loaded.  (All of them together, in one more child.)
    again = [sc for sc, l, v in res if v != 'OK' and kvs(l).get('crashed') == '0']
    if again:
        rc1, out1, done1, _ = _stretch_proc(binary, wd, again, 'again')
        for sc in again:
            if sc in done1: done[sc] = done1[sc]
    return judge(done) if again else res

def kvs(line):
    return dict(p.split('=', 1) for p in line.split() if '=' in p)
