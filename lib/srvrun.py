"""C13 helpers: build the srvh harness with the instrumented server files overlaid, run sweeps / real
scenarios / the EMFILE child, replay op lines on the Lean model (npdriver srv) and judge the
implementation's replies with the Lean spec (npdriver srvspec)."""
import json, os, subprocess
import common

INSTR = os.path.join(common.WORK, 'srv_instr')

def instrument():
    """instrumented copies of the files defining server / eventLoop methods (tools/extract -instr)"""
    os.makedirs(INSTR, exist_ok=True)
    for f in os.listdir(INSTR): os.remove(os.path.join(INSTR, f))
    exe = os.path.join(common.BIN, 'extract')
    rc, o = common.sh([exe, '-repo', common.REPO, '-instr', INSTR], env=common.go_env(), timeout=300)
    if rc != 0:
        return None, o
    return {os.path.join(common.REPO, f): os.path.join(INSTR, f) for f in os.listdir(INSTR)}, o

def build():
    """srvh against REPO's working tree: inpkg files + instrumented server files"""
    rep, o = instrument()
    if rep is None:
        return None, 'instrumentation failed:\n' + o
    with common.Lock('go'):
        os.makedirs(common.BIN, exist_ok=True)
        sum_src = os.path.join(common.REPO, 'go.sum')
        if os.path.exists(sum_src):
            open(os.path.join(common.GO, 'go.sum'), 'w').write(open(sum_src).read())
        ov = common.write_overlay(common.inpkg_files())
        d = json.load(open(ov)); d['Replace'].update(rep)
        ov2 = os.path.join(common.WORK, 'overlay_srvh.json')
        json.dump(d, open(ov2, 'w'), indent=1)
        out = os.path.join(common.BIN, 'srvh')
        if os.path.exists(out): os.remove(out)
        cmd = ['go', 'build', '-tags', 'verif', '-overlay', ov2, '-o', out]
        if common.REPO != '/repo':
            mf = os.path.join(common.WORK, 'go.scratch.mod')
            open(mf, 'w').write(open(os.path.join(common.GO, 'go.mod')).read().replace('=> /repo', '=> ' + common.REPO))
            open(os.path.join(common.WORK, 'go.scratch.sum'), 'w').write(open(os.path.join(common.GO, 'go.sum')).read())
            cmd += ['-modfile', mf]
        cmd.append('./cmd/srvh')
        rc, o = common.sh(cmd, cwd=common.GO, env=common.go_env(), timeout=600)
        return (out if rc == 0 else None), o
