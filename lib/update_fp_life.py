"""Record the fingerprints of the functions Netpoll.Conn.Life mirrors (run by hand after the model has been
re-validated against a changed function; never run by a check).  A changed fingerprint only escalates the search."""
import json, os, sys
sys.path.insert(0, os.path.dirname(os.path.abspath(__file__)))
import common, schedrun
ok, o = common.regen()
assert ok, o
f = common.facts()['funcs']
json.dump({n: f[n]['hash'] for n in schedrun.MIRRORED if n in f}, open(os.path.join(common.VERIF, 'lib/expected_fp_life.json'), 'w'), indent=0, sort_keys=True)
print('recorded')
