"""C14 correspondence runs: build the dial harness (plain, and with the connect-path syscalls routed through
the scripted shims), run the scripted T-diff against `npdriver dial`, the real-socket runs, the Lean spec
oracle (`npdriver dialspec`) and the model-admits check (`npdriver dialadmit`)."""
import collections, json, os, re, subprocess
from concurrent.futures import ThreadPoolExecutor
import common

# call sites of the connect path that the scripted build answers from a script (file -> [(from, to)])
SHIM_SUBS = {
    'net_netfd.go': [('syscall.Connect(', 'verifSysConnect('),
                     ('syscall.GetsockoptInt(', 'verifSysGetsockoptInt('),
                     ('syscall.Getpeername(', 'verifSysGetpeername('),
                     ('syscall.Getsockname(', 'verifSysGetsockname(')],
    'net_sock.go': [('sysSocket(family, sotype, proto)', 'verifSysSocket(family, sotype, proto)'),
                    ('setDefaultSockopts(fd, family, sotype, ipv6only)', 'verifSetDefaultSockopts(fd, family, sotype, ipv6only)')],
}

def make_shim_sources(wd):
    """copies of /repo's CURRENT net_netfd.go / net_sock.go with the call sites above renamed (nothing else changes)."""
    os.makedirs(wd, exist_ok=True)
    rep, missing = {}, []
    for fn, subs in SHIM_SUBS.items():
        src = open(os.path.join(common.REPO, fn)).read()
        for a, b in subs:
            if a not in src:
                missing.append('%s: %s' % (fn, a))
            src = src.replace(a, b)
        dst = os.path.join(wd, 'shim_' + fn)
        open(dst, 'w').write(src)
        rep[os.path.join(common.REPO, fn)] = dst
    return rep, missing

def build_shim_harness(wd):
    """go/cmd/dialh built against /repo with the shimmed copies overlaid -> go/bin/dialh-shim"""
    rep, missing = make_shim_sources(wd)
    with common.Lock('go'):
        os.makedirs(common.BIN, exist_ok=True)
        sum_src = os.path.join(common.REPO, 'go.sum')
        if os.path.exists(sum_src):
            open(os.path.join(common.GO, 'go.sum'), 'w').write(open(sum_src).read())
        ov = common.write_overlay(common.inpkg_files())
        d = json.load(open(ov))
        d['Replace'].update(rep)
        ov2 = os.path.join(common.WORK, 'overlay-dialshim.json')
        json.dump(d, open(ov2, 'w'), indent=1)
        out = os.path.join(common.BIN, 'dialh-shim')
        if os.path.exists(out):
            os.remove(out)
        rc, o = common.sh(['go', 'build', '-tags', 'verif', '-overlay', ov2, '-o', out] + common.modfile_args() + ['./cmd/dialh'],
                          cwd=common.GO, env=common.go_env(), timeout=600)
    return (out if rc == 0 else None), o, missing

def read(p):
    return [l for l in open(p).read().split('\n') if l]

def driver(mode_args, stdin_path=None, timeout=600):
    if stdin_path:
        with open(stdin_path) as i:
            p = subprocess.run([common.DRIVER] + mode_args, stdin=i, stdout=subprocess.PIPE, text=True, timeout=timeout, check=True)
    else:
        p = subprocess.run([common.DRIVER] + mode_args, stdout=subprocess.PIPE, text=True, timeout=timeout, check=True)
    return [l for l in p.stdout.split('\n') if l]

def kv(line):
    return dict(t.split('=', 1) for t in line.split() if '=' in t)

# ------------------------------------------------------------------ scripted T-diff

def script_class(op):
    """coarse class of a script line, for the evidence histogram"""
    if not op.startswith('dial '):
        return op.split()[0]
    atts = op.split(' :: ')[1:]
    k = []
    for a in atts:
        d = kv(a)
        ev = ''.join(sorted(set(re.sub(r'[^WHCD]', '', ''.join(w.split('/')[0] for w in d.get('wakes', '-').split(','))))))
        k.append('e0=%s ev=%s late=%s%s' % (d.get('e0'), ev or '-', '1' if d.get('late', '-') != '-' else '0',
                                          ' sockerr' if d.get('sock') != '0' else ''))
    return ' | '.join(k)

def analyse_scripted(ops, impl, model, spec):
    res = {'lines': len(ops), 'problems': [], 'hist': collections.Counter(), 'outcomes': collections.Counter(),
           'classes': set(), 'branches': collections.Counter(), 'samples': []}
    n = min(len(ops), len(impl), len(model), len(spec))
    if not (len(ops) == len(impl) == len(model) == len(spec)):
        res['problems'].append(('stream-length', 'ops=%d impl=%d model=%d spec=%d' % (len(ops), len(impl), len(model), len(spec)), ops[:1]))
    for i in range(n):
        o, im, mo, sp = ops[i], impl[i], model[i], spec[i]
        kind = o.split()[0]
        res['hist'][kind] += 1
        if kind == 'dial':
            d = kv(im)
            res['outcomes']['%s' % (d.get('err', im.split()[0]),)] += 1
            res['classes'].add(script_class(o))
            for a in o.split(' :: ')[1:]:
                ad = kv(a)
                res['branches']['e0=' + ad.get('e0', '?')] += 1
                for w in ad.get('wakes', '-').split(','):
                    f = w.split('/')
                    if len(f) == 6:
                        res['branches']['so=' + f[4]] += 1
                        res['branches']['pick=' + f[1]] += 1
                        if f[2] != '0': res['branches']['ctlerr'] += 1
                        if f[3] != '0': res['branches']['gsoerr'] += 1
                        if f[5] == '0': res['branches']['peerfail'] += 1
                        if len(re.sub(r'[^WHCD]', '', f[0])) > 1: res['branches']['multi-event'] += 1
                if ad.get('late', '-') != '-': res['branches']['late'] += 1
                if ad.get('self') == '1': res['branches']['selfconnect'] += 1
                if ad.get('local') == '0': res['branches']['nolocal'] += 1
            if len(o.split(' :: ')) > 2: res['branches']['retry'] += 1
            if kv(o.split(' :: ')[0]).get('reg', '0') != '0' and d.get('err', '').startswith('register'): res['branches']['regerr'] += 1
            if len(res['samples']) < 3:
                res['samples'].append(o + '  =>  ' + im)
        if sp.startswith('IMPL-SPEC-FAIL'):
            res['problems'].append(('impl-violates-spec', 'script=%s | impl=%s | spec=%s | model=%s' % (o, im, sp, mo), [o]))
        elif im != mo:
            res['problems'].append(('impl-model-differ', 'script=%s | impl=%s | model=%s' % (o, im, mo), [o]))
    return res

def exec_scripted(binary, wd, seed, n, replay=None):
    """run the scripted harness only (no Lean side needed yet)"""
    os.makedirs(wd, exist_ok=True)
    ops, impl = os.path.join(wd, 'ops'), os.path.join(wd, 'impl')
    cmd = [binary, '-mode', 'scripted', '-seed', str(seed), '-n', str(n), '-ops-out', ops, '-impl-out', impl]
    if replay:
        cmd += ['-replay', replay]
    p = subprocess.run(cmd, timeout=1800, stdout=subprocess.PIPE, stderr=subprocess.STDOUT, text=True)
    if p.returncode != 0:
        open(os.path.join(wd, 'harness.log'), 'w').write(p.stdout)
        raise RuntimeError('scripted harness exited with %d (seed %s): %s' % (p.returncode, seed, p.stdout[-3000:]))
    return wd

def judge_scripted(wd):
    """replay the script lines on the model, judge the implementation lines with the spec oracle, compare"""
    ops, impl, model, spec = (os.path.join(wd, x) for x in ('ops', 'impl', 'model', 'spec'))
    open(model, 'w').write('\n'.join(driver(['dial'], ops)) + '\n')
    open(spec, 'w').write('\n'.join(driver(['dialspec', impl])) + '\n')
    return analyse_scripted(read(ops), read(impl), read(model), read(spec))

def run_scripted_shard(binary, wd, seed, n, replay=None):
    return judge_scripted(exec_scripted(binary, wd, seed, n, replay))

def exec_scripted_shards(binary, wd, seed, shards, n):
    with ThreadPoolExecutor(max_workers=min(16, shards)) as ex:
        futs = [ex.submit(exec_scripted, binary, os.path.join(wd, 's%d' % i), seed * 1000 + i, n) for i in range(shards)]
        out, errs = [], []
        for f in futs:
            try:
                out.append(f.result())
            except Exception as e:
                errs.append(e)
        if errs and not out:
            raise errs[0]
        return out

# ------------------------------------------------------------------ real sockets

def admitted_sets():
    """model-admitted outcomes per (class, ctx) from `npdriver dialadmit`"""
    classes = ['accept', 'refuse', 'backlog', 'reset', 'unix-ok', 'unix-missing', 'unix-refuse', 'unix-backlog',
               # dials with a local address (DialTCP / DialUnix): what is wrong is found before connect(2)
               'laddr-ok', 'bind-inuse', 'bind-notlocal', 'family-raddr', 'family-laddr', 'unix-laddr-ok', 'unix-bind-exists']
    req = ''.join('class %s ctx=%s\n' % (c, x) for c in classes for x in ('-', 'D', 'C'))
    p = subprocess.run([common.DRIVER, 'dialadmit'], input=req, stdout=subprocess.PIPE, text=True, timeout=300, check=True)
    out = {}
    for l in p.stdout.split('\n'):
        if ' :: ' not in l: continue
        head, body = l.split(' :: ', 1)
        h = head.split()
        out[(h[1], kv(head).get('ctx', '-'))] = set(x.strip() for x in body.split(' | ') if x.strip())
    return out

def analyse_real(path, spec_lines, admit, slack_us):
    """returns dict: problems [(kind, detail, replay_lines)], histograms, max overshoot"""
    lines = read(path)
    res = {'dials': 0, 'problems': [], 'by_class': collections.Counter(), 'outcomes': collections.Counter(),
           'max_over_us': None, 'samples': [], 'skipped': [], 'batches': 0, 'concurrent_dials': 0}
    data = [l for l in lines if not l.startswith('#')]
    if len(spec_lines) != len(data):
        res['problems'].append(('stream-length', 'impl=%d spec=%d' % (len(data), len(spec_lines)), []))
    req = None
    jitter = {}
    for l in data:
        if ' batch=1 ' in l:
            d = kv(l); jitter[d.get('id')] = int(d.get('jitter_us', '0'))
    res['bound_candidates'] = []
    res['max_jitter_us'] = max(jitter.values()) if jitter else 0
    for l, sp in zip(data, spec_lines):
        if l.startswith('realreq'):
            req = l; continue
        d = kv(l)
        if 'skipped' in d:
            res['skipped'].append('%s/%s' % (d.get('class'), d.get('net'))); continue
        if ' hung ' in l:
            res['problems'].append(('impl-violates-spec', 'a dial did not return within %s us: %s' % (d.get('after_us'), l), [req])); continue
        if ' panic ' in l:
            res['problems'].append(('impl-violates-spec', 'dial panicked: ' + l, [req])); continue
        if d.get('batch') == '1':
            res['batches'] += 1
            if sp.startswith('IMPL-SPEC-FAIL'):
                res['problems'].append(('impl-violates-spec', 'after the batch and closing every returned connection the process is not back to its baseline '
                                        '(descriptors +%s, operator slots +%s, registrations %s): %s' % (d.get('openfds'), d.get('slots'), d.get('tmpreg'), l), [req]))
            continue
        res['dials'] += 1
        if int(d.get('conc', '1')) > 1: res['concurrent_dials'] += 1
        cls = d['class']; api = d.get('api', 'dial'); tmo = int(d.get('timeout_us', '0'))
        res['by_class']['%s/%s/%s' % (cls, d['net'], 'conc' if int(d.get('conc', '1')) > 1 else 'seq')] += 1
        outcome = 'conn=%s err=%s timeout=%s' % (d['conn'], d['err'], d['timeout'])
        res['outcomes']['%s: %s' % (cls, 'conn' if d['conn'] == '1' else d['err'])] += 1
        if len(res['samples']) < 4: res['samples'].append(l)
        if sp.startswith('IMPL-SPEC-FAIL'):
            res['problems'].append(('impl-violates-spec', '%s: %s' % (sp, l), [req]))
            continue
        if d.get('usable') == '0':
            res['problems'].append(('impl-violates-spec', 'returned connection is not usable in both directions (echo round trip failed): ' + l, [req]))
            continue
        # within its timeout plus slack
        if tmo > 0 and api == 'dial' and d['net'] != 'unix':
            over = int(d['elapsed_us']) - tmo
            if res['max_over_us'] is None or over > res['max_over_us']: res['max_over_us'] = over
            # the bound is wall-clock: allow for the scheduling noise measured by the canary while this request ran,
            # and report only what re-running the request confirms (checks/c14.py)
            allowed = slack_us + 4 * jitter.get(d.get('id'), 0)
            if over > allowed:
                res['bound_candidates'].append((over, allowed, l, req))
                continue
        # the model admits the outcome of this class
        if d['net'] == 'host':
            continue   # several resolved addresses: judged by the oracle only
        ctx = 'D' if (api in ('dial', 'laddr') and tmo > 0 and d['net'] != 'unix') else ('C' if api == 'ctx' else '-')
        adm = admit.get((cls, ctx))
        if adm is not None and outcome not in adm:
            res['problems'].append(('model-does-not-admit', 'class %s ctx=%s: observed "%s", model admits %s: %s' % (cls, ctx, outcome, sorted(adm), l), [req]))
    return res

def exec_real(binary, wd, seed, tier, replay=None, loops=1):
    os.makedirs(wd, exist_ok=True)
    out = os.path.join(wd, 'real.out')
    sockdir = os.path.join(wd, 'sock'); os.makedirs(sockdir, exist_ok=True)
    cmd = [binary, '-mode', 'real', '-seed', str(seed), '-tier', tier, '-out', out, '-dir', sockdir, '-loops', str(loops)]
    if replay:
        cmd += ['-replay', replay]
    p = subprocess.run(cmd, timeout=1800, stdout=subprocess.PIPE, stderr=subprocess.STDOUT, text=True)
    if p.returncode not in (0, 3):     # 3: a dial did not return (reported in the output as a `hung` line)
        raise RuntimeError('real-socket harness exited with %d (seed %s): %s' % (p.returncode, seed, p.stdout[-3000:]))
    return out

def judge_real(out, admit, slack_us):
    data = out + '.data'
    open(data, 'w').write('\n'.join(l for l in read(out) if not l.startswith('#')) + '\n')
    return analyse_real(out, driver(['dialspec', data]), admit, slack_us)
