"""Run the LinkBuffer T-diff in shards: harness (impl) / npdriver lb (model) / npdriver lbspec (spec oracle)."""
import os, subprocess, collections
from concurrent.futures import ThreadPoolExecutor
import common, lbtool

def run_shard(binary, wd, seed, seqs, nops, mode, extra=()):
    os.makedirs(wd, exist_ok=True)
    ops = os.path.join(wd, 'ops'); impl = os.path.join(wd, 'impl'); model = os.path.join(wd, 'model'); spec = os.path.join(wd, 'spec')
    p = subprocess.run([binary, '-seed', str(seed), '-seqs', str(seqs), '-ops', str(nops), '-mode', mode,
                        '-ops-out', ops, '-impl-out', impl, *extra], timeout=3600)
    if p.returncode not in (0, 3):     # 3 = watchdog: an op never returned ("hang" is the last reply line)
        # the process died inside an op (a Go fatal error - stack overflow, concurrent map access, unrecoverable fault - cannot be
        # recovered by the harness): the op line is written and flushed before the op runs, the reply is missing
        # re-run the same shard with every line written through
        subprocess.run([binary, '-seed', str(seed), '-seqs', str(seqs), '-ops', str(nops), '-mode', mode, '-ops-out', ops, '-impl-out', impl, *extra],
                       timeout=3600, env=dict(os.environ, VERIF_LB_FLUSH='1'), stderr=subprocess.DEVNULL)
        ol, il = read(ops), read(impl)
        if len(ol) == len(il) + 1 and len(il) > 0:
            open(ops, 'w').write('\n'.join(ol[:len(il) + 1]) + '\n')
            open(impl, 'w').write('\n'.join(il + ['crash']) + '\n')
        else:
            raise RuntimeError('lbdiff exit %d' % p.returncode)
    with open(ops) as i, open(model, 'w') as o:
        subprocess.run([common.DRIVER, 'lb'], stdin=i, stdout=o, check=True, timeout=3600)
    with open(spec, 'w') as o:
        subprocess.run([common.DRIVER, 'lbspec', ops, impl], stdout=o, check=True, timeout=3600)
    return analyse(wd, mode)

def read(p):
    return open(p).read().split('\n')[:-1]

def analyse(wd, mode):
    """returns dict: lines, seqs, diffs [(seqlines, idx, kind, detail)], histogram, finals"""
    ops, impl, model, spec = (read(os.path.join(wd, n)) for n in ('ops', 'impl', 'model', 'spec'))
    res = {'lines': len(ops), 'seqs': 0, 'problems': [], 'hist': collections.Counter(), 'finals': set(),
           'in_contract': 0, 'out_contract': 0, 'samples': []}
    cur = None; start = 0; bad = False
    n = min(len(ops), len(impl), len(model), len(spec))
    if not (len(ops) == len(impl) == len(model) == len(spec)):
        res['problems'].append((ops[:1], 0, 'stream-length', 'ops=%d impl=%d model=%d spec=%d' % (len(ops), len(impl), len(model), len(spec))))
    for i in range(n):
        o = ops[i]
        if o.startswith('seq '):
            if cur is not None and i > start + 1:
                res['finals'].add(impl[i - 1].split(' ## ')[-1])
            cur = [o]; start = i; bad = False; res['seqs'] += 1
            continue
        if cur is None: continue
        cur.append(o)
        res['hist'][o.split()[0]] += 1
        sp = spec[i]
        if bad:
            # a model/implementation disagreement has been recorded for this sequence; the spec verdict on the
            # implementation's later replies is independent of the model, so keep looking for a genuine failing input
            if bad != 'spec' and 'IMPL-SPEC-FAIL' in sp:
                bad = 'spec'
                res['problems'].append((list(cur), i - start, 'impl-violates-spec', 'op=%s | impl=%s | spec=%s' % (o, impl[i][:300], sp[:300])))
            continue
        if sp.startswith('X'): res['out_contract'] += 1
        elif 'OK' in sp or sp == 'new': res['in_contract'] += 1
        kind = None
        if impl[i] == 'hang' or (impl[i] == 'crash' and mode == 'valid'):
            kind = 'impl-violates-spec'   # the call never returned / killed the process, inside the contract
        elif 'IMPL-SPEC-FAIL' in sp:
            kind = 'impl-violates-spec'
        elif 'MODEL-SPEC-FAIL' in sp or 'MODEL-PANIC-IN-CONTRACT' in sp:
            kind = 'model-violates-spec'
        elif mode == 'valid' and impl[i] != model[i]:
            kind = 'impl-model-differ'
        elif mode != 'valid' and impl[i].split(' ')[0] != model[i].split(' ')[0] and not sp.startswith('X'):
            kind = 'impl-model-differ'
        elif mode != 'valid' and (impl[i] == 'panic') != (model[i] == 'panic'):
            # OUTSIDE the contract (spec verdict X) the property demands nothing: whether a mis-used buffer panics or limps on is
            # not compared as a violation (the model follows the code there only approximately); counted for the evidence
            res['out_of_contract_crash_disagreements'] = res.get('out_of_contract_crash_disagreements', 0) + 1
            bad = 'model'   # the states have diverged: stop comparing this sequence
        if kind:
            bad = 'spec' if kind == 'impl-violates-spec' else 'model'
            res['problems'].append((list(cur), i - start, kind, 'op=%s | impl=%s | model=%s | spec=%s' % (o, impl[i][:300], model[i][:300], sp[:300])))
    if cur is not None and n > start + 1:
        res['finals'].add(impl[n - 1].split(' ## ')[-1])
    # a couple of sample sequences, written out
    seqs = lbtool.split_seqs(ops)
    for s in seqs[:2]:
        res['samples'].append(' ; '.join(s[:25]))
    return res

def run_many(binary, base_wd, seed, shards, seqs, nops, mode, extra=()):
    out = []
    with ThreadPoolExecutor(max_workers=min(16, shards)) as ex:
        futs = [ex.submit(run_shard, binary, os.path.join(base_wd, '%s%d' % (mode, i)), seed * 1000 + i, seqs, nops, mode, extra)
                for i in range(shards)]
        for f in futs:
            out.append(f.result())
    return out

def replay_ops(binary, ops_lines, wd, extra=()):
    """replay a fixed op file on impl/model/spec; returns analyse() result"""
    os.makedirs(wd, exist_ok=True)
    ops = os.path.join(wd, 'ops'); impl = os.path.join(wd, 'impl'); model = os.path.join(wd, 'model'); spec = os.path.join(wd, 'spec')
    open(ops, 'w').write('\n'.join(ops_lines) + '\n')
    subprocess.run([binary, '-replay', ops, '-impl-out', impl, *extra], check=True, timeout=600)
    with open(ops) as i, open(model, 'w') as o:
        subprocess.run([common.DRIVER, 'lb'], stdin=i, stdout=o, check=True, timeout=600)
    with open(spec, 'w') as o:
        subprocess.run([common.DRIVER, 'lbspec', ops, impl], stdout=o, check=True, timeout=600)
    return analyse(wd, 'valid')

def shrink_problem(binary, seq_lines, kind, wd):
    def differs(lines):
        r = replay_ops(binary, lines, wd)
        return any(p[2] == kind for p in r['problems'])
    try:
        if not differs(seq_lines):
            return seq_lines
        return lbtool.shrink(binary, seq_lines, wd, differs)
    except Exception:
        return seq_lines
