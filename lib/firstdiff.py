import sys
ops=open(sys.argv[1]).read().split('\n'); a=open(sys.argv[2]).read().split('\n'); b=open(sys.argv[3]).read().split('\n')
seqstart=0; shown=0; skip_seq=False
for i,(o,x,y) in enumerate(zip(ops,a,b)):
    if o.startswith('seq'): seqstart=i; skip_seq=False
    if x!=y and not skip_seq:
        skip_seq=True
        print("---- line",i,"seq",ops[seqstart]); print("OP  ",o); print("IMPL",x[:500]); print("MODL",y[:500]);
        shown+=1
        if shown>=int(sys.argv[4]) : break
