"""C15 audit: run one fdaudit scenario under strace, turn the system-call log plus the harness's markers into the
descriptor event sequence (who opened / closed which number, in order), and have `npdriver fd` judge it.

Ordering rule for concurrent system calls (strace prints `<unfinished ...>` / `<... resumed>`): a close takes effect
no earlier than its entry, an open no later than its exit, so closes are placed at their entry line and opens at
their exit line.  For causally ordered calls this is the real order; for racing ones it is the most permissive
linearisation (a number handed out by the kernel was free, hence its close entered before the open returned)."""
import os, re, subprocess, json
import common

TRACE = 'close,close_range,dup,dup2,dup3,fcntl,socket,socketpair,accept,accept4,epoll_create,epoll_create1,eventfd,eventfd2,open,openat,creat,pipe,pipe2,memfd_create,timerfd_create,signalfd,signalfd4,inotify_init,inotify_init1,userfaultfd,pidfd_open,io_uring_setup,perf_event_open,write'
MARK_FD = 999
OPENERS = {'socket', 'accept', 'accept4', 'epoll_create', 'epoll_create1', 'eventfd', 'eventfd2', 'open', 'openat', 'creat', 'dup',
           'memfd_create', 'timerfd_create', 'signalfd', 'signalfd4', 'inotify_init', 'inotify_init1', 'userfaultfd', 'pidfd_open',
           'io_uring_setup', 'perf_event_open'}

LINE = re.compile(r'^(\d+)\s+(.*)$')
CALL = re.compile(r'^([a-z_0-9]+)\((.*)$', re.S)
RESUMED = re.compile(r'^<\.\.\. ([a-z_0-9]+) resumed>(.*)$', re.S)
RET = re.compile(r'^(.*)\)\s+=\s+(-?\d+|\?)(?:\s+(E[A-Z]+))?.*$', re.S)

def unescape(s):
    return bytes(s, 'latin-1').decode('unicode_escape')

def parse_log(text):
    """-> list of completed calls dict(name,args,ret,errno,entry,exit,pid) in log order of their entry"""
    calls = []
    pending = {}
    for idx, raw in enumerate(text.split('\n')):
        m = LINE.match(raw)
        if not m:
            continue
        pid, rest = m.group(1), m.group(2)
        if rest.startswith('+++') or rest.startswith('---'):
            continue
        r = RESUMED.match(rest)
        if r:
            name, tail = r.group(1), r.group(2)
            p = pending.pop(pid, None)
            if p is None or p['name'] != name:
                continue
            full = p['args'] + tail
            mr = RET.match(full)
            if not mr:
                continue
            p.update(args=mr.group(1), ret=mr.group(2), errno=mr.group(3), exit=idx)
            calls.append(p)
            continue
        c = CALL.match(rest)
        if not c:
            continue
        name, tail = c.group(1), c.group(2)
        if tail.endswith('<unfinished ...>'):
            pending[pid] = dict(name=name, args=tail[:-len('<unfinished ...>')].rstrip(), entry=idx, pid=pid, raw=raw)
            continue
        mr = RET.match(tail)
        if not mr:
            continue
        calls.append(dict(name=name, args=mr.group(1), ret=mr.group(2), errno=mr.group(3), entry=idx, exit=idx, pid=pid, raw=raw))
    for p in pending.values():   # never finished (process exit): keep closes, they did enter
        p.update(ret='?', errno=None, exit=p['entry'])
        calls.append(p)
    return calls

def timeline(calls):
    """-> list of (pos, kind, payload) sorted by position: ('mark', text) | ('open', fd, call) | ('close', fd, call)"""
    tl = []
    for c in calls:
        n, a = c['name'], c['args']
        if n == 'write':
            m = re.match(r'^(\d+), "((?:[^"\\]|\\.)*)"', a)
            if m and int(m.group(1)) == MARK_FD:
                txt = unescape(m.group(2)).strip()
                if txt.startswith('V '):
                    tl.append((c['entry'], 0, 'mark', txt[2:], c))
            continue
        ok = c['ret'] not in ('?',) and not c['ret'].startswith('-')
        if n == 'close':
            m = re.match(r'^(-?\d+)', a)
            if m:
                tl.append((c['entry'], 1, 'close', int(m.group(1)), c))
        elif n == 'close_range':
            m = re.match(r'^(\d+), (\d+)', a)
            if m and ok:
                for fd in range(int(m.group(1)), min(int(m.group(2)), 4096) + 1):
                    tl.append((c['entry'], 1, 'close?', fd, c))
        elif n in OPENERS and ok:
            tl.append((c['exit'], 2, 'open', int(c['ret']), c))
        elif n == 'fcntl' and ok and re.search(r'F_DUPFD', a):
            tl.append((c['exit'], 2, 'open', int(c['ret']), c))
        elif n in ('dup2', 'dup3') and ok:
            tl.append((c['entry'], 1, 'close?', int(c['ret']), c))   # implicit close of the target if it was open
            tl.append((c['exit'], 2, 'open', int(c['ret']), c))
        elif n in ('pipe', 'pipe2', 'socketpair') and ok:
            m = re.search(r'\[(\d+), (\d+)\]', a)
            if m:
                tl.append((c['exit'], 2, 'open', int(m.group(1)), c))
                tl.append((c['exit'], 2, 'open', int(m.group(2)), c))
    tl.sort(key=lambda t: (t[0], t[1]))
    return tl

def events_of(text):
    """scenario record from one strace log: metadata + event list"""
    sc = dict(name=None, complete=True, kinds=[], assume=[], base=None, final=None, fails=[], events=[], ended=False, ebadf=[], foreign=[])
    last_open = {}
    pending_close = {}
    owner = {}
    inwin = False
    for pos, _, kind, val, call in timeline(parse_log(text)):
        if kind == 'mark':
            w = val.split()
            tag, args = w[0], w[1:]
            if tag == 'S':
                sc['name'] = args[0]; inwin = True
            elif tag == 'E':
                inwin = False; sc['ended'] = True; sc['complete'] = args != ['open']
            elif tag == 'B':
                sc['base'] = [int(x) for x in args]
                for fd in sc['base']: owner[fd] = 'e'
            elif tag == 'F':
                sc['final'] = [int(x) for x in args]
            elif tag == 'K':
                sc['kinds'].append(' '.join(args))
            elif tag == 'A':
                sc['assume'].append('A ' + ' '.join(args))
            elif tag == 'a':
                sc['assume'].append('a ' + ' '.join(args))
            elif tag == 'I':
                sc['assume'].append('I ' + ' '.join(args))
            elif tag == 'X':
                sc['fails'].append(' '.join(args))
            elif not inwin:
                continue
            elif tag == 'O':
                fd = int(args[0])
                ev = last_open.get(fd)
                if ev is not None:
                    ev['who'] = 'e'
                    if owner.get(fd) == 'n': owner[fd] = 'e'
            elif tag == 'C':
                fd = int(args[0]); pending_close[fd] = pending_close.get(fd, 0) + 1
            elif tag == 'G':
                sc['events'].append(dict(t='a', fd=int(args[0]), who='n')); owner[int(args[0])] = 'n'
            elif tag == 'T':
                sc['events'].append(dict(t='r', fd=int(args[0]), who='n')); owner[int(args[0])] = 'e'
            continue
        if not inwin:
            continue
        fd = val
        if kind == 'open':
            ev = dict(t='o', fd=fd, who='n', raw=call['raw'].strip())
            sc['events'].append(ev); last_open[fd] = ev; owner[fd] = 'n'
        elif kind in ('close', 'close?'):
            if kind == 'close?' and fd not in owner:
                continue
            if pending_close.get(fd, 0) > 0:
                pending_close[fd] -= 1; who = 'e'
            else:
                who = 'n'
            ev = dict(t='c', fd=fd, who=who, errno=call.get('errno'), raw=call['raw'].strip())
            sc['events'].append(ev)
            if who == 'n':
                if call.get('errno') == 'EBADF':
                    sc['ebadf'].append(fd)
            owner.pop(fd, None)
    # second pass with final attribution: netpoll closing a number that belongs to somebody else
    own = {fd: 'e' for fd in (sc['base'] or [])}
    for ev in sc['events']:
        t, fd, who = ev['t'], ev['fd'], ev['who']
        if t == 'o': own[fd] = who
        elif t == 'a': own[fd] = 'n'
        elif t == 'r': own[fd] = 'e'
        elif t == 'c':
            if who == 'n' and own.get(fd) == 'e':
                sc['foreign'].append(fd)
            own.pop(fd, None)
    return sc

def op_lines(sc):
    out = ['S ' + (sc['name'] or '?')]
    out += ['K ' + k for k in sc['kinds']]
    out += list(sc['assume'])
    out.append('B ' + ' '.join(str(x) for x in (sc['base'] or [])))
    for ev in sc['events']:
        t = ev['t']
        if t in ('a', 'r'):
            out.append('n %s %d' % (t, ev['fd']))
        else:
            out.append('%s %s %d' % (ev['who'], t, ev['fd']))
    out.append('E ' + ('complete' if sc.get('complete', True) else 'open'))
    return out

_NETNS_OK = None

def netns_available():
    """can this process start a child in a private network namespace (`unshare -n`)?  Needed only to make the
    kernel's ephemeral port range narrow for one scenario without touching the host's."""
    global _NETNS_OK
    if _NETNS_OK is None:
        try:
            _NETNS_OK = subprocess.run(['unshare', '-n', 'true'], stdout=subprocess.DEVNULL, stderr=subprocess.DEVNULL, timeout=20).returncode == 0
        except Exception:
            _NETNS_OK = False
    return _NETNS_OK

def run_scenario(binary, name, seed, wd, churn=True, timeout=150, flags=()):
    """flags: what `fdaudit list` prints after the scenario's name; `netns`: run it in a private network namespace
    (the harness then brings `lo` up and narrows the port range of that namespace; VERIF_FDA_NETNS tells it so)"""
    os.makedirs(wd, exist_ok=True)
    log = os.path.join(wd, '%s-%d.strace' % (name, seed))
    if os.path.exists(log): os.remove(log)
    cmd = ['strace', '-f', '--seccomp-bpf', '-qq', '-e', 'signal=none', '-s', '2048', '-e', 'trace=' + TRACE, '-o', log,
           binary, 'run', name, str(seed)] + ([] if churn else ['nochurn'])
    env = dict(os.environ); env.pop('VERIF_FDA_NETNS', None)
    if 'netns' in flags and netns_available():
        cmd = ['unshare', '-n'] + cmd
        env['VERIF_FDA_NETNS'] = '1'
    try:
        p = subprocess.run(cmd, stdout=subprocess.PIPE, stderr=subprocess.STDOUT, text=True, timeout=timeout, env=env)
        rc, out = p.returncode, p.stdout
    except subprocess.TimeoutExpired as e:
        rc, out = 124, 'timeout'
    text = open(log, errors='replace').read() if os.path.exists(log) else ''
    sc = events_of(text)
    sc.update(rc=rc, stdout=out, seed=seed, log=log, scenario=name)
    return sc

R_LINE = re.compile(r'^R (\S+) owned=(\S+) once=(\S+) left=(\S+) conform=(\S+) sites=(\S+) paths=(.*)$')

def judge(ops_blocks):
    """feed op lines of several scenarios to `npdriver fd`; -> list of dicts (one per scenario, in order)"""
    text = '\n'.join('\n'.join(b) for b in ops_blocks) + '\n'
    p = subprocess.run([common.DRIVER, 'fd'], input=text, stdout=subprocess.PIPE, stderr=subprocess.PIPE, text=True, timeout=600)
    res = []
    for l in p.stdout.split('\n'):
        m = R_LINE.match(l)
        if m:
            res.append(dict(name=m.group(1), owned=m.group(2), once=m.group(3), left=m.group(4), conform=m.group(5),
                            sites=[] if m.group(6) == '-' else m.group(6).split(','), paths=m.group(7), line=l))
    if len(res) != len(ops_blocks):
        raise RuntimeError('npdriver fd answered %d of %d scenarios: %s' % (len(res), len(ops_blocks), p.stderr[-500:]))
    return res
