"""Build go/cmd/mgrh.  The schedule points of hooks/manager.patch are add-only `vmgrPoint(site)` lines in
poll_manager.go / poll_loadbalance.go.  They are NOT committed in /repo: the patch is applied to a temporary
copy of /repo's CURRENT files and the copies are overlaid at build time (so an edit of those files is still
what gets built).  If the patch no longer applies, the harness is built without schedule points and the check
falls back to seeded stress + spec oracle (and escalates its budget)."""
import json, os, shutil, subprocess
import common

PATCH = os.path.join(common.VERIF, 'hooks', 'manager.patch')
FILES = ['poll_manager.go', 'poll_loadbalance.go']

def hooked_copies():
    """returns ({repo path: patched copy}, note).  Empty dict when the patch does not apply."""
    d = os.path.join(common.WORK, 'c18_hooked')
    shutil.rmtree(d, ignore_errors=True); os.makedirs(d)
    for f in FILES:
        src = os.path.join(common.REPO, f)
        if not os.path.exists(src):
            return {}, 'source file %s is gone' % f
        shutil.copy(src, os.path.join(d, f))
    already = all('vmgrPoint(' in open(os.path.join(d, f)).read() for f in FILES)
    if already:
        return {}, 'schedule points already present in the source tree'
    p = subprocess.run(['patch', '-p1', '--no-backup-if-mismatch', '-F', '3', '-d', d, '-i', PATCH],
                       stdout=subprocess.PIPE, stderr=subprocess.STDOUT, text=True)
    note = 'hooks/manager.patch applied to a temporary copy and overlaid'
    if p.returncode != 0:
        # some hunks were rejected: the others are in place (build() falls back to no schedule points if this does not compile)
        note = 'hooks/manager.patch applied only in part to the current source (%s)' % ' / '.join(l for l in p.stdout.strip().split('\n') if 'FAILED' in l or 'rejects' in l)[:300]
    # the schedule points of manager.Pick are (re)placed by what its statements do - in front of every atomic operation on
    # the status word -, so that an edited Pick can still be preempted between any two of its accesses (tools/mgrpoints)
    exe, msg = common.build_tool('mgrpoints')
    if exe is None:
        return {}, msg
    rc, o = common.sh([exe, os.path.join(d, 'poll_manager.go')], env=common.go_env(), timeout=120)
    if rc != 0:
        return {}, 'tools/mgrpoints failed: ' + o.strip()[-300:]
    note += '; schedule points of ' + o.strip()
    return {os.path.join(common.REPO, f): os.path.join(d, f) for f in FILES}, note

def build(name='mgrh'):
    """returns (binary or None, build output, hooks: bool, note)"""
    with common.Lock('go'):
        os.makedirs(common.BIN, exist_ok=True)
        sum_src = os.path.join(common.REPO, 'go.sum')
        if os.path.exists(sum_src):
            open(os.path.join(common.GO, 'go.sum'), 'w').write(open(sum_src).read())
        base = json.load(open(common.write_overlay(common.inpkg_files())))
        # go/go.mod pins `replace netpoll => /repo`; with VERIF_REPO set, build against that tree instead
        modfile = os.path.join(common.WORK, 'c18.mod')
        mod = open(os.path.join(common.GO, 'go.mod')).read().replace('=> /repo', '=> ' + common.REPO)
        open(modfile, 'w').write(mod)
        if os.path.exists(sum_src):
            shutil.copy(sum_src, os.path.join(common.WORK, 'c18.sum'))
        copies, note = hooked_copies()
        out = os.path.join(common.BIN, name)
        for attempt in (copies, {}):
            rep = dict(base['Replace']); rep.update(attempt)
            ov = os.path.join(common.WORK, 'overlay_c18.json')
            json.dump({'Replace': rep}, open(ov, 'w'), indent=1)
            if os.path.exists(out):
                os.remove(out)
            rc, o = common.sh(['go', 'build', '-tags', 'verif', '-modfile', modfile, '-overlay', ov, '-o', out, './cmd/' + name],
                              cwd=common.GO, env=common.go_env(), timeout=600)
            if rc == 0:
                break
            if attempt:
                note = 'patched copies do not compile (%s); built without schedule points' % o.strip().split('\n')[-1][:200]
            else:
                return None, o, False, note
    rc, o2 = common.sh([out, '-mode', 'hooks'], timeout=60)
    hooks = 'hooks=yes' in o2
    return out, o, hooks, note
