"""C11 correspondence: run go/bin/pollh (real handler, synthetic events, real descriptors), replay the op
lines on the Lean handler model (npdriver pollh), compare replies, collect spec-oracle verdicts."""
import collections, os, subprocess
from concurrent.futures import ProcessPoolExecutor
import common

def read(p):
    return open(p).read().split('\n')[:-1]

def analyse(wd):
    ops, impl, model = (read(os.path.join(wd, n)) for n in ('ops', 'impl', 'model'))
    res = {'cases': 0, 'events': 0, 'problems': [], 'cov': collections.Counter(), 'cells': set(), 'samples': [],
           'sizes': collections.Counter(), 'traces': set()}
    if not (len(ops) == len(impl) == len(model)):
        res['problems'].append((ops[-1] if ops else '', 'stream-length', 'ops=%d impl=%d model=%d (harness or driver died?)' % (len(ops), len(impl), len(model))))
    for idx, (o, i, m) in enumerate(zip(ops, impl, model)):
        parts = m.split(' |# ')
        if len(parts) != 4:
            res['problems'].append((o, 'driver-output', m[:300])); continue
        mm, iv, mv, cv = parts
        res['cases'] += 1
        evs = o.split(' ; ')[1:]
        res['events'] += len(evs)
        res['sizes'][len(evs)] += 1
        for t in cv.split(): res['cov'][t] += 1
        if o.startswith('batch') and len(evs) == 1:
            kv = dict(x.split('=', 1) for x in evs[0].split())
            res['cells'].add((kv['evt'], kv['kind'], kv['ds'], kv['st'], kv['det'], kv['ins'], kv['outs'], o.split(' ; ')[0]))
        res['traces'].add(i.split(' exit=')[0] if len(evs) == 1 else hash(i))
        kind = None
        if iv.startswith('FAIL'):
            kind, detail = 'impl-violates-spec', 'spec clauses violated by the implementation: %s | impl=%s' % (iv[5:], i[:600])
        elif i.startswith('panic') or i.startswith('harness-error'):
            kind, detail = ('impl-panics' if i.startswith('panic') else 'harness-error'), i[:600]
        elif mm != i:
            kind, detail = 'impl-model-differ', 'impl=%s | model=%s' % (i[:600], mm[:600])
        elif mv.startswith('FAIL'):
            kind, detail = 'model-violates-spec', 'spec clauses violated by the model: %s | model=%s' % (mv[5:], mm[:600])
        if kind:
            if ' real=1 ' in o.split(' ; ')[0] + ' ':
                # a batch the kernel delivered to the real Wait loop: what reproduces it is its scenario (the `real seed=…` line
                # that closes the round), not the batch line replayed on synthetic events
                scen = next((x for x in ops[idx + 1:] if x.startswith('real ')), None)
                if scen:
                    detail = 'in scenario "%s", batch %s: %s' % (scen, o.split(' ; ')[0], detail)
                    o = scen
            res['problems'].append((o, kind, detail))
    res['samples'] = [o[:400] + '  =>  ' + i[:300] for o, i in list(zip(ops, impl))[:2]]
    return res

def drive(wd):
    with open(os.path.join(wd, 'model'), 'w') as out:
        subprocess.run([common.DRIVER, 'pollh', os.path.join(wd, 'ops'), os.path.join(wd, 'impl')], stdout=out, check=True, timeout=3600)

def run_harness(binary, wd, args):
    """phase 1: the Go harness only (needs no Lean artefact); returns (returncode, output tail)"""
    os.makedirs(wd, exist_ok=True)
    p = subprocess.run([binary, *args, '-ops-out', os.path.join(wd, 'ops'), '-impl-out', os.path.join(wd, 'impl')],
                       stdout=subprocess.PIPE, stderr=subprocess.STDOUT, text=True, timeout=3600)
    return p.returncode, p.stdout[-500:]

def drive_and_analyse(wd, args, rc, out):
    """phase 2: replay on the model, compare, judge"""
    drive(wd)
    r = analyse(wd)
    if rc != 0:
        r['problems'].append(('', 'harness-exit', 'pollh %s exited %d: %s' % (' '.join(args), rc, out)))
    return r

def run_shard(binary, wd, args):
    rc, out = run_harness(binary, wd, args)
    return drive_and_analyse(wd, args, rc, out)

def start_harnesses(binary, base_wd, jobs):
    """launch every harness job now (threads around subprocesses); returns futures"""
    from concurrent.futures import ThreadPoolExecutor
    ex = ThreadPoolExecutor(max_workers=16)
    return ex, [ex.submit(run_harness, binary, os.path.join(base_wd, name), args) for name, args in jobs]

def finish(base_wd, jobs, futs):
    rcs = [f.result() for f in futs]
    with ProcessPoolExecutor(max_workers=16) as ex:
        fs = [ex.submit(drive_and_analyse, os.path.join(base_wd, name), args, rc, out) for (name, args), (rc, out) in zip(jobs, rcs)]
        return [f.result() for f in fs]

def run_many(binary, base_wd, jobs):
    """jobs: list of (name, args)"""
    ex, futs = start_harnesses(binary, base_wd, jobs)
    try:
        return finish(base_wd, jobs, futs)
    finally:
        ex.shutdown()

def replay_lines(binary, lines, wd):
    os.makedirs(wd, exist_ok=True)
    rp = os.path.join(wd, 'replay.in')
    open(rp, 'w').write('\n'.join(lines) + '\n')
    return run_shard(binary, wd, ['-mode', 'replay', '-replay', rp])

def shrink(binary, line, kind, wd):
    """a failing batch line -> the smallest sub-batch (events removed one by one) that still fails the same way"""
    parts = line.split(' ; ')
    if len(parts) <= 2:
        return line
    head, evs = parts[0], parts[1:]
    def fails(es):
        l = ' ; '.join([head.replace('n=%d' % len(evs), 'n=%d' % len(es))] + es)
        try:
            r = replay_lines(binary, [l], wd)
        except Exception:
            return False
        return any(p[1] == kind for p in r['problems'])
    if not fails(evs):
        return line
    # binary chop, then one by one
    chunk = len(evs) // 2
    while chunk >= 1:
        i = 0
        while i < len(evs) and len(evs) > 1:
            cand = evs[:i] + evs[i + chunk:]
            if cand and fails(cand):
                evs = cand
            else:
                i += chunk
        chunk //= 2
    return ' ; '.join([head.replace('n=%d' % (len(parts) - 1), 'n=%d' % len(evs))] + evs)
