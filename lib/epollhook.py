"""Schedule point between the return of epoll_wait and the caller's next statement (C10 real-Wait scenarios).

`make()` writes work/sys_epoll_linux_hooked.go: the repo's CURRENT sys_epoll_linux.go with `EpollWait` renamed to
`epollWaitRaw` and a wrapper `EpollWait` appended that calls the harness variable `verifAfterEpollWait` (declared in
go/inpkg/opcacheh.go) after the system call has returned.  The file replaces the original only in the overlay of the harness
that asks for it (`common.build_harness(name, replacements={'sys_epoll_linux.go': path})`); /repo is not touched and
`defaultPoll.Wait` itself is the unmodified code."""
import os, re
import common

SIG = 'func EpollWait(epfd int, events []epollevent, msec int) (n int, err error) {'
WRAPPER = '''
// EpollWait (verif overlay): the system call, then the harness' schedule point.
func EpollWait(epfd int, events []epollevent, msec int) (n int, err error) {
	n, err = epollWaitRaw(epfd, events, msec)
	if h := verifAfterEpollWait; h != nil {
		h(epfd, events, n)
	}
	return n, err
}
'''

def make():
    """(path, '') or (None, why)"""
    src_path = os.path.join(common.REPO, 'sys_epoll_linux.go')
    try:
        src = open(src_path).read()
    except OSError as e:
        return None, 'cannot read %s: %s' % (src_path, e)
    if src.count(SIG) != 1 or 'epollWaitRaw' in src:
        return None, 'sys_epoll_linux.go: EpollWait does not have the expected signature (%s)' % SIG
    out = src.replace(SIG, SIG.replace('func EpollWait(', 'func epollWaitRaw('), 1) + WRAPPER
    os.makedirs(common.WORK, exist_ok=True)
    path = os.path.join(common.WORK, 'sys_epoll_linux_hooked.go')
    if not os.path.exists(path) or open(path).read() != out:
        open(path, 'w').write(out)
    return path, ''

SEND_SIG = 'func sendmsg(fd int, bs [][]byte, ivs []syscall.Iovec, zerocopy bool) (n int, err error) {'
SEND_WRAPPER = '''
// sendmsg (verif overlay): the harness' schedule point, then the unchanged function.
func sendmsg(fd int, bs [][]byte, ivs []syscall.Iovec, zerocopy bool) (n int, err error) {
	if h := verifBeforeSendmsg; h != nil {
		h(fd)
	}
	return sendmsgRaw(fd, bs, ivs, zerocopy)
}
'''

def make_sendmsg():
    """work/sys_sendmsg_linux_hooked.go: the repo's CURRENT sys_sendmsg_linux.go with `sendmsg` renamed to `sendmsgRaw` and a wrapper
    `sendmsg` appended that calls the harness variable `verifBeforeSendmsg` (go/inpkg/opcacheh.go) IN FRONT of the system call: a schedule
    point between a writer's lock(flushing) and its sendmsg on c.fd (C10 `wclose`).  (path, '') or (None, why); without it the harness
    skips the `wclose` steps (and the check relies on the tie Netpoll.Tie.Life.sync_connection_initFinalizer alone)."""
    src_path = os.path.join(common.REPO, 'sys_sendmsg_linux.go')
    try:
        src = open(src_path).read()
    except OSError as e:
        return None, 'cannot read %s: %s' % (src_path, e)
    if src.count(SEND_SIG) != 1 or 'sendmsgRaw' in src:
        return None, 'sys_sendmsg_linux.go: sendmsg does not have the expected signature (%s)' % SEND_SIG
    out = src.replace(SEND_SIG, SEND_SIG.replace('func sendmsg(', 'func sendmsgRaw('), 1) + SEND_WRAPPER
    os.makedirs(common.WORK, exist_ok=True)
    path = os.path.join(common.WORK, 'sys_sendmsg_linux_hooked.go')
    if not os.path.exists(path) or open(path).read() != out:
        open(path, 'w').write(out)
    return path, ''

def build(name):
    """build harness `name` with the hooked EpollWait (and the hooked sendmsg, if its signature is the expected one); (binary or None, output)"""
    path, why = make()
    if path is None:
        return None, why
    repl = {'sys_epoll_linux.go': path}
    spath, _ = make_sendmsg()
    if spath is not None:
        repl['sys_sendmsg_linux.go'] = spath
    return common.build_harness(name, replacements=repl)
