"""Schedule point between the return of epoll_wait and the caller's next statement (C10 real-Wait scenarios).

`make()` writes work/sys_epoll_linux_hooked.go: the repo's CURRENT sys_epoll_linux.go with `EpollWait` renamed to
`epollWaitRaw` and a wrapper `EpollWait` appended that calls the harness variable `verifAfterEpollWait` (declared in
go/inpkg/opcacheh.go) after the system call has returned.  The file replaces the original only in the overlay of the harness
that asks for it (`common.build_harness(name, replacements={'sys_epoll_linux.go': path})`); /repo is not touched and
`defaultPoll.Wait` itself is the unmodified code."""
import os, re
import common

SIG = 'func EpollWait(epfd int, events []epollevent, msec int) (n int, err error) {'
WRAPPER = '''
// EpollWait (verif overlay): the system call, then the harness' schedule point.
func EpollWait(epfd int, events []epollevent, msec int) (n int, err error) {
	n, err = epollWaitRaw(epfd, events, msec)
	if h := verifAfterEpollWait; h != nil {
		h(epfd, events, n)
	}
	return n, err
}
'''

def make():
    """(path, '') or (None, why)"""
    src_path = os.path.join(common.REPO, 'sys_epoll_linux.go')
    try:
        src = open(src_path).read()
    except OSError as e:
        return None, 'cannot read %s: %s' % (src_path, e)
    if src.count(SIG) != 1 or 'epollWaitRaw' in src:
        return None, 'sys_epoll_linux.go: EpollWait does not have the expected signature (%s)' % SIG
    out = src.replace(SIG, SIG.replace('func EpollWait(', 'func epollWaitRaw('), 1) + WRAPPER
    os.makedirs(common.WORK, exist_ok=True)
    path = os.path.join(common.WORK, 'sys_epoll_linux_hooked.go')
    if not os.path.exists(path) or open(path).read() != out:
        open(path, 'w').write(out)
    return path, ''

def build(name):
    """build harness `name` with the hooked EpollWait; (binary or None, output)"""
    path, why = make()
    if path is None:
        return None, why
    return common.build_harness(name, replacements={'sys_epoll_linux.go': path})
