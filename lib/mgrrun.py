"""Run the C18 correspondence in shards: harness (impl) / npdriver mgr (model) / npdriver mgrspec (spec oracle)."""
import collections, os, re, subprocess
from concurrent.futures import ThreadPoolExecutor
import common

_RETS = re.compile(r'rets=\S*')

def read(p):
    return open(p).read().split('\n')[:-1]

def run_model(wd):
    ops = os.path.join(wd, 'ops'); impl = os.path.join(wd, 'impl')
    with open(ops) as i, open(os.path.join(wd, 'model'), 'w') as o:
        subprocess.run([common.DRIVER, 'mgr'], stdin=i, stdout=o, check=True, timeout=3600)
    with open(os.path.join(wd, 'spec'), 'w') as o:
        subprocess.run([common.DRIVER, 'mgrspec', ops, impl], stdout=o, check=True, timeout=3600)

def run_shard(binary, wd, seed, mode, n, nops=40, deadline=0):
    os.makedirs(wd, exist_ok=True)
    p = subprocess.run([binary, '-seed', str(seed), '-mode', mode, '-n', str(n), '-ops', str(nops), '-deadline', str(deadline),
                        '-ops-out', os.path.join(wd, 'ops'), '-impl-out', os.path.join(wd, 'impl')],
                       stdout=subprocess.PIPE, stderr=subprocess.STDOUT, text=True, timeout=3600)
    run_model(wd)
    r = analyse(wd, mode)
    if p.returncode != 0:
        r['problems'].append(([], 0, 'harness-exit', 'harness exit code %d: %s' % (p.returncode, p.stdout[-500:]), False))
    return r

def split_scn(ops):
    out = []; cur = None
    for i, o in enumerate(ops):
        if o.startswith('scn'):
            cur = []; out.append((i, cur))
        if cur is not None: cur.append(o)
    return out

def analyse(wd, mode):
    ops, impl, model, spec = (read(os.path.join(wd, n)) for n in ('ops', 'impl', 'model', 'spec'))
    res = {'lines': len(ops), 'scn': 0, 'problems': [], 'hist': collections.Counter(), 'finals': set(), 'scheds': set(),
           'in_contract': 0, 'out_contract': 0, 'samples': [], 'rets': 0, 'phases': 0, 'mode': mode}
    n = min(len(ops), len(impl), len(model), len(spec))
    if not (len(ops) == len(impl) == len(model) == len(spec)):
        res['problems'].append((ops[:1], 0, 'stream-length', 'ops=%d impl=%d model=%d spec=%d' % (len(ops), len(impl), len(model), len(spec)), False))
    cur = None; start = 0; bad = False; sched = []
    def close_scn(i):
        if cur is not None and i > start + 1:
            res['finals'].add(impl[i - 1].split(' ## ')[-1])
            if sched: res['scheds'].add(' '.join(sched))
    for i in range(n):
        o = ops[i]
        if o.startswith('scn'):
            close_scn(i)
            cur = [o]; start = i; bad = False; sched = []; res['scn'] += 1
            continue
        if cur is None: continue
        cur.append(o)
        t = o.split()
        res['hist'][t[0] + (':' + t[2] if t[0] == 'step' else '')] += 1
        if t[0] == 'step': sched.append(t[1] + t[2])
        if impl[i].startswith('ret') or ' ret ' in impl[i].split(' ## ')[0]: res['rets'] += 1
        if impl[i].startswith('end'): res['phases'] += 1
        sp = spec[i]
        if bad:
            # the model already disagreed in this scenario: keep looking for a clause of the property the implementation itself violates
            if bad == 'differ' and sp.startswith('IMPL-SPEC-FAIL'):
                bad = 'spec'
                res['problems'].append((list(cur), i - start, 'impl-violates-spec', 'op=%s | impl=%s | spec=%s' % (o, impl[i][:400], sp[:300]), False))
            continue
        if sp == 'X': res['out_contract'] += 1
        elif sp == 'OK': res['in_contract'] += 1
        kind = None
        if sp.startswith('IMPL-SPEC-FAIL'):
            kind = 'impl-violates-spec'
        elif impl[i] != model[i] and not (t[0] == 'iphase' and _RETS.sub('rets=', impl[i]) == _RETS.sub('rets=', model[i])):
            # (iphase: which of the K picks were the dropped ones of Initialize() is not observable; everything else is compared)
            kind = 'impl-model-differ'
        if kind:
            bad = 'spec' if kind == 'impl-violates-spec' else 'differ'
            res['problems'].append((list(cur), i - start, kind, 'op=%s | impl=%s | model=%s | spec=%s' % (o, impl[i][:400], model[i][:400], sp[:300]),
                                    timing_only(impl[i], model[i])))
    close_scn(n)
    for _, s in split_scn(ops)[:2]:
        res['samples'].append(' ; '.join(s[:40]))
    return res

def run_many(binary, base_wd, seed, shards, mode, n, nops=40, deadline=0, tag='', pool=None):
    """submit the shards of one mode; returns the futures if a shared pool is given, else the results"""
    own = pool is None
    ex = pool or ThreadPoolExecutor(max_workers=min(12, shards))
    futs = [ex.submit(run_shard, binary, os.path.join(base_wd, '%s%s%d' % (mode, tag, i)), seed * 1000 + i, mode, n, nops, deadline)
            for i in range(shards)]
    if not own:
        return futs
    out = [f.result() for f in futs]
    ex.shutdown()
    return out

_TIMING_FIELDS = re.compile(r'(live|closed|alive)=\S*')

def timing_only(impl, model):
    """could slowness alone explain this disagreement?  (a Pick / probe / descriptor close that has not
    happened YET: 'hang', or lines that differ only in the census, the closed set and the probed-alive set)"""
    if impl.startswith('hang') or impl.startswith('toolong'):
        return True
    return _TIMING_FIELDS.sub('', impl) == _TIMING_FIELDS.sub('', model)

def replay_ops(binary, ops_lines, wd):
    os.makedirs(wd, exist_ok=True)
    src = os.path.join(wd, 'ops.in')
    open(src, 'w').write('\n'.join(ops_lines) + '\n')
    p = subprocess.run([binary, '-replay', src, '-ops-out', os.path.join(wd, 'ops'), '-impl-out', os.path.join(wd, 'impl')],
                       stdout=subprocess.PIPE, stderr=subprocess.STDOUT, text=True, timeout=600)
    run_model(wd)
    r = analyse(wd, 'replay')
    if p.returncode != 0:
        r['problems'].append(([], 0, 'harness-exit', 'harness exit code %d: %s' % (p.returncode, p.stdout[-500:]), False))
    return r
