"""Confirm a seeded change and run checks against it.
usage: seedtest.py <patch dir (contains patch.diff + demo *_test.go)> <seeded id> <prop> [more props...]
Applies the patch in a scratch worktree of /repo (never in /repo), confirms: builds, demo fails with / passes
without, runs ./check <prop> with VERIF_REPO=<scratch>, stores everything under /verif/seeded/<id>/."""
import glob, json, os, shutil, subprocess, sys, time
V = os.path.dirname(os.path.dirname(os.path.abspath(__file__)))
env = dict(os.environ, GOFLAGS='-mod=mod', GOPROXY='off', GOSUMDB='off', GOTOOLCHAIN='local')

def sh(cmd, cwd=None, e=None, timeout=3600):
    p = subprocess.run(cmd, cwd=cwd, env=e or env, stdout=subprocess.PIPE, stderr=subprocess.STDOUT, text=True, timeout=timeout)
    return p.returncode, p.stdout

def main():
    src, sid, props = sys.argv[1], sys.argv[2], sys.argv[3:]
    scratch = '/tmp/seedtest_%s' % sid
    sh(['git', '-C', '/repo', 'worktree', 'remove', '--force', scratch])
    rc, o = sh(['git', '-C', '/repo', 'worktree', 'add', '--detach', scratch])
    assert rc == 0, o
    meta = {'id': sid, 'properties': props, 'source': src, 'ran': []}
    for f in glob.glob(os.path.join(V, 'seeded', sid, 'replay_*')): os.remove(f)
    old = os.path.join(V, 'seeded', sid, 'meta.json')
    if os.path.exists(old):
        try: meta['note'] = json.load(open(old)).get('note')
        except Exception: pass
    try:
        demos = [f for f in glob.glob(os.path.join(src, '*')) if f.endswith('_test.go') or (f.endswith('.go') and 'demo' in f)]
        pkg = os.environ.get('SEEDTEST_PKG', '.')
        for d in demos: shutil.copy(d, os.path.join(scratch, pkg))
        demo_names = ' '.join(os.path.basename(d) for d in demos)
        hook = os.path.join(src, 'demo_hook.diff')
        if os.path.exists(hook):
            # a clearly marked demo-only hook in the library (to hit the window deterministically); removed again before the checks run
            rc, o = sh(['git', 'apply', hook], cwd=scratch)
            meta['demo_hook'] = 'applied' if rc == 0 else 'did not apply: ' + o[:200]
        run_pat = 'Demo'
        race = ['-race'] if os.environ.get('SEEDTEST_RACE') else []
        rc0, o0 = sh(['go', 'test'] + race + ['-vet=off', '-count=1', '-run', run_pat, './' + pkg], cwd=scratch, timeout=900)
        meta['demo_without_change'] = 'pass' if rc0 == 0 else 'FAIL'
        rc, o = sh(['git', 'apply', os.path.join(src, 'patch.diff')], cwd=scratch)
        if rc != 0:
            meta['patch_applies'] = False
            prev = os.path.join(V, 'seeded', sid, 'meta.json')
            if os.path.exists(prev):
                pm = json.load(open(prev)); pm['patch_applies_to_current_repo'] = False
                pm['note'] = ((pm.get('note') or '') + ' The patch no longer applies to the current /repo (a later fix: commit changed the same lines); the results above are from the tree it was made for.').strip()
                json.dump(pm, open(prev, 'w'), indent=1)
            print(sid, 'patch does not apply any more:', o[:200]); return
        rc, o = sh(['go', 'build', './...'], cwd=scratch)
        meta['builds'] = rc == 0
        rc1, o1 = sh(['go', 'test'] + race + ['-vet=off', '-count=1', '-run', run_pat, './' + pkg], cwd=scratch, timeout=900)
        meta['demo_with_change'] = 'pass' if rc1 == 0 else 'fail'
        meta['ran'].append('go test' + (' -race' if race else '') + ' -run %s (demo files: %s): without change %s, with change %s' % (run_pat, demo_names, meta['demo_without_change'], meta['demo_with_change']))
        for d in demos: os.remove(os.path.join(scratch, pkg, os.path.basename(d)))
        if os.path.exists(hook) and meta.get('demo_hook') == 'applied':
            sh(['git', 'apply', '-R', hook], cwd=scratch)
        meta['checks'] = {}
        for p in props:
            t = time.time()
            e2 = dict(env, VERIF_REPO=scratch)
            rc, o = sh([os.path.join(V, 'check'), p, '--tier', 'quick'], cwd=V, e=e2, timeout=3600)
            viol = [l for l in o.split('\n') if l.startswith('VIOLATION')]
            meta['checks'][p] = {'exit': rc, 'violation_lines': viol, 'wall_s': round(time.time() - t), 'text': [l for l in o.split('\n') if l and not l.startswith('VIOLATION')][-3:]}
            meta['ran'].append('VERIF_REPO=%s ./check %s --tier quick -> exit %d %s' % (scratch, p, rc, viol[:1]))
            print(p, 'exit', rc, viol[:1], flush=True)
            # keep the replay next to the seeded change
            for v in viol:
                rp = v.split('replay=')[1].split()[0]
                if os.path.exists(rp):
                    os.makedirs(os.path.join(V, 'seeded', sid), exist_ok=True)
                    shutil.copy(rp, os.path.join(V, 'seeded', sid, 'replay_' + p + '_' + os.path.basename(rp)))
                    os.remove(rp)
    finally:
        sh(['git', '-C', '/repo', 'worktree', 'remove', '--force', scratch])
        # evidence files were rewritten against the scratch tree: restore the committed ones
        sh(['git', '-C', V, 'checkout', '--', 'evidence'])
        # the generated Lean facts were regenerated from the scratch tree: regenerate them from /repo
        sh([sys.executable, '-c', 'import sys; sys.path.insert(0, %r); import common; common.regen()' % os.path.join(V, 'lib')], cwd=V, e={k: v for k, v in env.items() if k != 'VERIF_REPO'})
    dst = os.path.join(V, 'seeded', sid); os.makedirs(dst, exist_ok=True)
    if os.path.abspath(src) != os.path.abspath(dst):
        shutil.copy(os.path.join(src, 'patch.diff'), dst)
        for f in glob.glob(os.path.join(src, '*')):
            if not f.endswith('patch.diff') and os.path.isfile(f): shutil.copy(f, dst)
    notes = os.path.join(src, 'notes.md')
    meta['breaks'] = props[0]
    meta['needs_to_manifest'] = open(notes).read()[:1500] if os.path.exists(notes) else ''
    json.dump(meta, open(os.path.join(dst, 'meta.json'), 'w'), indent=1)
    print(json.dumps({k: meta[k] for k in ('builds', 'demo_without_change', 'demo_with_change')}, indent=0))

main()
