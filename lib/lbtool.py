"""T-diff plumbing for the LinkBuffer family: run the Go harness and the Lean driver on the same op
lines, compare reply streams, shrink a disagreeing sequence (delta debugging over op lines)."""
import os, subprocess, sys, tempfile

VERIF = os.path.dirname(os.path.dirname(os.path.abspath(__file__)))
DRIVER = os.path.join(VERIF, 'lean/.lake/build/bin/npdriver')

def run_driver(mode, ops_path, out_path):
    with open(ops_path) as i, open(out_path, 'w') as o:
        subprocess.run([DRIVER, mode], stdin=i, stdout=o, check=True)

def split_seqs(lines):
    seqs, cur = [], None
    for l in lines:
        if l.startswith('seq '):
            cur = [l]; seqs.append(cur)
        elif cur is not None:
            cur.append(l)
    return seqs

def replay(binary, ops_lines, workdir, driver_mode='lb', extra=()):
    """run ops on impl (replay mode) and on the model; return (impl_lines, model_lines)"""
    op = os.path.join(workdir, 'r.ops'); io = os.path.join(workdir, 'r.impl'); mo = os.path.join(workdir, 'r.model')
    open(op, 'w').write('\n'.join(ops_lines) + '\n')
    subprocess.run([binary, '-replay', op, '-impl-out', io, *extra], check=True, timeout=120)
    run_driver(driver_mode, op, mo)
    return open(io).read().split('\n')[:-1], open(mo).read().split('\n')[:-1]

def first_diff(a, b):
    for i, (x, y) in enumerate(zip(a, b)):
        if x != y:
            return i
    if len(a) != len(b):
        return min(len(a), len(b))
    return None

def shrink(binary, seq_lines, workdir, differs, max_rounds=400):
    """seq_lines[0] is the `seq` header. differs(lines)->bool. classic ddmin on the op lines."""
    head, ops = seq_lines[0], list(seq_lines[1:])
    assert differs([head] + ops)
    n = 2; rounds = 0
    while len(ops) >= 2 and rounds < max_rounds:
        chunk = max(1, len(ops) // n); reduced = False
        for i in range(0, len(ops), chunk):
            cand = ops[:i] + ops[i + chunk:]
            rounds += 1
            if cand and differs([head] + cand):
                ops = cand; n = max(n - 1, 2); reduced = True; break
        if not reduced:
            if chunk == 1: break
            n = min(len(ops), n * 2)
    return [head] + ops

if __name__ == '__main__':
    # lbtool.py shrink <binary> <opsfile> <seqno>
    binary, opsfile, seqno = sys.argv[2], sys.argv[3], int(sys.argv[4])
    seqs = split_seqs(open(opsfile).read().split('\n'))
    seq = [s for s in seqs if s[0].split()[1] == str(seqno)][0]
    wd = tempfile.mkdtemp()
    def differs(lines):
        a, b = replay(binary, lines, wd)
        return first_diff(a, b) is not None
    out = shrink(binary, seq, wd, differs)
    print('\n'.join(out))
    a, b = replay(binary, out, wd)
    i = first_diff(a, b)
    print('IMPL', a[i][:600]); print('MODL', b[i][:600])
