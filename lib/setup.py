"""MANIFEST.setup_cmd: build everything from files on disk (offline)."""
import os, sys
sys.path.insert(0, os.path.dirname(os.path.abspath(__file__)))
import common
os.makedirs(common.WORK, exist_ok=True)
ok, o = common.regen()
print('regen:', ok); 
if not ok: print(o); sys.exit(1)
import glob
mods = sorted('Netpoll.' + d + '.' + os.path.basename(f)[:-5] for d in ('Props', 'Tie')
              for f in glob.glob(os.path.join(common.LEAN, 'Netpoll', d, '*.lean')))
ok, o = common.lake_build(['Netpoll', 'npdriver'] + mods)   # default targets + every property / tie module
print(o[-1500:])
if not ok: sys.exit(1)
for name in sorted(os.listdir(os.path.join(common.GO, 'cmd'))):
    b, o = common.build_harness(name)
    print('harness', name, 'ok' if b else 'FAILED')
    if not b: print(o[-1500:]); sys.exit(1)
