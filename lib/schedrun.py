"""T-sched driver shared by checks/c05.py, c06.py, c09.py (and meant for C07/C08/C10/C19): builds the instrumented
harness (go/cmd/sched), runs corpus schedules, systematic enumeration (preemption bound) and seeded random walks in
shards, pipes every trace through `npdriver life` (trace conformance against Netpoll.Conn.Life + the Lean spec oracle
Netpoll.Conn.LifeSpec) and collects verdicts, replayable failures and coverage.  See SCHED.md."""
import glob, itertools, json, os, random, re, subprocess, time
from concurrent.futures import ThreadPoolExecutor
import common

# ------------------------------------------------------------------------------------------------------------------
# scenarios

# hand-picked core: every one targets a window named by C05/C06/C09 (always run, enumerated systematically)
CORE = [
    # C05: closers x hang-up x handler returning / closing / panicking
    'style=server,oc=none,od=0,or=consume,closers=2,ev=d5.h',
    'style=server,oc=none,od=0,or=panic,closers=1,ev=d5.h',
    'style=server,oc=none,od=0,or=close,closers=1,ev=d5.h',
    'style=server,oc=none,od=0,or=consume,closers=1,detach=1,ev=d5.h',
    'style=server,oc=none,od=0,or=none,closers=2,detach=1,ev=h',
    'style=server,oc=short,od=1,or=consume,closers=1,ev=d5.h,prep=close',
    'style=server,oc=none,od=0,or=consume,closers=3,ev=d4',
    # C06: deliveries x task exit window x hang-up; SetOnRequest with buffered data; OnConnect still running
    'style=server,oc=none,od=0,or=consume,closers=0,ev=d5.d12.h,ncb=1',
    'style=server,oc=none,od=0,or=partial,closers=0,ev=d5.d3.h,ncb=1',
    'style=server,oc=none,od=0,or=lazy,closers=0,ev=d4.x6,ncb=1',
    'style=server,oc=read,od=0,or=consume,closers=0,ev=d5.d3.h,ncb=1',
    'style=server,oc=short,od=0,or=consume,closers=0,ev=d5.d3,ncb=1',
    'style=client,od=0,or=consume,closers=0,ev=d5.d3.h,setreq=1,ncb=1',
    'style=client,od=0,or=consume,closers=1,ev=d5.h,setreq=1,ncb=1',
    'style=server,oc=none,od=0,or=consume,closers=0,ev=d5.d3,rel=1,ncb=1',
    # C09: OnConnect duration x peer close x user close inside callbacks
    'style=server,oc=short,od=1,or=none,closers=0,ev=h,ncb=1',
    'style=server,oc=short,od=1,or=consume,closers=0,ev=d5.h,ncb=1',
    'style=server,oc=close,od=1,or=consume,closers=0,ev=d5.h,ncb=1',
    'style=server,oc=panic,od=1,or=consume,closers=1,ev=d5.h,ncb=1',
    'style=server,oc=none,od=1,or=consume,closers=1,ev=d5.h,ncb=1',
    'style=server,oc=short,od=1,or=close,closers=0,ev=x7,ncb=1',
    'style=client,od=1,or=none,closers=1,ev=h,ncb=1',
]

def product_space():
    out = []
    for oc, od, orq, closers, det, ev, prep in itertools.product(
            ['none', 'short', 'close', 'panic', 'read'], [0, 1], ['none', 'consume', 'partial', 'lazy', 'close', 'panic'],
            [0, 1, 2, 3], [0, 1], ['-', 'd5', 'h', 'd5.h', 'd5.d3.h', 'x7', 'd4.x6', 'd2.d2.d2'], ['ok', 'close']):
        out.append('style=server,oc=%s,od=%d,or=%s,closers=%d,detach=%d,ev=%s,prep=%s,obs=1' % (oc, od, orq, closers, det, ev, prep))
    for od, orq, closers, det, ev, sr, rel in itertools.product(
            [0, 1], ['none', 'consume', 'partial', 'lazy', 'close', 'panic'], [0, 1, 2], [0, 1],
            ['-', 'd5', 'h', 'd5.h', 'd5.d3.h', 'x7'], [0, 1], [0, 1]):
        out.append('style=client,od=%d,or=%s,closers=%d,detach=%d,ev=%s,setreq=%d,rel=%d,obs=1' % (od, orq, closers, det, ev, sr, rel))
    return out

def sample_scenarios(seed, n):
    sp = product_space()
    random.Random(seed).shuffle(sp)
    return sp[:n]

# ------------------------------------------------------------------------------------------------------------------
# running

def build():
    """instrument + build go/cmd/sched against the repo's current tree. Returns (binary or None, output)."""
    return common.build_harness('sched')

def _runs_of(trace_path):
    """split a trace file into runs: {id: (scn, sched, [lines])} (only for ids in `want` if given)"""
    runs = {}
    cur = None
    with open(trace_path) as f:
        for line in f:
            if line.startswith('run '):
                p = line.split(' ', 3)
                cur = [p[1], p[3].strip() if len(p) > 3 else '', '', [line.rstrip('\n')]]
                runs[p[1]] = cur
            elif cur is not None:
                cur[3].append(line.rstrip('\n'))
                if line.startswith('sched'):
                    cur[2] = line[5:].strip()
                    cur = None
    return runs

def run_job(binary, wd, name, args, timeout=3000):
    """one shard: sched <args> -> trace; npdriver life trace -> verdicts. Returns a result dict."""
    os.makedirs(wd, exist_ok=True)
    trace = os.path.join(wd, name + '.trace'); res = os.path.join(wd, name + '.res')
    t0 = time.time()
    p = subprocess.run([binary] + args + ['-out', trace], stdout=subprocess.PIPE, stderr=subprocess.STDOUT, text=True, timeout=timeout)
    t1 = time.time()
    out = {'name': name, 'runs': 0, 'lines': 0, 'conf_fail': [], 'spec_fail': [], 'sites': {}, 'enum': [], 'harness_rc': p.returncode,
           'harness_out': p.stdout[-2000:], 'statuses': {}, 'distinct': 0, 'diverged': 0, 'go_s': t1 - t0}
    if p.returncode != 0:
        return out
    with open(res, 'w') as o:
        q = subprocess.run([common.DRIVER, 'life', trace], stdout=o, stderr=subprocess.PIPE, text=True, timeout=timeout)
    out['lean_s'] = time.time() - t1
    if q.returncode != 0:
        out['harness_rc'] = 100 + q.returncode
        out['harness_out'] = q.stderr[-2000:]
        return out
    bad = {}
    for l in open(res):
        if l.startswith('run '):
            if 'conf=ok spec=ok' in l:
                continue
            p2 = l.split(' ', 2)
            bad[p2[1]] = l.strip()
        elif l.startswith('total '):
            m = dict(kv.split('=') for kv in l.split()[1:])
            out['runs'] = int(m['runs']); out['lines'] = int(m['lines'])
    hashes = set()
    runs = None
    with open(trace) as f:
        h = 0
        for line in f:
            if line.startswith('info site '):
                _, _, site, n = line.split()
                out['sites'][site] = out['sites'].get(site, 0) + int(n)
            elif line.startswith('info enum '):
                out['enum'].append(line.strip())
            elif line.startswith('end '):
                st = line.split()[1]
                out['statuses'][st] = out['statuses'].get(st, 0) + 1
            elif line.startswith('run '):
                h = 0
                if 'DIVERGED' in line: out['diverged'] += 1
            elif line.startswith('sched'):
                hashes.add(h)
            else:
                h = hash((h, line))
    out['distinct'] = len(hashes)
    if bad:
        runs = _runs_of(trace)
        for rid, verdict in bad.items():
            r = runs.get(rid)
            if not r: continue
            rec = {'scn': r[1].split(' ')[0].replace('scn ', ''), 'sched': r[2], 'verdict': verdict, 'trace': r[3]}
            (out['spec_fail'] if 'spec=FAIL' in verdict else out['conf_fail']).append(rec)
    if not bad:
        os.remove(trace)   # keep only traces with something to look at
    return out

def run_jobs(binary, wd, jobs, workers=16):
    """jobs: list of (name, args). Returns list of result dicts."""
    with ThreadPoolExecutor(max_workers=workers) as ex:
        futs = [ex.submit(run_job, binary, wd, n, a) for n, a in jobs]
        return [f.result() for f in futs]

def chunks(lst, k):
    k = max(1, k)
    return [lst[i::k] for i in range(k) if lst[i::k]]

def plan(tier, seed, escalate=False):
    """the jobs of one check run: systematic enumeration of the core scenarios + sampled scenarios, then random walks"""
    if tier == 'thorough':
        bound, maxruns, nsample, walks, wbound = 3, 40000, 480, 400, 2
    else:
        bound, maxruns, nsample, walks, wbound = 2, 2500, 96, 60, 2
    if escalate:
        maxruns *= 3; walks *= 3
    jobs = []
    for i, grp in enumerate(chunks(CORE, 16)):
        jobs.append(('enum-core-%d' % i, ['-mode', 'enum', '-bound', str(bound), '-maxruns', str(maxruns), '-seed', str(seed), '-scn', ';'.join(grp)]))
    samp = sample_scenarios(seed, nsample)
    for i, grp in enumerate(chunks(samp, 16)):
        jobs.append(('enum-samp-%d' % i, ['-mode', 'enum', '-bound', str(wbound), '-maxruns', str(max(200, maxruns // 8)), '-seed', str(seed), '-scn', ';'.join(grp)]))
    for i, grp in enumerate(chunks(CORE + samp, 16)):
        jobs.append(('walk-%d' % i, ['-mode', 'random', '-runs', str(walks), '-seed', str(seed * 31 + i), '-scn', ';'.join(grp)]))
    return jobs, dict(bound=bound, maxruns=maxruns, sampled_scenarios=nsample, walks_per_scenario=walks)

def replay_file(binary, path, wd, name='replay', checkgid=True):
    """replay a schedule file (scn/sched lines); returns run_job result"""
    args = ['-mode', 'replay', '-in', path]
    if checkgid: args.append('-checkgid')
    return run_job(binary, wd, name, args)

def write_sched_file(path, rec, comment=''):
    with open(path, 'w') as f:
        for l in comment.split('\n'):
            if l: f.write('# ' + l + '\n')
        f.write('scn %s\nsched %s\n' % (rec['scn'], rec['sched']))

def shrink_schedule(binary, rec, wd, still_fails):
    """shorten the schedule: the tail after the last needed choice falls to the default (non-preemptive) policy.
    still_fails(result) decides whether a replay still shows the failure."""
    names = rec['sched'].split(',') if rec['sched'] else []
    lo, hi = 0, len(names)
    def fails(k):
        p = os.path.join(wd, 'shrink.sched')
        write_sched_file(p, {'scn': rec['scn'], 'sched': ','.join(names[:k])})
        return still_fails(replay_file(binary, p, wd, 'shrink', checkgid=False))
    try:
        if not fails(hi):
            return rec
        while lo < hi:
            mid = (lo + hi) // 2
            if fails(mid): hi = mid
            else: lo = mid + 1
        return {'scn': rec['scn'], 'sched': ','.join(names[:hi]), 'verdict': rec.get('verdict', ''), 'trace': rec.get('trace', [])}
    except Exception:
        return rec
