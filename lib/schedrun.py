"""T-sched driver shared by checks/c05.py, c06.py, c09.py (and meant for C07/C08/C10/C19): builds the instrumented
harness (go/cmd/sched), runs corpus schedules, systematic enumeration (preemption bound) and seeded random walks in
shards, pipes every trace through `npdriver life` (trace conformance against Netpoll.Conn.Life + the Lean spec oracle
Netpoll.Conn.LifeSpec) and collects verdicts, replayable failures and coverage.  See SCHED.md."""
import glob, itertools, json, os, random, re, subprocess, time
from concurrent.futures import ThreadPoolExecutor
import common

# ------------------------------------------------------------------------------------------------------------------
# scenarios

# hand-picked core: every one targets a window named by C05/C06/C09 (always run, enumerated systematically)
CORE = [
    # C05: closers x hang-up x handler returning / closing / panicking
    'style=server,oc=none,od=0,or=consume,closers=2,ev=d5.h',
    'style=server,oc=none,od=0,or=panic,closers=1,ev=d5.h',
    'style=server,oc=none,od=0,or=close,closers=1,ev=d5.h',
    'style=server,oc=none,od=0,or=consume,closers=1,detach=1,ev=d5.h',
    'style=server,oc=none,od=0,or=none,closers=2,detach=1,ev=h',
    'style=server,oc=short,od=1,or=consume,closers=1,ev=d5.h,prep=close',
    'style=server,oc=none,od=0,or=consume,closers=3,ev=d4',
    # C06: deliveries x task exit window x hang-up; SetOnRequest with buffered data; OnConnect still running
    'style=server,oc=none,od=0,or=consume,closers=0,ev=d5.d12.h,ncb=1',
    'style=server,oc=none,od=0,or=partial,closers=0,ev=d5.d3.h,ncb=1',
    'style=server,oc=none,od=0,or=lazy,closers=0,ev=d4.x6,ncb=1',
    'style=server,oc=read,od=0,or=consume,closers=0,ev=d5.d3.h,ncb=1',
    'style=server,oc=short,od=0,or=consume,closers=0,ev=d5.d3,ncb=1',
    'style=client,od=0,or=consume,closers=0,ev=d5.d3.h,setreq=1,ncb=1',
    'style=client,od=0,or=consume,closers=1,ev=d5.h,setreq=1,ncb=1',
    'style=client,od=0,or=consume,closers=0,ev=d5,setreq=1,ncb=1',
    'style=client,od=0,or=partial,closers=0,ev=d5.d3,setreq=1,ncb=1',
    'style=server,oc=none,od=0,or=consume,closers=0,ev=d5.d3,rel=1,ncb=1',
    # C09: OnConnect duration x peer close x user close inside callbacks
    'style=server,oc=short,od=1,or=none,closers=0,ev=h,ncb=1',
    'style=server,oc=short,od=1,or=consume,closers=0,ev=d5.h,ncb=1',
    'style=server,oc=close,od=1,or=consume,closers=0,ev=d5.h,ncb=1',
    'style=server,oc=panic,od=1,or=consume,closers=1,ev=d5.h,ncb=1',
    'style=server,oc=none,od=1,or=consume,closers=1,ev=d5.h,ncb=1',
    'style=server,oc=short,od=1,or=close,closers=0,ev=x7,ncb=1',
    'style=client,od=1,or=none,closers=1,ev=h,ncb=1',
]

def product_space():
    out = []
    for oc, od, orq, closers, det, ev, prep in itertools.product(
            ['none', 'short', 'close', 'panic', 'read'], [0, 1], ['none', 'consume', 'partial', 'lazy', 'close', 'panic'],
            [0, 1, 2, 3], [0, 1], ['-', 'd5', 'h', 'd5.h', 'd5.d3.h', 'x7', 'd4.x6', 'd2.d2.d2'], ['ok', 'close']):
        out.append('style=server,oc=%s,od=%d,or=%s,closers=%d,detach=%d,ev=%s,prep=%s,obs=1' % (oc, od, orq, closers, det, ev, prep))
    for od, orq, closers, det, ev, sr, rel in itertools.product(
            [0, 1], ['none', 'consume', 'partial', 'lazy', 'close', 'panic'], [0, 1, 2], [0, 1],
            ['-', 'd5', 'h', 'd5.h', 'd5.d3.h', 'x7'], [0, 1], [0, 1]):
        out.append('style=client,od=%d,or=%s,closers=%d,detach=%d,ev=%s,setreq=%d,rel=%d,obs=1' % (od, orq, closers, det, ev, sr, rel))
    return out

def sample_scenarios(seed, n):
    sp = product_space()
    random.Random(seed).shuffle(sp)
    return sp[:n]

# ------------------------------------------------------------------------------------------------------------------
# running

def build():
    """instrument + build go/cmd/sched against the repo's current tree. Returns (binary or None, output)."""
    return common.build_harness('sched')

def _runs_of(trace_path):
    """split a trace file into runs: {id: (scn, sched, [lines])} (only for ids in `want` if given)"""
    runs = {}
    cur = None
    with open(trace_path) as f:
        for line in f:
            if line.startswith('run '):
                p = line.split(' ', 3)
                cur = [p[1], p[3].strip() if len(p) > 3 else '', '', [line.rstrip('\n')]]
                runs[p[1]] = cur
            elif cur is not None:
                cur[3].append(line.rstrip('\n'))
                if line.startswith('sched'):
                    cur[2] = line[5:].strip()
                    cur = None
    return runs

def run_job(binary, wd, name, args, timeout=3000, mode='life'):
    """one shard: sched <args> -> trace; npdriver <mode> trace -> verdicts (mode: life | read | flush). Returns a result dict."""
    os.makedirs(wd, exist_ok=True)
    trace = os.path.join(wd, name + '.trace'); res = os.path.join(wd, name + '.res')
    t0 = time.time()
    p = subprocess.run([binary] + args + ['-out', trace], stdout=subprocess.PIPE, stderr=subprocess.STDOUT, text=True, timeout=timeout)
    t1 = time.time()
    out = {'name': name, 'runs': 0, 'lines': 0, 'conf_fail': [], 'spec_fail': [], 'sites': {}, 'enum': [], 'harness_rc': p.returncode,
           'harness_out': p.stdout[-2000:], 'statuses': {}, 'distinct': 0, 'diverged': 0, 'go_s': t1 - t0, 'stuck': False,
           'known': [], 'stats': {}}
    if p.returncode == 3:
        out['stuck'] = True      # the harness stopped after a run in which an actor never reached a schedule point
        out['harness_rc'] = 0
    elif p.returncode != 0:
        return out
    with open(res, 'w') as o:
        q = subprocess.run([common.DRIVER, mode, trace], stdout=o, stderr=subprocess.PIPE, text=True, timeout=timeout)
    out['lean_s'] = time.time() - t1
    if q.returncode != 0:
        out['harness_rc'] = 100 + q.returncode
        out['harness_out'] = q.stderr[-2000:]
        return out
    bad = {}
    known = {}
    for l in open(res):
        if l.startswith('run '):
            if ' | known: ' in l:
                known[l.split(' ', 2)[1]] = l.strip()
            if 'conf=ok spec=ok' in l:
                continue
            p2 = l.split(' ', 2)
            bad[p2[1]] = l.strip()
        elif l.startswith('total '):
            m = dict(kv.split('=') for kv in l.split()[1:])
            out['runs'] = int(m['runs']); out['lines'] = int(m['lines'])
        elif l.startswith('stat '):
            k, v = l[5:].rstrip().rsplit(' ', 1)
            out['stats'][k] = out['stats'].get(k, 0) + int(v)
    hashes = set()
    runs = None
    with open(trace) as f:
        h = 0
        for line in f:
            if line.startswith('info site '):
                _, _, site, n = line.split()
                out['sites'][site] = out['sites'].get(site, 0) + int(n)
            elif line.startswith('info enum '):
                out['enum'].append(line.strip())
            elif line.startswith('end '):
                st = line.split()[1]
                out['statuses'][st] = out['statuses'].get(st, 0) + 1
            elif line.startswith('run '):
                h = 0
                if 'DIVERGED' in line: out['diverged'] += 1
            elif line.startswith('sched'):
                hashes.add(h)
            else:
                h = hash((h, line))
    out['distinct'] = len(hashes)
    if known:
        runs = _runs_of(trace)
        for rid, verdict in known.items():
            r = runs.get(rid)
            if r: out['known'].append({'scn': r[1].split(' ')[0], 'sched': r[2], 'verdict': verdict})
    if bad:
        runs = runs or _runs_of(trace)
        for rid, verdict in bad.items():
            r = runs.get(rid)
            if not r: continue
            rec = {'scn': r[1].split(' ')[0].replace('scn ', ''), 'sched': r[2], 'verdict': verdict, 'trace': r[3]}
            (out['spec_fail'] if 'spec=FAIL' in verdict else out['conf_fail']).append(rec)
    if not bad:
        os.remove(trace)   # keep only traces with something to look at
    return out

def run_jobs(binary, wd, jobs, workers=16, mode='life'):
    """jobs: list of (name, args). Returns list of result dicts."""
    with ThreadPoolExecutor(max_workers=workers) as ex:
        futs = [ex.submit(run_job, binary, wd, n, a, 3000, mode) for n, a in jobs]
        return [f.result() for f in futs]

def chunks(lst, k):
    k = max(1, k)
    return [lst[i::k] for i in range(k) if lst[i::k]]

def plan(tier, seed, escalate=False):
    """the jobs of one check run: systematic enumeration of the core scenarios + sampled scenarios, then random walks"""
    if tier == 'thorough':
        bound, maxruns, nsample, walks, wbound = 3, 30000, 240, 300, 3
    else:
        bound, maxruns, nsample, walks, wbound = 2, 1200, 64, 30, 2
    if escalate:
        maxruns *= 3; walks *= 3
    jobs = []
    for i, grp in enumerate(chunks(CORE, 16)):
        jobs.append(('enum-core-%d' % i, ['-mode', 'enum', '-bound', str(bound), '-maxruns', str(maxruns), '-seed', str(seed), '-scn', ';'.join(grp)]))
    samp = sample_scenarios(seed, nsample)
    for i, grp in enumerate(chunks(samp, 16)):
        jobs.append(('enum-samp-%d' % i, ['-mode', 'enum', '-bound', str(wbound), '-maxruns', str(max(200, maxruns // 8)), '-seed', str(seed), '-scn', ';'.join(grp)]))
    for i, grp in enumerate(chunks(CORE + samp, 16)):
        jobs.append(('walk-%d' % i, ['-mode', 'random', '-runs', str(walks), '-seed', str(seed * 31 + i), '-scn', ';'.join(grp)]))
    return jobs, dict(bound=bound, maxruns=maxruns, sampled_scenarios=nsample, walks_per_scenario=walks)

def replay_file(binary, path, wd, name='replay', checkgid=True, mode='life'):
    """replay a schedule file (scn/sched lines); returns run_job result"""
    args = ['-mode', 'replay', '-in', path]
    if checkgid: args.append('-checkgid')
    return run_job(binary, wd, name, args, 3000, mode)

def write_sched_file(path, rec, comment=''):
    with open(path, 'w') as f:
        for l in comment.split('\n'):
            if l: f.write('# ' + l + '\n')
        f.write('scn %s\nsched %s\n' % (rec['scn'], rec['sched']))

def shrink_schedule(binary, rec, wd, still_fails, mode='life'):
    """shorten the schedule: the tail after the last needed choice falls to the default (non-preemptive) policy.
    still_fails(result) decides whether a replay still shows the failure."""
    names = rec['sched'].split(',') if rec['sched'] else []
    lo, hi = 0, len(names)
    def fails(k):
        p = os.path.join(wd, 'shrink.sched')
        write_sched_file(p, {'scn': rec['scn'], 'sched': ','.join(names[:k])})
        return still_fails(replay_file(binary, p, wd, 'shrink', checkgid=False, mode=mode))
    try:
        if not fails(hi):
            return rec
        while lo < hi:
            mid = (lo + hi) // 2
            if fails(mid): hi = mid
            else: lo = mid + 1
        return {'scn': rec['scn'], 'sched': ','.join(names[:hi]), 'verdict': rec.get('verdict', ''), 'trace': rec.get('trace', [])}
    except Exception:
        return rec

# ------------------------------------------------------------------------------------------------------------------
# the check shared by C05 / C06 / C09

MIRRORED = ['locker.closeBy', 'locker.isCloseBy', 'locker.status', 'locker.force', 'locker.lock', 'locker.unlock', 'locker.stop',
            'connection.onHup', 'connection.onClose', 'connection.closeCallback', 'connection.onConnect', 'connection.onDisconnect',
            'connection.onRequest', 'connection.onProcess', 'connection.inputAck', 'connection.triggerRead', 'connection.triggerWrite',
            'connection.Close', 'connection.Detach', 'connection.IsActive', 'connection.initFinalizer', 'connection.onPrepare',
            'connection.register', 'connection.SetOnRequest', 'connection.AddCloseCallback', 'connection.closeBuffer',
            'connection.getState', 'connection.setState', 'connection.changeState', 'connection.init', 'connection.Release',
            'FDOperator.Control', 'FDOperator.Free', 'FDOperator.do', 'FDOperator.done', 'FDOperator.inuse', 'FDOperator.unused',
            'FDOperator.reset', 'operatorCache.freeable', 'netFD.Close', 'UnsafeLinkBuffer.Len', 'UnsafeLinkBuffer.recalLen',
            'server.onAccept', 'defaultPoll.handler', 'defaultPoll.appendHup', 'defaultPoll.detach', 'defaultPoll.onhups', 'readall']

def fingerprint_changes():
    """mirrored functions whose source differs from lib/expected_fp.json (escalates the search; never an alarm by itself)"""
    exp_path = os.path.join(common.VERIF, 'lib/expected_fp_life.json')
    if not os.path.exists(exp_path):
        return []
    exp = json.load(open(exp_path))
    cur = common.facts()['funcs']
    return [n for n in MIRRORED if n in exp and (n not in cur or cur[n]['hash'] != exp[n])]

def _mine(rec, prop):
    """does this spec failure concern property `prop`?"""
    v = rec['verdict']
    return ('spec: ' in v) and any(part.strip().startswith(prop + ' ') for part in v.split('spec: ', 1)[1].split(';'))

def _replay_lines(rec, why):
    L = ['# ' + why, 'scn ' + rec['scn'], 'sched ' + rec['sched'], '# --- trace of the failing run (as executed by go/cmd/sched) ---']
    L += ['# ' + l for l in rec.get('trace', [])[:400]]
    return L

def check(rep, prop, modules, assumptions):
    wd = os.path.join(common.WORK, prop)
    import shutil
    shutil.rmtree(wd, ignore_errors=True); os.makedirs(wd)
    ok, detail = common.proof_stage(rep, modules, ['npdriver'])
    proof_broken = None if ok else detail
    binary, out = build()
    if binary is None:
        rep.violation('instrumented harness does not build against the repo (does the tree compile? did a protocol file change shape?):\n' + out[-2500:],
                      ['# go build / tools/instrument failed', '# ' + out[-1500:].replace('\n', '\n# ')], no_input=True)
        return
    changed = fingerprint_changes() if os.path.exists(os.path.join(common.WORK, 'facts.json')) else []
    escalate = bool(changed) or proof_broken is not None
    if changed:
        rep.notes.append('mirrored functions whose source changed since the model was validated (search escalated): ' + ', '.join(changed))
    # corpus first
    results = []
    ncorpus = 0
    for f in sorted(glob.glob(os.path.join(common.VERIF, 'corpus', 'C0[569]', '*.sched'))):
        r = replay_file(binary, f, os.path.join(wd, 'corpus'), os.path.basename(f).replace('.sched', ''))
        r['corpus'] = os.path.basename(f)
        ncorpus += r['runs']
        results.append(r)
    jobs, cfg = plan(rep.tier, rep.seed, escalate)
    results += run_jobs(binary, wd, jobs)
    spec_mine, spec_other, conf = [], [], []
    for r in results:
        if r['harness_rc'] != 0:
            rep.violation('harness run failed (%s rc=%s): %s' % (r['name'], r['harness_rc'], r['harness_out'][-800:]), ['# harness failure'], no_input=True, tag='harness-')
            return
        for f in r['spec_fail']:
            (spec_mine if _mine(f, prop) else spec_other).append(f)
        for f in r['conf_fail']:
            conf.append(f)
    if (conf or proof_broken) and not spec_mine and not escalate:
        # widened search before reporting "no failing input found"
        jobs2, _ = plan(rep.tier, rep.seed + 1000, True)
        more = run_jobs(binary, os.path.join(wd, 'wide'), jobs2)
        results += more
        for r in more:
            for f in r['spec_fail']:
                (spec_mine if _mine(f, prop) else spec_other).append(f)
            conf += r['conf_fail']
    runs = sum(r['runs'] for r in results)
    rep.cov['evaluations'] = runs
    rep.cov['distinct_nontrivial'] = sum(r['distinct'] for r in results)
    rep.cov['rule'] = ('schedules executed on the REAL code under the controlled scheduler (instrumented copies of the protocol files regenerated from the repo by '
                       'tools/instrument; exactly one actor runs between schedule points); every trace is replayed step by step on the Lean model Netpoll.Conn.Life '
                       '(trace conformance) and judged by the Lean spec oracle Netpoll.Conn.LifeSpec; distinct_nontrivial = distinct traces (hash of all step lines) per shard, summed')
    rep.cov['traces_validated_against_impl'] = runs
    rep.cov['trace_lines'] = sum(r['lines'] for r in results)
    rep.cov['corpus_schedules'] = ncorpus
    rep.cov['plan'] = cfg
    enum = [e for r in results for e in r['enum']]
    rep.cov['enumerated_scenarios'] = len(enum)
    rep.cov['enumerations_exhausted'] = sum(1 for e in enum if 'exhausted=true' in e)
    rep.cov['max_preemptions_reached'] = max([int(re.search(r'maxpreempt=(\d+)', e).group(1)) for e in enum] or [0])
    st = {}
    for r in results:
        for k, v in r['statuses'].items(): st[k] = st.get(k, 0) + v
    rep.cov['run_status'] = st
    hits = {}
    for r in results:
        for k, v in r['sites'].items(): hits[k] = hits.get(k, 0) + v
    try:
        sites = common.instr_sites()['sites']
        inst = [x['id'] for x in sites if x['instrumented']]
        rep.cov['sites_instrumented'] = len(inst)
        rep.cov['sites_hit_as_schedule_points'] = sorted(k for k in hits if not k.startswith('~'))
        rep.cov['sites_passed_unscheduled'] = sorted(k[1:] for k in hits if k.startswith('~') and k[1:] not in hits)
        rep.cov['sites_never_hit'] = sorted(x for x in inst if x not in hits and '~' + x not in hits)
        rep.cov['constructs_not_instrumented'] = [x['id'] + ' ' + x['note'] for x in sites if not x['instrumented'] and x['kind'] in ('select', 'recv', 'send', 'atomic', 'gosched', 'callback', 'sysclose') and 'select case' not in x.get('note', '')]
    except Exception as e:
        rep.notes.append('site coverage unavailable: %r' % (e,))
    rep.cov['samples'] = ['scn %s | sched %s' % (j[1][j[1].index('-scn') + 1].split(';')[0], '(enumerated)') for j in jobs[:2]]
    rep.cov['spec_failures_of_other_properties_in_these_runs'] = len(spec_other)
    rep.assumptions += assumptions
    # verdict
    if spec_mine:
        f = min(spec_mine, key=lambda x: len(x['sched']))
        small = shrink_schedule(binary, f, os.path.join(wd, 'shrink'), lambda r: any(_mine(x, prop) for x in r['spec_fail']))
        rep.violation('implementation violates the %s spec under a concrete schedule (%d failing schedules in %d runs; shortest, shrunk, is the replay): %s'
                      % (prop, len(spec_mine), runs, f['verdict'].split('spec: ', 1)[1][:600]), _replay_lines(small, 'replay with ./check %s --replay <this file>' % prop))
    elif conf:
        f = min(conf, key=lambda x: len(x['sched']))
        rep.violation('trace conformance Netpoll.Conn.Life <-> code no longer checks (%d of %d runs) and no %s-violating schedule was found in the widened search: %s'
                      % (len(conf), runs, prop, f['verdict'].split('conf: ', 1)[1][:600]), _replay_lines(f, 'correspondence break (model step refused / result differs)'), no_input=True)
    elif any(r.get('stuck') for r in results):
        r = [r for r in results if r.get('stuck')][0]
        rep.violation('an actor did not reach a schedule point within the watchdog (blocking operation outside the instrumentation, or a deadlock) in shard %s; no %s-violating schedule found' % (r['name'], prop),
                      ['# see work/%s/%s.trace (last run)' % (prop, r['name'])], no_input=True)
    elif proof_broken:
        rep.violation('proof obligation broken and no failing schedule found in %d runs: %s' % (runs, proof_broken),
                      ['# ' + l for l in proof_broken.split('\n')], no_input=True)
    for k in common.known_findings(prop):
        if k.get('status') == 'finding':
            print('KNOWN-FINDING: property=%s %s' % (prop, k['what']))

def replay(rep, prop, path):
    binary, out = build()
    if binary is None:
        rep.violation('harness does not build:\n' + out[-2000:], ['# build failed'], no_input=True)
        return rep.finish('proof')
    common.lake_build(['npdriver'])
    r = replay_file(binary, path, os.path.join(common.WORK, 'replay-' + prop))
    rep.cov['evaluations'] = r['runs']
    for f in r['spec_fail'] + r['conf_fail']:
        print('REPLAY: ' + f['verdict'][:1500])
    mine = [f for f in r['spec_fail'] if _mine(f, prop)]
    if mine:
        rep.violation('replay reproduces: ' + mine[0]['verdict'].split('spec: ', 1)[1][:600], _replay_lines(mine[0], 'replayed'))
    elif r['conf_fail']:
        rep.violation('replay reproduces the correspondence break: ' + r['conf_fail'][0]['verdict'][:600], _replay_lines(r['conf_fail'][0], 'replayed'), no_input=True)
    elif r['runs'] == 0:
        print('REPLAY: no schedule in file (need `scn <spec>` and `sched <choices>` lines)')
    else:
        print('REPLAY: %d schedule(s) ran, spec and conformance ok' % r['runs'])
    return rep.finish('proof')
