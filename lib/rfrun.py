"""C07 / C08 on the controlled scheduler (T-sched): scenarios of go/inpkg/sched_read.go / sched_flush.go, corpus replays,
systematic enumeration up to a preemption bound + seeded random walks in 16 shards, every trace through `npdriver read|flush`
(trace conformance against Netpoll.Conn.Read / Netpoll.Conn.Flush + the Lean spec oracles Netpoll.Conn.ReadSpec / FlushSpec).
Shared by checks/c07.py and checks/c08.py; the process plumbing is lib/schedrun.py.  See SCHED.md."""
import glob, itertools, json, os, random, re, shutil
import common, schedrun

# ------------------------------------------------------------------------------------------------------------------
# scenarios (spec strings of sched_read.go / sched_flush.go)

CORE = {
    'C07': [
        # the n-th byte, the timer, a hang-up and a user Close inside one window; successive reads
        'kind=read,ctor=std,calls=N3.N5t,ev=d2.d1.h,closers=1',
        'kind=read,ctor=fd,calls=N3t.N2t,ev=d2.d1,closers=0',
        'kind=read,ctor=std,calls=P2t.N2.Z.N4d,ev=d1.d1.x3,closers=1',
        'kind=read,ctor=std,calls=S4x.B2.Y.R3t,ev=d3.h,closers=2',
        'kind=read,ctor=std,calls=N2t.N2t.N2,ev=d2.d2.h,closers=0',
        'kind=read,ctor=fd,calls=G2d.L2t,ev=d1.d1.d2,closers=1',
        'kind=read,ctor=std,calls=N1.N1.N1t,ev=d3,closers=0',
        # small ones, exhausted at the bound: one call against one kind of wake-up
        'kind=read,ctor=std,calls=N4,ev=d4,closers=1',
        'kind=read,ctor=std,calls=N3t,ev=d3,closers=0',
        'kind=read,ctor=std,calls=N3t,ev=d2.h,closers=0',
        # the n-th byte and the peer's close reach the poller together while the (timed) reader is blocked: the woken reader must return the data
        'kind=read,ctor=std,calls=N3t,ev=d2.d1.h,closers=0',
        'kind=read,ctor=std,calls=N2,ev=d1.d1,closers=0',
        # D20 (fixed): the n bytes and the hang-up arrive while the reader is RUNNING between its Len() load and its closing load / a user Close
        # overtakes the poller's data wake-up: the call must return the data, not the close error
        'kind=read,ctor=std,calls=N3,ev=d3.h,closers=0',
        'kind=read,ctor=std,calls=N3t,ev=d3,closers=1',
        'kind=read,ctor=fd,calls=N2t.N1x,ev=h,closers=1',
    ],
    'C08': [
        'kind=flush,ctor=std,calls=W10t.W5,k=0.3.a,closers=0,f2=1',
        'kind=flush,ctor=fd,calls=W10t,k=0.0,closers=1',
        'kind=flush,ctor=std,calls=M3.F4.W5x,k=2.0.a.0,ev=h,closers=0',
        'kind=flush,ctor=std,calls=W8d.W4t,k=0.4.0,closers=1,f2=1',
        'kind=flush,ctor=std,calls=W6.W6,k=0.0.3,closers=2',
        'kind=flush,ctor=std,calls=W4.F0.W3,k=1.0.2.0,closers=0,f2=2',
        'kind=flush,ctor=std,calls=W5,k=0.2,ev=h,closers=0',
        'kind=flush,ctor=std,calls=F3.F0t,k=a,closers=1',
        'kind=flush,ctor=std,calls=W4t.W3t.W2t,k=0.a.0.a.0,closers=0',
        'kind=flush,ctor=std,calls=W4.W3.W2,k=0.a.0.a.0,closers=0',
        # more non-empty nodes in the output buffer than one GetBytes/sendmsg vector holds (barriercap = 32): the kernel can
        # accept everything it was OFFERED while part of the buffer has not been offered yet
        'kind=flush,ctor=std,calls=V40.F0,k=a,closers=0',
        'kind=flush,ctor=std,calls=V70.F3t,k=a.0.a,closers=0',
        'kind=flush,ctor=fd,calls=V33.W2,k=100.a,closers=1',
        # the flusher runs INSIDE the OnRequest handler (inh=1: the real onProcess task holds `processing`, so a Close() from
        # another goroutine cannot run the callbacks itself), against a socket that stays full (k=..z: no write event any
        # more): only the close or the timer can end the Flush
        'kind=flush,ctor=std,calls=W4,k=z,closers=1,inh=1',
        'kind=flush,ctor=std,calls=W6t.W2,k=2.z,closers=1,inh=1',
        'kind=flush,ctor=fd,calls=M2.F3,k=0.z,ev=h,closers=1,inh=1,f2=1',
        'kind=flush,ctor=std,calls=W4.W3,k=0.a.0,closers=2,inh=1',
        'kind=flush,ctor=std,calls=W5,k=1.z,closers=1',
        # small ones, exhausted at the bound
        'kind=flush,ctor=std,calls=W4,k=0,closers=0',
        'kind=flush,ctor=std,calls=W4t,k=0.0,closers=0',
        'kind=flush,ctor=std,calls=W4,k=2.0,closers=1',
        'kind=flush,ctor=fd,calls=W3x,k=0,closers=0,f2=1',
    ],
}

def product_space(prop):
    out = []
    if prop == 'C07':
        calls = ['N3', 'N3t', 'N3d', 'N3x', 'N2.N2', 'N2t.N2t', 'P3t.N3', 'N1.Z.N3t', 'S2.B2t', 'N4t.N1', 'Y.Yt.Y', 'R8.R8t', 'G3x.N3', 'L2.N2d', 'N5t.P1x.N1']
        evs = ['-', 'd3', 'd2.d1', 'd1.d1.d1', 'h', 'd3.h', 'd2.h', 'd2.d1.h', 'x3', 'd1.x2', 'd4.d4']
        for ctor, c, ev, cl in itertools.product(['std', 'fd'], calls, evs, [0, 1, 2]):
            out.append('kind=read,ctor=%s,calls=%s,ev=%s,closers=%d' % (ctor, c, ev, cl))
    else:
        calls = ['W4', 'W4t', 'W4d', 'W4x', 'W4.W3', 'W4t.W3', 'M2.F3', 'M2.F3t.F0', 'F0.W5', 'W6.F0.W2t', 'F4x.W1', 'W3.W3.W3', 'V36.F0', 'V33.W1t', 'V65.F0.W2']
        ks = ['-', '0', '0.0', '0.0.0', '1', '2.0', '0.1.0', '3.0.a.0', 'a.0', '0.a.0.2']
        for ctor, c, k, cl, ev, f2 in itertools.product(['std', 'fd'], calls, ks, [0, 1, 2], ['-', 'h'], [0, 1]):
            out.append('kind=flush,ctor=%s,calls=%s,k=%s,ev=%s,closers=%d,f2=%d' % (ctor, c, k, ev, cl, f2))
        # the same calls made inside the OnRequest handler (inh=1), half of them against a socket that stays full (..z; only with
        # a closer: without data, close or timer a Flush rightly waits)
        for ctor, c, k, cl, ev in itertools.product(['std', 'fd'], calls, ['0', 'z', '0.z', '2.z', '0.1.0', 'a.0'], [1, 2], ['-', 'h']):
            out.append('kind=flush,ctor=%s,calls=%s,k=%s,ev=%s,closers=%d,f2=0,inh=1' % (ctor, c, k, ev, cl))
    return out

def sample_scenarios(prop, seed, n):
    sp = product_space(prop)
    random.Random(seed * 7 + (1 if prop == 'C07' else 2)).shuffle(sp)
    return sp[:n]

MODE = {'C07': 'read', 'C08': 'flush'}

# functions the models / the harness transcription mirror (source fingerprints: a change escalates the search)
MIRRORED = ['connection.waitRead', 'connection.waitReadWithTimeout', 'connection.inputAck', 'connection.triggerRead', 'connection.Flush',
            'connection.Write', 'connection.flush', 'connection.waitFlush', 'connection.outputs', 'connection.outputAck', 'connection.rw2r',
            'connection.triggerWrite', 'connection.Release', 'connection.closeBuffer', 'connection.onHup', 'connection.onClose',
            'connection.closeCallback', 'connection.initFinalizer', 'connection.init', 'connection.Next', 'connection.Peek', 'connection.Skip',
            'connection.ReadBinary', 'connection.ReadString', 'connection.ReadByte', 'connection.Slice', 'connection.Read',
            'connection.SetReadTimeout', 'connection.SetReadDeadline', 'connection.SetWriteTimeout', 'connection.SetWriteDeadline',
            'connection.remoteAddrString', 'locker.closeBy', 'locker.force', 'locker.status', 'locker.lock', 'locker.unlock', 'locker.stop',
            'FDOperator.Control', 'FDOperator.do', 'FDOperator.done', 'UnsafeLinkBuffer.Len', 'UnsafeLinkBuffer.IsEmpty', 'UnsafeLinkBuffer.Skip',
            'UnsafeLinkBuffer.Flush', 'UnsafeLinkBuffer.bookAck', 'UnsafeLinkBuffer.recalLen', 'UnsafeLinkBuffer.Close', 'iosend', 'sendmsg',
            'defaultPoll.handler', 'defaultPoll.appendHup', 'defaultPoll.onhups', 'readall', 'NewFDConnection']

def fingerprint_changes():
    exp_path = os.path.join(common.VERIF, 'lib/expected_fp_rf.json')
    if not os.path.exists(exp_path):
        return []
    exp = json.load(open(exp_path))
    cur = common.facts()['funcs']
    return [n for n in MIRRORED if n in exp and (n not in cur or cur[n]['hash'] != exp[n])]

def plan(prop, tier, seed, escalate=False):
    if tier == 'thorough':
        bound, maxruns, nsample, walks, wbound = 3, 20000, 192, 300, 3
    else:
        bound, maxruns, nsample, walks, wbound = 2, 1500, 40, 30, 2
    if escalate:
        maxruns *= 3; walks *= 3
    jobs = []
    core = CORE[prop]
    for i, grp in enumerate(schedrun.chunks(core, 16)):
        jobs.append(('enum-core-%d' % i, ['-mode', 'enum', '-bound', str(bound), '-maxruns', str(maxruns), '-seed', str(seed), '-scn', ';'.join(grp)]))
    samp = sample_scenarios(prop, seed, nsample)
    for i, grp in enumerate(schedrun.chunks(samp, 16)):
        jobs.append(('enum-samp-%d' % i, ['-mode', 'enum', '-bound', str(wbound), '-maxruns', str(max(150, maxruns // 8)), '-seed', str(seed), '-scn', ';'.join(grp)]))
    for i, grp in enumerate(schedrun.chunks(core + samp, 16)):
        jobs.append(('walk-%d' % i, ['-mode', 'random', '-runs', str(walks), '-seed', str(seed * 31 + i), '-stay', '50', '-scn', ';'.join(grp)]))
    return jobs, dict(bound=bound, maxruns_per_scenario=maxruns, sampled_scenarios=nsample, walks_per_scenario=walks, core_scenarios=len(core))

def _mine(rec, prop):
    v = rec['verdict']
    return ('spec: ' in v) and any(part.strip().startswith(prop + ' ') for part in v.split('spec: ', 1)[1].split(' | known: ')[0].split(';'))

def _replay_lines(rec, why):
    L = ['# ' + why, 'scn ' + rec['scn'], 'sched ' + rec['sched'], '# --- trace of the failing run (as executed by go/cmd/sched) ---']
    L += ['# ' + l for l in rec.get('trace', [])[:400]]
    return L

def _collect(results, prop, spec_mine, conf, known):
    for r in results:
        for f in r['spec_fail']:
            if _mine(f, prop): spec_mine.append(f)
            else: conf.append(f)        # conf=FAIL with spec ok, or a spec line of unknown origin: both are correspondence-level
        conf += r['conf_fail']
        known += r['known']

def check(rep, prop, modules, assumptions):
    mode = MODE[prop]
    wd = os.path.join(common.WORK, prop)
    shutil.rmtree(wd, ignore_errors=True); os.makedirs(wd)
    ok, detail = common.proof_stage(rep, modules, ['npdriver'])
    proof_broken = None if ok else detail
    if ok and rep.tier == 'thorough':
        with common.Lock('lake'):
            rc, o = common.sh(['lake', 'env', 'leanchecker'] + list(modules), cwd=common.LEAN, timeout=1800)
        rep.cov['leanchecker'] = 'ok' if rc == 0 else 'FAILED'
        if rc != 0:
            proof_broken = 'leanchecker rejects the property module:\n' + o[-1500:]
    binary, out = schedrun.build()
    if binary is None:
        rep.violation('instrumented harness does not build against the repo (does the tree compile? did a protocol file change shape?):\n' + out[-2500:],
                      ['# go build / tools/instrument failed', '# ' + out[-1500:].replace('\n', '\n# ')], no_input=True)
        return
    changed = fingerprint_changes() if os.path.exists(os.path.join(common.WORK, 'facts.json')) else []
    escalate = bool(changed) or proof_broken is not None
    if changed:
        rep.notes.append('mirrored functions whose source changed since the model was validated (search escalated): ' + ', '.join(changed))
    results = []
    ncorpus = 0
    probes = {}
    for f in sorted(glob.glob(os.path.join(common.VERIF, 'corpus', prop, '*.sched'))):
        r = schedrun.replay_file(binary, f, os.path.join(wd, 'corpus'), os.path.basename(f).replace('.sched', ''), mode=mode)
        r['corpus'] = os.path.basename(f)
        ncorpus += r['runs']
        probes[os.path.basename(f)] = r
        results.append(r)
    jobs, cfg = plan(prop, rep.tier, rep.seed, escalate)
    results += schedrun.run_jobs(binary, wd, jobs, mode=mode)
    spec_mine, conf, known = [], [], []
    for r in results:
        if r['harness_rc'] != 0:
            rep.violation('harness run failed (%s rc=%s): %s' % (r['name'], r['harness_rc'], r['harness_out'][-800:]), ['# harness failure'], no_input=True, tag='harness-')
            return
    _collect(results, prop, spec_mine, conf, known)
    if (conf or proof_broken) and not spec_mine and not escalate:
        jobs2, _ = plan(prop, rep.tier, rep.seed + 1000, True)
        more = schedrun.run_jobs(binary, os.path.join(wd, 'wide'), jobs2, mode=mode)
        results += more
        _collect(more, prop, spec_mine, conf, known)
    runs = sum(r['runs'] for r in results)
    model = 'Netpoll.Conn.Read' if prop == 'C07' else 'Netpoll.Conn.Flush'
    oracle = 'Netpoll.Conn.ReadSpec' if prop == 'C07' else 'Netpoll.Conn.FlushSpec'
    rep.cov['evaluations'] = runs
    rep.cov['distinct_nontrivial'] = sum(r['distinct'] for r in results)
    rep.cov['rule'] = ('schedules executed on the REAL code under the controlled scheduler (instrumented copies of the protocol files regenerated from the repo by tools/instrument; '
                       'exactly one actor runs between schedule points; timer expiry, the choice between ready select cases and%s are scheduling choices / scripted); every trace is '
                       'replayed step by step on the Lean model %s (trace conformance, observed values compared) and judged by the Lean spec oracle %s; '
                       'distinct_nontrivial = distinct traces (hash of all step lines) per shard, summed') % (' the kernel\'s sendmsg answers' if prop == 'C08' else ' nothing else', model, oracle)
    rep.cov['traces_validated_against_impl'] = runs
    rep.cov['trace_lines'] = sum(r['lines'] for r in results)
    rep.cov['corpus_schedules'] = ncorpus
    rep.cov['plan'] = cfg
    enum = [e for r in results for e in r['enum']]
    rep.cov['enumerated_scenarios'] = len(enum)
    rep.cov['enumerations_exhausted'] = sum(1 for e in enum if 'exhausted=true' in e)
    rep.cov['max_preemptions_reached'] = max([int(re.search(r'maxpreempt=(\d+)', e).group(1)) for e in enum] or [0])
    st, stats, hits = {}, {}, {}
    for r in results:
        for k, v in r['statuses'].items(): st[k] = st.get(k, 0) + v
        for k, v in r['stats'].items(): stats[k] = stats.get(k, 0) + v
        for k, v in r['sites'].items(): hits[k] = hits.get(k, 0) + v
    rep.cov['run_status'] = st
    rep.cov['exercised'] = dict(sorted(stats.items()))
    rep.cov['diverged_replays'] = sum(r['diverged'] for r in results)
    try:
        sites = common.instr_sites()['sites']
        fun = ('connection.waitRead', 'connection.inputAck', 'connection.triggerRead') if prop == 'C07' else \
              ('connection.Flush', 'connection.Write', 'connection.flush', 'connection.waitFlush', 'connection.outputs', 'connection.outputAck', 'connection.rw2r', 'connection.triggerWrite')
        mine = [x for x in sites if x['instrumented'] and x['id'].startswith(fun)]
        rep.cov['protocol_sites_instrumented'] = len(mine)
        rep.cov['protocol_sites_hit'] = sorted(x['id'] for x in mine if x['id'] in hits)
        rep.cov['protocol_sites_never_hit'] = sorted(x['id'] for x in mine if x['id'] not in hits and '~' + x['id'] not in hits)
        rep.cov['constructs_not_instrumented'] = [x['id'] + ' ' + x['note'] for x in sites if not x['instrumented'] and x['id'].startswith(fun) and x['kind'] in ('select', 'recv', 'send', 'atomic', 'timer', 'kernel') and 'select case' not in x.get('note', '')]
    except Exception as e:
        rep.notes.append('site coverage unavailable: %r' % (e,))
    rep.cov['samples'] = ['scn %s | sched (enumerated, bound %d)' % (s, cfg['bound']) for s in CORE[prop][:3]]
    rep.cov['known_finding_runs'] = len(known)
    rep.assumptions += assumptions
    # verdict
    if spec_mine:
        f = min(spec_mine, key=lambda x: len(x['sched']))
        small = schedrun.shrink_schedule(binary, f, os.path.join(wd, 'shrink'), lambda r: any(_mine(x, prop) for x in r['spec_fail']), mode=mode)
        rep.violation('implementation violates the %s spec under a concrete schedule (%d failing schedules in %d runs; shortest, shrunk, is the replay): %s'
                      % (prop, len(spec_mine), runs, f['verdict'].split('spec: ', 1)[1][:700]), _replay_lines(small, 'replay with ./check %s --replay <this file>' % prop))
    elif conf:
        f = min(conf, key=lambda x: len(x['sched']))
        rep.violation('trace conformance %s <-> code no longer checks (%d of %d runs) and no %s-violating schedule was found in the widened search: %s'
                      % (model, len(conf), runs, prop, f['verdict'].split(' | ', 1)[-1][:700]), _replay_lines(f, 'correspondence break (model step refused / observed value differs)'), no_input=True)
    elif any(r.get('stuck') for r in results):
        r = [r for r in results if r.get('stuck')][0]
        rep.violation('an actor did not reach a schedule point within the watchdog (blocking operation outside the instrumentation, or a deadlock) in shard %s; no %s-violating schedule found' % (r['name'], prop),
                      ['# see work/%s/%s.trace (last run)' % (prop, r['name'])], no_input=True)
    elif proof_broken:
        rep.violation('proof obligation / tie lemma broken and no failing schedule found in %d runs: %s' % (runs, proof_broken),
                      ['# ' + l for l in proof_broken.split('\n')], no_input=True)
    # known findings: the dedicated probes (corpus) must still show exactly their pattern
    for k in common.known_findings(prop):
        if k.get('status') != 'finding':
            continue
        probe = probes.get(os.path.basename(k.get('replay', '')))
        shown = probe is not None and any(k.get('pattern', '\0') in x['verdict'] for x in probe['known'])
        if shown:
            print('KNOWN-FINDING: property=%s %s' % (prop, k['what']))
        else:
            rep.notes.append('known finding %s: its probe %s no longer shows the pattern (fixed? then move the record to status "fixed")' % (k.get('id'), k.get('replay')))
    stray = [x for x in known if not any(k.get('pattern', '\0') in x['verdict'] for k in common.known_findings(prop) if k.get('status') == 'finding')]
    if stray:
        rep.violation('runs classified as known finding without a matching record in known_findings.jsonl: ' + stray[0]['verdict'][:400], _replay_lines(stray[0], 'unrecorded known-finding pattern'), no_input=True)

def replay(rep, prop, path):
    mode = MODE[prop]
    binary, out = schedrun.build()
    if binary is None:
        rep.violation('harness does not build:\n' + out[-2000:], ['# build failed'], no_input=True)
        return rep.finish('proof')
    common.lake_build(['npdriver'])
    r = schedrun.replay_file(binary, path, os.path.join(common.WORK, 'replay-' + prop), mode=mode)
    rep.cov['evaluations'] = r['runs']
    for f in r['spec_fail'] + r['conf_fail']:
        print('REPLAY: ' + f['verdict'][:1500])
    for f in r['known']:
        print('REPLAY (known finding): ' + f['verdict'][:800])
    mine = [f for f in r['spec_fail'] if _mine(f, prop)]
    other = [f for f in r['spec_fail'] if not _mine(f, prop)] + r['conf_fail']
    if mine:
        rep.violation('replay reproduces: ' + mine[0]['verdict'].split('spec: ', 1)[1][:600], _replay_lines(mine[0], 'replayed'))
    elif other:
        rep.violation('replay reproduces the correspondence break: ' + other[0]['verdict'][:600], _replay_lines(other[0], 'replayed'), no_input=True)
    elif r['runs'] == 0:
        print('REPLAY: no schedule in file (need `scn <spec>` and `sched <choices>` lines)')
    else:
        print('REPLAY: %d schedule(s) ran, spec and conformance ok' % r['runs'])
    return rep.finish('proof')
