"""Shared machinery of ./check: regenerate T-gen facts, build Lean + Go, audit theorems,
write evidence, report violations / known findings."""
import fcntl, hashlib, json, os, re, subprocess, sys, time

VERIF = os.path.dirname(os.path.dirname(os.path.abspath(__file__)))
REPO = os.environ.get('VERIF_REPO', '/repo')
LEAN = os.path.join(VERIF, 'lean')
GO = os.path.join(VERIF, 'go')
WORK = os.path.join(VERIF, 'work')
BIN = os.path.join(GO, 'bin')
DRIVER = os.path.join(LEAN, '.lake/build/bin/npdriver')
ALLOWED_AXIOMS = {'propext', 'Classical.choice', 'Quot.sound'}

def go_env():
    e = dict(os.environ)
    e.update(GOFLAGS='-mod=mod', GOPROXY='off', GOSUMDB='off', GOTOOLCHAIN='local', CGO_ENABLED='0')
    return e

class Lock:
    def __init__(self, name):
        os.makedirs(WORK, exist_ok=True)
        self.path = os.path.join(WORK, name + '.lock')
    def __enter__(self):
        self.f = open(self.path, 'w'); fcntl.flock(self.f, fcntl.LOCK_EX); return self
    def __exit__(self, *a):
        fcntl.flock(self.f, fcntl.LOCK_UN); self.f.close()

def sh(cmd, cwd=None, env=None, timeout=None, check=False):
    p = subprocess.run(cmd, cwd=cwd, env=env, timeout=timeout, stdout=subprocess.PIPE, stderr=subprocess.STDOUT, text=True)
    if check and p.returncode != 0:
        raise RuntimeError('command failed: %s\n%s' % (cmd, p.stdout[-4000:]))
    return p.returncode, p.stdout

def modcache():
    rc, out = sh(['go', 'env', 'GOMODCACHE'], env=go_env())
    return out.strip() or '/root/go/pkg/mod'

INSTR_FILES = ['connection_lock.go', 'connection_onevent.go', 'connection_reactor.go', 'connection_impl.go',
               'fd_operator.go', 'fd_operator_cache.go', 'net_netfd_conn.go', 'nocopy_linkbuffer.go']
INSTR_DIR = os.path.join(WORK, 'instr')
# per-harness build configuration: extra build tags, and whether the instrumented copies (tools/instrument) replace
# the protocol files in the overlay
HARNESS = {'sched': dict(tags='verif verifsched', instr=True)}

def build_tool(name):
    """(re)build tools/<name> into go/bin/<name> when its sources are newer (shared package tools/extract/syncops included)."""
    exe = os.path.join(BIN, name)
    srcs = [os.path.join(VERIF, 'tools', name, 'main.go'), os.path.join(VERIF, 'tools/extract/syncops/syncops.go')]
    newest = max(os.path.getmtime(p) for p in srcs if os.path.exists(p))
    if not os.path.exists(exe) or os.path.getmtime(exe) < newest:
        os.makedirs(BIN, exist_ok=True)
        rc, o = sh(['go', 'build', '-o', exe, '.'], cwd=os.path.join(VERIF, 'tools', name), env=go_env(), timeout=600)
        if rc != 0:
            return None, '%s build failed:\n%s' % (name, o)
    return exe, ''

def instrument(files=None):
    """tools/instrument: regenerate work/instr/ (instrumented copies of the protocol files + zz_verif_hooks.go + sites.json)
    from the repo's CURRENT source. Returns (ok, output)."""
    exe, o = build_tool('instrument')
    if exe is None:
        return False, o
    rc, o = sh([exe, '-repo', REPO, '-out', INSTR_DIR, '-files', ','.join(files or INSTR_FILES)], env=go_env(), timeout=300)
    return rc == 0, o

def instr_sites():
    return json.load(open(os.path.join(INSTR_DIR, 'sites.json')))

def write_overlay(extra_inpkg, replacements=None, instr=False):
    """overlay.json: harness files added INTO package netpoll / mux, instrumented mcache over the module cache;
    replacements: repo-relative path -> absolute file that replaces it (e.g. an instrumented copy);
    with instr=True the instrumented copies in work/instr REPLACE the original protocol files."""
    rep = {}
    for src, dst in extra_inpkg.items():
        rep[os.path.join(REPO, dst)] = os.path.join(GO, src)
    for rel, path in (replacements or {}).items():
        rep[os.path.join(REPO, rel)] = path
    if instr:
        for f in sorted(os.listdir(INSTR_DIR)):
            if f.endswith('.go'):
                rep[os.path.join(REPO, f)] = os.path.join(INSTR_DIR, f)
    rep[os.path.join(modcache(), 'github.com/bytedance/gopkg@v0.1.1/lang/mcache/mcache.go')] = os.path.join(GO, 'pool/mcache.go')
    path = os.path.join(WORK, 'overlay-instr.json' if instr else 'overlay.json')
    json.dump({'Replace': rep}, open(path, 'w'), indent=1)
    return path

def inpkg_files():
    """every go/inpkg/*.go is added to package netpoll, every go/inpkg_mux/*.go to package mux (as zz_verif_<name>.go)"""
    m = {}
    for d, sub in (('inpkg', ''), ('inpkg_mux', 'mux/')):
        p = os.path.join(GO, d)
        if os.path.isdir(p):
            for f in sorted(os.listdir(p)):
                if f.endswith('.go'):
                    m[d + '/' + f] = sub + 'zz_verif_' + f
    return m

def modfile_args():
    """with VERIF_REPO set, build the harness module against that tree: `-modfile` with the replace directive redirected."""
    if REPO == '/repo':
        return []
    mod = open(os.path.join(GO, 'go.mod')).read().replace('=> /repo', '=> ' + REPO)
    path = os.path.join(WORK, 'go.alt.mod')
    open(path, 'w').write(mod)
    src = os.path.join(GO, 'go.sum')
    if os.path.exists(src):
        open(os.path.join(WORK, 'go.alt.sum'), 'w').write(open(src).read())
    return ['-modfile', path]

def build_harness(name, race=False, tags=None, replacements=None, instr=None):
    """(re)build go/cmd/<name> against /repo's current working tree with hooks on."""
    cfg = HARNESS.get(name, {})
    tags = tags or cfg.get('tags', 'verif')
    instr = cfg.get('instr', False) if instr is None else instr
    with Lock('go'):
        os.makedirs(BIN, exist_ok=True)
        sum_src = os.path.join(REPO, 'go.sum')
        if os.path.exists(sum_src):
            open(os.path.join(GO, 'go.sum'), 'w').write(open(sum_src).read())
        if instr:
            ok, o = instrument()
            if not ok:
                return None, 'tools/instrument failed (does the repo still compile?):\n' + o
        ov = write_overlay(inpkg_files(), replacements, instr)
        out = os.path.join(BIN, name + ('-race' if race else ''))
        if os.path.exists(out):
            os.remove(out)
        cmd = ['go', 'build', '-tags', tags, '-overlay', ov, '-o', out]
        if REPO != '/repo':
            # VERIF_REPO: same harness module, but `replace netpoll => <scratch worktree>` (go/go.mod itself stays untouched)
            mf = os.path.join(WORK, 'go.alt.mod')
            open(mf, 'w').write(open(os.path.join(GO, 'go.mod')).read().replace('=> /repo', '=> ' + REPO))
            open(os.path.join(WORK, 'go.alt.sum'), 'w').write(open(os.path.join(GO, 'go.sum')).read())
            cmd.append('-modfile=' + mf)
        if race:
            cmd.append('-race')
            e = go_env(); e['CGO_ENABLED'] = '1'
        else:
            e = go_env()
        cmd.append('./cmd/' + name)
        rc, o = sh(cmd, cwd=GO, env=e, timeout=600)
        return (out if rc == 0 else None), o

def extract_exe():
    """(path or None, message): go/bin/extract, rebuilt when missing or older than any tools/extract/*.go. Call under Lock('gen')."""
    exe = os.path.join(BIN, 'extract')
    d = os.path.join(VERIF, 'tools/extract')
    srcs = [os.path.join(d, f) for f in os.listdir(d) if f.endswith('.go') or f in ('go.mod', 'go.sum')]
    sd = os.path.join(d, 'syncops')
    if os.path.isdir(sd):
        srcs += [os.path.join(sd, f) for f in os.listdir(sd) if f.endswith('.go')]
    newest = max(os.path.getmtime(f) for f in srcs)
    if not os.path.exists(exe) or os.path.getmtime(exe) < newest:
        os.makedirs(BIN, exist_ok=True)
        rc, o = sh(['go', 'build', '-o', exe, '.'], cwd=d, env=go_env(), timeout=600)
        if rc != 0:
            return None, 'extract build failed:\n' + o
    return exe, ''

def instrument_shard():
    """C17: instrumented copy of REPO/mux/shard_queue.go (schedule-point hooks at the sites of Gen/Shard.lean).
    Returns (path or None, message); None when the source has a shape the instrumenter does not support."""
    with Lock('gen'):
        exe, msg = extract_exe()
        if exe is None:
            return None, msg
        os.makedirs(WORK, exist_ok=True)
        dst = os.path.join(WORK, 'shard_queue_instr.go')
        if os.path.exists(dst):
            os.remove(dst)
        rc, o = sh([exe, '-repo', REPO, '-instr-shard', dst], env=go_env(), timeout=300)
        if rc != 0 or not os.path.exists(dst):
            return None, 'instr-shard failed (rc=%d):\n%s' % (rc, o)
        return dst, o

def regen():
    """T-gen: regenerate lean/Netpoll/Gen/*.lean and work/facts.json from /repo's working tree."""
    with Lock('gen'):
        exe, msg = extract_exe()
        if exe is None:
            return False, msg
        gen = os.path.join(LEAN, 'Netpoll/Gen')
        tmp = os.path.join(WORK, 'gen.tmp'); os.makedirs(tmp, exist_ok=True)
        for f in os.listdir(tmp): os.remove(os.path.join(tmp, f))
        facts = os.path.join(WORK, 'facts.json')
        rc, o = sh([exe, '-repo', REPO, '-out', tmp, '-facts', facts + '.tmp'], env=go_env(), timeout=300)
        if rc != 0:
            return False, 'extract failed (does /repo still compile?):\n' + o
        os.replace(facts + '.tmp', facts)
        # only touch files whose content changed, so lake does not rebuild needlessly
        for f in os.listdir(tmp):
            new = open(os.path.join(tmp, f)).read()
            dst = os.path.join(gen, f)
            if not os.path.exists(dst) or open(dst).read() != new:
                open(dst, 'w').write(new)
        return True, o

def facts():
    return json.load(open(os.path.join(WORK, 'facts.json')))

def lake_build(targets, timeout=1800):
    with Lock('lake'):
        rc, o = sh(['lake', 'build'] + targets, cwd=LEAN, timeout=timeout)
    return rc == 0, o

def audit(modules):
    """list of {module, theorem, axioms} for every theorem of the given modules (Lean walks the .olean)."""
    with Lock('lake'):
        rc, o = sh(['lake', 'env', 'lean', '--run', 'Audit.lean'] + modules, cwd=LEAN, timeout=600)
    if rc != 0:
        raise RuntimeError('audit failed:\n' + o)
    data = json.loads(o[o.index('['):])
    return [d for d in data if d['theorem'].startswith('Netpoll.Props.') or d['theorem'].startswith('Netpoll.Tie.')]

def grep_forbidden(paths):
    """sorry/admit/axiom/native_decide/... outside comments in the given Lean files"""
    bad = []
    pat = re.compile(r'\b(sorry|admit|native_decide|bv_decide|implemented_by|unsafe)\b|^axiom\s|maxHeartbeats 0')
    for p in paths:
        incomment = 0
        for i, line in enumerate(open(p), 1):
            l = line
            # strip block comments (coarse) and line comments
            if '/-' in l and '-/' not in l: incomment += 1; continue
            if '-/' in l and incomment: incomment -= 1; continue
            if incomment: continue
            l = re.sub(r'/-.*?-/', '', l); l = l.split('--')[0]
            if pat.search(l): bad.append('%s:%d: %s' % (p, i, line.strip()))
    return bad

def lean_files(prefixes):
    out = []
    for root, _, fs in os.walk(os.path.join(LEAN, 'Netpoll')):
        for f in fs:
            if f.endswith('.lean'):
                out.append(os.path.join(root, f))
    return sorted(out)

def known_findings(prop):
    path = os.path.join(VERIF, 'known_findings.jsonl')
    out = []
    if os.path.exists(path):
        for l in open(path):
            l = l.strip()
            if l and not l.startswith('#'):
                d = json.loads(l)
                if d.get('property') == prop or prop in d.get('properties', []):
                    out.append(d)
    return out

class Report:
    """collects what a check did; writes evidence; prints VIOLATION / KNOWN-FINDING lines."""
    def __init__(self, prop, tier, seed):
        self.prop, self.tier, self.seed = prop, tier, seed
        self.t0 = time.time()
        self.cov = {'evaluations': 0, 'distinct_nontrivial': 0, 'rule': '', 'samples': [],
                    'obligations': 0, 'discharged': 0, 'checker_cmd': '', 'trusted_base': []}
        self.assumptions = []
        self.violations = []   # (replay_path, text, no_input)
        self.notes = []
    def add_theorems(self, audited, built_ok):
        self.cov['obligations'] += len(audited)
        ok = [a for a in audited if set(a['axioms']) <= ALLOWED_AXIOMS]
        self.cov['discharged'] += len(ok) if built_ok else 0
        self.cov.setdefault('theorems', [])
        self.cov['theorems'] += [{'name': a['theorem'], 'axioms': a['axioms']} for a in audited]
        return [a for a in audited if not set(a['axioms']) <= ALLOWED_AXIOMS]
    def violation(self, text, replay_lines, no_input=False, tag=''):
        os.makedirs(os.path.join(VERIF, 'replays'), exist_ok=True)
        h = hashlib.sha1(('\n'.join(replay_lines) + text).encode()).hexdigest()[:8]
        path = os.path.join(VERIF, 'replays', '%s-%s%s-%s.replay' % (self.prop, tag, self.seed, h))
        with open(path, 'w') as f:
            f.write('# property=%s tier=%s seed=%s\n# %s\n' % (self.prop, self.tier, self.seed, text.replace('\n', '\n# ')))
            f.write('\n'.join(replay_lines) + '\n')
        self.violations.append((path, text, no_input))
    def finish(self, level='proof'):
        ev = {'property_id': self.prop, 'tier': self.tier, 'seed': self.seed, 'level': level,
              'coverage': self.cov, 'assumptions': self.assumptions, 'wall_s': round(time.time() - self.t0, 2),
              'violations': len(self.violations)}
        if self.notes: ev['coverage']['notes'] = self.notes
        if not ev['coverage']['samples']:
            ev['coverage']['samples'] = ['(no correspondence samples in this run)']
        os.makedirs(os.path.join(VERIF, 'evidence'), exist_ok=True)
        json.dump(ev, open(os.path.join(VERIF, 'evidence', self.prop + '.json'), 'w'), indent=1)
        for path, text, no_input in self.violations:
            print('%s' % text)
            print('VIOLATION property=%s replay=%s%s' % (self.prop, path, ' no-failing-input-found' if no_input else ''))
        sys.stdout.flush()
        return 1 if self.violations else 0

def tier_seed(args):
    tier = args.tier or os.environ.get('VERIF_TIER') or 'quick'
    seed = int(os.environ.get('VERIF_SEED', '1') or 1)
    return tier, seed

TRUSTED_BASE = [
    'Lean 4.33.0 kernel (thorough tier re-checks the property module with leanchecker)',
    'axioms allowed: propext, Classical.choice, Quot.sound (audited per theorem by lean/Audit.lean on every run)',
    'tools/extract (go/packages based fact extractor) and the tie lemmas over its output',
    'the correspondence harness (go/inpkg/*.go, go/pool/mcache.go), the npdriver line protocol, lib/*.py',
]

def proof_stage(rep, prop_modules, extra_targets=()):
    """steps 1-3 of a check: regenerate facts, build the property theorems, audit axioms.
    Returns (ok, detail). On failure the caller escalates to the failing-input search."""
    ok, o = regen()
    if not ok:
        return False, 'T-gen: ' + o[-3000:]
    ok, o = lake_build(list(prop_modules) + list(extra_targets))
    rep.cov['checker_cmd'] = 'cd /verif/lean && lake build ' + ' '.join(prop_modules) + ' && lake env lean --run Audit.lean ' + ' '.join(prop_modules)
    rep.cov['trusted_base'] = TRUSTED_BASE
    if not ok:
        errs = [l for l in o.split('\n') if 'error' in l][:20]
        # still audit what the last good build left? no: obligations unknown -> count from source
        rep.cov['obligations'] = max(rep.cov['obligations'], 1)
        return False, 'lake build failed:\n' + '\n'.join(errs)
    aud = audit(list(prop_modules))
    bad = rep.add_theorems(aud, True)
    forb = grep_forbidden(lean_files(None))
    if forb:
        return False, 'forbidden constructs in Lean sources:\n' + '\n'.join(forb[:10])
    if bad:
        return False, 'theorems with axioms outside the allowed set: ' + ', '.join('%s %s' % (b['theorem'], b['axioms']) for b in bad)
    if not aud:
        return False, 'no theorems found in ' + ' '.join(prop_modules)
    if rep.tier == 'thorough':
        # independent re-check of the compiled property modules (and what they import) by leanchecker
        with Lock('lake'):
            rc, o = sh(['lake', 'env', 'leanchecker'] + list(prop_modules), cwd=LEAN, timeout=3600)
        rep.cov['leanchecker'] = 'ok' if rc == 0 else 'FAILED: ' + o[-500:]
        if rc != 0:
            return False, 'leanchecker rejects ' + ' '.join(prop_modules) + ':\n' + o[-1500:]
    return True, ''
