"""ownership-oracle plumbing (C02/C03): replay op lines with -poison -own-out, list problems, shrink."""
import os, subprocess, sys, tempfile
sys.path.insert(0, os.path.dirname(os.path.abspath(__file__)))
import lbtool

def own_replay(binary, lines, wd):
    os.makedirs(wd, exist_ok=True)
    op = os.path.join(wd, 'o.ops'); io = os.path.join(wd, 'o.impl'); ow = os.path.join(wd, 'o.own')
    open(op, 'w').write('\n'.join(lines) + '\n')
    subprocess.run([binary, '-replay', op, '-impl-out', io, '-poison', '-own-out', ow], check=True, timeout=120)
    return open(ow).read().split('\n')[:-1]

def problems(own_lines, include_known=False):
    out = []
    for i, l in enumerate(own_lines):
        if '!!' in l:
            for p in l.split('!!', 1)[1].split(';'):
                p = p.strip()
                if p and (include_known or 'D4-split-block' not in p):
                    out.append((i, p))
    return out

if __name__ == '__main__':
    binary, opsfile, seqno = sys.argv[1], sys.argv[2], sys.argv[3]
    seqs = lbtool.split_seqs(open(opsfile).read().split('\n'))
    seq = [s for s in seqs if s[0].split()[1] == seqno][0]
    wd = tempfile.mkdtemp()
    kind = sys.argv[4] if len(sys.argv) > 4 else ''
    def differs(lines):
        return any(kind in p for _, p in problems(own_replay(binary, lines, wd)))
    out = lbtool.shrink(binary, seq, wd, differs)
    print('\n'.join(out))
    for i, p in problems(own_replay(binary, out, wd), True): print('  line', i, out[i] if i < len(out) else '', '->', p)

def in_contract(lines, wd, impl_path=None):
    """True iff the Lean spec judges every op of the sequence inside Contract (no 'X' verdict)."""
    import common
    op = os.path.join(wd, 'o.ops'); io = impl_path or os.path.join(wd, 'o.impl'); sp = os.path.join(wd, 'o.spec')
    with open(sp, 'w') as o:
        subprocess.run([common.DRIVER, 'lbspec', op, io], stdout=o, check=True, timeout=120)
    return not any(l.startswith('X') for l in open(sp).read().split('\n'))
