#!/bin/sh
# MANIFEST.setup_cmd: build the Lean project and the Go tools from files on disk only.
set -e
cd "$(dirname "$0")"
exec python3 lib/setup.py "$@"
