"""C16 - stream adapters preserve the byte stream for any io.Reader / io.Writer.
Theorems: lean/Netpoll/Props/C16.lean over lean/Netpoll/Adapter.lean (adapter model on the C01 spec queue).
Tie: T-diff of the real adapters against the model for scripted sources/sinks; stream oracle on the
implementation's replies (independent of the model) decides whether a disagreement is a failing input."""
import os, shutil, subprocess
from concurrent.futures import ThreadPoolExecutor
import common, lbtool

LEVEL = 'proof'
PROP = 'C16'
MODULES = ['Netpoll.Props.C16']
MANIFEST = dict(
    text='Lean 4 theorems: for every source/sink script and every sequence of Reader/Writer calls the adapter model (zcReader, zcWriter, ioReader, ioWriter over the C01 spec queue) '
         'delivers exactly the source stream once and in order, surfaces the source error, and hands the sink exactly the flushed stream across Flushes. '
         'The reader model has the two loops of the code (waitRead re-arming a fill that makes at most maxReadCycle source reads, the bound regenerated from the source); a theorem shows the bound is invisible to the caller for every script. '
         'The model is tied to nocopy_readwriter.go by a differential run on scripted io.Reader/io.Writer behaviours (short, zero-byte, negative, data+error, short writes; one reader sequence in five over a trickling source: '
         'runs of 0..3-byte reads and zero-byte bursts longer than one fill); '
         'a stream oracle judges the replies of all four adapters (zcReader, zcWriter, NewIOReader / NewIOWriter over a LinkBuffer, NewIOWriter over NewWriter over a short-writing sink); for the reader it also demands that a call with a valid count '
         'fails only with the error (io.EOF as ErrEOF) of the last source read made during that call - never with the buffer\'s own error while the source has not erred. '
         'The caller of an io.Writer reuses (overwrites) its slice as soon as Write has returned, as the io.Writer contract allows; every zero-copy result of the reader adapter is kept and re-compared after every later call '
         'until Release, with the harness allocator poisoning freed blocks (long streams read piecewise with rare Release included).',
    note='Rests on the C01 refinement (LinkBuffer behaves as the spec queue inside Contract) and on its tie. Correspondence is sampling. '
         'Source positions are keyed pseudo-random bytes so reordering/duplication is visible.',
    technique='Lean 4 invariant proofs over an adapter model + differential correspondence with scripted io.Reader/io.Writer', design='§6 C16')

def gen_byte(seed, i): return ((seed + 1) * 31 + i * 7 + i // 13) % 251
def fnv(bs):
    h = 2166136261
    for b in bs:
        h = ((h ^ b) * 16777619) & 0xffffffff
    return h

def oracle(seq_ops, impl):
    """stream oracle applied to the implementation's replies of one sequence; returns index of first violation or None"""
    kind = None; dc = 0; pending = []; submitted = []; lastL = 0; script = []; lastLeft = 0
    for i, (o, r) in enumerate(zip(seq_ops, impl)):
        t = o.split()
        if t[0] == 'seq': continue
        if r == 'panic': return i, 'panic inside the adapter contract'
        if r.startswith('HELD-CHANGED'): return i, 'zero-copy ' + r[13:]
        if len(t) >= 3 and t[2] == 'new':
            kind = t[0]
            if kind == 'zr':
                script = [] if t[3] == '-' else [(int(x.split(':')[0]), x.split(':')[1]) for x in t[3].split(',')]
                lastLeft = len(script)
            continue
        res, _, dump = r.partition(' ## ')
        f = dict(x.split('=') for x in dump.split() if '=' in x)
        if kind == 'zr':
            opn = t[2]
            # every byte the source produced must stay readable: a read of no more than what is buffered cannot fail
            if res.startswith('fail') and opn in ('next', 'peek', 'skip', 'rbin', 'rstr', 'rbyte'):
                need = 1 if opn == 'rbyte' else int(t[3])
                if need <= lastL:
                    return i, '%s(%d) failed with "%s" although %d bytes the source produced are buffered' % (opn, need, res, lastL)
            # the source's error is what is surfaced: a waiting call with a valid count fails only with the error (io.EOF as
            # ErrEOF) of the LAST source read it made - never with the buffer's own "not enough data" while the source has
            # returned no error (the bytes it goes on producing must become readable), and never with an error the source
            # did not return during this call
            if res.startswith('fail') and opn in ('next', 'peek', 'skip', 'rbin', 'rstr', 'rbyte') and 'left' in f:
                need = 1 if opn == 'rbyte' else int(t[3])
                left = int(f['left'])
                used = script[len(script) - lastLeft:len(script) - left]
                cls = res.split()[1]
                if need >= 0:
                    why = None
                    if cls == 'buf':
                        why = 'the buffer\'s own error'
                    elif used:
                        k, e = used[-1]
                        want = {'e': 'eof', 'x': 'src'}.get(e, 'negative' if k < 0 else None)
                        if left == 0 and want is None: want = 'eof'      # the exhausted script answers (0, io.EOF) and consumes no entry
                        if cls != want: why = 'error class "%s"' % cls
                    elif not (left == 0 and cls == 'eof'):
                        why = 'error class "%s"' % cls
                    if why:
                        return i, '%s(%d) failed with %s, which the source did not return during the call (%d source reads%s: %s; %d bytes buffered after it)' % (
                            opn, need, why, len(used), ', then the exhausted script' if left == 0 else '', ','.join('%d:%s' % x for x in used[-20:]) or '-', int(f.get('L', 0)))
            if 'left' in f: lastLeft = int(f['left'])
            if res.startswith('ok b:') and opn in ('next', 'rbin', 'rstr', 'rbyte', 'until'):
                _, ln, h = res.split(':'); ln = int(ln)
                want = fnv([gen_byte(5, dc + k) for k in range(ln)])
                if int(h) != want: return i, 'bytes returned are not the next %d bytes of the source stream at position %d' % (ln, dc)
                dc += ln
            elif res.startswith('ok b:') and opn == 'peek':
                _, ln, h = res.split(':'); ln = int(ln)
                if int(h) != fnv([gen_byte(5, dc + k) for k in range(ln)]): return i, 'peeked bytes are not the source stream at position %d' % dc
            elif res == 'ok' and opn == 'skip':
                n = int(t[3]); dc += max(n, 0)
            if 'pos' in f and int(f['pos']) != dc + int(f['L']):
                return i, 'pulled (%s) != delivered (%d) + buffered (%s)' % (f['pos'], dc, f['L'])
            if int(f.get('M', 0)) != 0: return i, 'pending bytes left in the reader buffer'
            lastL = int(f.get('L', 0))
        elif kind == 'zw':
            opn = t[2]
            if opn == 'mal' and int(t[3]) > 0: pending += [gen_byte(int(t[4]), k) for k in range(int(t[3]))]
            elif opn in ('wbin', 'wstr'): pending += [gen_byte(int(t[4]), k) for k in range(int(t[3]))]
            elif opn == 'wbyte': pending.append(int(t[3]))
            elif opn == 'ack' and int(t[3]) >= 0: pending = pending[:int(t[3])]
            elif opn == 'flush': submitted += pending; pending = []
            ln, h = f['sunk'].split(':'); ln = int(ln)
            if ln > len(submitted) or int(h) != fnv(submitted[:ln]): return i, 'sink content is not a prefix of the flushed stream'
            if int(f['L']) != len(submitted) - ln: return i, 'flushed-but-unsent count wrong'
            if int(f['M']) != len(pending): return i, 'MallocLen wrong'
        elif kind in ('iow', 'ior'):
            # NewIOWriter / NewIOReader over a LinkBuffer: what went in through one side comes out of the other, once, in order.
            # The io.Writer's caller reuses its slice as soon as Write has returned (harness: callerWrite), as io.Copy does.
            opn = t[2]
            if opn in ('write', 'feed'):
                n = int(t[3])
                if opn == 'write':
                    if not res.startswith('ok n:'): return None      # a Write that reports an error: nothing more is claimed
                    if int(res[5:]) != n: return i, 'Write(%d bytes) returned n=%s without an error' % (n, res[5:])
                submitted += [gen_byte(int(t[4]), k) for k in range(n)]
            elif opn in ('drain', 'read') and res.startswith('ok b:'):
                _, ln, h = res.split()[1].split(':'); ln = int(ln)
                if ln > len(submitted) - dc or int(h) != fnv(submitted[dc:dc + ln]):
                    return i, ('bytes read back from the wrapped Writer are not the next %d bytes written through NewIOWriter (stream position %d)' if kind == 'iow' else
                               'bytes returned by NewIOReader.Read are not the next %d bytes of the wrapped Reader (stream position %d)') % (ln, dc)
                dc += ln
            if int(f['L']) != len(submitted) - dc: return i, 'written (%d) != read back (%d) + buffered (%s)' % (len(submitted), dc, f['L'])
        elif kind == 'iowz':
            # NewIOWriter over NewWriter over a scripted sink: every Write flushes, so at any time the sink holds a prefix of
            # everything written so far and the rest is still buffered (it goes out with a later Write / Flush)
            opn = t[2]
            if opn == 'write': submitted += [gen_byte(int(t[4]), k) for k in range(int(t[3]))]
            ln, h = f['sunk'].split(':'); ln = int(ln)
            if ln > len(submitted) or int(h) != fnv(submitted[:ln]): return i, 'sink content is not a prefix of the stream written through NewIOWriter'
            if int(f['L']) != len(submitted) - ln: return i, 'written (%d) != sunk (%d) + buffered (%s)' % (len(submitted), ln, f['L'])
            if int(f['M']) != 0: return i, 'pending bytes left in the writer buffer after Write/Flush'
    return None

def run_shard(binary, wd, seed, seqs, nops):
    os.makedirs(wd, exist_ok=True)
    ops, impl, model = (os.path.join(wd, n) for n in ('ops', 'impl', 'model'))
    subprocess.run([binary, '-seed', str(seed), '-seqs', str(seqs), '-ops', str(nops), '-ops-out', ops, '-impl-out', impl], check=True, timeout=1800)
    with open(ops) as i, open(model, 'w') as o:
        subprocess.run([common.DRIVER, 'adapter'], stdin=i, stdout=o, check=True, timeout=1800)
    return analyse(wd)

def analyse(wd):
    rd = lambda n: open(os.path.join(wd, n)).read().split('\n')[:-1]
    ops, impl, model = rd('ops'), rd('impl'), rd('model')
    res = {'seqs': 0, 'lines': len(ops), 'problems': [], 'hist': {}, 'finals': set(), 'samples': []}
    bounds = [i for i, o in enumerate(ops) if o.startswith('seq ')] + [len(ops)]
    for a, b in zip(bounds, bounds[1:]):
        so, si, sm = ops[a:b], impl[a:b], model[a:b]
        res['seqs'] += 1
        for o in so[1:]:
            k = ' '.join(o.split()[0:1] + o.split()[2:3]); res['hist'][k] = res['hist'].get(k, 0) + 1
        if len(si) > 1: res['finals'].add(si[-1])
        d = lbtool.first_diff(si, sm)
        # the model provably preserves the stream, so the (slow, independent) oracle is needed only where
        # implementation and model differ - plus a 5% sample as a self-check of oracle and model
        v = oracle(so, si) if (d is not None or res['seqs'] % 20 == 0) else None
        if v is not None:
            res['problems'].append((so, v[0], 'impl-violates-spec', 'op=%s | impl=%s | %s' % (so[v[0]], si[v[0]][:200], v[1])))
            continue
        if d is not None:
            res['problems'].append((so, d, 'impl-model-differ', 'op=%s | impl=%s | model=%s' % (so[min(d, len(so) - 1)], (si + [''])[d][:200], (sm + [''])[d][:200])))
        if len(res['samples']) < 2: res['samples'].append(' ; '.join(so[:16]))
    return res

def replay_ops(binary, lines, wd):
    os.makedirs(wd, exist_ok=True)
    ops, impl, model = (os.path.join(wd, n) for n in ('ops', 'impl', 'model'))
    open(ops, 'w').write('\n'.join(lines) + '\n')
    subprocess.run([binary, '-replay', ops, '-impl-out', impl], check=True, timeout=600)
    with open(ops) as i, open(model, 'w') as o:
        subprocess.run([common.DRIVER, 'adapter'], stdin=i, stdout=o, check=True, timeout=600)
    return analyse(wd)

def shrink(binary, seq, kind, wd):
    def differs(lines):
        return any(p[2] == kind for p in replay_ops(binary, lines, wd)['problems'])
    try:
        if not differs(seq): return seq
        head2, rest = seq[:2], seq[2:]   # keep `seq` and the `new` line
        def d2(lines): return differs(head2 + lines[1:])
        out = lbtool.shrink(binary, [head2[1]] + rest, wd, d2)
        return head2 + out[1:]
    except Exception:
        return seq

def run(rep):
    wd = os.path.join(common.WORK, PROP); shutil.rmtree(wd, ignore_errors=True); os.makedirs(wd)
    ok, detail = common.proof_stage(rep, MODULES, ['npdriver'])
    proof_broken = None if ok else detail
    binary, out = common.build_harness('adapter')
    if binary is None:
        rep.violation('harness does not build against /repo:\n' + out[-2000:], ['# go build failed'], no_input=True); return
    cur = common.facts()['funcs']
    import json
    exp_path = os.path.join(common.VERIF, 'lib/expected_fp.json')
    exp = json.load(open(exp_path)) if os.path.exists(exp_path) else {}
    changed = [n for n, f in cur.items() if f['file'] == 'nocopy_readwriter.go' and exp.get(n) != f['hash']]
    escalate = bool(changed) or proof_broken is not None
    if changed: rep.notes.append('mirrored functions changed (budget escalated): ' + ', '.join(changed))
    shards, seqs, nops = (16, 3000, 60) if rep.tier == "thorough" else (8, 250, 40)
    if escalate: seqs *= 2
    problems = []
    import glob
    for f in sorted(glob.glob(os.path.join(common.VERIF, 'corpus', PROP, '*.ops'))):
        r = replay_ops(binary, [l for l in open(f).read().split('\n') if l and not l.startswith('#')], os.path.join(wd, 'corpus'))
        problems += r['problems']
    with ThreadPoolExecutor(max_workers=16) as ex:
        results = list(ex.map(lambda i: run_shard(binary, os.path.join(wd, 's%d' % i), rep.seed * 1000 + i, seqs, nops), range(shards)))
    hist = {}; finals = set(); n = 0
    for r in results:
        problems += r['problems']; finals |= r['finals']; n += r['seqs']
        for k, v in r['hist'].items(): hist[k] = hist.get(k, 0) + v
    rep.cov.update(evaluations=n, distinct_nontrivial=len(finals),
                   rule='one adapter per sequence (zcReader / zcWriter / ioReader / ioWriter over a LinkBuffer / ioWriter over zcWriter) behind a scripted source or sink (per-call counts 0..>4KB, negative, data with error, short writes; '
                        'one reader sequence in four over a long stream with rare Release, one in five over a trickling source with more tiny / zero-byte reads than one fill makes); the io.Writer caller overwrites its slice after every Write; zero-copy results of the reader are re-compared until Release (poisoning allocator); '
                        'random Reader/Writer calls; every reply compared with the Lean adapter model and judged by a stream oracle; distinct_nontrivial = distinct final reply lines',
                   samples=results[0]['samples'], op_histogram=hist, traces_validated_against_impl=n)
    rep.assumptions += ['C01 refinement: inside Contract a LinkBuffer behaves as the spec queue (checked by ./check C01)',
                        'an io.Reader never reports more bytes than len(p) (io contract)']
    genuine = [p for p in problems if p[2] == 'impl-violates-spec']
    others = [p for p in problems if p[2] != 'impl-violates-spec']
    if genuine:
        seq, idx, kind, detail = genuine[0]
        rep.violation('adapter breaks the byte stream (%d sequences; first, shrunk): %s' % (len(genuine), detail), shrink(binary, seq[:idx + 1], kind, os.path.join(wd, 'shrink')))
    elif others:
        seq, idx, kind, detail = others[0]
        rep.violation('correspondence Netpoll.Adapter <-> nocopy_readwriter.go no longer checks (%d sequences) and the stream oracle found no failing input in %d sequences: %s' % (len(others), n, detail),
                      shrink(binary, seq[:idx + 1], kind, os.path.join(wd, 'shrink')), no_input=True)
    elif proof_broken:
        rep.violation('proof obligation broken, no failing input found in %d sequences: %s' % (n, proof_broken), ['# ' + l for l in proof_broken.split('\n')], no_input=True)

def replay(rep, path):
    binary, out = common.build_harness('adapter'); common.lake_build(['npdriver'])
    lines = [l for l in open(path).read().split('\n') if l and not l.startswith('#')]
    r = replay_ops(binary, lines, os.path.join(common.WORK, 'replay16'))
    rep.cov['evaluations'] = r['seqs']
    for p in r['problems']: print('REPLAY: %s: %s' % (p[2], p[3]))
    if r['problems']:
        rep.violation('replay reproduces: ' + r['problems'][0][3], lines, no_input=r['problems'][0][2] != 'impl-violates-spec')
    return rep.finish(LEVEL)
