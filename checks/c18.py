"""C18 - the poller pool always hands out a running poller of the configured size.
Theorems: lean/Netpoll/Props/C18.lean (model lean/Netpoll/Manager.lean, invariant lean/Netpoll/ManagerLemmas.lean).
Tie: T-gen (status enum + call sites of the manager's methods: Run only behind Pick's status CAS or from Reset, the package-level entry
     points Initialize/Configure/SetNumLoops/SetLoadBalance and what each calls [HARD] + step fingerprints of Pick/Run/Close/Reset/Set*/balancers
     [SOFT], lean/Netpoll/Tie/Manager.lean)
   + T-sched (one-actor-at-a-time scheduler over the vmgrPoint schedule points of hooks/manager.patch; those of Pick placed
     semantically by tools/mgrpoints: before every atomic operation on the status word; trace
     conformance of every step against Netpoll.Manager.step) + T-diff of sequential calls + seeded stress,
     all judged by the Lean spec oracle (npdriver mgrspec)."""
import glob, json, os, shutil, time
import common, mgrbuild, mgrrun

LEVEL = 'proof'
PROP = 'C18'
MANIFEST = dict(
    text='Lean 4 theorems over an interleaving model of manager.Pick/Run and the balancers (Netpoll.Manager: one step per atomic step of the Go code, '
         'any number of concurrent pickers by counter abstraction, SetNumLoops/SetLoadBalance between phases): an inductive invariant gives, for every '
         'reachable state of every schedule and configuration sequence, that every poller returned by Pick is in the current slice with its loop started and '
         'not closed, that after the first completed slow path the slice has exactly numLoops distinct running pollers, every surplus poller was closed exactly '
         'once and none leaked - this resource half with no hypothesis on the environment: also after injected openPoll failures, whose error path closes the '
         'pollers the failing Run had opened together with the old pool (C18_size, C18_none_left_behind, C18_failed_run_closes_all; fix a1c21fb) -, '
         'that a waiting picker always has a lock holder with an enabled step, and (pure arithmetic) that round-robin slot counts differ by '
         'at most one for every start counter below 2^63. The model is tied to /repo on every run: regenerated status enum and step fingerprints (T-gen), '
         'step-by-step trace conformance of the real manager under a controlled scheduler, sequential differential runs and concurrent stress, '
         'with liveness probes of the real pollers and a descriptor census - also for a Pick / Reset / Close that arrives while loops of the pool are busy in a callback with an unconsumed Trigger() (op pend: the Close of a surplus poller then adds to the pending wake-up on the eventfd counter; the closed ones must still stop) -; the Lean spec oracle judges the implementation\'s replies directly. '
         'The call sites through which the package reaches the pool (Initialize = one Pick, Run only behind the status CAS or from Reset) are regenerated and compared too.',
    note='Trusted: Lean kernel; axioms propext/Classical.choice/Quot.sound; extractor; harness, scheduler and line protocol. Correspondence is sampling '
         '(evidence lists sites and schedules exercised). Schedule points are add-only vmgrPoint lines applied from hooks/manager.patch to a temporary copy of '
         'poll_manager.go/poll_loadbalance.go at build time (no commit in /repo); the points of manager.Pick are then (re)placed by tools/mgrpoints by what the statements do - one in front of every '
         'sync/atomic operation on the status word (load, the two CAS, any other write = site stw) - so that an edited Pick can still be preempted between any two of its accesses; '
         'if the patched copies do not compile the check falls back to stress + sequential differential with an escalated budget (evidence field sched_mode says which ran). '
         'Every second stress phase releases up to GOMAXPROCS/2 of its pickers from a spinning barrier (they call Pick directly), the others from a channel barrier; '
         'one phase of every stress scenario (iphase) follows a SetNumLoops(4..16) and mixes callers of the package-level netpoll.Initialize() with the first Picks (the global pollmanager is pointed at the '
         'scenario\'s manager for the duration of the phase); which of the picks were the dropped ones of Initialize is not observable, so the returned-poller multiset of such a phase is judged by the spec '
         '(every Pick returned a running member of the slice, pool sized, nothing left behind) but not compared with the model\'s, and evenness is not judged there. '
         'That a goroutine enters manager.Run only behind Pick\'s successful status CAS or from Reset, and that Initialize/Configure/SetNumLoops/SetLoadBalance and every other user of the global pool go '
         'through Pick/SetNumLoops/SetLoadBalance only, is a HARD T-gen tie (tools/extract/manager.go: every selection of a manager method with its enclosing function, every Run site with its CAS guard, every use of the '
         'global; lemmas run_entered_only_under_cas_or_reset, unlocked_methods_stay_internal, entry_points, global_pool_used_through_model_alphabet; model lemma model_run_entered_only_by_cas). Assumed, with Lean witnesses of what happens otherwise: '
         'A-open-ok for the claims about what Pick returns (when openPoll fails Run closes every poller, the old pool and the ones it had just opened, '
         'and leaves a closed manager: no slice, numLoops 0, no balancer; Pick cannot report the error and panics on the nil balancer until SetLoadBalance '
         'and SetNumLoops are called again; that nothing is left open is required by the spec oracle after every injected failure), '
         'A-no-wrap (fewer than 2^63 picks per balancer: beyond, int(uintptr) % n is negative and Pick panics for every n >= 2), numLoops < 2^31, '
         'no reconfiguration concurrent with Pick (contract). Termination is stated as quiescence (no stuck state) under scheduler fairness. See DESIGN.md §6 C18, §8.',
    technique='Lean 4 invariant proof over an interleaving model (counter abstraction) + controlled-scheduler trace conformance, differential and stress correspondence of model and code',
    design='§6 C18')
MODULES = ['Netpoll.Props.C18']
TIE = ['Netpoll.Tie.Manager']
MIRRORED = ('newManager', 'manager.SetNumLoops', 'manager.SetLoadBalance', 'manager.Close', 'manager.Run', 'manager.Reset',
            'manager.Pick', 'roundRobinLB.Pick', 'roundRobinLB.Rebalance', 'randomLB.Pick', 'randomLB.Rebalance', 'newLoadbalance',
            'newRoundRobinLB', 'newRandomLB', 'roundRobinLB.LoadBalance', 'randomLB.LoadBalance',
            # the package-level entry points into the global pool (netpoll_unix.go; Tie.Manager.entry_points says what each calls)
            'Initialize', 'Configure', 'SetNumLoops', 'SetLoadBalance')
EXPECTED_FP = os.path.join(common.VERIF, 'lib', 'expected_fp_c18.json')

def fingerprint_changes():
    exp = json.load(open(EXPECTED_FP)) if os.path.exists(EXPECTED_FP) else {}
    cur = common.facts()['funcs']
    changed = [n for n in MIRRORED if n in cur and exp.get(n) != cur[n]['hash']]
    changed += [n + ' (removed)' for n in MIRRORED if n in exp and n not in cur]
    return changed

def classify_tie_errors(o):
    """lake output -> (hard, soft, other): error lines in Tie/Manager.lean above / below the SOFT marker, and elsewhere"""
    src = open(os.path.join(common.LEAN, 'Netpoll/Tie/Manager.lean')).read().split('\n')
    marker = next((i + 1 for i, l in enumerate(src) if l.startswith('-- SOFT BELOW')), 10 ** 9)
    hard = []; soft = []; other = []
    for l in o.split('\n'):
        if 'error' not in l or 'Lean exited' in l or 'build failed' in l:
            continue
        if 'Tie/Manager.lean:' in l:
            try:
                ln = int(l.split('Tie/Manager.lean:')[1].split(':')[0])
            except ValueError:
                ln = 0
            (hard if ln < marker else soft).append(l.strip()[:300])
        else:
            other.append(l.strip()[:300])
    return hard, soft, other

def proof_and_tie(rep):
    """steps 1-3.  Normal path: ONE lake build + ONE audit of the property theorems and the tie lemmas together.
    Returns (proof_broken: str|None, soft_tie_broken: str|None, have_facts)."""
    ok, detail = common.proof_stage(rep, MODULES + TIE, ['npdriver'])
    if ok:
        return None, None, True
    if detail.startswith('T-gen'):
        return detail, None, False
    if not detail.startswith('lake build failed'):
        return detail, None, True
    # something no longer builds: find out what (a changed step fingerprint is SOFT: it only escalates the search)
    ok_t, o_t = common.lake_build(TIE)
    hard, soft, other = classify_tie_errors(o_t) if not ok_t else ([], [], [])
    rep.cov['obligations'] = 0; rep.cov['discharged'] = 0; rep.cov['theorems'] = []
    ok_p, detail_p = common.proof_stage(rep, MODULES, ['npdriver'])
    rep.cov['obligations'] += len(hard) + len(soft)     # the broken tie lemmas are undischarged obligations
    broken = None if ok_p else detail_p
    if hard or other:
        broken = (broken + '\n' if broken else '') + 'T-gen tie (values the theorems are about) no longer checks:\n' + '\n'.join(hard + other)
    return broken, ('\n'.join(soft) or None), True

def budgets(tier, hooks):
    """(shards, scenarios per shard[, ops]) per mode and the per-shard deadline in seconds"""
    if tier == 'thorough':
        b = dict(seq=(16, 150, 60), sched=(16, 400), stress=(16, 120), deadline=420)
    else:
        b = dict(seq=(8, 30, 40), sched=(8, 70), stress=(8, 20), deadline=40)
    if not hooks:
        b['stress'] = (16, b['stress'][1] * 4)
    return b

def run_batch(binary, wd, seed, b, hooks, tag=''):
    """all shards of all modes through ONE pool of 12 workers (more processes than cores only produces time-outs)"""
    from concurrent.futures import ThreadPoolExecutor
    with ThreadPoolExecutor(max_workers=12) as ex:
        futs = mgrrun.run_many(binary, wd, seed, b['seq'][0], 'seq', b['seq'][1], b['seq'][2], b['deadline'], tag, pool=ex)
        if hooks:
            futs += mgrrun.run_many(binary, wd, seed + 300, b['sched'][0], 'sched', b['sched'][1], 40, b['deadline'], tag, pool=ex)
        futs += mgrrun.run_many(binary, wd, seed + 600, b['stress'][0], 'stress', b['stress'][1], 40, b['deadline'], tag, pool=ex)
        return [f.result() for f in futs]

def run(rep, prop=PROP):
    wd = os.path.join(common.WORK, prop); shutil.rmtree(wd, ignore_errors=True); os.makedirs(wd)
    proof_broken, soft, have_facts = proof_and_tie(rep)
    binary, out, hooks, note = mgrbuild.build()
    rep.cov['sched_mode'] = 'controlled scheduler (trace conformance)' if hooks else 'FALLBACK: seeded stress + sequential differential only'
    rep.cov['hooks'] = note
    if binary is None:
        rep.violation('harness does not build against /repo (does the tree compile?):\n' + out[-2000:], ['# go build failed'], no_input=True)
        return
    changed = fingerprint_changes() if have_facts else []
    escalate = bool(changed) or proof_broken is not None or soft is not None or not hooks
    if changed:
        rep.notes.append('mirrored functions whose source changed since the model was written (budget escalated): ' + ', '.join(changed))
    if soft:
        rep.notes.append('step fingerprint tie lemmas no longer check (model of those functions unvalidated; budget escalated): ' + soft[:600])
    if not hooks:
        rep.notes.append('no schedule points in this build (%s): controlled-scheduler conformance not run' % note)
    b = budgets(rep.tier, hooks)
    problems = []
    nscn = 0
    # corpus first
    for f in sorted(glob.glob(os.path.join(common.VERIF, 'corpus', prop, '*.ops'))):
        lines = [l for l in open(f).read().split('\n') if l and not l.startswith('#')]
        if not hooks and any(l.startswith('step') for l in lines):
            continue
        r = mgrrun.replay_ops(binary, lines, os.path.join(wd, 'corpus-' + os.path.basename(f)))
        nscn += r['scn']
        for p in r['problems']: problems.append(p + ('corpus:' + os.path.basename(f),))
    results = run_batch(binary, wd, rep.seed, b, hooks)
    if escalate and not problems and not any(r['problems'] for r in results):
        # the model is unvalidated (changed source / broken obligation / no schedule points): widen the search
        # (only when the normal budget found nothing - a failing implementation is reported from the first batch)
        eb = dict(seq=(12, b['seq'][1] * 2, b['seq'][2]), sched=(12, b['sched'][1] * 3), stress=(12, b['stress'][1] * 3),
                  deadline=b['deadline'] * 2)
        results += run_batch(binary, wd, rep.seed + 7000, eb, hooks, tag='x')
        rep.notes.append('escalated batch run (no disagreement in the normal budget)')
    hist = {}; finals = set(); scheds = set(); lines = 0; inc = outc = rets = phases = 0
    per_mode = {}
    for r in results:
        for p in r['problems']: problems.append(p + (r['mode'],))
        for k, v in r['hist'].items(): hist[k] = hist.get(k, 0) + v
        finals |= r['finals']; scheds |= r['scheds']; lines += r['lines']; nscn += r['scn']
        inc += r['in_contract']; outc += r['out_contract']; rets += r['rets']; phases += r['phases']
        per_mode[r['mode']] = per_mode.get(r['mode'], 0) + r['scn']
    rep.cov['evaluations'] = nscn
    rep.cov['distinct_nontrivial'] = len(scheds) + len(finals)
    rep.cov['rule'] = ('scenarios generated by go/inpkg/mgrh.go on a fresh manager each: seq = sequential SetNumLoops/SetLoadBalance/Pick/Reset/Close/counter presets, a third of the reconfiguring Picks '
                       'and half of the Closes issued while loops are parked in a callback with an unconsumed Trigger (pend); '
                       'sched = phases of 1-5 goroutines in Pick under the one-actor-at-a-time scheduler, every atomic step compared with Netpoll.Manager.step '
                       '(shared words, balancer snapshot, where every actor is parked, descriptor census, closed pollers), openPoll failures injected in ~8% of them '
                       '(the scenario goes on after the failure: closed manager, revival by SetLoadBalance/SetNumLoops); '
                       'stress = phases of 2-64 truly concurrent Picks. distinct_nontrivial = distinct complete schedules (actor/site sequences, all with >= 1 preemption '
                       'when more than one actor) + distinct final dumps')
    rep.cov['distinct_schedules'] = len(scheds)
    rep.cov['distinct_final_states'] = len(finals)
    rep.cov['scenarios_per_mode'] = per_mode
    rep.cov['op_lines'] = lines
    rep.cov['lines_in_contract_judged_OK_by_spec'] = inc
    rep.cov['lines_out_of_contract'] = outc
    rep.cov['picks_returned'] = rets
    rep.cov['phases_probed'] = phases
    rep.cov['op_and_site_histogram'] = dict(sorted(hist.items()))
    all_sites = ['load', 'cas', 'cas2', 'rload', 'rclose', 'ropen', 'rgo', 'rstore', 'rrebal', 'mclose', 'mclear', 'rradd', 'rndsize', 'lbidx']
    rep.cov['never_hit_sites'] = [s for s in all_sites if ('step:' + s) not in hist] if hooks else all_sites
    rep.cov['traces_validated_against_impl'] = nscn
    samples = []
    for m in ('seq', 'sched', 'stress'):
        for r in results:
            if r['mode'] == m and r['samples']:
                samples.append(m + ': ' + r['samples'][0][:1500]); break
    rep.cov['samples'] = samples
    rep.assumptions += ['A-open-ok (only for the claims about what Pick returns): openPoll() does not fail (witness C18_openfail_witness: closed manager, Pick panics on the nil balancer; '
                        'the failing path is exercised by injected RLIMIT_NOFILE=0, compared with the model step by step, and the spec oracle requires that no poller is left behind: '
                        'Obs.noStray, theorem C18_none_left_behind, no assumption)',
                        'A-no-wrap: fewer than 2^63 round-robin picks per balancer (witness C18_round_robin_sign_witness; boundary counters are preset and compared with the model)',
                        'numLoops < 2^31 (int32 truncation in SetNumLoops not modelled)',
                        'no SetNumLoops/SetLoadBalance concurrent with Pick (contract; not generated)',
                        'A-go-mm: sync/atomic is sequentially consistent; plain accesses ordered by the status word',
                        'A-sched-fair for termination (C18_quiescent is a no-stuck-state theorem)']
    report(rep, binary, wd, problems, proof_broken, soft)

def shrink(binary, seq, kind, wd):
    """greedy removal of op lines of a sequential scenario while the same kind of problem persists (schedules are only truncated)"""
    if any(l.startswith(('spawn', 'step')) for l in seq):
        return seq
    cur = list(seq); tries = 0
    i = len(cur) - 2
    t0 = time.time()
    # (time budget: a replay of a scenario that leaves pollers behind waits for each of them to close, load-scaled)
    while i >= 2 and tries < 60 and time.time() - t0 < 45:
        cand = cur[:i] + cur[i + 1:]
        tries += 1
        r = mgrrun.replay_ops(binary, cand, wd)
        if any(p[2] == kind for p in r['problems']):
            cur = cand
        i -= 1
    return cur

def confirm(binary, wd, problems, rep, limit=6):
    """A disagreement that slowness alone could explain (a close / probe answer / Pick that had not happened YET when a
    time-out expired on a loaded machine) is replayed up to twice; it counts only if it shows again.  Everything
    else (wrong poller, panic, wrong slice, wrong counter, ...) counts as it is."""
    kept = []; transient = 0
    for p in problems:
        seq, idx, kind, detail, timing, src = p
        if not timing or not seq:
            kept.append(p); continue
        if len(kept) >= limit or transient >= limit:
            continue
        again = None
        for k in range(2):
            r = mgrrun.replay_ops(binary, seq[:idx + 1], os.path.join(wd, 'confirm'))
            if r['problems']:
                again = r['problems'][0]; break
        if again:
            kept.append((seq, idx, again[2], again[3] + ' [reproduced on replay]', True, src))
        else:
            transient += 1
    if transient:
        rep.notes.append('%d timing-only disagreement(s) (a close/probe/Pick not finished when a load-scaled time-out expired) did not reproduce on replay and were dropped; loadavg %s'
                         % (transient, open('/proc/loadavg').read().split()[0]))
    return kept

def report(rep, binary, wd, problems, proof_broken, soft):
    problems = confirm(binary, wd, problems, rep)
    genuine = [p for p in problems if p[2] == 'impl-violates-spec']
    others = [p for p in problems if p[2] != 'impl-violates-spec']
    if genuine:
        seq, idx, kind, detail, timing, src = genuine[0]
        small = shrink(binary, seq[:idx + 1], kind, os.path.join(wd, 'shrink'))
        rep.violation('the real poller pool violates the C18 spec oracle on a scenario inside the contract of the violated clause (%d such scenarios; the first is the replay; source %s): %s'
                      % (len(genuine), src, detail), small)
    elif others:
        seq, idx, kind, detail, timing, src = others[0]
        small = shrink(binary, seq[:idx + 1], kind, os.path.join(wd, 'shrink')) if seq else ['# ' + detail]
        rep.violation('correspondence Netpoll.Manager <-> poll_manager.go/poll_loadbalance.go no longer checks (%s, %d scenarios, source %s) and no spec-violating '
                      'scenario was found in %d scenarios: %s' % (kind, len(others), src, rep.cov['evaluations'], detail), small, no_input=True)
    elif proof_broken:
        rep.violation('proof obligation broken and no failing scenario found in %d scenarios: %s' % (rep.cov['evaluations'], proof_broken),
                      ['# ' + l for l in proof_broken.split('\n')], no_input=True)
    for k in common.known_findings(PROP):
        if k.get('status') == 'finding':
            print('KNOWN-FINDING: property=%s %s' % (PROP, k['what']))

def replay(rep, path):
    binary, out, hooks, note = mgrbuild.build()
    common.lake_build(['npdriver'])
    if binary is None:
        rep.violation('harness does not build:\n' + out[-2000:], ['# go build failed'], no_input=True)
        return rep.finish(LEVEL)
    lines = [l for l in open(path).read().split('\n') if l and not l.startswith('#')]
    if not lines:
        print('REPLAY: the file names a proof obligation, not a scenario; re-run ./check C18')
        run(rep)
        return rep.finish(LEVEL)
    r = mgrrun.replay_ops(binary, lines, os.path.join(common.WORK, 'replay-c18'))
    rep.cov['evaluations'] = r['scn']
    for p in r['problems']:
        print('REPLAY: %s: %s' % (p[2], p[3]))
    if r['problems']:
        first = next((p for p in r['problems'] if p[2] == 'impl-violates-spec'), r['problems'][0])   # a spec violation later in the scenario outranks the model difference before it
        rep.violation('replay reproduces: ' + first[3], lines, no_input=first[2] != 'impl-violates-spec')
    else:
        print('REPLAY: no disagreement (%d lines)' % r['lines'])
    return rep.finish(LEVEL)
