"""C11 - the poller dispatches each descriptor's events completely and in order.
Theorems: lean/Netpoll/Props/C11.lean (model lean/Netpoll/Poll/{Handler,Wake,Spec}.lean).
Tie: T-gen (handler flag masks + cascade order, Control table, Wait growth literals, wake-up messages ->
lean/Netpoll/Gen/Poll.lean, proved equal to the expected values in lean/Netpoll/Tie/Poll.lean) and T-real
(go/inpkg/pollh*.go: the real handler on synthetic events over real descriptors, the finite part enumerated
completely; randomized batches; the real Wait loop on a private poll)."""
import collections, glob, os, shutil, subprocess
import common, pollrun

LEVEL = 'proof'
PROP = 'C11'
MANIFEST = dict(
    text='Lean 4 theorems over a pure model of defaultPoll.handler / appendHup / onhups / readall / ioread / iosend '
         '(Netpoll.Poll.Handler) and of the Trigger/Close wake-up protocol (Netpoll.Poll.Wake), for every flag set, callback set and '
         'system-call result script (induction over the script): data before hang-up, hang-up at most once and only after the detach, '
         'a reported hang-up is acted on unless bytes of that very descriptor were delivered in that dispatch (whatever other descriptors of the batch delivered), '
         'token released exactly once, acknowledged counts equal the kernel\'s results in order, nothing after the detach, every queued '
         'hang-up is reported (also when the close message is handled in the same batch), close message '
         'stops the loop after releasing both descriptors, a completed Trigger leaves the loop awake or about to be woken. '
         'The model is tied to /repo on every run: flag masks, cascade order, Control table, growth literals, wake-up messages, the statements of Wait\'s loop body '
         '(grow at the top of the iteration, fetch, dispatch, opcache.free) and of appendHup / onhups are regenerated from the source (T-gen); the real handler is run on synthetic epoll events over real descriptors for the complete '
         'finite table (32 flag sets x 32 callback sets x 12 descriptor states x shapes) plus random batches around 128/256 events and '
         'real-epoll scenarios with the real Wait loop (among them a wake-up that exactly fills the 128-entry event array with edge-triggered registrations at its head), and its callback trace is compared with the model\'s and judged by the Lean spec oracle.',
    note='Partial: which flag sets the kernel produces, level-triggered re-reporting, EPOLL_CTL_DEL semantics and one event per descriptor '
         'per epoll_wait are assumptions (A-epoll-*); the hang-up goroutine is modelled as running after the batch. '
         'Known behaviour proved as a witness: a descriptor appearing twice in one batch gets callbacks after its detach '
         '(excluded by A-epoll-unique). Fixed in /repo (1a14300, regression replay corpus/C11/f01-close-drops-hups.ops): a close message in a batch '
         'used to drop the hang-ups queued earlier in that batch; C11_hup_reported now holds for every batch, the spec oracle requires the '
         'hang-up callback whether or not handler returns true, and the pre-fix behaviour is kept as Netpoll.Poll.HandlerOld. '
         'Trusted: Lean kernel, extractor, harness, line protocol.',
    technique='Lean 4 proof over a handler model (all flag sets x operator kinds x syscall scripts) + exhaustive differential run of the real handler on synthetic events',
    design='§6 C11')
MODULES = ['Netpoll.Props.C11', 'Netpoll.Tie.Poll']
MIRRORED = ('defaultPoll.handler', 'defaultPoll.Wait', 'defaultPoll.Trigger', 'defaultPoll.Close', 'defaultPoll.Control',
            'defaultPoll.appendHup', 'defaultPoll.detach', 'defaultPoll.onhups', 'readall', 'ioread', 'iosend', 'readv', 'sendmsg',
            'iovecs', 'resetIovecs', 'FDOperator.Control', 'FDOperator.do', 'FDOperator.done', 'openDefaultPoll')

def fingerprint_changes():
    exp_path = os.path.join(common.VERIF, 'lib/expected_fp.json')
    if not os.path.exists(exp_path) or not os.path.exists(os.path.join(common.WORK, 'facts.json')):
        return []
    import json
    exp = json.load(open(exp_path))
    cur = common.facts()['funcs']
    out = []
    for name in MIRRORED:
        if name not in cur:
            out.append(name + ' (removed)')
        elif exp.get(name) != cur[name]['hash']:
            out.append(name)
    return out

def budgets(tier, escalate):
    if tier == 'thorough':
        b = dict(rshards=16, rbatches=1500, xshards=16, xrounds=150)
    else:
        b = dict(rshards=8, rbatches=40, xshards=8, xrounds=8)
    if escalate:
        b['rbatches'] *= 4; b['xrounds'] *= 3; b['rshards'] = b['xshards'] = 16
    return b

def run(rep):
    wd = os.path.join(common.WORK, PROP); shutil.rmtree(wd, ignore_errors=True); os.makedirs(wd)
    # the Go side (harness build + all harness runs) needs nothing from Lean: run it while the proof stage
    # (T-gen, lake build, axiom audit) is under way; the model replay and the oracle come after both
    import threading
    stage = {}
    def proofs():
        try:
            stage['res'] = common.proof_stage(rep, MODULES, ['npdriver'])
        except Exception as e:
            stage['res'] = (False, 'proof stage failed: %r' % (e,))
    th = threading.Thread(target=proofs); th.start()
    binary, out = common.build_harness('pollh')
    if binary is None:
        th.join()
        rep.violation('harness does not build against /repo (does the tree compile?):\n' + out[-2000:], ['# go build failed'], no_input=True)
        return
    b0 = budgets(rep.tier, False)
    expected_cells = int(subprocess.run([binary, '-mode', 'count'], stdout=subprocess.PIPE, text=True, timeout=60).stdout.strip() or 0)
    jobs = [('enum%d' % i, ['-mode', 'enum', '-shard', str(i), '-nshards', '16']) for i in range(16)]
    jobs += [('rand%d' % i, ['-mode', 'rand', '-seed', str(rep.seed * 1000 + i), '-n', str(b0['rbatches']), '-tier', rep.tier]) for i in range(b0['rshards'])]
    jobs += [('real%d' % i, ['-mode', 'real', '-seed', str(rep.seed * 1000 + 500 + i), '-n', str(b0['xrounds']), '-tier', rep.tier]) for i in range(b0['xshards'])]
    pool, futs = pollrun.start_harnesses(binary, wd, jobs)
    th.join()
    ok, detail = stage['res']
    proof_broken = None if ok else detail
    if not os.path.exists(common.DRIVER):
        rep.violation('npdriver does not build:\n' + (proof_broken or ''), ['# lake build npdriver failed'], no_input=True)
        return
    changed = fingerprint_changes()
    escalate = bool(changed) or proof_broken is not None
    if changed:
        rep.notes.append('mirrored functions whose source changed since the model was written (search budget escalated): ' + ', '.join(changed))
    problems = []
    results = []
    names = []
    # corpus
    corpus_lines = []
    for f in sorted(glob.glob(os.path.join(common.VERIF, 'corpus', PROP, '*.ops'))):
        corpus_lines += [l for l in open(f).read().split('\n') if l and not l.startswith('#')]
    if corpus_lines:
        results.append(pollrun.replay_lines(binary, corpus_lines, os.path.join(wd, 'corpus'))); names.append('corpus')
    rs = pollrun.finish(wd, jobs, futs); pool.shutdown()
    results += rs; names += [n for n, _ in jobs]
    if escalate:
        # widened search: more random batches and real-epoll rounds, other seeds
        b = budgets(rep.tier, True)
        xjobs = [('xrand%d' % i, ['-mode', 'rand', '-seed', str(rep.seed * 1000 + 100 + i), '-n', str(b['rbatches']), '-tier', rep.tier]) for i in range(b['rshards'])]
        xjobs += [('xreal%d' % i, ['-mode', 'real', '-seed', str(rep.seed * 1000 + 700 + i), '-n', str(b['xrounds']), '-tier', rep.tier]) for i in range(b['xshards'])]
        results += pollrun.run_many(binary, wd, xjobs); names += [n for n, _ in xjobs]
    cov = collections.Counter(); sizes = collections.Counter(); cells = set(); traces = set(); cases = events = 0
    enum_cases = rand_cases = real_cases = 0
    for name, r in zip(names, results):
        for p in r['problems']: problems.append(p + (name,))
        cov += r['cov']; sizes += r['sizes']; cases += r['cases']; events += r['events']; traces |= r['traces']
        if name.startswith('enum'): cells |= r['cells']; enum_cases += r['cases']
        elif 'rand' in name: rand_cases += r['cases']
        elif 'real' in name: real_cases += r['cases']
    exhaustive = (len(cells) == expected_cells and enum_cases == expected_cells)
    if not exhaustive and not problems:
        problems.append(('', 'enumeration-incomplete', 'finite part: %d of %d cells executed' % (len(cells), expected_cells), 'enum'))
    rep.cov['evaluations'] = cases
    rep.cov['distinct_nontrivial'] = len(traces)
    rep.cov['rule'] = ('one evaluation = one call of the real defaultPoll.handler on a batch of epoll events (synthetic flags on real descriptors prepared in a known state, '
                       'or a batch the kernel delivered to the real Wait loop), replayed on the Lean model with the system-call results measured on twin descriptors, '
                       'replies compared textually and judged by the Lean spec oracle. distinct_nontrivial = distinct callback traces observed from the implementation. '
                       'exhaustive = every cell of the finite table (flag set x callback set x descriptor state x token/detach state x vector shapes, and the wake-up descriptor states) was executed')
    rep.cov['exhaustive'] = exhaustive
    rep.cov['finite_cells'] = expected_cells
    rep.cov['finite_cells_executed'] = len(cells)
    rep.cov['random_batches'] = rand_cases
    rep.cov['real_epoll_lines'] = real_cases
    rep.cov['events_handled'] = events
    rep.cov['batch_size_histogram'] = {str(k): v for k, v in sorted(sizes.items())}
    rep.cov['model_branch_histogram'] = dict(cov)
    want = ['onRead', 'onWrite', 'read-data', 'read-zero', 'read-errno', 'send-data', 'send-zero', 'send-errno', 'hup-queued', 'hup-queued-nil',
            'detach', 'detach-already', 'wake', 'exit', 'exit-runs-hups', 'hup-run', 'real']
    rep.cov['model_branches_never_hit'] = [w for w in want if cov[w] == 0]
    rep.cov['samples'] = (rs[0]['samples'][:1] + rs[16]['samples'][:1] + rs[-1]['samples'][:1]) if len(rs) > 16 else rs[0]['samples']
    rep.cov['traces_validated_against_impl'] = cases
    rep.assumptions += [
        'A-epoll-unique: at most one event per descriptor per epoll_wait (a duplicate gets callbacks after its detach: witness theorem)',
        'A-epoll-del: no event is fetched for a descriptor after EPOLL_CTL_DEL returned',
        'A-epoll-lt / A-epoll-flags: level-triggered re-reporting; readable data implies EPOLLIN is reported together with a hang-up',
        'A-kernel-fifo: readv/sendmsg counts are honest; a twin descriptor brought through the same history answers the same system calls the same way',
        'A-sched-fair: a Trigger call that won the flag eventually performs its eventfd write; the hang-up goroutine eventually runs',
        'fewer than 256 Close calls per poll (the close message is the low byte of the eventfd counter)']
    report(rep, binary, wd, problems, proof_broken)

def report(rep, binary, wd, problems, proof_broken):
    genuine = [p for p in problems if p[1] in ('impl-violates-spec', 'impl-panics')]
    others = [p for p in problems if p[1] not in ('impl-violates-spec', 'impl-panics')]
    if genuine:
        line, kind, detail, src = genuine[0]
        if line.startswith('real '):
            # a scenario on the real Wait loop: say everything that failed in it (its batches and its end-to-end facts)
            detail = ' || '.join(p[2][:700] for p in genuine if p[0] == line and p[3] == src)
        small = pollrun.shrink(binary, line, kind, os.path.join(wd, 'shrink')) if line.startswith('batch') else line
        rep.violation('the real handler violates the C11 spec oracle on this batch (%d such batches; first, shrunk, is the replay; source: %s): %s'
                      % (len(genuine), src, detail), [small])
    elif others:
        line, kind, detail, src = others[0]
        # a dead harness shows up as a short stream: say how it died
        detail += ''.join(' || ' + p[2] for p in others if p[1] == 'harness-exit' and p[3] == src)[:1500]
        small = pollrun.shrink(binary, line, kind, os.path.join(wd, 'shrink')) if line.startswith('batch') else line
        rep.violation('correspondence Netpoll.Poll.Handler <-> poll_default_linux.go/poll_default.go/net_io.go no longer checks (%s, %d batches, source: %s) and the spec oracle '
                      'found no violating batch among %d evaluations: %s' % (kind, len(others), src, rep.cov['evaluations'], detail),
                      [small] if small else ['# ' + detail], no_input=True)
    elif proof_broken:
        rep.violation('proof obligation or tie lemma broken and no failing input found in %d evaluations: %s' % (rep.cov['evaluations'], proof_broken),
                      ['# ' + l for l in proof_broken.split('\n')], no_input=True)
    for k in common.known_findings(PROP):
        if k.get('status') == 'finding':
            print('KNOWN-FINDING: property=%s %s' % (PROP, k['what']))

def replay(rep, path):
    binary, out = common.build_harness('pollh')
    common.regen()
    common.lake_build(['npdriver'])
    lines = [l for l in open(path).read().split('\n') if l and not l.startswith('#')]
    if not lines:
        print('REPLAY: nothing to execute (the replay file names a proof obligation or tie lemma; rebuild with: cd lean && lake build ' + ' '.join(MODULES) + ')')
        ok, o = common.lake_build(MODULES)
        if not ok:
            rep.violation('replay reproduces: lake build fails', ['# ' + l for l in o.split('\n') if 'error' in l][:20], no_input=True)
        return rep.finish(LEVEL)
    r = pollrun.replay_lines(binary, lines, os.path.join(common.WORK, 'replay-' + PROP))
    rep.cov['evaluations'] = r['cases']
    for p in r['problems']:
        print('REPLAY: %s: %s' % (p[1], p[2]))
    if r['problems']:
        rep.violation('replay reproduces: ' + r['problems'][0][2], lines, no_input=r['problems'][0][1] not in ('impl-violates-spec', 'impl-panics'))
    return rep.finish(LEVEL)
