"""C04 - a connection delivers the sender's byte stream intact.
Theorems: Props/C04.lean (output path with an adversarial kernel, iovecs, input chunking) over the C01 spec.
Ties: (a) scripted kernel driving the real inputs/inputAck/outputs/outputAck in-package vs Netpoll.Conn.Stream;
(b) real sockets (unix pair, unix listener, tcp) with tiny buffers and a position-keyed stream oracle."""
import os, re, shutil, subprocess, collections
from concurrent.futures import ThreadPoolExecutor
import common, lbtool

LEVEL = 'proof'
PROP = 'C04'
MODULES = ['Netpoll.Props.C04']
MANIFEST = dict(
    text='Lean 4 theorems: for every split into vectors and every kernel acceptance pattern (short writes, EAGAIN) the bytes the kernel accepted followed by what is still buffered are the flushed stream, '
         'iovecs denotes exactly a prefix of the chunks, and for every chunking of received data the readable stream is their concatenation - on top of the C01 refinement. '
         'Tied to the code by a scripted-kernel run of the real FDOperator callbacks compared with the model, and validated end-to-end on real unix/TCP sockets with tiny buffers, random Writer/Reader API mixes (blocking readers, OnRequest handlers, and polling readers that call Release() whenever Len()==0 while a raw peer sends 1..48-byte pieces; senders whose epoll_ctl calls are delayed by 0/2 ms while every flush exceeds the socket buffer; BIDIRECTIONAL pairs - both endpoints netpoll connections that push streams larger than the socket buffers at the same time while each reads the other\'s; a raw peer that sends a reply and shuts its write side down while our flush is parked in the poller - the reply must be read before end-of-stream; single flushes of 34..48 non-empty output nodes, more than the iovec barrier holds, in the real-socket sender and in the scripted-kernel sequences) and a position-keyed stream; a stall watchdog reports bytes the peer sent that never become readable while the reader keeps reading, and the dead-lock of two endpoints that flush and read at once. '
         'Theorem C04_getBytes_barrier: GetBytes with the barrier capacity returns, for any number of nodes, at most barriercap vectors that are a prefix split of the flushed stream (the hypothesis of the round theorems).',
    note='partial: the kernel socket as a lossless FIFO (A-kernel-fifo) and Go\'s memory model for the single-producer/single-consumer input buffer (A-go-mm) are assumptions; the flusher/poller hand-off is C08, EOF ordering rests on C06/C11. Real-socket runs sample schedules.',
    technique='Lean 4 theorems over the spec queue with an adversarial kernel + scripted-kernel correspondence + real-socket stream oracle', design='§6 C04')

def strip(l): return re.sub(r' book=\d+ max=\d+', '', l)

def script_shard(binary, wd, seed, seqs, nops):
    os.makedirs(wd, exist_ok=True)
    ops, impl, model = (os.path.join(wd, n) for n in ('ops', 'impl', 'model'))
    subprocess.run([binary, '-seed', str(seed), '-seqs', str(seqs), '-ops', str(nops), '-ops-out', ops, '-impl-out', impl], check=True, timeout=1800)
    with open(ops) as i, open(model, 'w') as o:
        subprocess.run([common.DRIVER, 'stream'], stdin=i, stdout=o, check=True, timeout=1800)
    return analyse(wd)

def analyse(wd):
    rd = lambda n: open(os.path.join(wd, n)).read().split('\n')[:-1]
    ops, impl, model = rd('ops'), [strip(l) for l in rd('impl')], rd('model')
    res = {'seqs': 0, 'lines': len(ops), 'problems': [], 'hist': collections.Counter(), 'finals': set(), 'samples': []}
    bounds = [i for i, o in enumerate(ops) if o.startswith('seq ')] + [len(ops)]
    for a, b in zip(bounds, bounds[1:]):
        so, si, sm = ops[a:b], impl[a:b], model[a:b]
        res['seqs'] += 1
        for o in so[1:]: res['hist'][o.split()[0]] += 1
        if len(si) > 1: res['finals'].add(si[-1])
        d = lbtool.first_diff(si, sm)
        if d is not None:
            # every field of a reply line is a stream-level observation (result bytes, Len of both buffers, what the
            # scripted kernel received so far), and the model is the spec queue itself: a disagreement is a failing input
            kind = 'impl-violates-spec'
            res['problems'].append((so[:d + 1], d, kind, 'op=%s | impl=%s | model=%s' % (so[min(d, len(so) - 1)], (si + [''])[d][:200], (sm + [''])[d][:200])))
        if len(res['samples']) < 2: res['samples'].append(' ; '.join(so[:20]))
    return res

def real_run(binary, seed, n, par, big, only=None):
    cmd = [binary, '-seed', str(seed), '-n', str(n), '-par', str(par)] + (['-big'] if big else []) + (['-only', str(only)] if only is not None else [])
    p = subprocess.run(cmd, stdout=subprocess.PIPE, stderr=subprocess.STDOUT, text=True, timeout=3600)
    lines = [l for l in p.stdout.split('\n') if l.startswith('scn ')]
    return lines, p.returncode, p.stdout

def run(rep):
    wd = os.path.join(common.WORK, PROP); shutil.rmtree(wd, ignore_errors=True); os.makedirs(wd)
    ok, detail = common.proof_stage(rep, MODULES, ['npdriver'])
    proof_broken = None if ok else detail
    sbin, o1 = common.build_harness('streamscript')
    rbin, o2 = common.build_harness('streamh')
    if sbin is None or rbin is None:
        rep.violation('harness does not build against /repo:\n' + (o1 + o2)[-2000:], ['# go build failed'], no_input=True); return
    thorough = rep.tier == 'thorough'
    shards, seqs, nops = (16, 600, 100) if thorough else (8, 60, 80)
    with ThreadPoolExecutor(max_workers=16) as ex:
        sres = list(ex.map(lambda i: script_shard(sbin, os.path.join(wd, 's%d' % i), rep.seed * 1000 + i, seqs, nops), range(shards)))
    problems = []; hist = collections.Counter(); finals = set(); nseq = 0
    for r in sres:
        problems += r['problems']; hist.update(r['hist']); finals |= r['finals']; nseq += r['seqs']
    # real sockets
    nreal = 1500 if thorough else 60
    lines, rc, raw = real_run(rbin, rep.seed, nreal, 8, thorough)
    fails = [l for l in lines if ':: FAIL' in l and 'changed before Release' not in l]
    c02 = [l for l in lines if ':: FAIL' in l and 'changed before Release' in l]
    if c02: rep.notes.append('%d scenario(s) where a held zero-copy result changed before Release (property C02, reported by ./check C02): %s' % (len(c02), re.sub(r'ops=map\[[^]]*\]', '', c02[0])[:300]))
    # a failure on real sockets is schedule dependent: re-run the scenario to see whether it reproduces
    confirmed = []
    for l in fails[:2]:
        sid = int(re.search(r' id=(\d+)', l).group(1))
        again = 0
        for _ in range(3):
            l2, _, _ = real_run(rbin, rep.seed, nreal, 1, thorough, only=sid)
            if l2 and ':: FAIL' in l2[0]: again += 1
        confirmed.append((l, again))
    tr = collections.Counter(re.search(r'transport=(\w+)', l).group(1) + ('/jitter' if 'jitter=true' in l else '') + ('/bidi' if 'bidi=true' in l else '') + ('/reply-then-close' if 'reply=true' in l else '') + ('/burst' if 'burst=true' in l else '')
                             + ('/handler' if ' handler=true' in l else '/poll' if 'poll=true' in l else '/reader') for l in lines)
    total_bytes = sum(int(re.search(r' got=(\d+)', l).group(1)) for l in lines)
    rep.cov.update(evaluations=nseq + len(lines), distinct_nontrivial=len(finals) + len(set(re.sub(r'seed=\d+ id=\d+| ms=\d+', '', l) for l in lines)),
                   rule='(a) scripted kernel: random Writer ops, submit, output rounds accepting an arbitrary part of what GetBytes offered, input chunks of arbitrary size, reader ops - on a real connection in-package, every reply compared with Netpoll.Conn.Stream; '
                        '(b) real sockets: unix pair / unix listener / tcp, SO_SNDBUF/SO_RCVBUF 4096 or default, payload 1 B..1 MB (32 MB thorough), random Writer API mix and chunking, OnRequest handler or blocking reader with random Reader ops and pace, sender closes after its last Flush; every sixth scenario: polling reader (Len()==0 -> Release(), else a random non-blocking Reader op) against a raw peer writing 0.1..1 MB in 1..48-byte pieces, with a stall watchdog (outstanding bytes, reader polling, nothing readable for 4 s); every sixth scenario: the operator.poll of the sender forwards to the real poll with a pause of 0 or 2 ms in front of every Control call (nothing dropped or reordered), payload >= 200 KB through 4 KB socket buffers, progress watchdog 10 s; every sixth scenario (bidi): both endpoints are netpoll connections (socketpair, or dialed client + served connection over tcp/unix), each sends its own position-keyed stream of 100..400 KB through 4 KB socket buffers with the random Writer mix while it reads the other one\'s (blocking reader or OnRequest handler on either side), nobody closes before both streams are complete, then one side closes and the other sees end-of-stream and nothing more, progress watchdog 10 s on the sum of both directions; every sixth scenario (reply-then-close): a connection writes 200 KB (4 MB with default buffers) to a raw peer (socketpair or std-lib TCP) that does not read, and once the flush is parked the peer writes a 1..2000-byte reply and shuts its write side down (half of them then drain): the reader / handler must get exactly the reply, then end-of-stream, and the parked Write must return; every third scenario starts with one flush of 34..48 pieces of 4..8 KiB (Malloc or WriteBinary: a node each; default socket buffers so that one sendmsg takes more than barriercap nodes\' worth) and the same burst is a random sender op; scripted kernel: every third sequence starts with 30..44 such pieces, one submit and output rounds in which the kernel takes all / a part; oracle = position-keyed stream + byte count at end-of-stream + no stall. distinct_nontrivial = distinct scripted final states + distinct real scenario lines',
                   samples=sres[0]['samples'][:1] + [re.sub(r'ops=map\[[^]]*\]', '', l) for l in lines[:2]], scripted_sequences=nseq, scripted_op_histogram=dict(hist),
                   real_scenarios=len(lines), real_scenarios_by_kind=dict(tr), real_bytes_transferred=total_bytes, traces_validated_against_impl=nseq)
    rep.assumptions += ['A-kernel-fifo: a stream socket is a lossless FIFO and sendmsg/readv report honest counts',
                        'A-go-mm: bookAck publishes the tail node through the atomic length; the single reader sees it',
                        'real-socket runs sample schedules; the deterministic hand-off windows are covered by C06/C07/C08']
    genuine = [p for p in problems if p[2] == 'impl-violates-spec']
    others = [p for p in problems if p[2] != 'impl-violates-spec']
    if fails:
        l, again = confirmed[0]
        rep.violation('byte stream not delivered intact on real sockets (%d of %d scenarios; first reproduced %d/3 times when re-run alone): %s' % (len(fails), len(lines), again, re.sub(r'ops=map\[[^]]*\]', '', l)),
                      ['# re-run: go/bin/streamh -seed %d -n %d -only <id>%s' % (rep.seed, nreal, ' -big' if thorough else '')] + [re.sub(r'ops=map\[[^]]*\]', '', x) for x in fails[:20]], tag='real-')
    if genuine:
        seq, idx, kind, detail = genuine[0]
        rep.violation('scripted kernel: implementation contradicts the stream spec (%d sequences): %s' % (len(genuine), detail), seq)
    elif others and not fails:
        seq, idx, kind, detail = others[0]
        rep.violation('correspondence Netpoll.Conn.Stream <-> connection_reactor.go no longer checks (%d sequences); %d real-socket scenarios all delivered the stream intact: %s' % (len(others), len(lines), detail), seq, no_input=True)
    elif proof_broken and not fails:
        rep.violation('proof obligation broken, no failing input found: %s' % proof_broken, ['# ' + l for l in proof_broken.split('\n')], no_input=True)

def replay(rep, path):
    lines = [l for l in open(path).read().split('\n') if l.strip()]
    # the scenario generator depends on the tier (-big): the replay header says which one produced the file
    big = any(l.startswith('# property=') and 'tier=thorough' in l for l in lines)
    common.lake_build(['npdriver'])
    if any(l.startswith('scn ') for l in lines):
        rbin, _ = common.build_harness('streamh')
        n = 0
        for l in lines:
            if not l.startswith('scn '): continue
            seed = int(re.search(r'seed=(\d+)', l).group(1)); sid = int(re.search(r' id=(\d+)', l).group(1))
            for _ in range(5):
                l2, _, _ = real_run(rbin, seed, sid + 1, 1, big, only=sid)
                print('REPLAY:', re.sub(r'ops=map\[[^]]*\]', '', l2[0]) if l2 else 'no output')
                if l2 and ':: FAIL' in l2[0]: n += 1
        rep.cov['evaluations'] = len(lines)
        if n: rep.violation('replay reproduces on real sockets (%d runs)' % n, lines)
    else:
        sbin, _ = common.build_harness('streamscript')
        wd = os.path.join(common.WORK, 'replay04'); os.makedirs(wd, exist_ok=True)
        src = os.path.join(wd, 'in.ops'); open(src, 'w').write('\n'.join(l for l in lines if not l.startswith('#')) + '\n')
        subprocess.run([sbin, '-replay', src, '-ops-out', os.path.join(wd, 'ops'), '-impl-out', os.path.join(wd, 'impl')], check=True, timeout=600)
        with open(os.path.join(wd, 'ops')) as i, open(os.path.join(wd, 'model'), 'w') as o:
            subprocess.run([common.DRIVER, 'stream'], stdin=i, stdout=o, check=True)
        r = analyse(wd)
        rep.cov['evaluations'] = r['seqs']
        for p in r['problems']: print('REPLAY: %s: %s' % (p[2], p[3]))
        if r['problems']: rep.violation('replay reproduces: ' + r['problems'][0][3], lines, no_input=r['problems'][0][2] != 'impl-violates-spec')
    return rep.finish(LEVEL)
