"""C08 - Flush completes exactly when the kernel has taken the data.
Theorems: lean/Netpoll/Props/C08.lean over the interleaving model lean/Netpoll/Conn/Flush.lean (invariant: Conn/FlushInv.lean,
generated preservation lemmas Conn/FlushInvLemmas*.lean).
Tie: T-gen (sync-operation lists, Netpoll.Tie.ReadFlush) + T-sched (controlled scheduler on the real code with a SCRIPTED kernel:
go/inpkg/sched_flush.go, trace conformance by `npdriver flush`) + Lean spec oracle (Netpoll.Conn.FlushSpec).
Known findings D9 / D9b (known_findings.jsonl): probes corpus/C08/d09*.sched.  Shared machinery: lib/rfrun.py, lib/schedrun.py, SCHED.md."""
import common, rfrun

LEVEL = 'proof'
PROP = 'C08'
MANIFEST = dict(
    text='Lean 4 theorems (C08_accounting: accepted + buffered = submitted; C08_nil_means_sent_partial: nil => output buffer empty, under "no earlier ErrWriteTimeout on the connection"; '
         'C08_no_lost_wakeup_partial; C08_timer_cleanup_never_blocks; C08_concurrent_rejected; C08_single_flusher; C08_finalizer_waits; C08_D9_witness / C08_D9_expired_deadline_witness: the negation on concrete traces) '
         'proved for ALL reachable states of an interleaving model of connection.Flush / Write / flush / waitFlush against the poller\'s write events (outputs / outputAck / rw2r), an adversarial kernel '
         '(every send accepts any part of what is offered), closers, the finalizer\'s stop(flushing) and the write timer (one action per atomic step), by an inductive invariant with one generated lemma per action. '
         'The model is tied to /repo on every run: sync-operation lists regenerated from the source (T-gen, Netpoll.Tie.ReadFlush by decide) and trace conformance of the REAL code under a controlled scheduler '
         'with a scripted kernel (connection.flush\'s sendmsg call site renamed by tools/instrument; the poller transcription calls the same script; accepted bytes really travel over a socketpair and are counted at the peer; scenarios include output buffers with more non-empty nodes than one GetBytes/sendmsg vector holds (barriercap = 32), where the kernel accepts everything it was offered while part of the buffer has not been offered yet), '
         'a second concurrent flusher, closers, hang-up and the write timer as a scheduling choice; scenarios in which the flusher\'s calls are made inside the OnRequest handler (inh=1: the real onProcess task holds the processing lock, so a concurrent Close() cannot run the close callbacks itself) and kernel scripts ending in a socket that stays full (z: EAGAIN for ever, no write event any more - only a close or the timer can end the Flush); the Lean spec oracle judges every trace (a Flush/Write ISSUED after a closer had won the close must return ErrConnClosed - ErrConcurrentAccess is accepted from the single flusher only when the close began while its call was under way).',
    note='Trusted: Lean kernel; axioms propext/Classical.choice/Quot.sound; tools/extract + tools/instrument; the scheduler harness and npdriver. Correspondence is sampling over schedules and kernel scripts. '
         'KNOWN FINDINGS: D9 (a Flush returning nil with unsent bytes after an earlier ErrWriteTimeout: stale nil in writeTrigger) and D9b (any Flush/Write issued after an ErrWriteTimeout may run concurrently with a poller write '
         'event that still owns the output buffer: bytes sent twice, Skip error, negative length, panic); the generated scenarios never issue a call after a write timeout, the corpus probes do, and exactly those patterns are not counted. '
         'Assumed: A-go-mm, A-timer, A-kernel-fifo (sendmsg return counts are honest), A-epoll-lt/A-epoll-del. Kernel send ERRORS (EPIPE...) are not scripted. See DESIGN.md §6 C08, §7 D9, §8, SCHED.md.',
    technique='Lean 4 inductive-invariant proofs over an interleaving model + trace conformance of the real code under a controlled scheduler with a scripted kernel', design='§6 C08')
MODULES = ['Netpoll.Props.C08', 'Netpoll.Tie.ReadFlush']
ASSUMPTIONS = ['A-go-mm: sync/atomic operations are sequentially consistent (the model interleaves them atomically)',
               'A-timer: pre-1.23 timer channel semantics (go 1.15 in go.mod); expiry is an environment step',
               'A-kernel-fifo: sendmsg return counts are honest; the kernel may accept any part of what is offered (scripted: EAGAIN / partial / all); send errors other than EAGAIN are not scripted',
               'A-epoll-lt / A-epoll-del: write events are fetched only while the descriptor has EPOLLOUT interest (tracked on the fake Poll through Control(PollR2RW/PollRW2R)) and not after EPOLL_CTL_DEL / close(2); an event already fetched is still processed',
               'one goroutine writes at a time except for the explicit second flusher, whose whole Flush() call is one scheduler step issued while the first is inside flush()',
               'after an ErrWriteTimeout no further Flush/Write is issued in generated scenarios (known findings D9/D9b)']

def run(rep):
    rfrun.check(rep, PROP, MODULES, ASSUMPTIONS)

def replay(rep, path):
    return rfrun.replay(rep, PROP, path)
